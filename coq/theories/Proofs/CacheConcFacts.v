(** C24 — the cache protocol under arbitrary interleavings, failures and crashes.

    [Inv] is preserved by every step of every process under every event, hence by
    every schedule ([sched_inv]); the named properties are corollaries. *)
From Coq Require Import List NArith Bool Arith Lia.
From Acg Require Import Base.Str Model.Cache Model.CacheConc Proofs.CacheFmap.
Import ListNotations.
Local Open Scope nat_scope.

Section ConcFacts.
  Variables M E : Type.
  Variable parse : text -> result M E.
  Variable sha : text -> text.
  Variable pickle : M -> bytes.
  Variable unpickle : bytes -> option M.
  Variable uuid : nat -> text.
  Variable txt : pid -> text.
  Variable flg : pid -> bool.

  (** Third-party behaviour, as hypotheses: pickle/unpickle are an inverse pair,
      sha256 is injective on the texts of the processes, uuid4 never repeats. *)
  Hypothesis unpickle_pickle : forall m, unpickle (pickle m) = Some m.
  Hypothesis sha_inj : forall p q, sha (txt p) = sha (txt q) -> txt p = txt q.
  Hypothesis uuid_inj : forall i j, uuid i = uuid j -> i = j.

  Notation pc := (pc M E).
  Notation state := (state M E).
  Notation step := (step M E parse sha pickle unpickle uuid txt flg).
  Notation run := (run M E parse sha pickle unpickle uuid txt flg).
  Notation pstep := (pstep M E parse sha pickle unpickle uuid).

  (** a complete and correct cache entry for hash [h] *)
  Definition good_entry (h : text) (c : bytes) : Prop :=
    exists p m, sha (txt p) = h /\ parse (txt p) = ROk m /\ c = pickle m.

  Definition pc_ok (w : world) (p : pid) (q : pc) : Prop :=
    let h := sha (txt p) in
    match q with
    | PcStart => True
    | PcOpenR => exists c, lookup (PCache h) (files w) = Some c
    | PcLoad c => exists m, parse (txt p) = ROk m /\ c = pickle m
    | PcParse => True
    | PcMkdir m => parse (txt p) = ROk m
    | PcCreate m => parse (txt p) = ROk m /\ cdir w = true
    | PcWrite m u k =>
        parse (txt p) = ROk m /\ k <= length (pickle m)
        /\ lookup (PTmp h u) (files w) = Some (firstn k (pickle m))
    | PcClose m u | PcRename m u =>
        parse (txt p) = ROk m /\ lookup (PTmp h u) (files w) = Some (pickle m)
    | PcUnlink r u => r = parse (txt p) \/ r = RCrash Injected
    | PcDone r => r = parse (txt p) \/ r = RCrash Injected
    end.

  Record Inv (s : state) : Prop := {
    (* (1) every cache entry is complete and is the pickle of the parse of the text
           with that hash *)
    inv_cache : forall h c, lookup (PCache h) (files (sw s)) = Some c -> good_entry h c;
    (* (4) what each process knows at its pc *)
    inv_pc : forall p, pc_ok (sw s) p (ppc (procs s p));
    (* uuids in use were drawn, and no two processes (live or crashed) share one *)
    inv_uuid : forall p u, owns (ppc (procs s p)) = Some u ->
                           exists i, i < next (sw s) /\ u = uuid i;
    inv_uniq : forall p q u, owns (ppc (procs s p)) = Some u ->
                             owns (ppc (procs s q)) = Some u -> p = q;
    (* (2) every other file is the temporary file of exactly one process (live or
           crashed) and holds a prefix of what that process is writing *)
    inv_tmp : forall h u c, lookup (PTmp h u) (files (sw s)) = Some c ->
        exists p m k, owns (ppc (procs s p)) = Some u /\ h = sha (txt p)
                      /\ parse (txt p) = ROk m /\ c = firstn k (pickle m)
  }.

  (** Initial states: any world whose cache entries are good and that has no
      temporary files, all processes at the start. *)
  Notation pfail := (pfail M E uuid).
  Notation solo_ := (solo M E parse sha pickle unpickle uuid txt flg).

  Lemma inv_init : forall w,
    (forall h c, lookup (PCache h) (files w) = Some c -> good_entry h c) ->
    (forall h u, lookup (PTmp h u) (files w) = None) ->
    Inv (init_state w).
  Proof.
    intros w Hc Ht. constructor; cbn.
    - exact Hc.
    - intros p. exact I.
    - intros p u Ho. discriminate Ho.
    - intros p q u Ho. discriminate Ho.
    - intros h u c Hl. rewrite Ht in Hl. discriminate Hl.
  Qed.

  (** ** Footprint of one transition of process [p] from [(w, q)] to [(w', q')] *)
  Record ptrans (p : pid) (w : world) (q : pc) (w' : world) (q' : pc) : Prop := {
    pt_next : next w <= next w';
    pt_cdir : cdir w = true -> cdir w' = true;
    pt_keep : forall h c, lookup (PCache h) (files w) = Some c ->
                          exists c', lookup (PCache h) (files w') = Some c';
    pt_frame : forall h u, owns q <> Some u -> owns q' <> Some u ->
                           lookup (PTmp h u) (files w') = lookup (PTmp h u) (files w);
    pt_owns : forall u, owns q' = Some u ->
                        owns q = Some u
                        \/ (owns q = None /\ u = uuid (next w) /\ next w' = S (next w));
    pt_tmp : forall h u c, lookup (PTmp h u) (files w') = Some c ->
        (lookup (PTmp h u) (files w) = Some c
         /\ (owns q = Some u -> h = sha (txt p) -> owns q' = Some u))
        \/ (h = sha (txt p) /\ owns q' = Some u
            /\ exists m k, parse (txt p) = ROk m /\ c = firstn k (pickle m));
    pt_cache : forall h c, lookup (PCache h) (files w') = Some c ->
                           lookup (PCache h) (files w) = Some c \/ good_entry h c;
    pt_pc : pc_ok w' p q'
  }.

  Lemma ptrans_files_same : forall p w q w' q',
    files w' = files w -> next w <= next w' -> (cdir w = true -> cdir w' = true) ->
    (forall u, owns q' = Some u ->
               owns q = Some u
               \/ (owns q = None /\ u = uuid (next w) /\ next w' = S (next w))) ->
    (forall u, owns q = Some u -> owns q' = Some u) ->
    pc_ok w' p q' -> ptrans p w q w' q'.
  Proof.
    intros p w q w' q' Hf Hn Hc Ho Ho' Hok. constructor; try assumption.
    - intros h c Hl. rewrite Hf. exists c. exact Hl.
    - intros h u _ _. rewrite Hf. reflexivity.
    - intros h u c Hl. left. rewrite Hf in Hl. split; [exact Hl|].
      intros Hq _. apply Ho'. exact Hq.
    - intros h c Hl. left. rewrite Hf in Hl. exact Hl.
  Qed.

  Lemma ptrans_same : forall p w q q',
    owns q' = owns q -> pc_ok w p q' -> ptrans p w q w q'.
  Proof.
    intros p w q q' Ho Hok. apply ptrans_files_same; auto.
    - intros u Hu. left. rewrite <- Ho. exact Hu.
    - intros u Hu. rewrite Ho. exact Hu.
  Qed.

  Ltac ne_tmp :=
    let Heq := fresh "Heq" in
    intros Heq; injection Heq as ? ?; subst; cbn in *; congruence.

  Lemma pstep_ptrans : forall p n w q w' q' ev,
    pc_ok w p q ->
    (forall c, lookup (PCache (sha (txt p))) (files w) = Some c ->
               good_entry (sha (txt p)) c) ->
    pstep (txt p) (flg p) n w q = (w', q', ev) ->
    ptrans p w q w' q'.
  Proof.
    intros p n w q w' q' ev Hok Hgood Hs.
    destruct q as [| |c| |m|m|m u k|m u|m u|r u|r];
      unfold CacheConc.pstep in Hs; unfold pc_ok in Hok; cbv beta iota zeta in Hs, Hok.
    - (* PcStart *)
      destruct (flg p).
      + destruct (lookup (PCache (sha (txt p))) (files w)) as [c|] eqn:Hl;
          inversion Hs; subst; apply ptrans_same; try reflexivity; cbn; eauto.
      + inversion Hs; subst. apply ptrans_same; [reflexivity|]. cbn. left. reflexivity.
    - (* PcOpenR *)
      destruct Hok as [c Hc]. rewrite Hc in Hs. inversion Hs; subst.
      apply ptrans_same; [reflexivity|]. cbn.
      destruct (Hgood c Hc) as [p0 [m [Hsha [Hp Hcm]]]].
      exists m. split; [|exact Hcm].
      rewrite <- (sha_inj _ _ Hsha). exact Hp.
    - (* PcLoad *)
      destruct Hok as [m [Hp Hc]]. inversion Hs; subst.
      apply ptrans_same; [reflexivity|]. cbn. left.
      unfold load_result. rewrite unpickle_pickle. symmetry. exact Hp.
    - (* PcParse *)
      destruct (parse (txt p)) as [m|e|k] eqn:Hp; inversion Hs; subst;
        apply ptrans_same; try reflexivity; cbn; auto.
    - (* PcMkdir *)
      inversion Hs; subst. apply ptrans_files_same; cbn; auto.
    - (* PcCreate *)
      destruct Hok as [Hp Hcd]. rewrite Hcd in Hs. inversion Hs; subst. clear Hs.
      constructor; cbn [files next cdir owns pc_ok].
      + lia.
      + reflexivity.
      + intros h c Hl. rewrite lookup_fset_neq by discriminate. eauto.
      + intros h u _ Hn. apply lookup_fset_neq. ne_tmp.
      + intros u Hu. injection Hu as Hu. right. auto.
      + intros h u c Hl.
        destruct (path_eq_dec (PTmp h u) (PTmp (sha (txt p)) (uuid (next w)))) as [Heq|Hne].
        * injection Heq as Hh Hu. subst. rewrite lookup_fset_eq in Hl.
          injection Hl as Hl. subst c. right. split; [reflexivity|]. split; [reflexivity|].
          exists m, 0. split; [exact Hp|reflexivity].
        * rewrite lookup_fset_neq in Hl by exact Hne. left. split; [exact Hl|].
          intros Hu. discriminate Hu.
      + intros h c Hl. rewrite lookup_fset_neq in Hl by discriminate. left. exact Hl.
      + split; [exact Hp|]. split; [lia|]. apply lookup_fset_eq.
    - (* PcWrite *)
      destruct Hok as [Hp [Hk Hl]].
      destruct (Nat.ltb k (length (pickle m))) eqn:Hlt.
      + inversion Hs; subst. clear Hs.
        constructor; cbn [files next cdir owns pc_ok].
        * lia.
        * auto.
        * intros h c Hc. rewrite lookup_fset_neq by discriminate. eauto.
        * intros h u0 Hn _. apply lookup_fset_neq. ne_tmp.
        * intros u0 Hu. left. exact Hu.
        * intros h u0 c Hc.
          destruct (path_eq_dec (PTmp h u0) (PTmp (sha (txt p)) u)) as [Heq|Hne].
          -- injection Heq as Hh Hu. subst. rewrite lookup_fset_eq in Hc.
             injection Hc as Hc. subst c. right. split; [reflexivity|]. split; [reflexivity|].
             eexists m, _. split; [exact Hp|reflexivity].
          -- rewrite lookup_fset_neq in Hc by exact Hne. left. split; [exact Hc|].
             intros Hu _. exact Hu.
        * intros h c Hc. rewrite lookup_fset_neq in Hc by discriminate. left. exact Hc.
        * split; [exact Hp|]. split; [apply Nat.le_min_r|]. apply lookup_fset_eq.
      + inversion Hs; subst. clear Hs. apply ptrans_same; [reflexivity|]. cbn.
        split; [exact Hp|]. apply Nat.ltb_ge in Hlt.
        assert (Hke : k = length (pickle m)) by lia.
        rewrite Hke in Hl. rewrite firstn_all in Hl. exact Hl.
    - (* PcClose *)
      inversion Hs; subst. apply ptrans_same; [reflexivity|]. exact Hok.
    - (* PcRename *)
      destruct Hok as [Hp Hl]. rewrite Hl in Hs. inversion Hs; subst. clear Hs.
      constructor; cbn [files next cdir owns pc_ok].
      + lia.
      + auto.
      + intros h c Hc.
        destruct (path_eq_dec (PCache h) (PCache (sha (txt p)))) as [Heq|Hne].
        * rewrite Heq. rewrite lookup_fset_eq. eauto.
        * rewrite lookup_fset_neq by exact Hne.
          rewrite lookup_fremove_neq by discriminate. eauto.
      + intros h u0 Hn _. rewrite lookup_fset_neq by discriminate.
        apply lookup_fremove_neq. ne_tmp.
      + intros u0 Hu. left. exact Hu.
      + intros h u0 c Hc. rewrite lookup_fset_neq in Hc by discriminate.
        destruct (path_eq_dec (PTmp h u0) (PTmp (sha (txt p)) u)) as [Heq|Hne].
        * rewrite Heq in Hc. rewrite lookup_fremove_eq in Hc. discriminate Hc.
        * rewrite lookup_fremove_neq in Hc by exact Hne. left. split; [exact Hc|].
          intros Hu _. exact Hu.
      + intros h c Hc.
        destruct (path_eq_dec (PCache h) (PCache (sha (txt p)))) as [Heq|Hne].
        * injection Heq as Hh. subst h. rewrite lookup_fset_eq in Hc.
          injection Hc as Hc. subst c. right. exists p, m. auto.
        * rewrite lookup_fset_neq in Hc by exact Hne.
          rewrite lookup_fremove_neq in Hc by discriminate. left. exact Hc.
      + left. symmetry. exact Hp.
    - (* PcUnlink *)
      inversion Hs; subst. clear Hs.
      constructor; cbn [files next cdir owns pc_ok].
      + lia.
      + auto.
      + intros h c Hc. rewrite lookup_fremove_neq by discriminate. eauto.
      + intros h u0 Hn _. apply lookup_fremove_neq. ne_tmp.
      + intros u0 Hu. discriminate Hu.
      + intros h u0 c Hc.
        destruct (path_eq_dec (PTmp h u0) (PTmp (sha (txt p)) u)) as [Heq|Hne].
        * rewrite Heq in Hc. rewrite lookup_fremove_eq in Hc. discriminate Hc.
        * rewrite lookup_fremove_neq in Hc by exact Hne. left. split; [exact Hc|].
          intros Hu Hh. injection Hu as Hu. subst. contradiction Hne. reflexivity.
      + intros h c Hc. rewrite lookup_fremove_neq in Hc by discriminate. left. exact Hc.
      + exact Hok.
    - (* PcDone *)
      inversion Hs; subst. apply ptrans_same; [reflexivity|]. exact Hok.
  Qed.

  Lemma pfail_ptrans : forall p w q w' q',
    pc_ok w p q -> pfail w q = (w', q') -> ptrans p w q w' q'.
  Proof.
    intros p w q w' q' Hok Hs.
    destruct q as [| |c| |m|m|m u k|m u|m u|r u|r]; cbn in Hs, Hok;
      inversion Hs; subst; clear Hs;
      try (apply ptrans_same; [reflexivity|]; cbn; auto; fail).
    apply ptrans_files_same; cbn; auto.
    - intros u Hu. injection Hu as Hu. right. auto.
    - intros u Hu. discriminate Hu.
  Qed.

  Lemma pc_ok_other : forall s p w' q' x,
    Inv s -> ptrans p (sw s) (ppc (procs s p)) w' q' -> x <> p ->
    pc_ok w' x (ppc (procs s x)).
  Proof.
    intros s p w' q' x HI HT Hx.
    pose proof (inv_pc _ HI x) as Hok.
    destruct HT as [T1 T2 T3 T4 T5 _ _ _].
    assert (Hfr : forall u, owns (ppc (procs s x)) = Some u ->
              forall h, lookup (PTmp h u) (files w') = lookup (PTmp h u) (files (sw s))).
    { intros u Ho h. apply T4.
      - intros Hq. apply Hx. exact (inv_uniq _ HI x p u Ho Hq).
      - intros Hq'. destruct (T5 u Hq') as [Hq|[_ [Hu Hn]]].
        + apply Hx. exact (inv_uniq _ HI x p u Ho Hq).
        + destruct (inv_uuid _ HI x u Ho) as [i [Hi Hui]]. subst u.
          apply uuid_inj in Hui. lia. }
    destruct (ppc (procs s x)) as [| |c| |m|m|m u k|m u|m u|r u|r] eqn:Hqx;
      cbn in *; auto.
    - destruct Hok as [c Hc]. eapply T3. exact Hc.
    - destruct Hok as [Hp Hc]. auto.
    - destruct Hok as [Hp [Hk Hl]]. rewrite (Hfr u eq_refl). auto.
    - destruct Hok as [Hp Hl]. rewrite (Hfr u eq_refl). auto.
    - destruct Hok as [Hp Hl]. rewrite (Hfr u eq_refl). auto.
  Qed.

  Lemma inv_ptrans : forall s p w' q' d,
    Inv s -> ptrans p (sw s) (ppc (procs s p)) w' q' ->
    Inv (State w' (upd (procs s) p (PState q' d))).
  Proof.
    intros s p w' q' d HI HT.
    pose proof (pc_ok_other s p w' q') as Hother.
    specialize (fun x => Hother x HI HT).
    destruct HT as [T1 T2 T3 T4 T5 T6 T7 T8].
    constructor; cbn.
    - intros h c Hl. destruct (T7 h c Hl) as [Ho|Hg]; [|exact Hg].
      exact (inv_cache _ HI h c Ho).
    - intros x. unfold upd. destruct (Nat.eqb x p) eqn:Hx.
      + apply Nat.eqb_eq in Hx. subst x. cbn. exact T8.
      + apply Nat.eqb_neq in Hx. apply Hother. exact Hx.
    - intros x u. unfold upd. destruct (Nat.eqb x p) eqn:Hx; cbn; intros Ho.
      + destruct (T5 u Ho) as [Hq|[_ [Hu Hn]]].
        * destruct (inv_uuid _ HI p u Hq) as [i [Hi Hui]]. exists i. split; [lia|exact Hui].
        * exists (next (sw s)). split; [lia|exact Hu].
      + destruct (inv_uuid _ HI x u Ho) as [i [Hi Hui]]. exists i. split; [lia|exact Hui].
    - assert (Hmix : forall y u, y <> p -> owns q' = Some u ->
                owns (ppc (procs s y)) = Some u -> False).
      { intros y u Hy Ho Hoy. destruct (T5 u Ho) as [Hq|[_ [Hu Hn]]].
        - apply Hy. exact (inv_uniq _ HI y p u Hoy Hq).
        - destruct (inv_uuid _ HI y u Hoy) as [i [Hi Hui]]. subst u.
          apply uuid_inj in Hui. lia. }
      intros x y u. unfold upd.
      destruct (Nat.eqb x p) eqn:Hx; destruct (Nat.eqb y p) eqn:Hy; cbn; intros Ho1 Ho2.
      + apply Nat.eqb_eq in Hx. apply Nat.eqb_eq in Hy. congruence.
      + apply Nat.eqb_neq in Hy. exfalso. exact (Hmix y u Hy Ho1 Ho2).
      + apply Nat.eqb_neq in Hx. exfalso. exact (Hmix x u Hx Ho2 Ho1).
      + exact (inv_uniq _ HI x y u Ho1 Ho2).
    - intros h u c Hl.
      destruct (T6 h u c Hl) as [[Hold Hkeep]|[Hh [Ho [m [k [Hp Hc]]]]]].
      + destruct (inv_tmp _ HI h u c Hold) as [p0 [m [k [Ho [Hh [Hp Hc]]]]]].
        exists p0, m, k. split; [|auto]. unfold upd.
        destruct (Nat.eqb p0 p) eqn:Hx; cbn; [|exact Ho].
        apply Nat.eqb_eq in Hx. subst p0. apply Hkeep; assumption.
      + exists p, m, k. split; [|auto]. unfold upd. rewrite Nat.eqb_refl. cbn. exact Ho.
  Qed.

  Lemma step_eq : forall s p e,
    step s (p, e) =
    if dead (procs s p) then s
    else match e with
         | Step n =>
             let '(w', q', _) := pstep (txt p) (flg p) n (sw s) (ppc (procs s p)) in
             State w' (upd (procs s) p (PState q' false))
         | Fail =>
             let '(w', q') := pfail (sw s) (ppc (procs s p)) in
             State w' (upd (procs s) p (PState q' false))
         | Crash => State (sw s) (upd (procs s) p (PState (ppc (procs s p)) true))
         end.
  Proof. reflexivity. Qed.

  Theorem step_inv : forall s pe, Inv s -> Inv (step s pe).
  Proof.
    intros s [p e] HI. rewrite step_eq.
    destruct (dead (procs s p)) eqn:Hd; [exact HI|].
    destruct e as [n| |].
    - destruct (pstep (txt p) (flg p) n (sw s) (ppc (procs s p))) as [[w' q'] ev] eqn:Hs.
      apply inv_ptrans; [exact HI|].
      eapply pstep_ptrans; [apply (inv_pc _ HI)| |exact Hs].
      intros c Hc. exact (inv_cache _ HI _ c Hc).
    - destruct (pfail (sw s) (ppc (procs s p))) as [w' q'] eqn:Hs.
      apply inv_ptrans; [exact HI|].
      eapply pfail_ptrans; [apply (inv_pc _ HI)|exact Hs].
    - apply inv_ptrans; [exact HI|].
      apply ptrans_same; [reflexivity|apply (inv_pc _ HI)].
  Qed.

  Lemma run_cons : forall a sched s, run (a :: sched) s = run sched (step s a).
  Proof. reflexivity. Qed.

  Theorem sched_inv : forall sched s, Inv s -> Inv (run sched s).
  Proof.
    induction sched as [|a sched IH]; intros s HI.
    - exact HI.
    - rewrite run_cons. apply IH. apply step_inv. exact HI.
  Qed.

  (** A reader that got hold of the open cache file holds a complete pickle of the
      parse of its OWN text: never a partial file, never a foreign entry. *)
  Theorem reader_never_partial : forall sched s p c,
    Inv s -> ppc (procs (run sched s) p) = PcLoad c ->
    exists m, parse (txt p) = ROk m /\ c = pickle m
              /\ load_result M E unpickle c = ROk m.
  Proof.
    intros sched s p c HI Hq.
    pose proof (inv_pc _ (sched_inv sched s HI) p) as Hok.
    rewrite Hq in Hok. cbn in Hok. destruct Hok as [m [Hp Hc]].
    exists m. split; [exact Hp|]. split; [exact Hc|].
    subst c. unfold load_result. rewrite unpickle_pickle. reflexivity.
  Qed.

  (** Every run that completes returns what an uncached run returns, unless a fault
      was injected into that very process. *)
  Theorem completed_run_result : forall sched s p r,
    Inv s -> ppc (procs (run sched s) p) = PcDone r ->
    r = parse (txt p) \/ r = RCrash Injected.
  Proof.
    intros sched s p r HI Hq.
    pose proof (inv_pc _ (sched_inv sched s HI) p) as Hok.
    rewrite Hq in Hok. exact Hok.
  Qed.

  (** ... and without injected faults in process [p] the result is exactly the
      uncached one. *)
  Definition no_inj (s : state) (p : pid) : Prop :=
    match ppc (procs s p) with
    | PcUnlink r _ | PcDone r => r = parse (txt p)
    | _ => True
    end.

  Definition no_inj_pc (p : pid) (q : pc) : Prop :=
    match q with
    | PcUnlink r _ | PcDone r => r = parse (txt p)
    | _ => True
    end.

  Lemma pstep_no_inj : forall p n w q w' q' ev,
    pc_ok w p q ->
    (forall c, lookup (PCache (sha (txt p))) (files w) = Some c ->
               good_entry (sha (txt p)) c) ->
    no_inj_pc p q ->
    pstep (txt p) (flg p) n w q = (w', q', ev) ->
    no_inj_pc p q'.
  Proof.
    intros p n w q w' q' ev Hok Hgood Hno Hs.
    destruct q as [| |c| |m|m|m u k|m u|m u|r u|r];
      unfold CacheConc.pstep in Hs; unfold pc_ok in Hok; unfold no_inj_pc in Hno;
      cbv beta iota zeta in Hs, Hok, Hno.
    - destruct (flg p).
      + destruct (lookup (PCache (sha (txt p))) (files w)) as [c|] eqn:Hl;
          inversion Hs; subst; exact I.
      + inversion Hs; subst. reflexivity.
    - destruct Hok as [c Hc]. rewrite Hc in Hs. inversion Hs; subst. exact I.
    - destruct Hok as [m [Hp Hc]]. inversion Hs; subst. cbn.
      unfold load_result. rewrite unpickle_pickle. symmetry. exact Hp.
    - destruct (parse (txt p)) as [m|e|k] eqn:Hp; inversion Hs; subst; cbn; auto.
    - inversion Hs; subst. exact I.
    - destruct Hok as [Hp Hcd]. rewrite Hcd in Hs. inversion Hs; subst. exact I.
    - destruct (Nat.ltb k (length (pickle m))); inversion Hs; subst; exact I.
    - inversion Hs; subst. exact I.
    - destruct Hok as [Hp Hl]. rewrite Hl in Hs. inversion Hs; subst. cbn.
      symmetry. exact Hp.
    - inversion Hs; subst. reflexivity.
    - inversion Hs; subst. reflexivity.
  Qed.

  Lemma step_other : forall s p p' e, p' <> p -> procs (step s (p', e)) p = procs s p.
  Proof.
    intros s p p' e Hne. rewrite step_eq.
    assert (Hb : Nat.eqb p p' = false) by (apply Nat.eqb_neq; congruence).
    destruct (dead (procs s p')); [reflexivity|].
    destruct e as [n| |].
    - destruct (pstep (txt p') (flg p') n (sw s) (ppc (procs s p'))) as [[w' q'] ev].
      cbn. unfold upd. rewrite Hb. reflexivity.
    - destruct (pfail (sw s) (ppc (procs s p'))) as [w' q'].
      cbn. unfold upd. rewrite Hb. reflexivity.
    - cbn. unfold upd. rewrite Hb. reflexivity.
  Qed.

  Lemma step_no_inj : forall s p p' e,
    Inv s -> no_inj s p -> (p' = p -> e <> Fail) -> no_inj (step s (p', e)) p.
  Proof.
    intros s p p' e HI Hno He.
    destruct (Nat.eq_dec p' p) as [Heq|Hne].
    - subst p'. specialize (He eq_refl). unfold no_inj. rewrite step_eq.
      destruct (dead (procs s p)); [exact Hno|].
      destruct e as [n| |].
      + destruct (pstep (txt p) (flg p) n (sw s) (ppc (procs s p))) as [[w' q'] ev] eqn:Hs.
        cbn. unfold upd. rewrite Nat.eqb_refl. cbn.
        change (no_inj_pc p q').
        eapply pstep_no_inj; [apply (inv_pc _ HI)| |exact Hno|exact Hs].
        intros c Hc. exact (inv_cache _ HI _ c Hc).
      + contradiction He. reflexivity.
      + cbn. unfold upd. rewrite Nat.eqb_refl. cbn. exact Hno.
    - unfold no_inj. rewrite step_other by exact Hne. exact Hno.
  Qed.

  Theorem completed_run_result_nofail : forall sched s p r,
    Inv s -> no_inj s p -> (forall e, In (p, e) sched -> e <> Fail) ->
    ppc (procs (run sched s) p) = PcDone r -> r = parse (txt p).
  Proof.
    induction sched as [|[p' e] sched IH]; intros s p r HI Hno Hnf Hq.
    - cbn in Hq. unfold no_inj in Hno. rewrite Hq in Hno. exact Hno.
    - rewrite run_cons in Hq. apply (IH (step s (p', e)) p r).
      + apply step_inv. exact HI.
      + apply step_no_inj; [exact HI|exact Hno|].
        intros Heq. subst p'. apply Hnf. left. reflexivity.
      + intros e' Hin. apply Hnf. right. exact Hin.
      + exact Hq.
  Qed.

  Lemma owns_not_finished : forall (ps : pstate M E) u,
    owns (ppc ps) = Some u -> finished ps = false.
  Proof.
    intros ps u Ho. unfold finished. destruct (ppc ps); cbn in Ho; try discriminate Ho;
      reflexivity.
  Qed.

  (** Whatever happened (crashes at any pc, failures, any interleaving): each file in
      the cache directory is a complete correct cache entry, or a temporary file of
      a process that has not finished, holding a prefix of its pickle. *)
  Theorem crash_leaves_only_tmps : forall sched s x c,
    Inv s -> lookup x (files (sw (run sched s))) = Some c ->
    (exists h, x = PCache h /\ good_entry h c)
    \/ (exists h u p m k, x = PTmp h u /\ owns (ppc (procs (run sched s) p)) = Some u
          /\ finished (procs (run sched s) p) = false
          /\ h = sha (txt p) /\ parse (txt p) = ROk m /\ c = firstn k (pickle m)).
  Proof.
    intros sched s x c HI Hl.
    pose proof (sched_inv sched s HI) as HI'.
    destruct x as [h|h u].
    - left. exists h. split; [reflexivity|]. exact (inv_cache _ HI' h c Hl).
    - right. destruct (inv_tmp _ HI' h u c Hl) as [p [m [k [Ho [Hh [Hp Hc]]]]]].
      exists h, u, p, m, k. split; [reflexivity|]. split; [exact Ho|].
      split; [exact (owns_not_finished _ u Ho)|]. auto.
  Qed.

  (** In a quiescent state (every process finished or dead) the owners of the
      remaining temporary files are crashed processes. *)
  Corollary quiescent_tmps_crashed : forall sched s h u c,
    Inv s ->
    (forall p, finished (procs (run sched s) p) = true \/ dead (procs (run sched s) p) = true) ->
    lookup (PTmp h u) (files (sw (run sched s))) = Some c ->
    exists p, owns (ppc (procs (run sched s) p)) = Some u /\ dead (procs (run sched s) p) = true.
  Proof.
    intros sched s h u c HI Hq Hl.
    pose proof (sched_inv sched s HI) as HI'.
    destruct (inv_tmp _ HI' h u c Hl) as [p [m [k [Ho _]]]].
    exists p. split; [exact Ho|].
    destruct (Hq p) as [Hf|Hd]; [|exact Hd].
    rewrite (owns_not_finished _ u Ho) in Hf. discriminate Hf.
  Qed.

  (** Later runs ignore temporary files: a step of a process depends only on the
      cache entries, its own temporary file, the directory flag and the uuid counter.
      Two worlds that differ only in temporary files the process does not own give
      the same next pc and events, and still differ only there. *)
  Definition agree_for (t : text) (q : pc) (w1 w2 : world) : Prop :=
    cdir w1 = cdir w2 /\ next w1 = next w2
    /\ (forall h, lookup (PCache h) (files w1) = lookup (PCache h) (files w2))
    /\ (forall u, owns q = Some u ->
                  lookup (PTmp (sha t) u) (files w1) = lookup (PTmp (sha t) u) (files w2)).

  (** STATEMENT ADAPTED (one added hypothesis, marked below). The original statement
      is false at [q = PcCreate m] when the cache directory does not exist
      ([cdir w1 = false]): the step then moves to
      [PcUnlink (RCrash FileNotFound) (uuid (next w))] WITHOUT writing the file
      [PTmp (sha t) (uuid (next w))], the process now "owns" that uuid, and
      [agree_for t (PcCreate m) w1 w2] says nothing about that path (a process at
      [PcCreate] owns nothing). Counterexample:
      [w1 = World false [(PTmp (sha t) (uuid 0), [])] 0], [w2 = World false [] 0].
      The added hypothesis is the weakest one repairing that case; its first
      disjunct holds in every state satisfying [Inv] ([pc_ok] at [PcCreate]). *)
  Theorem tmp_ignored_later : forall t f n q w1 w2,
    agree_for t q w1 w2 ->
    (* ADDED HYPOTHESIS: *)
    (forall m, q = PcCreate m ->
       cdir w1 = true
       \/ lookup (PTmp (sha t) (uuid (next w1))) (files w1)
          = lookup (PTmp (sha t) (uuid (next w1))) (files w2)) ->
    let '(w1', q1, ev1) := pstep t f n w1 q in
    let '(w2', q2, ev2) := pstep t f n w2 q in
    q1 = q2 /\ ev1 = ev2 /\ agree_for t q1 w1' w2'.
  Proof.
    intros t f n q w1 w2 [Hc [Hn [Hca Ht]]] Hx.
    assert (Hsame : forall q', (forall u, owns q' = Some u -> owns q = Some u) ->
                               agree_for t q' w1 w2).
    { intros q' Hq'. unfold agree_for. repeat split; auto. }
    destruct q as [| |c| |m|m|m u k|m u|m u|r u|r];
      unfold CacheConc.pstep; cbv beta iota zeta.
    - (* PcStart *)
      destruct f.
      + rewrite (Hca (sha t)).
        destruct (lookup (PCache (sha t)) (files w2)) as [c|];
          (split; [reflexivity|]; split; [reflexivity|]; apply Hsame;
           intros u Hu; discriminate Hu).
      + split; [reflexivity|]. split; [reflexivity|]. apply Hsame.
        intros u Hu. discriminate Hu.
    - (* PcOpenR *)
      rewrite (Hca (sha t)).
      destruct (lookup (PCache (sha t)) (files w2)) as [c|];
        (split; [reflexivity|]; split; [reflexivity|]; apply Hsame;
         intros u Hu; discriminate Hu).
    - (* PcLoad *)
      split; [reflexivity|]. split; [reflexivity|]. apply Hsame.
      intros u Hu. discriminate Hu.
    - (* PcParse *)
      destruct (parse t) as [m|e|k];
        (split; [reflexivity|]; split; [reflexivity|]; apply Hsame;
         intros u Hu; discriminate Hu).
    - (* PcMkdir *)
      split; [reflexivity|]. split; [reflexivity|].
      unfold agree_for. cbn [cdir files next owns].
      split; [reflexivity|]. split; [exact Hn|]. split; [exact Hca|].
      intros u Hu. discriminate Hu.
    - (* PcCreate *)
      rewrite <- Hc, <- Hn.
      destruct (cdir w1) eqn:Hcd; cbv beta iota zeta;
        (split; [reflexivity|]; split; [reflexivity|]);
        unfold agree_for; cbn [cdir files next owns].
      + split; [reflexivity|]. split; [reflexivity|]. split.
        * intros h. rewrite !lookup_fset_neq by discriminate. apply Hca.
        * intros u Hu. injection Hu as Hu. subst u. rewrite !lookup_fset_eq. reflexivity.
      + split; [reflexivity|]. split; [reflexivity|]. split; [exact Hca|].
        intros u Hu. injection Hu as Hu. subst u.
        destruct (Hx m eq_refl) as [H|H]; [discriminate H|exact H].
    - (* PcWrite *)
      destruct (Nat.ltb k (length (pickle m))); cbv beta iota zeta;
        (split; [reflexivity|]; split; [reflexivity|]).
      + unfold agree_for. cbn [cdir files next owns].
        split; [exact Hc|]. split; [exact Hn|]. split.
        * intros h. rewrite !lookup_fset_neq by discriminate. apply Hca.
        * intros u0 Hu. injection Hu as Hu. subst u0. rewrite !lookup_fset_eq. reflexivity.
      + apply Hsame. intros u0 Hu. exact Hu.
    - (* PcClose *)
      split; [reflexivity|]. split; [reflexivity|]. apply Hsame.
      intros u0 Hu. exact Hu.
    - (* PcRename *)
      rewrite (Ht u eq_refl).
      destruct (lookup (PTmp (sha t) u) (files w2)) as [c|]; cbv beta iota zeta;
        (split; [reflexivity|]; split; [reflexivity|]).
      + unfold agree_for. cbn [cdir files next owns].
        split; [exact Hc|]. split; [exact Hn|]. split.
        * intros h.
          destruct (path_eq_dec (PCache h) (PCache (sha t))) as [Heq|Hne].
          -- rewrite Heq. rewrite !lookup_fset_eq. reflexivity.
          -- rewrite !lookup_fset_neq by exact Hne.
             rewrite !lookup_fremove_neq by discriminate. apply Hca.
        * intros u0 Hu. injection Hu as Hu. subst u0.
          rewrite !lookup_fset_neq by discriminate.
          rewrite !lookup_fremove_eq. reflexivity.
      + apply Hsame. intros u0 Hu. exact Hu.
    - (* PcUnlink *)
      split; [reflexivity|]. split; [reflexivity|].
      unfold agree_for. cbn [cdir files next owns].
      split; [exact Hc|]. split; [exact Hn|]. split.
      + intros h. rewrite !lookup_fremove_neq by discriminate. apply Hca.
      + intros u0 Hu. discriminate Hu.
    - (* PcDone *)
      split; [reflexivity|]. split; [reflexivity|]. apply Hsame.
      intros u0 Hu. exact Hu.
  Qed.

  (** The original statement (without the added hypothesis) is refutable: *)
  Lemma tmp_ignored_later_original_false : forall t f n m,
    exists w1 w2,
      agree_for t (PcCreate m) w1 w2
      /\ ~ (let '(w1', q1, ev1) := pstep t f n w1 (PcCreate m) in
            let '(w2', q2, ev2) := pstep t f n w2 (PcCreate m) in
            q1 = q2 /\ ev1 = ev2 /\ agree_for t q1 w1' w2').
  Proof.
    intros t f n m.
    exists (World false [(PTmp (sha t) (uuid 0), [])] 0), (World false [] 0).
    split.
    - unfold agree_for. cbn. repeat split; auto. intros u Hu. discriminate Hu.
    - unfold CacheConc.pstep. cbn [cdir files next]. cbv beta iota zeta.
      intros [_ [_ [_ [_ [_ Hb]]]]].
      specialize (Hb (uuid 0) eq_refl). cbn [files lookup] in Hb.
      rewrite path_eqb_refl in Hb. discriminate Hb.
  Qed.

  (** ** Termination of a process run alone *)
  Definition meas (t : text) (q : pc) : nat :=
    match q with
    | PcDone _ => 0
    | PcUnlink _ _ => 1
    | PcRename _ _ => 2
    | PcClose _ _ => 3
    | PcWrite m _ k => 4 + (length (pickle m) - k)
    | PcCreate m => 5 + length (pickle m)
    | PcMkdir m => 6 + length (pickle m)
    | PcParse => match parse t with ROk m => 7 + length (pickle m) | _ => 1 end
    | PcLoad _ => 1
    | PcOpenR => 2
    | PcStart => 3 + match parse t with ROk m => 7 + length (pickle m) | _ => 1 end
    end.

  Lemma meas_dec : forall t f n w q w' q' ev,
    pstep t f n w q = (w', q', ev) -> (forall r, q <> PcDone r) ->
    meas t q' < meas t q.
  Proof.
    intros t f n w q w' q' ev Hs Hnd.
    destruct q as [| |c| |m|m|m u k|m u|m u|r u|r];
      unfold CacheConc.pstep in Hs; cbv beta iota zeta in Hs.
    - destruct f.
      + destruct (lookup (PCache (sha t)) (files w)) as [c|];
          inversion Hs; subst; cbn; destruct (parse t); lia.
      + inversion Hs; subst; cbn. lia.
    - destruct (lookup (PCache (sha t)) (files w)) as [c|]; inversion Hs; subst; cbn; lia.
    - inversion Hs; subst; cbn; lia.
    - cbn. destruct (parse t) as [m|e|k]; inversion Hs; subst; cbn; lia.
    - inversion Hs; subst; cbn; lia.
    - destruct (cdir w); inversion Hs; subst; cbn; lia.
    - destruct (Nat.ltb k (length (pickle m))) eqn:Hlt; inversion Hs; subst; cbn.
      + apply Nat.ltb_lt in Hlt. lia.
      + lia.
    - inversion Hs; subst; cbn; lia.
    - destruct (lookup (PTmp (sha t) u) (files w)) as [c|]; inversion Hs; subst; cbn; lia.
    - inversion Hs; subst; cbn; lia.
    - exfalso. apply (Hnd r). reflexivity.
  Qed.

  Lemma solo_complete : forall k s p n,
    meas (txt p) (ppc (procs s p)) < k -> Inv s -> dead (procs s p) = false ->
    no_inj s p ->
    exists fuel, ppc (procs (solo_ fuel p n s) p) = PcDone (parse (txt p)).
  Proof.
    induction k as [|k IH]; intros s p n Hm HI Hd Hno; [lia|].
    destruct (finished (procs s p)) eqn:Hf.
    - exists 0. cbn. unfold finished in Hf. unfold no_inj in Hno.
      destruct (ppc (procs s p)) as [| |c| |m|m|m u j|m u|m u|r u|r]; try discriminate Hf.
      subst r. reflexivity.
    - assert (Hnd : forall r, ppc (procs s p) <> PcDone r).
      { intros r Hq. unfold finished in Hf. rewrite Hq in Hf. discriminate Hf. }
      destruct (IH (step s (p, Step n)) p n) as [fuel Hfuel].
      + rewrite step_eq. rewrite Hd.
        destruct (pstep (txt p) (flg p) n (sw s) (ppc (procs s p))) as [[w' q'] ev] eqn:Hs.
        cbn. unfold upd. rewrite Nat.eqb_refl. cbn.
        pose proof (meas_dec _ _ _ _ _ _ _ _ Hs Hnd). lia.
      + apply step_inv. exact HI.
      + rewrite step_eq. rewrite Hd.
        destruct (pstep (txt p) (flg p) n (sw s) (ppc (procs s p))) as [[w' q'] ev].
        cbn. unfold upd. rewrite Nat.eqb_refl. reflexivity.
      + apply step_no_inj; [exact HI|exact Hno|]. intros _. discriminate.
      + exists (S fuel). cbn [CacheConc.solo]. rewrite Hf. exact Hfuel.
  Qed.

  (** A fresh process started in ANY reachable state (stray temporary files of crashed
      processes lying around) and run alone completes with the uncached result. *)
  Theorem later_run_completes : forall s p n,
    Inv s -> procs s p = PState PcStart false ->
    exists fuel, ppc (procs (solo M E parse sha pickle unpickle uuid txt flg fuel p n s) p)
                 = PcDone (parse (txt p)).
  Proof.
    intros s p n HI Hp.
    apply (solo_complete (S (meas (txt p) (ppc (procs s p)))) s p n).
    - lia.
    - exact HI.
    - rewrite Hp. reflexivity.
    - unfold no_inj. rewrite Hp. exact I.
  Qed.
End ConcFacts.
