(** The composition over the hierarchy (C15): meaning of [_merge_constraints] and the
    induction over the topological order for the stacking of constrained primitives
    ([cprims_pass2]) and of classes ([classes_pass2]). *)
From Coq Require Import List NArith ZArith Bool Lia.
From Acg Require Import Base.Str Base.Outcome Model.InferExpr Model.LenInfer
     Model.PatternInfer Model.SetInfer Model.InferInline Proofs.InferLen Proofs.InferSet.
Import ListNotations.

(** ** What a value has to satisfy

    A value is abstracted by its length, the patterns it matches, and the literal /
    enumeration literal it equals (if it is a primitive / an enumeration literal). *)
Record value : Type := mk_value {
  v_len : Z; v_matches : text -> Prop; v_lit : option lit; v_enum : option text }.

Definition holds (c : constraints) (v : value) : Prop :=
  in_range_opt (k_len c) (v_len v)
  /\ pats_hold (k_pats c) (v_matches v)
  /\ (match k_setp c with
      | Some (_, ls) => exists l, v_lit v = Some l /\ In l ls
      | None => True end)
  /\ (match k_sete c with
      | Some (_, ls) => exists l, v_enum v = Some l /\ In l ls
      | None => True end).

Definition holds_opt (c : option constraints) (v : value) : Prop :=
  match c with Some c => holds c v | None => True end.

Definition setp_ok (s : option (prim * list lit)) (o : option lit) : Prop :=
  match s with Some (_, ls) => exists l, o = Some l /\ In l ls | None => True end.
Definition sete_ok (s : option (text * list text)) (o : option text) : Prop :=
  match s with Some (_, ls) => exists l, o = Some l /\ In l ls | None => True end.

Lemma holds_unfold : forall c v,
  holds c v <-> (in_range_opt (k_len c) (v_len v) /\ pats_hold (k_pats c) (v_matches v)
                 /\ setp_ok (k_setp c) (v_lit v) /\ sete_ok (k_sete c) (v_enum v)).
Proof.
  intros c v. unfold holds, setp_ok, sete_ok.
  destruct (k_setp c) as [[? ?]|]; destruct (k_sete c) as [[? ?]|]; tauto.
Qed.

Lemma merge_setp_ok : forall (E : Type) a b c,
  merge_setp (E := E) a b = Ok c ->
  forall o, setp_ok c o <-> (setp_ok a o /\ setp_ok b o).
Proof.
  intros E a b c H o. unfold merge_setp in H.
  destruct a as [[ta la]|]; destruct b as [[tb lb]|].
  - destruct (prim_eqb ta tb); [|discriminate]. inversion H; subst c. cbn [setp_ok]. split.
    + intros [l [Ho Hl]]. apply (merge_lits_spec lit lit_eqb lit_eqb_spec) in Hl as [Ha Hb].
      split; exists l; split; assumption.
    + intros [[l [Ho Hl]] [l' [Ho' Hl']]]. rewrite Ho in Ho'. inversion Ho'; subst l'.
      exists l. split; [exact Ho|].
      apply (merge_lits_spec lit lit_eqb lit_eqb_spec). split; assumption.
  - inversion H; subst c. cbn [setp_ok]. tauto.
  - inversion H; subst c. cbn [setp_ok]. tauto.
  - inversion H; subst c. cbn [setp_ok]. tauto.
Qed.

Lemma merge_sete_ok : forall (E : Type) a b c,
  merge_sete (E := E) a b = Ok c ->
  forall o, sete_ok c o <-> (sete_ok a o /\ sete_ok b o).
Proof.
  intros E a b c H o. unfold merge_sete in H.
  destruct a as [[ta la]|]; destruct b as [[tb lb]|].
  - destruct (text_eqb ta tb); [|discriminate]. inversion H; subst c. cbn [sete_ok]. split.
    + intros [l [Ho Hl]]. apply (merge_lits_spec text text_eqb text_eqb_spec) in Hl as [Ha Hb].
      split; exists l; split; assumption.
    + intros [[l [Ho Hl]] [l' [Ho' Hl']]]. rewrite Ho in Ho'. inversion Ho'; subst l'.
      exists l. split; [exact Ho|].
      apply (merge_lits_spec text text_eqb text_eqb_spec). split; assumption.
  - inversion H; subst c. cbn [sete_ok]. tauto.
  - inversion H; subst c. cbn [sete_ok]. tauto.
  - inversion H; subst c. cbn [sete_ok]. tauto.
Qed.

(** [merge_constraints_meet]: whenever [_merge_constraints] returns, the result holds of
    a value exactly when both operands do (lengths, patterns, both kinds of sets). *)
Theorem merge_constraints_meet : forall (E : Type) a b c,
  merge_constraints (E := E) a b = Ok c ->
  forall v, holds_opt c v <-> (holds_opt a v /\ holds_opt b v).
Proof.
  intros E a b c H v. unfold merge_constraints in H.
  destruct a as [a|]; destruct b as [b|]; try (inversion H; subst c; cbn [holds_opt]; tauto).
  unfold bind in H.
  destruct (merge_len (k_len a) (k_len b)) as [l|e|k] eqn:Hl; try discriminate.
  destruct (merge_setp (k_setp a) (k_setp b)) as [sp|e|k] eqn:Hsp; try discriminate.
  destruct (merge_sete (k_sete a) (k_sete b)) as [se|e|k] eqn:Hse; try discriminate.
  unfold mk_constraints_chk in H.
  assert (Hc : c = Some (mk_constraints l (merge_pats (k_pats a) (k_pats b)) sp se)).
  { destruct (merge_pats (k_pats a) (k_pats b)) as [[|x r]|]; try discriminate;
      inversion H; reflexivity. }
  subst c. cbn [holds_opt]. rewrite !holds_unfold. cbn [k_len k_pats k_setp k_sete].
  rewrite (merge_len_meet E _ _ _ Hl (v_len v)).
  rewrite (patterns_conj (k_pats a) (k_pats b) (v_matches v)).
  rewrite (merge_setp_ok E _ _ _ Hsp (v_lit v)).
  rewrite (merge_sete_ok E _ _ _ Hse (v_enum v)).
  tauto.
Qed.

(** ** Association-list facts *)

Lemma alookup_aset_same : forall V k (v : V) l, alookup k (aset k v l) = Some v.
Proof.
  intros V k v l. induction l as [|[k' v'] r IH]; cbn [aset alookup].
  - rewrite text_eqb_refl. reflexivity.
  - destruct (text_eqb k k') eqn:He; cbn [alookup].
    + rewrite text_eqb_refl. reflexivity.
    + rewrite He. exact IH.
Qed.

Lemma alookup_aset_other : forall V k k' (v : V) l,
  k <> k' -> alookup k' (aset k v l) = alookup k' l.
Proof.
  intros V k k' v l Hne. induction l as [|[k0 v0] r IH]; cbn [aset alookup].
  - destruct (text_eqb k' k) eqn:He; [apply text_eqb_eq in He; congruence | reflexivity].
  - destruct (text_eqb k k0) eqn:He; cbn [alookup].
    + apply text_eqb_eq in He. subst k0.
      destruct (text_eqb k' k) eqn:He'; [apply text_eqb_eq in He'; congruence | reflexivity].
    + destruct (text_eqb k' k0); [reflexivity | exact IH].
Qed.

(** ** Stacking the parents of one type *)

Lemma stack_parents_spec : forall V (get : text -> option V) (proj : V -> option constraints)
                                  ps cur e c e',
  stack_parents get proj ps cur e = Ok (c, e') ->
  (e <= e')%nat
  /\ (e' = e ->
      forall v, holds_opt c v
                <-> (holds_opt cur v
                     /\ forall p, In p ps ->
                                  holds_opt (match get p with Some x => proj x | None => None end) v)).
Proof.
  intros V get proj ps. induction ps as [|p r IH]; intros cur e c e' H; cbn [stack_parents] in H.
  - inversion H; subst c e'. split; [lia|]. intros _ v. cbn [In]. tauto.
  - set (pc := match get p with Some x => proj x | None => None end) in *.
    destruct (contradicting pc cur) eqn:Hc.
    + apply IH in H as [Hle Hsem]. split; [lia|]. intros Heq. lia.
    + destruct (merge_constraints pc cur) as [m|er|k] eqn:Hm; try discriminate.
      apply IH in H as [Hle Hsem]. split; [exact Hle|]. intros Heq v.
      rewrite (Hsem Heq v), (merge_constraints_meet nat _ _ _ Hm v). cbn [In]. split.
      * intros [[H1 H2] H3]. split; [exact H2|]. intros q [<-|Hq]; [exact H1 | apply H3; exact Hq].
      * intros [H1 H2]. split; [split; [apply H2; left; reflexivity | exact H1]|].
        intros q Hq. apply H2. right. exact Hq.
Qed.

(** ** Constrained primitives: induction over the topological order *)

(** Parents are never declared at or after their child in the list. *)
Fixpoint topo (cps : list cprim) : Prop :=
  match cps with
  | [] => True
  | cp :: r =>
      (forall p, In p (cp_parents cp) -> ~ In p (map cp_name (cp :: r))) /\ topo r
  end.

Lemma cprims_pass2_spec : forall cps mapping errs final,
  cprims_pass2 cps mapping errs = Ok final ->
  NoDup (map cp_name cps) -> topo cps ->
  errs = 0%nat
  /\ (forall name, ~ In name (map cp_name cps) -> alookup name final = alookup name mapping)
  /\ (forall cp, In cp cps ->
      forall v, holds_opt (alookup (cp_name cp) final) v
                <-> (holds_opt (alookup (cp_name cp) mapping) v
                     /\ forall p, In p (cp_parents cp) -> holds_opt (alookup p final) v)).
Proof.
  induction cps as [|cp r IH]; intros mapping errs final H Hnd Htopo; cbn [cprims_pass2] in H.
  - destruct errs; [|discriminate]. inversion H; subst final.
    split; [reflexivity|]. split; [reflexivity | intros cp []].
  - cbn [map] in Hnd. inversion Hnd as [|x xs Hnotin Hnd']; subst x xs.
    destruct Htopo as [Hpar Htopo'].
    destruct (stack_parents (fun p => alookup p mapping) (fun c => Some c) (cp_parents cp)
                            (alookup (cp_name cp) mapping) 0) as [[c e]|er|k] eqn:Hs;
      try discriminate.
    apply stack_parents_spec in Hs as [_ Hsem].
    (* the mapping after processing [cp] *)
    set (m1 := match c with Some c' => aset (cp_name cp) c' mapping | None => mapping end).
    assert (Hrec : cprims_pass2 r m1 (errs + e) = Ok final) by (destruct c; exact H).
    destruct (IH m1 (errs + e)%nat final Hrec Hnd' Htopo') as [He [Hframe Hrest]].
    assert (He0 : e = 0%nat) by lia. assert (Herrs : errs = 0%nat) by lia.
    specialize (Hsem He0).
    assert (Hm1_other : forall n, n <> cp_name cp -> alookup n m1 = alookup n mapping).
    { intros n Hn. unfold m1. destruct c; [|reflexivity].
      apply alookup_aset_other. congruence. }
    assert (Hm1_same : forall v, holds_opt (alookup (cp_name cp) m1) v <-> holds_opt c v).
    { intros v. unfold m1. destruct c as [c'|].
      - rewrite alookup_aset_same. tauto.
      - (* nothing stored: the entry was absent before as well *)
        cbn [holds_opt]. specialize (Hsem v). cbn [holds_opt] in Hsem.
        split; [tauto|]. intros _. apply Hsem. exact I. }
    split; [exact Herrs|]. split.
    + intros name Hn. cbn [map In] in Hn.
      rewrite Hframe by tauto. apply Hm1_other. intro Heq. apply Hn. left. congruence.
    + intros cp' [<-|Hin] v.
      * rewrite (Hframe (cp_name cp) Hnotin), Hm1_same, (Hsem v).
        split; intros [H1 H2]; (split; [exact H1|]); intros p Hp.
        -- assert (Hp' : ~ In p (map cp_name (cp :: r))) by (apply Hpar; exact Hp).
           cbn [map In] in Hp'.
           rewrite Hframe by tauto. rewrite Hm1_other by (intro Heq; apply Hp'; left; congruence).
           specialize (H2 p Hp). cbn beta in H2. destruct (alookup p mapping); exact H2.
        -- assert (Hp' : ~ In p (map cp_name (cp :: r))) by (apply Hpar; exact Hp).
           cbn [map In] in Hp'.
           specialize (H2 p Hp). rewrite Hframe in H2 by tauto.
           rewrite Hm1_other in H2 by (intro Heq; apply Hp'; left; congruence).
           cbn beta. destruct (alookup p mapping); exact H2.
      * rewrite (Hrest cp' Hin v).
        assert (Hne : cp_name cp' <> cp_name cp).
        { intro Heq. apply Hnotin. rewrite <- Heq. apply in_map. exact Hin. }
        rewrite (Hm1_other _ Hne). tauto.
Qed.

(** By induction along the order, the final constraints of a constrained primitive are
    the conjunction of the local constraints of the primitive and of all its ancestors. *)
Inductive cp_ancestor_or_self (cps : list cprim) : text -> text -> Prop :=
| cpa_self : forall n, cp_ancestor_or_self cps n n
| cpa_step : forall cp p a, In cp cps -> In p (cp_parents cp) ->
                            cp_ancestor_or_self cps p a ->
                            cp_ancestor_or_self cps (cp_name cp) a.

Lemma cpa_inv : forall cps n a,
  cp_ancestor_or_self cps n a ->
  a = n \/ exists cp p, In cp cps /\ cp_name cp = n /\ In p (cp_parents cp)
                       /\ cp_ancestor_or_self cps p a.
Proof.
  intros cps n a H. destruct H as [n | cp p a Hcp Hp Hanc].
  - left. reflexivity.
  - right. exists cp, p. repeat split; assumption.
Qed.

Lemma topo_split : forall l1 cp l2,
  topo (l1 ++ cp :: l2) ->
  forall p, In p (cp_parents cp) -> ~ In p (map cp_name (cp :: l2)).
Proof.
  induction l1 as [|x l1 IH]; intros cp l2 Ht; cbn [app topo] in Ht.
  - exact (proj1 Ht).
  - apply IH. exact (proj2 Ht).
Qed.

Lemma nodup_name_inj : forall cps a b,
  NoDup (map cp_name cps) -> In a cps -> In b cps -> cp_name a = cp_name b -> a = b.
Proof.
  induction cps as [|x r IH]; intros a b Hnd Ha Hb Heq; [contradiction|].
  cbn [map] in Hnd. inversion Hnd as [|y ys Hnotin Hnd']; subst.
  destruct Ha as [<-|Ha]; destruct Hb as [<-|Hb].
  - reflexivity.
  - exfalso. apply Hnotin. rewrite Heq. apply in_map. exact Hb.
  - exfalso. apply Hnotin. rewrite <- Heq. apply in_map. exact Ha.
  - apply IH; assumption.
Qed.

Theorem cprims_stack_exact : forall cps local final,
  cprims_pass2 cps local 0 = Ok final ->
  NoDup (map cp_name cps) -> topo cps ->
  (forall cp p, In cp cps -> In p (cp_parents cp) -> In p (map cp_name cps)) ->
  forall cp, In cp cps ->
  forall v, holds_opt (alookup (cp_name cp) final) v
            <-> (forall a, cp_ancestor_or_self cps (cp_name cp) a -> holds_opt (alookup a local) v).
Proof.
  intros cps local final H Hnd Htopo Hclosed.
  destruct (cprims_pass2_spec cps local 0 final H Hnd Htopo) as [_ [_ Hstep]].
  assert (Hmain : forall l1 l2, cps = l1 ++ l2 -> forall cp, In cp l1 ->
            forall v, holds_opt (alookup (cp_name cp) final) v
                      <-> (forall a, cp_ancestor_or_self cps (cp_name cp) a ->
                                     holds_opt (alookup a local) v)).
  { induction l1 as [|x l IH] using rev_ind; intros l2 Hsplit cp Hin v; [contradiction|].
    rewrite <- app_assoc in Hsplit. cbn [app] in Hsplit.
    apply in_app_or in Hin as [Hin|[<-|[]]].
    - exact (IH (x :: l2) Hsplit cp Hin v).
    - assert (Hx : In x cps) by (rewrite Hsplit; apply in_or_app; right; left; reflexivity).
      (* every parent of [x] is a primitive of the prefix [l] *)
      assert (Hpar_in : forall p, In p (cp_parents x) -> exists cpp, In cpp l /\ cp_name cpp = p).
      { intros p Hp. pose proof (Hclosed x p Hx Hp) as Hn.
        rewrite Hsplit, map_app in Hn. apply in_app_or in Hn as [Hn|Hn].
        - apply in_map_iff in Hn as [cpp [Hname Hcpp]]. exists cpp. split; assumption.
        - exfalso. rewrite Hsplit in Htopo. exact (topo_split l x l2 Htopo p Hp Hn). }
      rewrite (Hstep x Hx v). split.
      + intros [Hloc Hpar] a Ha.
        destruct (cpa_inv _ _ _ Ha) as [-> | [cp0 [p [Hcp0 [Hname [Hp Hanc]]]]]].
        * exact Hloc.
        * assert (Heq0 : cp0 = x) by (apply (nodup_name_inj cps); assumption).
          rewrite Heq0 in Hp.
          destruct (Hpar_in p Hp) as [cpp [Hcpp Hpn]].
          rewrite <- Hpn in Hanc.
          apply (proj1 (IH (x :: l2) Hsplit cpp Hcpp v)); [|exact Hanc].
          rewrite Hpn. apply Hpar. exact Hp.
      + intros Hall. split; [apply Hall; constructor|].
        intros p Hp. destruct (Hpar_in p Hp) as [cpp [Hcpp Hpn]].
        rewrite <- Hpn. apply (proj2 (IH (x :: l2) Hsplit cpp Hcpp v)). intros a Ha.
        apply Hall. apply (cpa_step cps x p a Hx Hp). rewrite <- Hpn. exact Ha. }
  intros cp Hin. apply (Hmain cps [] (eq_sym (app_nil_r cps)) cp Hin).
Qed.

(** ** Classes: keyed maps *)

Lemma key_eqb_spec : forall a b : key, key_eqb a b = true <-> a = b.
Proof.
  intros [a1 a2] [b1 b2]. unfold key_eqb. cbn [fst snd].
  rewrite andb_true_iff, text_eqb_spec, Nat.eqb_eq. split.
  - intros [-> ->]. reflexivity.
  - intros H. inversion H. split; reflexivity.
Qed.

Lemma key_eqb_refl : forall k, key_eqb k k = true.
Proof. intros k. apply key_eqb_spec. reflexivity. Qed.

Lemma key_eqb_neq : forall a b, a <> b -> key_eqb a b = false.
Proof.
  intros a b H. destruct (key_eqb a b) eqn:He; [|reflexivity].
  apply key_eqb_spec in He. contradiction.
Qed.

Lemma klookup_kset_same : forall k v m, klookup k (kset k v m) = Some v.
Proof.
  intros k v m. induction m as [|[k' v'] r IH]; cbn [kset klookup].
  - rewrite key_eqb_refl. reflexivity.
  - destruct (key_eqb k k') eqn:He; cbn [klookup].
    + rewrite key_eqb_refl. reflexivity.
    + rewrite He. exact IH.
Qed.

Lemma klookup_kset_other : forall k k' v m, k <> k' -> klookup k' (kset k v m) = klookup k' m.
Proof.
  intros k k' v m Hne. induction m as [|[k0 v0] r IH]; cbn [kset klookup].
  - rewrite key_eqb_neq by congruence. reflexivity.
  - destruct (key_eqb k k0) eqn:He; cbn [klookup].
    + apply key_eqb_spec in He. subst k0. rewrite key_eqb_neq by congruence. reflexivity.
    + destruct (key_eqb k' k0); [reflexivity | exact IH].
Qed.

Lemma klookup_notin : forall k m, ~ In k (map fst m) -> klookup k m = None.
Proof.
  intros k m H. induction m as [|[k' v'] r IH]; cbn [klookup]; [reflexivity|].
  cbn [map fst In] in H. rewrite key_eqb_neq by (intro; apply H; left; congruence).
  apply IH. tauto.
Qed.

Definition nodup_keys (m : cmap) : Prop := NoDup (map fst m).

Lemma kset_keys : forall k v m x, In x (map fst (kset k v m)) <-> (k = x \/ In x (map fst m)).
Proof.
  intros k v m x. induction m as [|[k' v'] r IH]; cbn [kset map fst In].
  - tauto.
  - destruct (key_eqb k k') eqn:He; cbn [map fst In].
    + apply key_eqb_spec in He. subst k'. tauto.
    + rewrite IH. tauto.
Qed.

Lemma kset_nodup : forall k v m, nodup_keys m -> nodup_keys (kset k v m).
Proof.
  intros k v m. unfold nodup_keys. induction m as [|[k' v'] r IH]; intros H; cbn [kset map fst].
  - constructor; [intros [] | constructor].
  - cbn [map fst] in H. inversion H as [|x xs Hn Hr]; subst.
    destruct (key_eqb k k') eqn:He; cbn [map fst].
    + apply key_eqb_spec in He. subst k'. constructor; assumption.
    + constructor; [|apply IH; exact Hr].
      rewrite kset_keys. intros [Heq|Hin]; [|contradiction].
      subst k'. rewrite key_eqb_refl in He. discriminate.
Qed.

(** Stacking one parent's map into the map of the class: key by key a meet. *)
Lemma stack_map_spec : forall pm that e that' e',
  stack_map pm that e = Ok (that', e') ->
  (e <= e')%nat
  /\ (nodup_keys that -> nodup_keys that')
  /\ (e' = e -> nodup_keys pm ->
      forall k v, holds_opt (klookup k that') v
                  <-> (holds_opt (klookup k that) v /\ holds_opt (klookup k pm) v)).
Proof.
  induction pm as [|[k0 pc] r IH]; intros that e that' e' H; cbn [stack_map] in H.
  - inversion H; subst that' e'. split; [lia|]. split; [tauto|].
    intros _ _ k v. cbn [klookup holds_opt]. tauto.
  - destruct (contradicting (Some pc) (klookup k0 that)) eqn:Hc.
    + apply IH in H as [Hle [Hnd Hsem]]. split; [lia|]. split; [exact Hnd|]. intros Heq. lia.
    + destruct (merge_constraints (Some pc) (klookup k0 that)) as [m|er|kd] eqn:Hm;
        try discriminate.
      pose proof (merge_constraints_meet nat _ _ _ Hm) as Hmeet.
      set (that1 := match m with Some c => kset k0 c that | None => that end).
      assert (Hrec : stack_map r that1 e = Ok (that', e')) by (destruct m; exact H).
      apply IH in Hrec as [Hle [Hnd Hsem]]. split; [exact Hle|]. split.
      * intros Hn. apply Hnd. unfold that1. destruct m; [apply kset_nodup|]; exact Hn.
      * intros Heq Hpm k v. unfold nodup_keys in Hpm. cbn [map fst] in Hpm.
        inversion Hpm as [|x xs Hnotin Hpm']; subst x xs.
        rewrite (Hsem Heq Hpm' k v). cbn [klookup].
        destruct (key_eqb k k0) eqn:Hk.
        -- apply key_eqb_spec in Hk. subst k.
           rewrite (klookup_notin k0 r Hnotin). cbn [holds_opt].
           assert (H1 : holds_opt (klookup k0 that1) v <-> holds_opt m v).
           { unfold that1. destruct m as [c|].
             - rewrite klookup_kset_same. tauto.
             - cbn [holds_opt]. specialize (Hmeet v). cbn [holds_opt] in Hmeet. tauto. }
           rewrite H1, (Hmeet v). cbn [holds_opt]. tauto.
        -- assert (Hne : k0 <> k).
           { intro Heq'. subst k0. rewrite key_eqb_refl in Hk. discriminate. }
           assert (H1 : klookup k that1 = klookup k that).
           { unfold that1. destruct m; [apply klookup_kset_other; exact Hne | reflexivity]. }
           rewrite H1. tauto.
Qed.

Definition look (m : list (text * cmap)) (name : text) (k : key) : option constraints :=
  match alookup name m with Some mp => klookup k mp | None => None end.

Definition all_nodup (m : list (text * cmap)) : Prop :=
  forall name mp, alookup name m = Some mp -> nodup_keys mp.

Lemma stack_class_parents_spec : forall mapping ps that e that' e',
  stack_class_parents mapping ps that e = Ok (that', e') ->
  (e <= e')%nat
  /\ (nodup_keys that -> nodup_keys that')
  /\ (e' = e -> all_nodup mapping ->
      forall k v, holds_opt (klookup k that') v
                  <-> (holds_opt (klookup k that) v
                       /\ forall p, In p ps -> holds_opt (look mapping p k) v)).
Proof.
  intros mapping ps. induction ps as [|p r IH]; intros that e that' e' H;
    cbn [stack_class_parents] in H.
  - inversion H; subst that' e'. split; [lia|]. split; [tauto|].
    intros _ _ k v. cbn [In]. tauto.
  - destruct (alookup p mapping) as [pm|] eqn:Hp; try discriminate.
    destruct (stack_map pm that e) as [[that1 e1]|er|kd] eqn:Hs; try discriminate.
    apply stack_map_spec in Hs as [Hle1 [Hnd1 Hsem1]].
    apply IH in H as [Hle [Hnd Hsem]]. split; [lia|]. split; [tauto|].
    intros Heq Hall k v.
    assert (He1 : e1 = e) by lia. assert (He' : e' = e1) by lia.
    rewrite (Hsem He' Hall k v), (Hsem1 He1 (Hall p pm Hp) k v). cbn [In]. split.
    + intros [[H1 H2] H3]. split; [exact H1|].
      intros q [<-|Hq]; [unfold look; rewrite Hp; exact H2 | apply H3; exact Hq].
    + intros [H1 H2]. split; [split; [exact H1|]|].
      * specialize (H2 p (or_introl eq_refl)). unfold look in H2. rewrite Hp in H2. exact H2.
      * intros q Hq. apply H2. right. exact Hq.
Qed.

(** Parents are never declared at or after their child in the list of classes. *)
Fixpoint ctopo (cs : list class) : Prop :=
  match cs with
  | [] => True
  | c :: r => (forall p, In p (c_parents c) -> ~ In p (map c_name (c :: r))) /\ ctopo r
  end.

Lemma classes_pass2_spec : forall cs mapping errs final,
  classes_pass2 cs mapping errs = Ok final ->
  NoDup (map c_name cs) -> ctopo cs -> all_nodup mapping ->
  errs = 0%nat
  /\ all_nodup final
  /\ (forall name, ~ In name (map c_name cs) -> alookup name final = alookup name mapping)
  /\ (forall c, In c cs ->
      forall k v, holds_opt (look final (c_name c) k) v
                  <-> (holds_opt (look mapping (c_name c) k) v
                       /\ forall p, In p (c_parents c) -> holds_opt (look final p k) v)).
Proof.
  induction cs as [|c r IH]; intros mapping errs final H Hnd Htopo Hall; cbn [classes_pass2] in H.
  - destruct errs; [|discriminate]. inversion H; subst final.
    split; [reflexivity|]. split; [exact Hall|]. split; [reflexivity | intros c []].
  - cbn [map] in Hnd. inversion Hnd as [|x xs Hnotin Hnd']; subst x xs.
    destruct Htopo as [Hpar Htopo'].
    destruct (alookup (c_name c) mapping) as [that|] eqn:Hthat; try discriminate.
    destruct (stack_class_parents mapping (c_parents c) that 0) as [[that' e]|er|kd] eqn:Hs;
      try discriminate.
    apply stack_class_parents_spec in Hs as [_ [Hndk Hsem]].
    set (m1 := aset (c_name c) that' mapping) in *.
    assert (Hall1 : all_nodup m1).
    { intros name mp Hl. unfold m1 in Hl.
      destruct (text_eqb (c_name c) name) eqn:He.
      - apply text_eqb_eq in He. subst name. rewrite alookup_aset_same in Hl.
        inversion Hl; subst mp. apply Hndk. exact (Hall _ _ Hthat).
      - rewrite alookup_aset_other in Hl
          by (intro Heq; rewrite Heq, text_eqb_refl in He; discriminate).
        exact (Hall _ _ Hl). }
    destruct (IH m1 (errs + e)%nat final H Hnd' Htopo' Hall1) as [He [Hallf [Hframe Hrest]]].
    assert (He0 : e = 0%nat) by lia. assert (Herrs : errs = 0%nat) by lia.
    specialize (Hsem He0 Hall).
    assert (Hm1_other : forall n, n <> c_name c -> alookup n m1 = alookup n mapping).
    { intros n Hn. unfold m1. apply alookup_aset_other. congruence. }
    split; [exact Herrs|]. split; [exact Hallf|]. split.
    + intros name Hn. cbn [map In] in Hn.
      rewrite Hframe by tauto. apply Hm1_other. intro Heq. apply Hn. left. congruence.
    + intros c' [<-|Hin] k v.
      * unfold look at 1 2. rewrite (Hframe (c_name c) Hnotin). unfold m1 at 1.
        rewrite alookup_aset_same, Hthat, (Hsem k v).
        split; intros [H1 H2]; (split; [exact H1|]); intros p Hp.
        -- assert (Hp' : ~ In p (map c_name (c :: r))) by (apply Hpar; exact Hp).
           cbn [map In] in Hp'. unfold look.
           rewrite Hframe by tauto. rewrite Hm1_other by (intro Heq; apply Hp'; left; congruence).
           exact (H2 p Hp).
        -- assert (Hp' : ~ In p (map c_name (c :: r))) by (apply Hpar; exact Hp).
           cbn [map In] in Hp'. specialize (H2 p Hp). unfold look in H2.
           rewrite Hframe in H2 by tauto.
           rewrite Hm1_other in H2 by (intro Heq; apply Hp'; left; congruence).
           exact H2.
      * rewrite (Hrest c' Hin k v).
        assert (Hne : c_name c' <> c_name c).
        { intro Heq. apply Hnotin. rewrite <- Heq. apply in_map. exact Hin. }
        assert (Hl : look m1 (c_name c') k = look mapping (c_name c') k)
          by (unfold look; rewrite (Hm1_other _ Hne); reflexivity).
        rewrite Hl. tauto.
Qed.

Inductive c_ancestor_or_self (cs : list class) : text -> text -> Prop :=
| ca_self : forall n, c_ancestor_or_self cs n n
| ca_step : forall c p a, In c cs -> In p (c_parents c) ->
                          c_ancestor_or_self cs p a ->
                          c_ancestor_or_self cs (c_name c) a.

Lemma ca_inv : forall cs n a,
  c_ancestor_or_self cs n a ->
  a = n \/ exists c p, In c cs /\ c_name c = n /\ In p (c_parents c)
                       /\ c_ancestor_or_self cs p a.
Proof.
  intros cs n a H. destruct H as [n | c p a Hc Hp Hanc].
  - left. reflexivity.
  - right. exists c, p. repeat split; assumption.
Qed.

Lemma ctopo_split : forall l1 c l2,
  ctopo (l1 ++ c :: l2) ->
  forall p, In p (c_parents c) -> ~ In p (map c_name (c :: l2)).
Proof.
  induction l1 as [|x l1 IH]; intros c l2 Ht; cbn [app ctopo] in Ht.
  - exact (proj1 Ht).
  - apply IH. exact (proj2 Ht).
Qed.

Lemma nodup_cname_inj : forall cs a b,
  NoDup (map c_name cs) -> In a cs -> In b cs -> c_name a = c_name b -> a = b.
Proof.
  induction cs as [|x r IH]; intros a b Hnd Ha Hb Heq; [contradiction|].
  cbn [map] in Hnd. inversion Hnd as [|y ys Hnotin Hnd']; subst.
  destruct Ha as [<-|Ha]; destruct Hb as [<-|Hb].
  - reflexivity.
  - exfalso. apply Hnotin. rewrite Heq. apply in_map. exact Hb.
  - exfalso. apply Hnotin. rewrite <- Heq. apply in_map. exact Ha.
  - apply IH; assumption.
Qed.

(** [classes_stack_exact]: after the stacking, the constraints of a class on a value
    (key = property and nesting level) are the conjunction of the local constraints of
    the class and of all its ancestors on that value. *)
Theorem classes_stack_exact : forall cs local final,
  classes_pass2 cs local 0 = Ok final ->
  NoDup (map c_name cs) -> ctopo cs -> all_nodup local ->
  (forall c p, In c cs -> In p (c_parents c) -> In p (map c_name cs)) ->
  forall c, In c cs ->
  forall k v, holds_opt (look final (c_name c) k) v
              <-> (forall a, c_ancestor_or_self cs (c_name c) a -> holds_opt (look local a k) v).
Proof.
  intros cs local final H Hnd Htopo Hall Hclosed.
  destruct (classes_pass2_spec cs local 0 final H Hnd Htopo Hall) as [_ [_ [_ Hstep]]].
  assert (Hmain : forall l1 l2, cs = l1 ++ l2 -> forall c, In c l1 ->
            forall k v, holds_opt (look final (c_name c) k) v
                        <-> (forall a, c_ancestor_or_self cs (c_name c) a ->
                                       holds_opt (look local a k) v)).
  { induction l1 as [|x l IH] using rev_ind; intros l2 Hsplit c Hin k v; [contradiction|].
    rewrite <- app_assoc in Hsplit. cbn [app] in Hsplit.
    apply in_app_or in Hin as [Hin|[<-|[]]].
    - exact (IH (x :: l2) Hsplit c Hin k v).
    - assert (Hx : In x cs) by (rewrite Hsplit; apply in_or_app; right; left; reflexivity).
      assert (Hpar_in : forall p, In p (c_parents x) -> exists cp, In cp l /\ c_name cp = p).
      { intros p Hp. pose proof (Hclosed x p Hx Hp) as Hn.
        rewrite Hsplit, map_app in Hn. apply in_app_or in Hn as [Hn|Hn].
        - apply in_map_iff in Hn as [cp [Hname Hcp]]. exists cp. split; assumption.
        - exfalso. rewrite Hsplit in Htopo. exact (ctopo_split l x l2 Htopo p Hp Hn). }
      rewrite (Hstep x Hx k v). split.
      + intros [Hloc Hpar] a Ha.
        destruct (ca_inv _ _ _ Ha) as [-> | [c0 [p [Hc0 [Hname [Hp Hanc]]]]]].
        * exact Hloc.
        * assert (Heq0 : c0 = x) by (apply (nodup_cname_inj cs); assumption).
          rewrite Heq0 in Hp.
          destruct (Hpar_in p Hp) as [cp [Hcp Hpn]].
          rewrite <- Hpn in Hanc.
          apply (proj1 (IH (x :: l2) Hsplit cp Hcp k v)); [|exact Hanc].
          rewrite Hpn. apply Hpar. exact Hp.
      + intros Hall'. split; [apply Hall'; constructor|].
        intros p Hp. destruct (Hpar_in p Hp) as [cp [Hcp Hpn]].
        rewrite <- Hpn. apply (proj2 (IH (x :: l2) Hsplit cp Hcp k v)). intros a Ha.
        apply Hall'. apply (ca_step cs x p a Hx Hp). rewrite <- Hpn. exact Ha. }
  intros c Hin. apply (Hmain cs [] (eq_sym (app_nil_r cs)) c Hin).
Qed.

(** ** The maps of the first pass have no duplicated keys *)

Lemma cmap_merge_in_nodup : forall k c mp mp',
  cmap_merge_in k c mp = Ok mp' -> nodup_keys mp -> nodup_keys mp'.
Proof.
  intros k c mp mp' H Hn. unfold cmap_merge_in in H.
  destruct (merge_constraints (klookup k mp) (Some c)) as [[c'|]|e|kd]; try discriminate;
    inversion H; subst mp'; [apply kset_nodup|]; exact Hn.
Qed.

Lemma cmap_merge_all_nodup : forall A (f : A -> option (key * constraints)) l mp mp',
  cmap_merge_all f l mp = Ok mp' -> nodup_keys mp -> nodup_keys mp'.
Proof.
  intros A f. induction l as [|a r IH]; intros mp mp' H Hn; cbn [cmap_merge_all] in H.
  - inversion H; subst. exact Hn.
  - destruct (f a) as [[k c]|].
    + unfold bind in H. destruct (cmap_merge_in k c mp) as [mp1|e|kd] eqn:H1; try discriminate.
      apply (IH mp1 mp' H). eapply cmap_merge_in_nodup; eassumption.
    + apply (IH mp mp' H Hn).
Qed.

Lemma inline_levels_nodup : forall m cpm p lv i mp errs mp' e,
  inline_levels m cpm p lv i mp errs = Ok (mp', e) -> nodup_keys mp -> nodup_keys mp'.
Proof.
  intros m cpm p. induction lv as [|t r IH]; intros i mp errs mp' e H Hn;
    cbn [inline_levels] in H.
  - inversion H; subst. exact Hn.
  - destruct t as [pr|n|it|vl]; try (apply (IH _ _ _ _ _ H Hn)).
    destruct (find_cprim n (m_cprims m)) as [fcp|]; [|apply (IH _ _ _ _ _ H Hn)].
    destruct (contradicting (klookup (p, i) mp) (alookup n cpm)); [apply (IH _ _ _ _ _ H Hn)|].
    destruct (merge_constraints (klookup (p, i) mp) (alookup n cpm)) as [[mc|]|er|kd];
      try discriminate; try (apply (IH _ _ _ _ _ H Hn)).
    destruct (is_empty_constraints mc); [apply (IH _ _ _ _ _ H Hn)|].
    apply (IH _ _ _ _ _ H). apply kset_nodup. exact Hn.
Qed.

Lemma inline_props_nodup : forall m cpm props mp errs mp',
  inline_props m cpm props mp errs = Ok mp' -> nodup_keys mp -> nodup_keys mp'.
Proof.
  intros m cpm. induction props as [|[p t] r IH]; intros mp errs mp' H Hn;
    cbn [inline_props] in H.
  - destruct errs; [inversion H; subst; exact Hn | discriminate].
  - destruct (inline_levels m cpm p (levels t) 0 mp errs) as [[mp1 e]|er|kd] eqn:H1;
      try discriminate.
    apply (IH mp1 e mp' H). eapply inline_levels_nodup; eassumption.
Qed.

Lemma infer_class_local_nodup : forall m cpm props c mp,
  infer_class_local m cpm props c = Ok mp -> nodup_keys mp.
Proof.
  intros m cpm props c mp H. unfold infer_class_local in H. cbv zeta in H.
  set (lp := len_constraints_from_invariants _ _) in H.
  set (stp := infer_sets _ _ _) in H.
  destruct lp as [ls|e|kd]; destruct stp as [[sp se]|e'|kd']; try discriminate.
  unfold bind in H.
  destruct (cmap_merge_all _ ls []) as [m1|?|?] eqn:Q1; try discriminate.
  match type of H with match cmap_merge_all ?f ?l m1 with _ => _ end = _ =>
    destruct (cmap_merge_all f l m1) as [m2|?|?] eqn:Q2; try discriminate end.
  destruct (cmap_merge_all _ sp m2) as [m3|?|?] eqn:Q3; try discriminate.
  destruct (cmap_merge_all _ se m3) as [m4|?|?] eqn:Q4; try discriminate.
  eapply inline_props_nodup; [exact H|].
  eapply cmap_merge_all_nodup; [exact Q4|].
  eapply cmap_merge_all_nodup; [exact Q3|].
  eapply cmap_merge_all_nodup; [exact Q2|].
  eapply cmap_merge_all_nodup; [exact Q1|].
  constructor.
Qed.

Lemma alookup_app_single : forall V (l : list (text * V)) n x name y,
  alookup name (l ++ [(n, x)]) = Some y ->
  alookup name l = Some y \/ (n = name /\ x = y).
Proof.
  intros V l n x name y. induction l as [|[k v] r IH]; cbn [app alookup]; intro H.
  - destruct (text_eqb name n) eqn:He; [|discriminate].
    apply text_eqb_eq in He. inversion H; subst. right. split; reflexivity.
  - destruct (text_eqb name k); [left; exact H | apply IH; exact H].
Qed.

Lemma classes_pass1_nodup : forall m cpm pt cs acc errs final,
  classes_pass1 m cpm pt cs acc errs = Ok final -> all_nodup acc -> all_nodup final.
Proof.
  intros m cpm pt. induction cs as [|c r IH]; intros acc errs final H Hall;
    cbn [classes_pass1] in H.
  - destruct errs; [inversion H; subst; exact Hall | discriminate].
  - destruct (alookup (c_name c) pt) as [props|]; try discriminate.
    destruct (infer_class_local m cpm props c) as [mp|e|kd] eqn:Hl; try discriminate.
    + apply (IH _ _ _ H). intros name mp' Hlk.
      apply alookup_app_single in Hlk as [Hlk|[_ <-]]; [exact (Hall _ _ Hlk)|].
      eapply infer_class_local_nodup; exact Hl.
    + apply (IH _ _ _ H Hall).
Qed.

(** ** The composition over the whole hierarchy *)

Definition parents_closed_c (cs : list class) : Prop :=
  forall c p, In c cs -> In p (c_parents c) -> In p (map c_name cs).
Definition parents_closed_cp (cps : list cprim) : Prop :=
  forall cp p, In cp cps -> In p (cp_parents cp) -> In p (map cp_name cps).

(** [infer_stack_exact] — the induction over the topological order: whenever
    [infer_constraints_by_class] returns constraints, then (1) the constraints that a
    constrained primitive contributes are the conjunction of the per-primitive results
    of the first pass over the primitive and all its ancestors, and (2) the constraints
    of a class on a value (property, nesting level) are the conjunction of the per-class
    results of the first pass over the class and all its ancestors. *)
Theorem infer_stack_exact : forall m res,
  infer m = Ok res ->
  NoDup (map cp_name (m_cprims m)) -> topo (m_cprims m) -> parents_closed_cp (m_cprims m) ->
  NoDup (map c_name (m_classes m)) -> ctopo (m_classes m) -> parents_closed_c (m_classes m) ->
  exists cplocal cpm pt local,
    cprims_pass1 (m_patterns m) (m_cprims m) [] 0 = Ok cplocal
    /\ cprims_pass2 (m_cprims m) cplocal 0 = Ok cpm
    /\ props_table (m_classes m) [] = Ok pt
    /\ classes_pass1 m cpm pt (m_classes m) [] 0 = Ok local
    /\ (forall cp, In cp (m_cprims m) ->
        forall v, holds_opt (alookup (cp_name cp) cpm) v
                  <-> (forall a, cp_ancestor_or_self (m_cprims m) (cp_name cp) a ->
                                 holds_opt (alookup a cplocal) v))
    /\ (forall c, In c (m_classes m) ->
        forall k v, holds_opt (look res (c_name c) k) v
                    <-> (forall a, c_ancestor_or_self (m_classes m) (c_name c) a ->
                                   holds_opt (look local a k) v)).
Proof.
  intros m res H Hnd1 Ht1 Hc1 Hnd2 Ht2 Hc2. unfold infer, infer_cprims, bind in H.
  destruct (cprims_pass1 (m_patterns m) (m_cprims m) [] 0) as [cplocal|e|kd] eqn:H1;
    try discriminate.
  destruct (cprims_pass2 (m_cprims m) cplocal 0) as [cpm|e|kd] eqn:H2; try discriminate.
  destruct (props_table (m_classes m) []) as [pt|e|kd] eqn:H3; try discriminate.
  destruct (classes_pass1 m cpm pt (m_classes m) [] 0) as [local|e|kd] eqn:H4; try discriminate.
  exists cplocal, cpm, pt, local.
  split; [first [reflexivity | assumption]|]. split; [first [reflexivity | assumption]|].
  split; [first [reflexivity | assumption]|]. split; [first [reflexivity | assumption]|].
  split.
  - intros cp Hcp. exact (cprims_stack_exact (m_cprims m) cplocal cpm H2 Hnd1 Ht1 Hc1 cp Hcp).
  - intros c Hc.
    apply (classes_stack_exact (m_classes m) local res H Hnd2 Ht2); try assumption.
    eapply classes_pass1_nodup; [exact H4 | intros name mp Hl; discriminate].
Qed.

(** ** Non-vacuity of the hypotheses of [infer_stack_exact] *)
Open Scope Z_scope.
Definition stack_example : mmodel :=
  let lens := ECall len_id [EName self_id] in
  let P0 := mk_cprim [80%N; 48%N] PStr [] [ECmp Le lens (EInt 10)] in
  let P1 := mk_cprim [80%N; 49%N] PStr [[80%N; 48%N]] [ECmp Ge lens (EInt 1)] in
  let P2 := mk_cprim [80%N; 50%N] PStr [[80%N; 49%N]] [ECmp Ge lens (EInt 2)] in
  let C0 := mk_class [67%N; 48%N] [] [([98%N], TOur [80%N; 50%N])] [] in
  let C1 := mk_class [67%N; 49%N] [[67%N; 48%N]] []
                     [ECmp Lt (ECall len_id [EMember (EName self_id) [98%N]]) (EInt 8)] in
  mk_mmodel [] [] [] [P0; P1; P2] [C0; C1].

Lemma stack_example_wf :
  NoDup (map cp_name (m_cprims stack_example)) /\ topo (m_cprims stack_example)
  /\ parents_closed_cp (m_cprims stack_example)
  /\ NoDup (map c_name (m_classes stack_example)) /\ ctopo (m_classes stack_example)
  /\ parents_closed_c (m_classes stack_example).
Proof.
  unfold parents_closed_cp, parents_closed_c. repeat split.
  all: cbn in *; intros;
    repeat (match goal with
            | H : _ \/ _ |- _ => destruct H
            | H : False |- _ => contradiction
            | H : ?x = _ |- _ => is_var x; subst x
            | H : _ = ?x |- _ => is_var x; subst x
            end; cbn in *);
    try (repeat constructor; cbn; intuition discriminate);
    try (intuition discriminate); auto 10.
Qed.
