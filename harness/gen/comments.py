"""C20: hostile texts for the comment/docstring wrappers, and real-parser oracles."""
from __future__ import annotations

import ast
import itertools
import os
import pathlib
import re
import shutil
import subprocess
import tempfile
import xml.dom.minidom
from concurrent.futures import ThreadPoolExecutor
from typing import Dict, List, Optional, Sequence

PIECES = [
    '"', '""', '"""', '""""', "\\", "\\\\", '\\"', "*/", "/*", "*", "/", "**/", "*\\/",
    "\\u", "\\u002a", "\\uu002f", "\\\\u002a/", "\\user", "\\u002a\\u002f", "\\N{x}",
    "]]>", "]]", "&", "<", ">", "&amp;", "&#1;", "&lt", "'", "`", "``", "``x`", "</summary>",
    "<!--", "-->", "<![CDATA[", "??/", "?\\", "//", "///", "#", "#:", "\n", "\n\n", "\r\n",
    "\r", "\x0b", "\x0c", "\x1c", "\x1d", "\x1e", "\x85", "\u2028", "\u2029", " ", "  ", "\t",
    "\xa0", "\u3000", "a", "word", "The", "x" * 75, "y" * 130, "\U0001F600", "\xe9", "\x01",
    "\x7f", "\ufffe", "\x1f", "{", "}", "${x}", "%s", "$", "\\ ", "\\\t", "\\\n", " \\",
    "u", "u002f", "0", ";", "=", "\\0",
]
RARE = ["\x00", "\ud800", "\udfff"]

SMALL_ALPHABET = ['"', "\\", "a", "\n", "*", "/", " ", "u"]


def random_texts(rng, n: int) -> List[str]:
    out = []
    for _ in range(n):
        k = rng.choice([1, 1, 2, 2, 3, 4, 5, 7, 10, 14])
        pool = PIECES + (RARE if rng.random() < 0.05 else [])
        parts = [rng.choice(pool) for _ in range(k)]
        t = "".join(parts)
        r = rng.random()
        if r < 0.5:
            t = t.strip()          # the callers pass Stripped texts
        elif r < 0.6:
            t = t + rng.choice(['"', "\\", "*/", '""', " \\", "\\ "])
        out.append(t)
    return out


def exhaustive_texts(maxlen: int):
    for n in range(0, maxlen + 1):
        for tup in itertools.product(SMALL_ALPHABET, repeat=n):
            yield "".join(tup)


def encodable(t: str) -> bool:
    return "\x00" not in t and not any(0xD800 <= ord(c) <= 0xDFFF for c in t)


# ---------------------------------------------------------------- real parsers
def py_docstring_ok(out: str) -> Optional[bool]:
    """The emitted docstring, placed as the first statement of a function body, is
    exactly one string-constant expression statement."""
    if not encodable(out):
        return None
    src = "def f():\n    " + out + "\n    return 1\n"
    try:
        m = ast.parse(src)
    except SyntaxError:
        return False
    except ValueError:
        return None
    body = m.body[0].body if len(m.body) == 1 and isinstance(m.body[0], ast.FunctionDef) else None
    return bool(body is not None and len(body) == 2 and isinstance(body[0], ast.Expr)
                and isinstance(body[0].value, ast.Constant) and isinstance(body[0].value.value, str)
                and isinstance(body[1], ast.Return))


def py_comment_ok(out: str) -> Optional[bool]:
    if not encodable(out):
        return None
    src = out + "\nX = 1\n"
    try:
        m = ast.parse(src)
    except SyntaxError:
        return False
    except ValueError:
        return None
    return len(m.body) == 1 and isinstance(m.body[0], ast.Assign)


def xml_text_ok(out: str) -> Optional[bool]:
    if not encodable(out):
        return None
    try:
        xml.dom.minidom.parseString(("<r>" + out + "</r>").encode("utf-8"))
        return True
    except Exception:
        return False


def xml_attr_ok(out: str) -> Optional[bool]:
    if not encodable(out):
        return None
    try:
        xml.dom.minidom.parseString(("<r a=" + out + "/>").encode("utf-8"))
        return True
    except Exception:
        return False


def _run(cmd, cwd=None, timeout=600):
    p = subprocess.run(cmd, cwd=cwd, stdout=subprocess.PIPE, stderr=subprocess.STDOUT,
                       timeout=timeout)
    return p.returncode, p.stdout.decode("utf-8", "replace")


def javac_ok(work: pathlib.Path, outs: Sequence[str]) -> List[Optional[bool]]:
    """One javac run over one source file per case (comment followed by a class)."""
    d = pathlib.Path(tempfile.mkdtemp(prefix="javac-", dir=work))
    res: List[Optional[bool]] = [None] * len(outs)
    files = []
    for i, o in enumerate(outs):
        if not encodable(o):
            continue
        (d / f"A{i}.java").write_bytes((o + f"\nclass A{i} {{ int x; }}\n").encode("utf-8"))
        files.append(f"A{i}.java")
        res[i] = True
    for k in range(0, len(files), 500):
        chunk = files[k:k + 500]
        (d / "args.txt").write_text("\n".join(chunk))
        rc, log = _run(["javac", "-proc:none", "-encoding", "UTF-8", "-Xmaxerrs", "100000",
                        "-d", str(d / "out"), "@args.txt"], cwd=d)
        if rc != 0:
            bad = set(int(x) for x in re.findall(r"^A(\d+)\.java:\d+: error", log, re.M))
            if not bad:
                raise RuntimeError("javac failed without a file-level error:\n" + log[-2000:])
            for i in bad:
                res[i] = False
    shutil.rmtree(d, ignore_errors=True)
    return res


def _each_file(work, outs, suffix, make_src, cmd):
    d = pathlib.Path(tempfile.mkdtemp(prefix="syn-", dir=work))
    res: List[Optional[bool]] = [None] * len(outs)
    jobs = []
    for i, o in enumerate(outs):
        if not encodable(o):
            continue
        p = d / f"c{i}{suffix}"
        p.write_bytes(make_src(o).encode("utf-8"))
        jobs.append((i, p))

    def one(job):
        i, p = job
        rc, _ = _run(cmd + [str(p)], cwd=d, timeout=900)
        return i, rc == 0

    with ThreadPoolExecutor(max_workers=min(16, os.cpu_count() or 1)) as ex:
        for i, ok in ex.map(one, jobs):
            res[i] = ok
    shutil.rmtree(d, ignore_errors=True)
    return res


def gpp_ok(work, outs):
    """g++ -fsyntax-only: the comment followed by a struct and a use of the struct (so a
    swallowed line is an error)."""
    return _each_file(work, outs, ".cpp", lambda o: o + "\nstruct A { int x; };\nA a;\n",
                      ["g++", "-std=gnu++11", "-fsyntax-only", "-w"])


def gpp_tree_ok(work, files: Dict[str, str], names: Sequence[str]) -> Dict[str, Optional[bool]]:
    """g++ -fsyntax-only on generated C++ files that need no external header: the whole
    output tree is materialised and ``include/`` is on the include path."""
    d = pathlib.Path(tempfile.mkdtemp(prefix="cpptree-", dir=work))
    for rel, text in files.items():
        if isinstance(text, str) and encodable(text):
            p = d / rel
            p.parent.mkdir(parents=True, exist_ok=True)
            p.write_bytes(text.encode("utf-8"))
    res: Dict[str, Optional[bool]] = {}
    for rel in names:
        if not (d / rel).exists():
            res[rel] = None
            continue
        rc, log = _run(["g++", "-std=gnu++17", "-fsyntax-only", "-w", "-I", "include", "-x", "c++", rel],
                       cwd=d, timeout=300)
        if rc != 0 and "No such file or directory" in log:
            res[rel] = None          # needs an external header after all
        else:
            res[rel] = rc == 0
    shutil.rmtree(d, ignore_errors=True)
    return res


def node_ok(work, outs):
    """node --check: the block comment inside an array literal followed by a statement."""
    return _each_file(work, outs, ".js", lambda o: "var X = [\n" + o + "\n];\nvar Y = 1;\n",
                      ["node", "--check"])


# ---------------------------------------------------------------- lexers (ports of Model/Comments.v;
# the check compares their verdicts with the Coq functions on every unit case)
def lex_triple_body(t: str, i: int = 0) -> Optional[int]:
    """Index just after the closing quotes of a triple-quoted string body starting at i."""
    n = len(t)
    while i < n:
        c = t[i]
        if c == "\\":
            if i + 1 >= n:
                return None
            i += 2
        elif c == '"':
            if t.startswith('"""', i):
                return i + 3
            i += 1
        else:
            i += 1
    return None


def lex_py_triple_closed(out: str) -> bool:
    return out.startswith('"""') and lex_triple_body(out, 3) == len(out)


def lex_block_comment_closed(out: str) -> bool:
    if not out.startswith("/*"):
        return False
    j = out.find("*/", 2)
    return j >= 0 and j + 2 == len(out)


def java_unescape(t: str) -> Optional[str]:
    res = []
    i, n = 0, len(t)
    eligible = True
    while i < n:
        c = t[i]
        if c == "\\":
            if eligible and i + 1 < n and t[i + 1] == "u":
                j = i + 1
                while j < n and t[j] == "u":
                    j += 1
                hexd = t[j:j + 4]
                if len(hexd) < 4 or not all(h in "0123456789abcdefABCDEF" for h in hexd):
                    return None
                res.append(chr(int(hexd, 16)))
                i = j + 4
                eligible = True
            else:
                res.append(c)
                eligible = not eligible
                i += 1
        else:
            res.append(c)
            eligible = True
            i += 1
    return "".join(res)


def java_block_comment_closed(out: str) -> bool:
    u = java_unescape(out)
    return u is not None and lex_block_comment_closed(u)


NL = {
    "python": "\n\r", "cpp": "\n\r", "go": "\n", "csharp": "\n\r\x85\u2028\u2029",
    "js": "\n\r\u2028\u2029", "java": "\n\r",
}


def strip_line_comments(marker: str, nls: str, splice: bool, t: str) -> str:
    res = []
    st = 0  # 0 code, 1 line, 2 line after backslash
    i, n = 0, len(t)
    while i < n:
        c = t[i]
        if st == 0:
            if t.startswith(marker, i):
                st = 1
                i += len(marker)
                continue
            res.append(c)
        elif st == 1:
            if c in nls:
                res.append(c)
                st = 0
            elif splice and c == "\\":
                st = 2
        else:
            if c in nls:
                st = 1
            elif c == "\\" or c in " \t\x0b\x0c":
                st = 2
            else:
                st = 1
        i += 1
    return "".join(res)


def line_comment_safe(marker: str, lang: str, splice: bool, out: str) -> bool:
    """Only newlines of the comment survive and the code after it is still code."""
    s = strip_line_comments(marker, NL[lang], splice, out + "\nX")
    return s.endswith("X") and all(c == "\n" for c in s[:-1])


def xml_char_ok(c: str) -> bool:
    o = ord(c)
    return o in (9, 10, 13) or 32 <= o <= 0xD7FF or 0xE000 <= o <= 0xFFFD or 0x10000 <= o <= 0x10FFFF


_ENT = re.compile(r"(amp;|lt;|gt;|quot;|apos;|#[0-9]+;)")


def _entity_ok(t: str, i: int) -> bool:
    return _ENT.match(t, i) is not None


def xml_chardata_ok(t: str) -> bool:
    for i, c in enumerate(t):
        if not xml_char_ok(c) or c == "<":
            return False
        if c == "&" and not _entity_ok(t, i + 1):
            return False
        if t.startswith("]]>", i):
            return False
    return True


def xml_attr_ok_lex(t: str) -> bool:
    if not t or t[0] not in "\"'":
        return False
    q = t[0]
    for i in range(1, len(t)):
        c = t[i]
        if c == q:
            return i == len(t) - 1
        if not xml_char_ok(c) or c == "<":
            return False
        if c == "&" and not _entity_ok(t, i + 1):
            return False
    return False


LEXERS = {
    "py_docstring": lex_py_triple_closed,
    "py_doc": lambda o: line_comment_safe("#", "python", False, o),
    "ts_doc": lex_block_comment_closed,
    "java_doc": java_block_comment_closed,
    "cpp_doc": lambda o: line_comment_safe("//", "cpp", True, o),
    "go_doc": lambda o: line_comment_safe("//", "go", False, o),
    "cpp_nondoc": lambda o: line_comment_safe("//", "cpp", True, o),
    "cs_doc": lambda o: line_comment_safe("//", "csharp", False, o),
    "xml_escape": xml_chardata_ok,
    "xml_quoteattr": xml_attr_ok_lex,
}


# ---------------------------------------------------------------- whole-file skeleton lexers
# (comments / string / char literals only) for the C-like targets. They return
# (errors, code) where ``code`` is the source with comments removed and literals blanked.
def lex_clike(src: str, lang: str):
    errors: List[str] = []
    if lang == "java":
        u = java_unescape(src)
        if u is None:
            return ["illegal unicode escape"], ""
        src = u
    nls = NL["js" if lang == "typescript" else {"golang": "go"}.get(lang, lang)]
    # ES2019: U+2028/U+2029 may occur raw inside string literals (node accepts them)
    str_nls = "\n\r" if lang == "typescript" else nls
    out: List[str] = []
    i, n = 0, len(src)

    def line_of(k):
        return src.count("\n", 0, k) + 1

    def skip_string(k: int, q: str, multiline: bool, escapes: bool = True) -> int:
        """k = index after the opening quote; returns index after the closing quote."""
        while k < n:
            c = src[k]
            if escapes and c == "\\":
                k += 2
                continue
            if c == q:
                return k + 1
            if not multiline and c in str_nls:
                errors.append(f"line {line_of(k)}: unterminated {q} literal")
                return k
            k += 1
        errors.append(f"unterminated {q} literal at end of file")
        return n

    def skip_template(k: int) -> int:
        # JS template literal, k after the back-tick
        while k < n:
            c = src[k]
            if c == "\\":
                k += 2
            elif c == "`":
                return k + 1
            elif c == "$" and k + 1 < n and src[k + 1] == "{":
                k = skip_braced(k + 2)
            else:
                k += 1
        errors.append("unterminated template literal")
        return n

    def skip_braced(k: int) -> int:
        # code inside ${ } or { } of an interpolated string; k after the opening brace
        depth = 1
        while k < n and depth > 0:
            c = src[k]
            if c == "{":
                depth += 1
                k += 1
            elif c == "}":
                depth -= 1
                k += 1
            elif c == '"':
                k = skip_string(k + 1, '"', False)
            elif c == "'" and lang == "typescript":
                k = skip_string(k + 1, "'", False)
            elif c == "`" and lang == "typescript":
                k = skip_template(k + 1)
            else:
                k += 1
        return k

    def skip_interpolated(k: int, verbatim: bool) -> int:
        # C# $"..." ; k after the opening quote
        while k < n:
            c = src[k]
            if c == "{":
                if k + 1 < n and src[k + 1] == "{":
                    k += 2
                else:
                    k = skip_braced(k + 1)
            elif verbatim and c == '"' and k + 1 < n and src[k + 1] == '"':
                k += 2
            elif not verbatim and c == "\\":
                k += 2
            elif c == '"':
                return k + 1
            elif not verbatim and c in nls:
                errors.append(f"line {line_of(k)}: unterminated interpolated string")
                return k
            else:
                k += 1
        errors.append("unterminated interpolated string")
        return n

    while i < n:
        c = src[i]
        two = src[i:i + 2]
        if two == "//":
            j = i + 2
            while j < n:
                if lang == "cpp" and src[j] == "\\":
                    k = j + 1
                    while k < n and src[k] in " \t\x0b\x0c":
                        k += 1
                    if k < n and src[k] in nls:
                        # spliced: the next physical line belongs to the comment
                        nxt = src[k + 1:].lstrip(" \t")
                        if not nxt.startswith("//"):
                            errors.append(f"line {line_of(j)}: line comment spliced onto a code line")
                        j = k + 1
                        continue
                if src[j] in nls:
                    break
                j += 1
            i = j
        elif two == "/*":
            j = src.find("*/", i + 2)
            if j < 0:
                errors.append(f"line {line_of(i)}: unterminated block comment")
                break
            out.append(" ")
            i = j + 2
        elif c == '"':
            if lang == "java" and src.startswith('"""', i):
                j = src.find('"""', i + 3)
                if j < 0:
                    errors.append("unterminated text block")
                    break
                i = j + 3
            elif lang == "cpp" and i > 0 and src[i - 1] == "R":
                m = re.match(r'"([^()\\ \n]{0,16})\(', src[i:])
                if not m:
                    errors.append(f"line {line_of(i)}: malformed raw string")
                    break
                end = ")" + m.group(1) + '"'
                j = src.find(end, i)
                if j < 0:
                    errors.append("unterminated raw string")
                    break
                i = j + len(end)
            elif lang == "csharp" and i > 0 and src[i - 1] in "@$":
                prefix = src[max(0, i - 2):i]
                verbatim = "@" in prefix
                if "$" in prefix:
                    i = skip_interpolated(i + 1, verbatim)
                else:
                    k = i + 1
                    while k < n:
                        if src[k] == '"':
                            if k + 1 < n and src[k + 1] == '"':
                                k += 2
                                continue
                            break
                        k += 1
                    if k >= n:
                        errors.append("unterminated verbatim string")
                    i = k + 1
            else:
                i = skip_string(i + 1, '"', False)
            out.append('""')
        elif c == "'":
            if lang == "typescript":
                i = skip_string(i + 1, "'", False)
            else:
                m = re.match(r"'(\\.[^'\n]*|[^'\\\n])'", src[i:])
                if m:
                    i += m.end()
                elif lang == "cpp" and i > 0 and src[i - 1].isalnum():
                    i += 1          # digit separator
                else:
                    errors.append(f"line {line_of(i)}: malformed character literal")
                    i += 1
            out.append("''")
        elif c == "`" and lang == "typescript":
            i = skip_template(i + 1)
            out.append("``")
        elif c == "/" and lang == "typescript" and \
                ("".join(out).rstrip()[-1:] in ("", "(", ",", "=", ":", "[", "!", "&", "|", "?", "{", "}", ";")):
            # regular-expression literal (heuristic on the previous significant character)
            k = i + 1
            in_class = False
            while k < n and src[k] not in nls:
                if src[k] == "\\":
                    k += 2
                    continue
                if src[k] == "[":
                    in_class = True
                elif src[k] == "]":
                    in_class = False
                elif src[k] == "/" and not in_class:
                    break
                k += 1
            if k >= n or src[k] in nls:
                errors.append(f"line {line_of(i)}: unterminated regular expression literal")
            i = k + 1
            out.append("/r/")
        elif c == "`" and lang == "golang":
            j = src.find("`", i + 1)
            if j < 0:
                errors.append("unterminated raw string")
                break
            i = j + 1
            out.append("``")
        else:
            out.append(c)
            i += 1
    return errors, "".join(out)


LANG_OF_SUFFIX = {".java": "java", ".ts": "typescript", ".cs": "csharp", ".go": "golang",
                  ".cpp": "cpp", ".hpp": "cpp"}

PARSE_JAVA = r'''
import com.sun.source.util.JavacTask;
import javax.tools.*;
import java.nio.file.*;
import java.util.*;
public class ParseOnly {
  public static void main(String[] a) throws Exception {
    JavaCompiler c = ToolProvider.getSystemJavaCompiler();
    DiagnosticCollector<JavaFileObject> d = new DiagnosticCollector<>();
    StandardJavaFileManager fm = c.getStandardFileManager(d, null, java.nio.charset.StandardCharsets.UTF_8);
    List<String> files = Files.readAllLines(Paths.get(a[0]));
    JavacTask t = (JavacTask) c.getTask(null, fm, d, Arrays.asList("-proc:none"), null,
        fm.getJavaFileObjectsFromStrings(files));
    t.parse();
    for (Diagnostic<? extends JavaFileObject> x : d.getDiagnostics())
      if (x.getKind() == Diagnostic.Kind.ERROR)
        System.out.println("ERR\t" + (x.getSource() == null ? "?" : x.getSource().getName()) + "\t"
            + x.getLineNumber() + "\t" + x.getMessage(null).replace('\n', ' '));
    System.out.println("PARSED " + files.size());
  }
}
'''


def javac_parse_only(work: pathlib.Path, files: Dict[str, str]) -> Dict[str, str]:
    """Syntax errors (javac's own parser, no attribution) per file name."""
    d = pathlib.Path(tempfile.mkdtemp(prefix="jparse-", dir=work))
    (d / "ParseOnly.java").write_text(PARSE_JAVA)
    names = []
    for k, (name, text) in enumerate(files.items()):
        p = d / f"f{k}" / pathlib.Path(name).name
        p.parent.mkdir(parents=True)
        p.write_bytes(text.encode("utf-8", "surrogatepass"))
        names.append((str(p), name))
    (d / "files.txt").write_text("\n".join(p for p, _ in names))
    rc, log = _run(["java", "ParseOnly.java", "files.txt"], cwd=d, timeout=600)
    if "PARSED" not in log:
        raise RuntimeError("ParseOnly failed:\n" + log[-2000:])
    back = dict(names)
    errs: Dict[str, str] = {}
    for line in log.splitlines():
        if line.startswith("ERR\t"):
            _, path, ln, msg = line.split("\t", 3)
            errs.setdefault(back.get(path, path), f"line {ln}: {msg}")
    shutil.rmtree(d, ignore_errors=True)
    return errs


# ---------------------------------------------------------------- render stream: hostile text in
# every docutils construct the description renderers handle
P_TEXT = [  # reStructuredText SOURCE of paragraph text (a backslash is written twice)
    "a < b & c > d", "\"quoted\" and 'single'", "x*/y and /*z", "back\\\\slash", "]]> end",
    "\\\\u002a/ esc", "ends with quote \"", "ends with backslash \\\\", "&amp; &lt; &#1;",
    "<!-- c -->", "<c>tag</c>", "a\u2028b", "{@code x} @param y", "${x} #{y} %s", "it's",
    "</summary>", "a && b || c",
]
P_LIT = [  # content of an inline literal (taken verbatim by docutils)
    "a < b && c", "List<T>", "<something>", "x*/y", "/*x", "a\\b", "]]>", "\\u002a/", "\"q\"",
    "it's", "x\"", "x\\", "&amp;", "a}b", "*/", "</c>", "<!--", "a\u2028b", "&", "<",
]
P_EMPH = ["a < b & c", "\"q\"", "x/ y", "]]>", "it's", "<em>"]

RENDER_HEADER = '''from enum import Enum
from typing import List, Optional
from icontract import invariant, DBC
from aas_core_meta.marker import (
    abstract,
    serialization,
    implementation_specific,
    verification,
    constant_set,
    non_mutating,
)

__version__ = "V1"

__xml_namespace__ = "https://example.com/x"
'''


def render_model(block: str, field: Optional[str] = None, summary_only: bool = False,
                 sig_block: Optional[str] = None) -> str:
    """A minimal meta-model whose every description (meta-model, enumeration, literal,
    verification function with :param:/:returns:, constant, class, property) carries
    ``block`` (as the only paragraph when ``summary_only``)."""
    doc = block if summary_only else "Represent something.\n\n" + block
    body = sig_block if sig_block is not None else block
    sig = (body if summary_only else "Check the text.\n\n" + body) + \
        "\n\n:param text: " + (field or "to be checked") + "\n:returns: True if " + (field or "ok")
    return f'''{doc!r}
{RENDER_HEADER}

class Kind(Enum):
    {doc!r}

    A_value = "a"
    {doc!r}


@verification
@implementation_specific
def check_it(text: str) -> bool:
    {sig!r}
    raise NotImplementedError()


Some_constant: str = constant_str(value="x", description={doc!r})


class Something(DBC):
    {doc!r}

    some_property: str
    {doc!r}

    def __init__(self, some_property: str) -> None:
        self.some_property = some_property
'''


def render_cases(rng, extra: int = 0):
    """[(construct, payload, model text)] — deterministic cross product (+ ``extra`` random
    combinations of two constructs)."""
    cases = []

    def add(construct, payload, block, **kw):
        cases.append((construct, payload, render_model(block, **kw)))

    for p in P_TEXT:
        add("paragraph", p, f"Text {p} here.")
        add("paragraph-end", p, f"It says {p}")
        add("summary", p, f"It says {p}", summary_only=True)
        add("reference", p, f"See :class:`Something` {p} and :attr:`Something.some_property` "
                            f"and :const:`Some_constant`.",
            sig_block=f"See :paramref:`text` {p} and :class:`Something`.")
        add("bullet-list", p, f"* first {p}\n* second item")
        add("note", p, f".. note::\n\n    Mind {p} always.")
        add("field", p, "Plain remark.", field=f"the {p} value")
    for l in P_LIT:
        add("literal", l, f"Use ``{l}`` here.")
        add("literal-end", l, f"Use ``{l}``")
        add("literal-summary", l, f"``{l}``", summary_only=True)
        add("literal-in-list", l, f"* first item\n* second ``{l}``")
        add("literal-in-note", l, f".. note::\n\n    Mind ``{l}`` always.")
        add("literal-in-field", l, "Plain remark.", field=f"the ``{l}`` value")
        add("literal-after-reference", l, f"See :class:`Something` and ``{l}``.")
    for e in P_EMPH:
        add("emphasis", e, f"It is *{e}* here.")
        add("emphasis-in-list", e, f"* first *{e}*\n* second")
    for b in ("**strong <x>**", "1. first <x>\n2. second", "Quote:\n\n    quoted <x>",
              "Example::\n\n    code <x>", "`link <http://example.com/?a=1&b=2>`_",
              "`link <http://example.com/?a=1&b=2>`__", "http://example.com/?a=1&b=2 is a link."):
        add("other", b, b)
    for _ in range(extra):
        p, l, e = rng.choice(P_TEXT), rng.choice(P_LIT), rng.choice(P_EMPH)
        block = rng.choice([
            f"* {p}\n* ``{l}`` and *{e}*", f"Text {p} with ``{l}`` and *{e}*.",
            f".. note::\n\n    * ``{l}``\n    * {p}", f"``{l}`` {p} ``{l}``",
        ])
        add("mixed", f"{p} | {l} | {e}", block, field=f"``{l}`` {p}")
    return cases


def csharp_block_xml_error(comment: str) -> Optional[str]:
    """The /// block, prefixes removed and wrapped in a root element, parsed by expat."""
    lines = []
    for line in comment.split("\n"):
        st = line.lstrip(" \t")
        if not st.startswith("///"):
            return f"line without /// prefix: {line[:60]!r}"
        lines.append(st[3:])
    if not encodable(comment):
        return None
    try:
        xml.dom.minidom.parseString(("<root>" + "\n".join(lines) + "</root>").encode("utf-8"))
        return None
    except Exception as e:
        return str(e)


# ---------------------------------------------------------------- f-string stream: interpolated
# patterns / invariants whose literal parts mix quotes, braces, backslashes, newline escapes
def _fsrc(parts) -> str:
    """Source text of a double-quoted f-string: str parts are literal text, tuples ("v", name)
    are formatted values."""
    out = ['f"']
    for p in parts:
        if isinstance(p, tuple):
            out.append("{" + p[1] + "}")
        else:
            for c in p:
                out.append({"\\": "\\\\", '"': '\\"', "\n": "\\n", "\t": "\\t", "\r": "\\r",
                            "{": "{{", "}": "}}"}.get(c, c))
    out.append('"')
    return "".join(out)


W = ("v", "word")
# literal parts of the patterns, as REGEX text. Quote mixes cover: no quote, only ', only ",
# equal numbers, more ' than ", more " than ', three in a row; braces come from quantifiers;
# backslashes from regex escapes; \n / \t are real control characters inside the pattern.
FSTRING_PATTERNS = [
    ("q0", ["^x", W, "-", W, "$"]),
    ("s1", ["^'", W, "$"]),
    ("d1", ['^"', W, "$"]),
    ("s1d1", ["^('", W, '|"', W, '")$']),           # seeded C20-3 shape: ' <= " -> f'...'
    ("s1d1-adjacent", ["^'", W, '"$']),
    ("s2d1", ["^'", W, "'\"x$"]),
    ("s1d2", ['^"', W, "\"'x$"]),
    ("s2d2", ["^'\"", W, "\"'$"]),
    ("s3", ["^'''", W, "$"]),
    ("d3", ['^"""', W, "$"]),
    ("s3d3", ["^'''", W, '"""$']),
    ("brace", ["^[a-z]{2,3}", W, "x{2}$"]),
    ("brace-s1d1", ["^'[a-z]{2}", W, '"{3}$']),
    ("brace-d2s1", ['^"{2}', W, "'x{1,2}$"]),
    ("backslash", ["^\\.", W, "\\\\x$"]),
    ("backslash-s1d1", ["^\\.'", W, '\\\\"$']),
    ("backslash-quote-end", ["^", W, "\\\\'$"]),
    ("newline", ["^a\nb", W, "\tc$"]),
    ("newline-s1d1", ["^'\n", W, '\t"$']),
    ("escape-n", ["^a\\nb", W, "c\\t$"]),
    ("two-values-s1d2", ["^", W, "'", ("v", "other"), '""$']),
    ("value-first-last", ["^", W, "'x\"", W, "$"]),
    ("dollar-brace", ["^\\$\\{", W, "\\}'\"$"]),
    ("unicode", ["^\u00e9'", W, '"\U0001F600$']),
]

FSTRING_HEADER = '''"""Provide a meta-model with interpolated patterns."""
from enum import Enum
from re import match
from typing import List, Optional
from icontract import invariant, DBC
from aas_core_meta.marker import (
    abstract,
    serialization,
    implementation_specific,
    verification,
    constant_set,
    non_mutating,
)

__version__ = "V1"

__xml_namespace__ = "https://example.com/x"
'''

FSTRING_SNIPPETS = {
    "cpp": {"namespace.txt": "dummy::fstr"}, "csharp": {"namespace.txt": "Dummy.Fstr"},
    "golang": {"repo_url.txt": "github.com/dummy-works/fstr"}, "java": {"package.txt": "dummy.fstr"},
    "python": {"qualified_module_name.txt": "dummy_fstr"},
    "typescript": {"package_identifier.txt": "@dummy-works/fstr",
                   "package_documentation.txt": "Provide a dummy SDK."},
}


S = ("v", "self.other")
# f-strings in invariants (general transpilation, not the pattern path). Literal parts must
# not start or end with white space: the transpilers pass them through Stripped(..).
FSTRING_INVARIANTS = [
    ("inv-s1d1", ["'", S, '"']),
    ("inv-s1d2-brace", ["it's", S, '"q"{x}']),
    ("inv-s2d1", ['"', S, "''"]),
    ("inv-backslash-newline", ["a\\b'", S, '"\nz']),
    ("inv-s1d1-two", ["('", S, '|"', S, '")']),
    ("inv-d3", ['"""', S, "x"]),
]


def fstring_model(patterns, invariants=()) -> str:
    """One pattern verification function + one constrained primitive per pattern, and a class
    that uses all of them."""
    out = [FSTRING_HEADER]
    props = []
    for k, (label, parts) in enumerate(patterns):
        out.append(f'''
@verification
def matches_p{k}(text: str) -> bool:
    """Check that :paramref:`text` matches the pattern {k}."""
    word = "[a-z]+"
    other = "[0-9]"
    pattern = {_fsrc(parts)}
    return match(pattern, text) is not None


@invariant(lambda self: matches_p{k}(self), "Must match the pattern {k}")
class Text_p{k}(str, DBC):
    """Represent a text matching the pattern {k}."""
''')
        props.append(f"text_p{k}")
    for k, (label, parts) in enumerate(invariants):
        out.append(f'''

@invariant(lambda self: self.name != {_fsrc(parts)}, "Name must differ from the text {k}")''')
    if invariants:
        out.append('''
class Named(DBC):
    """Represent something named."""

    name: str
    """Name"""

    other: str
    """Other"""

    def __init__(self, name: str, other: str) -> None:
        self.name = name
        self.other = other
''')
    if not props:
        return "".join(out)
    out.append('\n\nclass Something(DBC):\n    """Represent something."""\n')
    for k, p in enumerate(props):
        out.append(f'\n    {p}: Text_p{k}\n    """Text {k}"""\n')
    args = ", ".join(f"{p}: Text_p{k}" for k, p in enumerate(props))
    out.append(f"\n    def __init__(self, {args}) -> None:\n")
    for p in props:
        out.append(f"        self.{p} = {p}\n")
    return "".join(out)
