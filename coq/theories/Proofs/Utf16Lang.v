(** C17 — the rewritten tree matches the UTF-16 encoding of a string exactly when the
    original tree matches the string (simulation between matching over code points and
    matching over code units), and the rewriting is total on front-end output. *)
From Coq Require Import List NArith Bool Arith Lia ZifyBool.
From Acg Require Import Base.Outcome Model.Utf16Tree Model.Utf16Fix
  Proofs.Utf16Sem Proofs.Utf16Arith.
Import ListNotations.
Open Scope N_scope.

(* ------------------------------------------------------------ small facts *)
Lemma scalar_not_hi : forall x, scalar x = true -> is_hi x = false.
Proof. intros x H. unfold scalar, is_hi, PLANE_END in *. lia. Qed.

Lemma scalar_astral : forall x, scalar x = true -> x <? PLANE_START = false -> astral x = true.
Proof. intros x H1 H2. unfold scalar, astral, PLANE_START, PLANE_END in *. lia. Qed.

Lemma enc16_cons : forall x w, enc16 (x :: w) = units x ++ enc16 w.
Proof. reflexivity. Qed.

Lemma units_nonempty : forall x, units x <> [].
Proof. intros x. unfold units. destruct (x <? PLANE_START); discriminate. Qed.

Lemma enc16_nil_inv : forall w, enc16 w = [] -> w = [].
Proof.
  intros [|x w] H; auto. rewrite enc16_cons in H. apply app_eq_nil in H.
  destruct H as [H _]. exfalso. exact (units_nonempty x H).
Qed.

Lemma bool_eq_iff : forall a b : bool, (a = true <-> b = true) -> a = b.
Proof. intros [|] [|] H; auto; try (symmetry; apply H; reflexivity); apply H; reflexivity. Qed.

(* --------------------------------------------------------- the simulation *)
Definition phi (s : st) : st := (fst s, enc16 (snd s)).

Section Sim.
Variable aa : bool.   (* may the string contain supplementary characters? *)

Definition cp_ok (x : N) : Prop :=
  scalar x = true /\ (aa = false -> x <? PLANE_START = true).

Definition strok (w : list N) : Prop := Forall cp_ok w.

Definition sim (R R' : rel) : Prop :=
  advancing R /\
  forall s, strok (snd s) ->
    (forall s', R s s' -> R' (phi s) (phi s')) /\
    (forall z, R' (phi s) z -> exists s', z = phi s' /\ R s s').

Lemma sim_req : forall R S R' S', req R S -> req R' S' -> sim R R' -> sim S S'.
Proof.
  intros R S R' S' H1 H2 (HA & H). split.
  - intros s s' HS. apply HA. apply H1. exact HS.
  - intros s Hs. destruct (H s Hs) as (A & B). split.
    + intros s' HS. apply H2. apply A. apply H1. exact HS.
    + intros z HZ. apply H2 in HZ. destruct (B z HZ) as (s' & E & HR).
      exists s'. split; auto. apply H1. exact HR.
Qed.

Lemma sim_eq : sim eq eq.
Proof.
  split.
  - intros s s' <-. apply adv_refl.
  - intros s _. split.
    + intros s' <-. reflexivity.
    + intros z <-. exists s. auto.
Qed.

Lemma sim_comp : forall R1 R2 R1' R2',
  sim R1 R1' -> sim R2 R2' -> sim (comp R1 R2) (comp R1' R2').
Proof.
  intros R1 R2 R1' R2' (A1 & H1) (A2 & H2). split.
  - apply comp_adv; assumption.
  - intros s Hs. destruct (H1 s Hs) as (F1 & B1). split.
    + intros s' (m & X & Y). exists (phi m). split; [apply F1; exact X|].
      assert (Hm : strok (snd m)) by (eapply adv_forall; [apply A1; exact X|exact Hs]).
      apply (H2 m Hm). exact Y.
    + intros z (z1 & X & Y). destruct (B1 z1 X) as (m & -> & XR).
      assert (Hm : strok (snd m)) by (eapply adv_forall; [apply A1; exact XR|exact Hs]).
      destruct (H2 m Hm) as (_ & B2). destruct (B2 z Y) as (s' & -> & YR).
      exists s'. split; auto. exists m. auto.
Qed.

Lemma sim_or : forall R1 R2 R1' R2',
  sim R1 R1' -> sim R2 R2' ->
  sim (fun s s' => R1 s s' \/ R2 s s') (fun s s' => R1' s s' \/ R2' s s').
Proof.
  intros R1 R2 R1' R2' (A1 & H1) (A2 & H2). split.
  - intros s s' [H|H]; auto.
  - intros s Hs. destruct (H1 s Hs) as (F1 & B1). destruct (H2 s Hs) as (F2 & B2). split.
    + intros s' [H|H]; auto.
    + intros z [H|H].
      * destruct (B1 z H) as (s' & E & X). exists s'. auto.
      * destruct (B2 z H) as (s' & E & X). exists s'. auto.
Qed.

Lemma sim_false : sim (fun _ _ => False) (fun _ _ => False).
Proof.
  split.
  - intros s s' [].
  - intros s _. split; [intros s' []|intros z []].
Qed.

Lemma sim_pow : forall R R' n, sim R R' -> sim (pow R n) (pow R' n).
Proof.
  intros R R' n H. induction n as [|n IH]; cbn [pow].
  - apply sim_eq.
  - apply sim_comp; assumption.
Qed.

Lemma sim_iter : forall R R' q, sim R R' -> sim (iter R q) (iter R' q).
Proof.
  intros R R' q H. split.
  - apply (mq_adv (Some q)). apply H.
  - intros s Hs. split.
    + intros s' (n & A & B & P). exists n. repeat split; auto.
      destruct (sim_pow R R' n H) as (_ & HP). apply (HP s Hs). exact P.
    + intros z (n & A & B & P). destruct (sim_pow R R' n H) as (_ & HP).
      destruct (HP s Hs) as (_ & BK). destruct (BK z P) as (s' & E & X).
      exists s'. split; auto. exists n. auto.
Qed.

Lemma sim_mq : forall q R R', sim R R' -> sim (mq q R) (mq q R').
Proof. intros [q|] R R' H; cbn [mq]; auto using sim_iter. Qed.

(** two code units at once *)
Definition pairrel (P : N -> N -> bool) : rel := fun s z =>
  exists h l r, snd s = h :: l :: r /\ P h l = true /\ z = (false, r).

(** An atom over code points against "one unit by [p1] or a pair by [P]". *)
Lemma sim_atom : forall (p p1 : N -> bool) (P : N -> N -> bool),
  (forall h l, P h l = true -> is_hi h = true) ->
  (forall x, cp_ok x -> x <? PLANE_START = true -> p x = p1 x) ->
  (forall x, cp_ok x -> x <? PLANE_START = false ->
     p1 (hi_of x) = false /\ p x = P (hi_of x) (lo_of x)) ->
  sim (atom (eat p)) (fun s z => atom (eat p1) s z \/ pairrel P s z).
Proof.
  intros p p1 P HP Hb Ha. split; [apply eat_adv|].
  intros [b ws] Hs. cbn [snd] in Hs. unfold phi. cbn [fst snd]. split.
  - intros s' H. unfold atom, eat in H. cbn [snd] in H.
    destruct ws as [|x w]; [destruct H|].
    inversion Hs as [|? ? Hx Hw]; subst.
    destruct (p x) eqn:Epx; [|destruct H]. destruct H as [<-|[]]. cbn [fst snd].
    rewrite enc16_cons. destruct (x <? PLANE_START) eqn:Ex.
    + left. rewrite (units_bmp x Ex). unfold atom, eat. cbn [snd app].
      rewrite <- (Hb x Hx Ex), Epx. left. reflexivity.
    + right. rewrite (units_astral x Ex). destruct (Ha x Hx Ex) as (_ & E).
      exists (hi_of x), (lo_of x), (enc16 w). cbn [snd app]. repeat split; auto.
      rewrite <- E. exact Epx.
  - intros z H. destruct ws as [|x w].
    + exfalso. cbn in H. destruct H as [H|(h & l & r & E & _)]; [exact H|discriminate].
    + inversion Hs as [|? ? Hx Hw]; subst. rewrite enc16_cons in H.
      destruct (x <? PLANE_START) eqn:Ex.
      * rewrite (units_bmp x Ex) in H. cbn [app] in H. destruct H as [H|(h & l & r & E & PH & _)].
        -- unfold atom, eat in H. cbn [snd] in H. destruct (p1 x) eqn:E1; [|destruct H].
           destruct H as [<-|[]]. exists (false, w). split; auto.
           unfold atom, eat. cbn [snd]. rewrite (Hb x Hx Ex), E1. left. reflexivity.
        -- exfalso. cbn [snd] in E. inversion E; subst. apply HP in PH.
           destruct Hx as (Hsc & _). rewrite (scalar_not_hi _ Hsc) in PH. discriminate.
      * rewrite (units_astral x Ex) in H. cbn [app] in H. destruct (Ha x Hx Ex) as (E1 & E2).
        destruct H as [H|(h & l & r & E & PH & ->)].
        -- exfalso. unfold atom, eat in H. cbn [snd] in H. rewrite E1 in H. destruct H.
        -- cbn [snd] in E. inversion E; subst. exists (false, w). split; auto.
           unfold atom, eat. cbn [snd]. rewrite E2, PH. left. reflexivity.
Qed.

Lemma pairrel_false : forall s z, ~ pairrel (fun _ _ => false) s z.
Proof. intros s z (h & l & r & _ & H & _). discriminate. Qed.

Lemma eat_false : forall s z, ~ atom (eat (fun _ => false)) s z.
Proof. intros [b [|x w]] z H; exact H. Qed.

Lemma sim_eat1 : forall p p1,
  (forall x, cp_ok x -> x <? PLANE_START = true -> p x = p1 x) ->
  (forall x, cp_ok x -> x <? PLANE_START = false -> p1 (hi_of x) = false /\ p x = false) ->
  sim (atom (eat p)) (atom (eat p1)).
Proof.
  intros p p1 Hb Ha.
  apply (sim_req (atom (eat p)) (atom (eat p))
           (fun s z => atom (eat p1) s z \/ pairrel (fun _ _ => false) s z) (atom (eat p1))).
  - apply req_refl.
  - intros s z. split; [intros [H|H]; auto; destruct (pairrel_false _ _ H)|auto].
  - apply sim_atom; auto. discriminate.
Qed.

Lemma sim_pair : forall p P,
  (forall h l, P h l = true -> is_hi h = true) ->
  (forall x, cp_ok x -> x <? PLANE_START = true -> p x = false) ->
  (forall x, cp_ok x -> x <? PLANE_START = false -> p x = P (hi_of x) (lo_of x)) ->
  sim (atom (eat p)) (pairrel P).
Proof.
  intros p P HP Hb Ha.
  apply (sim_req (atom (eat p)) (atom (eat p))
           (fun s z => atom (eat (fun _ => false)) s z \/ pairrel P s z) (pairrel P)).
  - apply req_refl.
  - intros s z. split; [intros [H|H]; auto; destruct (eat_false _ _ H)|auto].
  - apply sim_atom; auto.
Qed.

End Sim.

(* ------------------------------------------- shapes produced by the rewriting *)
Lemma mc_single : forall t, req (mc (CCons t CNil)) (mt t).
Proof. intros t. cbn [mc]. apply comp_eq_r. Qed.

Lemma pair_of_eats : forall p1 p2,
  req (comp (atom (eat p1)) (comp (atom (eat p2)) eq)) (pairrel (fun h l => p1 h && p2 l)).
Proof.
  intros p1 p2 [b ws] z. unfold comp, pairrel, atom, eat. cbn [snd]. split.
  - intros (m & A & m2 & B & <-).
    destruct ws as [|h ws]; [destruct A|]. destruct (p1 h) eqn:E1; [|destruct A].
    destruct A as [<-|[]]. cbn [snd] in B.
    destruct ws as [|l r]; [destruct B|]. destruct (p2 l) eqn:E2; [|destruct B].
    destruct B as [<-|[]]. exists h, l, r. rewrite E1, E2. auto.
  - intros (h & l & r & -> & E & ->). apply andb_prop in E. destruct E as [E1 E2].
    exists (false, l :: r). rewrite E1. split; [left; reflexivity|].
    exists (false, r). cbn [snd]. rewrite E2. split; [left; reflexivity|reflexivity].
Qed.

Lemma pairrel_ext : forall P Q, (forall h l, P h l = Q h l) -> req (pairrel P) (pairrel Q).
Proof.
  intros P Q H s z. unfold pairrel.
  split; intros (h & l & r & A & B & C); exists h, l, r; repeat split; auto; congruence.
Qed.

Lemma in_set_single : forall a b x,
  in_set false [mkrng (ech a) (Some (ech b))] x = (a <=? x) && (x <=? b).
Proof.
  intros a b x. unfold in_set, in_rng. cbn.
  destruct ((a <=? x) && (x <=? b)); reflexivity.
Qed.

Lemma mc_pp : forall p, req (mc (pp_concat p)) (pairrel (pp_match p)).
Proof.
  intros [h0 l0|h0 ls le|hs he ls le]; cbn [pp_concat mc mt tch eset mq].
  - eapply req_trans; [apply pair_of_eats|]. apply pairrel_ext. intros h l. reflexivity.
  - eapply req_trans; [apply pair_of_eats|]. apply pairrel_ext. intros h l.
    cbn [pp_match]. rewrite in_set_single. cbn [ccode ech]. rewrite andb_assoc. reflexivity.
  - eapply req_trans; [apply pair_of_eats|]. apply pairrel_ext. intros h l.
    cbn [pp_match]. rewrite !in_set_single. rewrite andb_assoc. reflexivity.
Qed.

Lemma mu_uol_app : forall a b,
  req (mu (union_of_list (a ++ b)))
      (fun s z => mu (union_of_list a) s z \/ mu (union_of_list b) s z).
Proof.
  induction a as [|c a IH]; intros b s z; cbn [app union_of_list mu].
  - tauto.
  - rewrite (IH b s z). tauto.
Qed.

Lemma mu_uol_pp : forall ps,
  req (mu (union_of_list (map pp_concat ps))) (pairrel (matches_pairs ps)).
Proof.
  induction ps as [|p ps IH]; intros s z; cbn [map union_of_list mu].
  - split; [intros []|]. intros (h & l & r & _ & H & _). discriminate.
  - rewrite (IH s z), (mc_pp p s z). unfold pairrel, matches_pairs. cbn [existsb]. split.
    + intros [(h & l & r & A & B & C)|(h & l & r & A & B & C)]; exists h, l, r;
        repeat split; auto; rewrite B; auto using orb_true_r.
    + intros (h & l & r & A & B & C). apply orb_prop in B.
      destruct B as [B|B]; [left|right]; exists h, l, r; auto.
Qed.

(* ---------------------------------------------------- facts on the ranges *)
Lemma partition_bmp : forall rs wo w x,
  partition_ranges rs = (wo, w) -> x <? PLANE_START = true ->
  existsb (in_rng x) rs = existsb (in_rng x) wo.
Proof.
  induction rs as [|r rs IH]; intros wo w x H Hx; cbn [partition_ranges] in H.
  - inversion H. reflexivity.
  - destruct (partition_ranges rs) as [wo0 w0] eqn:E. specialize (IH wo0 w0 x eq_refl Hx).
    cbn [existsb]. rewrite IH.
    destruct ((ccode (rstart r) <? PLANE_START) && (range_end_code r <? PLANE_START)) eqn:E1.
    + inversion H; subst. reflexivity.
    + destruct (ccode (rstart r) <? PLANE_START) eqn:E2.
      * inversion H; subst. cbn [existsb]. f_equal.
        unfold in_rng, range_end_code in *. cbn [rend rstart ccode ech].
        destruct (rend r) as [e|]; unfold PLANE_START in *; lia.
      * inversion H; subst. replace (in_rng x r) with false; [reflexivity|].
        unfold in_rng. destruct (rend r) as [e|]; unfold PLANE_START in *; lia.
Qed.

Lemma partition_astral : forall rs wo w x,
  partition_ranges rs = (wo, w) -> x <? PLANE_START = false ->
  existsb (in_rng x) rs = existsb (in_rng x) w.
Proof.
  induction rs as [|r rs IH]; intros wo w x H Hx; cbn [partition_ranges] in H.
  - inversion H. reflexivity.
  - destruct (partition_ranges rs) as [wo0 w0] eqn:E. specialize (IH wo0 w0 x eq_refl Hx).
    cbn [existsb]. rewrite IH.
    destruct ((ccode (rstart r) <? PLANE_START) && (range_end_code r <? PLANE_START)) eqn:E1.
    + inversion H; subst. replace (in_rng x r) with false; [reflexivity|].
      unfold in_rng, range_end_code in *. destruct (rend r) as [e|]; unfold PLANE_START in *; lia.
    + destruct (ccode (rstart r) <? PLANE_START) eqn:E2.
      * inversion H; subst. cbn [existsb]. f_equal.
        unfold in_rng, range_end_code in *. cbn [rend rstart ccode ech].
        destruct (rend r) as [e|]; unfold PLANE_START in *; lia.
      * inversion H; subst. reflexivity.
Qed.

Lemma partition_clean : forall rs wo w,
  partition_ranges rs = (wo, w) -> forallb rng_clean rs = true -> forallb rng_clean wo = true.
Proof.
  induction rs as [|r rs IH]; intros wo w H Hc; cbn [partition_ranges] in H.
  - inversion H. reflexivity.
  - destruct (partition_ranges rs) as [wo0 w0] eqn:E. cbn [forallb] in Hc.
    apply andb_prop in Hc. destruct Hc as [Hr Hc]. specialize (IH wo0 w0 eq_refl Hc).
    destruct ((ccode (rstart r) <? PLANE_START) && (range_end_code r <? PLANE_START)) eqn:E1.
    + inversion H; subst. cbn [forallb]. rewrite Hr, IH. reflexivity.
    + destruct (ccode (rstart r) <? PLANE_START) eqn:E2.
      * inversion H; subst. cbn [forallb]. rewrite IH, andb_true_r.
        unfold rng_clean, touches_hi, range_end_code in *. cbn [rend rstart ccode ech].
        destruct (rend r) as [e|]; unfold PLANE_START in *; lia.
      * inversion H; subst. exact IH.
Qed.

Lemma clean_no_hi : forall rs h,
  forallb rng_clean rs = true -> is_hi h = true -> existsb (in_rng h) rs = false.
Proof.
  induction rs as [|r rs IH]; intros h Hc Hh; cbn [existsb]; auto.
  cbn [forallb] in Hc. apply andb_prop in Hc. destruct Hc as [Hr Hc].
  rewrite (IH h Hc Hh), orb_false_r.
  unfold rng_clean, touches_hi, range_end_code, in_rng, is_hi in *.
  destruct (rend r) as [e|]; lia.
Qed.

Lemma matches_pairs_app : forall a b h l,
  matches_pairs (a ++ b) h l = matches_pairs a h l || matches_pairs b h l.
Proof. intros a b h l. unfold matches_pairs. apply existsb_app. Qed.

Lemma split_ranges_exact : forall w ps h l,
  split_ranges w = Ok ps -> is_hi h = true -> is_lo l = true ->
  matches_pairs ps h l = existsb (in_rng (decode h l)) w.
Proof.
  induction w as [|r w IH]; intros ps h l H Hh Hl; cbn [split_ranges] in H.
  - inversion H. reflexivity.
  - destruct (split_range r) as [p1| |] eqn:E1; cbn [bind] in H; try discriminate.
    destruct (split_ranges w) as [p2| |] eqn:E2; cbn [bind] in H; try discriminate.
    inversion H; subst. rewrite matches_pairs_app. cbn [existsb].
    rewrite (IH p2 h l eq_refl Hh Hl). f_equal.
    apply bool_eq_iff. apply (split_range_exact r p1 h l E1 Hh Hl).
Qed.

Lemma split_hl_hi : forall a b h l,
  astral a = true -> astral b = true ->
  matches_pairs (split_hl (hi_of a) (lo_of a) (hi_of b) (lo_of b)) h l = true -> is_hi h = true.
Proof.
  intros a b h l Ha Hb H.
  destruct (hi_lo_range a Ha) as (A1 & A2). destruct (hi_lo_range b Hb) as (B1 & B2).
  revert H A1 A2 B1 B2. generalize (hi_of a) (lo_of a) (hi_of b) (lo_of b).
  intros hs ls he le H A1 A2 B1 B2. unfold split_hl in H.
  destruct (hs =? he) eqn:E1.
  - cbn [matches_pairs existsb pp_match] in H. unfold is_hi in *. lia.
  - destruct (1 <? he - hs) eqn:E2.
    + destruct (hs + 1 =? he - 1) eqn:E3;
        cbn [matches_pairs existsb pp_match app] in H; unfold is_hi in *; lia.
    + cbn [matches_pairs existsb pp_match app] in H. unfold is_hi in *. lia.
Qed.

Lemma split_range_hi : forall r ps h l,
  split_range r = Ok ps -> matches_pairs ps h l = true -> is_hi h = true.
Proof.
  intros r ps h l Hs H. unfold split_range in Hs.
  destruct (to_surrogates (ccode (rstart r))) as [[hs ls]| |] eqn:E1; cbn [bind] in Hs;
    try discriminate.
  apply to_surrogates_inv in E1. destruct E1 as (Ha & -> & ->).
  destruct (hi_lo_range _ Ha) as (A1 & A2).
  destruct (rend r) as [e|].
  - destruct (ccode (rstart r) =? ccode e) eqn:E2.
    + inversion Hs; subst ps. cbn [matches_pairs existsb pp_match] in H.
      assert (h = hi_of (ccode (rstart r))) by lia. subst h. exact A1.
    + destruct (ccode (rstart r) <? ccode e) eqn:E3; cbn [negb] in Hs; try discriminate.
      destruct (to_surrogates (ccode e)) as [[he le]| |] eqn:E4; cbn [bind] in Hs;
        try discriminate.
      apply to_surrogates_inv in E4. destruct E4 as (Hb & -> & ->).
      inversion Hs; subst ps.
      exact (split_hl_hi (ccode (rstart r)) (ccode e) h l Ha Hb H).
  - inversion Hs; subst ps. cbn [matches_pairs existsb pp_match] in H.
    assert (h = hi_of (ccode (rstart r))) by lia. subst h. exact A1.
Qed.

Lemma split_ranges_hi : forall w ps h l,
  split_ranges w = Ok ps -> matches_pairs ps h l = true -> is_hi h = true.
Proof.
  induction w as [|r w IH]; intros ps h l H Hm; cbn [split_ranges] in H.
  - inversion H; subst. discriminate.
  - destruct (split_range r) as [p1| |] eqn:E1; cbn [bind] in H; try discriminate.
    destruct (split_ranges w) as [p2| |] eqn:E2; cbn [bind] in H; try discriminate.
    inversion H; subst. rewrite matches_pairs_app in Hm. apply orb_prop in Hm.
    destruct Hm as [Hm|Hm]; [eapply split_range_hi|eapply IH]; eauto.
Qed.

(* ------------------------------------------------------ expansions, one by one *)
Lemma aa_of_astral : forall aa x, cp_ok aa x -> x <? PLANE_START = false -> aa = true.
Proof.
  intros [|] x (_ & H) Hx; auto. rewrite (H eq_refl) in Hx. discriminate.
Qed.

Lemma eqb_pair_decode : forall x c, astral x = true -> astral c = true ->
  (x =? c) = (hi_of x =? hi_of c) && (lo_of x =? lo_of c).
Proof.
  intros x c Hx Hc. apply bool_eq_iff. rewrite andb_true_iff, !N.eqb_eq. split.
  - intros ->. auto.
  - intros (E1 & E2). rewrite <- (decode_hi_lo x Hx), <- (decode_hi_lo c Hc). congruence.
Qed.

Lemma fix_char_sim : forall aa c q ts,
  fix_char c q = Ok ts -> (aa = true -> is_hi (ccode c) = false) ->
  sim aa (mt (TChar c q)) (mc ts).
Proof.
  intros aa c q ts H Hc. unfold fix_char in H. cbn [mt].
  destruct (ccode c <? PLANE_START) eqn:Ec.
  - inversion H; subst ts. eapply sim_req; [apply req_refl|apply req_sym; apply mc_single|].
    cbn [mt]. apply sim_mq. unfold e_char. apply sim_eat1.
    + reflexivity.
    + intros x Hx Ex. pose proof (aa_of_astral aa x Hx Ex) as Haa. specialize (Hc Haa).
      destruct Hx as (Hs & _). pose proof (scalar_astral x Hs Ex) as Hax.
      destruct (hi_lo_range x Hax) as (Hh & _). split.
      * destruct (hi_of x =? ccode c) eqn:E; auto. apply N.eqb_eq in E. congruence.
      * unfold PLANE_START in *. lia.
  - destruct (to_surrogates (ccode c)) as [[h l]| |] eqn:E1; cbn [bind] in H; try discriminate.
    apply to_surrogates_inv in E1. destruct E1 as (Ha & -> & ->).
    assert (Hcore : sim aa (atom (e_char c))
              (pairrel (fun h' l' => (h' =? hi_of (ccode c)) && (l' =? lo_of (ccode c))))).
    { unfold e_char. apply sim_pair.
      - intros h' l' HP. apply andb_prop in HP. destruct HP as [HP _]. apply N.eqb_eq in HP.
        subst h'. apply (hi_lo_range _ Ha).
      - intros x _ Ex. unfold PLANE_START in *. lia.
      - intros x (Hs & _) Ex. apply eqb_pair_decode; auto using scalar_astral. }
    assert (Hshape : req (mc (CCons (tch (hi_of (ccode c))) (CCons (tch (lo_of (ccode c))) CNil)))
              (pairrel (fun h' l' => (h' =? hi_of (ccode c)) && (l' =? lo_of (ccode c))))).
    { cbn [mc mt tch mq]. apply pair_of_eats. }
    destruct q as [q0|]; inversion H; subst ts.
    + eapply sim_req; [apply req_refl|apply req_sym; apply mc_single|].
      cbn [mt]. apply sim_mq. eapply sim_req; [apply req_refl| |exact Hcore].
      apply req_sym. intros s z. cbn [mu]. rewrite (Hshape s z). tauto.
    + cbn [mq]. eapply sim_req; [apply req_refl|apply req_sym; exact Hshape|exact Hcore].
Qed.

Lemma first_req : forall wo,
  req (mu (union_of_list match wo with [] => [] | _ :: _ => [CCons (TSet false wo None) CNil] end))
      (atom (eat (in_set false wo))).
Proof.
  intros [|r wo] s z.
  - cbn [union_of_list mu]. split; [intros []|]. intros H. destruct s as [b [|x w]]; exact H.
  - cbn [union_of_list mu]. rewrite (mc_single (TSet false (r :: wo) None) s z).
    cbn [mt mq]. unfold e_set. tauto.
Qed.

Lemma fix_set_sim : forall aa k rs q ts,
  fix_set k rs q = Ok ts -> (aa = true -> k = false /\ forallb rng_clean rs = true) ->
  sim aa (mt (TSet k rs q)) (mc ts).
Proof.
  intros aa k rs q ts H Hc. unfold fix_set in H. cbn [mt].
  destruct (partition_ranges rs) as [wo w] eqn:Ep.
  destruct w as [|r0 w'].
  - inversion H; subst ts. eapply sim_req; [apply req_refl|apply req_sym; apply mc_single|].
    cbn [mt]. apply sim_mq. unfold e_set. apply sim_eat1.
    + reflexivity.
    + intros x Hx Ex. pose proof (aa_of_astral aa x Hx Ex) as Haa.
      destruct (Hc Haa) as (-> & Hcl). destruct Hx as (Hs & _).
      pose proof (scalar_astral x Hs Ex) as Hax. destruct (hi_lo_range x Hax) as (Hh & _).
      unfold in_set. rewrite !xorb_false_l. split.
      * apply clean_no_hi; assumption.
      * rewrite (partition_astral rs wo [] x Ep Ex). reflexivity.
  - destruct k; try discriminate.
    destruct (split_ranges (r0 :: w')) as [ps| |] eqn:Es; cbn [bind] in H; try discriminate.
    inversion H; subst ts. clear H.
    eapply sim_req; [apply req_refl|apply req_sym; apply mc_single|].
    cbn [mt]. apply sim_mq.
    eapply sim_req;
      [apply req_refl| |
       apply (sim_atom aa (in_set false rs) (in_set false wo) (matches_pairs ps))].
    + apply req_sym. eapply req_trans; [apply mu_uol_app|].
      intros s z. rewrite (first_req wo s z), (mu_uol_pp ps s z). tauto.
    + intros h l Hm. eapply split_ranges_hi; eauto.
    + intros x _ Ex. unfold in_set. rewrite (partition_bmp rs wo _ x Ep Ex). reflexivity.
    + intros x Hx Ex. pose proof (aa_of_astral aa x Hx Ex) as Haa.
      destruct (Hc Haa) as (_ & Hcl). destruct Hx as (Hs & _).
      pose proof (scalar_astral x Hs Ex) as Hax. destruct (hi_lo_range x Hax) as (Hh & Hl).
      unfold in_set. rewrite !xorb_false_l. split.
      * apply clean_no_hi; auto. eapply partition_clean; eauto.
      * rewrite (partition_astral rs wo _ x Ep Ex).
        rewrite (split_ranges_exact _ ps _ _ Es Hh Hl), (decode_hi_lo x Hax). reflexivity.
Qed.

Lemma sym_sim : forall aa y, (aa = true -> y <> SDot) -> sim aa (atom (e_sym y)) (atom (e_sym y)).
Proof.
  intros aa [| |] Hy.
  - split; [apply e_sym_adv|]. intros [b w] _. unfold atom, e_sym, phi. cbn [fst snd]. split.
    + intros s' H. destruct b; [|destruct H]. destruct H as [<-|[]]. left. reflexivity.
    + intros z H. destruct b; [|destruct H]. destruct H as [<-|[]].
      exists (true, w). split; auto. left. reflexivity.
  - split; [apply e_sym_adv|]. intros [b w] _. unfold atom, e_sym, phi. cbn [fst snd]. split.
    + intros s' H. destruct w; [|destruct H]. destruct H as [<-|[]]. left. reflexivity.
    + intros z H. destruct (enc16 w) eqn:E; [|destruct H]. destruct H as [<-|[]].
      apply enc16_nil_inv in E. subst w. exists (b, []). split; auto. left. reflexivity.
  - cbn [e_sym]. apply sim_eat1.
    + reflexivity.
    + intros x Hx Ex. exfalso. apply Hy; auto. eapply aa_of_astral; eauto.
Qed.

(** Main simulation, by mutual induction on the tree. *)
Lemma fix_sim : forall aa,
  (forall t ts, fix_term t = Ok ts -> (aa = true -> clean_term t = true) ->
                sim aa (mt t) (mc ts)) /\
  (forall c c', fix_concat c = Ok c' -> (aa = true -> clean_concat c = true) ->
                sim aa (mc c) (mc c')) /\
  (forall u u', fix_union u = Ok u' -> (aa = true -> clean_union u = true) ->
                sim aa (mu u) (mu u')).
Proof.
  intros aa. apply tree_mutind.
  - intros c q ts H Hc. apply fix_char_sim; auto.
    intros Haa. specialize (Hc Haa). cbn [clean_term] in Hc.
    destruct (is_hi (ccode c)); auto; discriminate.
  - intros k rs q ts H Hc. apply fix_set_sim; auto.
    intros Haa. specialize (Hc Haa). cbn [clean_term] in Hc.
    apply andb_prop in Hc. destruct Hc as [Hk Hr]. destruct k; auto; discriminate.
  - intros y q ts H Hc. cbn [fix_term] in H. inversion H; subst ts.
    eapply sim_req; [apply req_refl|apply req_sym; apply mc_single|].
    cbn [mt]. apply sim_mq. apply sym_sim.
    intros Haa ->. specialize (Hc Haa). discriminate.
  - intros u IH q ts H Hc. cbn [fix_term] in H.
    destruct (fix_union u) as [u'| |] eqn:E; cbn [bind] in H; try discriminate.
    inversion H; subst ts.
    eapply sim_req; [apply req_refl|apply req_sym; apply mc_single|].
    cbn [mt]. apply sim_mq. apply IH; auto.
  - intros c' H _. cbn [fix_concat] in H. inversion H; subst. cbn [mc]. apply sim_eq.
  - intros t IHt c IHc c' H Hc. cbn [fix_concat] in H.
    destruct (fix_term t) as [ts| |] eqn:E1; cbn [bind] in H; try discriminate.
    destruct (fix_concat c) as [r| |] eqn:E2; cbn [bind] in H; try discriminate.
    inversion H; subst c'.
    eapply sim_req; [apply req_refl|apply req_sym; apply mc_app|].
    cbn [mc]. apply sim_comp.
    + apply IHt; auto. intros Haa. specialize (Hc Haa). cbn [clean_concat] in Hc.
      apply andb_prop in Hc. tauto.
    + apply IHc; auto. intros Haa. specialize (Hc Haa). cbn [clean_concat] in Hc.
      apply andb_prop in Hc. tauto.
  - intros u' H _. cbn [fix_union] in H. inversion H; subst. cbn [mu]. apply sim_false.
  - intros c IHc u IHu u' H Hc. cbn [fix_union] in H.
    destruct (fix_concat c) as [c'| |] eqn:E1; cbn [bind] in H; try discriminate.
    destruct (fix_union u) as [r| |] eqn:E2; cbn [bind] in H; try discriminate.
    inversion H; subst u'. cbn [mu]. apply sim_or.
    + apply IHc; auto. intros Haa. specialize (Hc Haa). cbn [clean_union] in Hc.
      apply andb_prop in Hc. tauto.
    + apply IHu; auto. intros Haa. specialize (Hc Haa). cbn [clean_union] in Hc.
      apply andb_prop in Hc. tauto.
Qed.

Lemma sim_matches : forall aa u u' w,
  sim aa (mu u) (mu u') -> strok aa w -> (matches u' (enc16 w) <-> matches u w).
Proof.
  intros aa u u' w (_ & H) Hw. destruct (H (true, w) Hw) as (F & B).
  unfold matches. split.
  - intros (b & M). destruct (B _ M) as ([b' w'] & E & X). unfold phi in E. cbn in E.
    inversion E; subst. symmetry in H2. apply enc16_nil_inv in H2. subst w'. exists b'. exact X.
  - intros (b & M). exists b. exact (F _ M).
Qed.

(** The rewritten tree matches the UTF-16 encoding of [w] iff the original matches [w]:
    for strings of scalar values, provided the pattern is clean (no [.], no complemented
    set, no atom covering a high surrogate) or the string stays in the BMP. *)
Theorem fix_language_partial : forall u u' w,
  fix_utf16 u = Ok u' ->
  Forall (fun x => scalar x = true) w ->
  (clean_union u = true \/ Forall (fun x => bmp_scalar x = true) w) ->
  (matches u' (enc16 w) <-> matches u w).
Proof.
  intros u u' w H Hw [Hc|Hb].
  - apply (sim_matches true).
    + apply (fix_sim true); auto.
    + eapply Forall_impl; [|exact Hw]. intros x Hx. split; auto. discriminate.
  - apply (sim_matches false).
    + apply (fix_sim false); auto. discriminate.
    + eapply Forall_impl; [|exact Hb]. intros x Hx. unfold bmp_scalar in Hx.
      apply andb_prop in Hx. destruct Hx as [H1 H2]. split; auto.
Qed.

Corollary fix_language_partial_b : forall u u' w,
  fix_utf16 u = Ok u' ->
  forallb scalar w = true ->
  clean_union u || forallb bmp_scalar w = true ->
  matchesb u' (enc16 w) = matchesb u w.
Proof.
  intros u u' w H Hw Hc. apply bool_eq_iff. rewrite !matchesb_spec.
  apply fix_language_partial; auto.
  - apply Forall_forall. rewrite forallb_forall in Hw. exact Hw.
  - apply orb_prop in Hc. destruct Hc as [Hc|Hc]; auto. right.
    apply Forall_forall. rewrite forallb_forall in Hc. exact Hc.
Qed.

(* ------------------------------------------------------------------ totality *)
Definition w_ok (r : rng) : bool :=
  astral (ccode (rstart r))
  && match rend r with
     | None => true
     | Some e => astral (ccode e) && (ccode (rstart r) <=? ccode e)
     end.

Lemma partition_w_ok : forall rs wo w,
  partition_ranges rs = (wo, w) -> forallb rng_ok rs = true -> forallb w_ok w = true.
Proof.
  induction rs as [|r rs IH]; intros wo w H Hok; cbn [partition_ranges] in H.
  - inversion H. reflexivity.
  - destruct (partition_ranges rs) as [wo0 w0] eqn:E. cbn [forallb] in Hok.
    apply andb_prop in Hok. destruct Hok as [Hr Hok]. specialize (IH wo0 w0 eq_refl Hok).
    destruct ((ccode (rstart r) <? PLANE_START) && (range_end_code r <? PLANE_START)) eqn:E1.
    + inversion H; subst. exact IH.
    + destruct (ccode (rstart r) <? PLANE_START) eqn:E2.
      * inversion H; subst. cbn [forallb]. rewrite IH, andb_true_r.
        unfold w_ok, rng_ok, chr_ok, astral, range_end_code in *. cbn [rend rstart ccode ech].
        destruct (rend r) as [e|]; unfold PLANE_START, PLANE_END in *; lia.
      * inversion H; subst. cbn [forallb]. rewrite IH, andb_true_r.
        unfold w_ok, rng_ok, chr_ok, astral, range_end_code in *.
        destruct (rend r) as [e|]; unfold PLANE_START, PLANE_END in *; lia.
Qed.

Lemma partition_all_bmp : forall rs,
  forallb rng_bmp rs = true -> snd (partition_ranges rs) = [].
Proof.
  induction rs as [|r rs IH]; intros H; cbn [partition_ranges]; auto.
  cbn [forallb] in H. apply andb_prop in H. destruct H as [Hr H]. specialize (IH H).
  destruct (partition_ranges rs) as [wo0 w0]. cbn [snd] in IH. subst w0.
  unfold rng_bmp in Hr. rewrite Hr. reflexivity.
Qed.

Lemma split_range_total : forall r, w_ok r = true -> exists ps, split_range r = Ok ps.
Proof.
  intros r H. unfold w_ok in H. apply andb_prop in H. destruct H as [Ha H].
  unfold split_range. rewrite (to_surrogates_ok _ Ha). cbn [bind].
  destruct (rend r) as [e|]; [|eauto].
  apply andb_prop in H. destruct H as [Hb Hle].
  destruct (ccode (rstart r) =? ccode e) eqn:E; [eauto|].
  destruct (ccode (rstart r) <? ccode e) eqn:E2; cbn [negb].
  - rewrite (to_surrogates_ok _ Hb). cbn [bind]. eauto.
  - exfalso. lia.
Qed.

Lemma split_ranges_total : forall w, forallb w_ok w = true -> exists ps, split_ranges w = Ok ps.
Proof.
  induction w as [|r w IH]; intros H; cbn [split_ranges]; [eauto|].
  cbn [forallb] in H. apply andb_prop in H. destruct H as [Hr H].
  destruct (split_range_total r Hr) as (p1 & ->). destruct (IH H) as (p2 & ->).
  cbn [bind]. eauto.
Qed.

(** On every tree the (repaired) front end can hand over, the rewriting returns a tree:
    no pre-condition of [_convert_to_surrogates] and no assertion can fail. *)
Theorem fix_utf16_total_all :
  (forall t, accepted_term t = true -> exists ts, fix_term t = Ok ts) /\
  (forall c, accepted_concat c = true -> exists c', fix_concat c = Ok c') /\
  (forall u, accepted_union u = true -> exists u', fix_union u = Ok u').
Proof.
  apply tree_mutind.
  - intros c q H. cbn [accepted_term fix_term] in *. unfold fix_char.
    destruct (ccode c <? PLANE_START) eqn:E; [eauto|].
    assert (Ha : astral (ccode c) = true).
    { unfold chr_ok, astral, PLANE_START, PLANE_END in *. lia. }
    rewrite (to_surrogates_ok _ Ha). cbn [bind]. destruct q; eauto.
  - intros k rs q H. cbn [accepted_term fix_term] in *. apply andb_prop in H.
    destruct H as [Hok Hk]. unfold fix_set.
    destruct (partition_ranges rs) as [wo w] eqn:Ep.
    destruct w as [|r0 w']; [eauto|].
    destruct k.
    + exfalso. cbn [negb orb] in Hk. apply partition_all_bmp in Hk. rewrite Ep in Hk.
      discriminate.
    + pose proof (partition_w_ok rs wo _ Ep Hok) as Hw.
      destruct (split_ranges_total _ Hw) as (ps & ->). cbn [bind]. eauto.
  - intros y q _. cbn [fix_term]. eauto.
  - intros u IH q H. cbn [accepted_term fix_term] in *. destruct (IH H) as (u' & ->).
    cbn [bind]. eauto.
  - intros _. cbn [fix_concat]. eauto.
  - intros t IHt c IHc H. cbn [accepted_concat fix_concat] in *. apply andb_prop in H.
    destruct H as [H1 H2]. destruct (IHt H1) as (ts & ->). destruct (IHc H2) as (r & ->).
    cbn [bind]. eauto.
  - intros _. cbn [fix_union]. eauto.
  - intros c IHc u IHu H. cbn [accepted_union fix_union] in *. apply andb_prop in H.
    destruct H as [H1 H2]. destruct (IHc H1) as (c' & ->). destruct (IHu H2) as (r & ->).
    cbn [bind]. eauto.
Qed.

Theorem fix_utf16_total : forall u,
  accepted_union u = true -> exists u', fix_utf16 u = Ok u'.
Proof. exact (proj2 (proj2 fix_utf16_total_all)). Qed.

(* ------------------------------------------------- the full statement is false *)
Definition re_dot : union := UCons (CCons (TSym SDot None) CNil) UNil.

(** [.] against U+10000: the original matches the one code point, the (unchanged)
    rewritten pattern does not match the two code units. *)
Theorem fix_language_refuted :
  exists u u' w,
    accepted_union u = true /\ fix_utf16 u = Ok u' /\ Forall (fun x => scalar x = true) w
    /\ matches u w /\ ~ matches u' (enc16 w).
Proof.
  exists re_dot, re_dot, [0x10000].
  split; [reflexivity|]. split; [reflexivity|]. split; [repeat constructor|].
  split.
  - apply matchesb_spec. vm_compute. reflexivity.
  - intros H. apply matchesb_spec in H. vm_compute in H. discriminate.
Qed.

Definition re_compl_a : union :=
  UCons (CCons (TSet true [mkrng (mkchr 97 false) None] None) CNil) UNil.

Theorem fix_language_refuted_complement :
  exists u u' w,
    accepted_union u = true /\ fix_utf16 u = Ok u' /\ Forall (fun x => scalar x = true) w
    /\ matches u w /\ ~ matches u' (enc16 w).
Proof.
  exists re_compl_a, re_compl_a, [0x1F600].
  split; [reflexivity|]. split; [reflexivity|]. split; [repeat constructor|].
  split.
  - apply matchesb_spec. vm_compute. reflexivity.
  - intros H. apply matchesb_spec in H. vm_compute in H. discriminate.
Qed.

(** [[\ud800-\udfff]*] against U+1F600: the original rejects the code point, the
    (unchanged) rewritten pattern accepts its two code units. *)
Definition re_surr_star : union :=
  UCons (CCons (TSet false [mkrng (ech 0xD800) (Some (ech 0xDFFF))]
                  (Some (mkq false 0 None))) CNil) UNil.

Theorem fix_language_refuted_hi_atom :
  exists u u' w,
    accepted_union u = true /\ fix_utf16 u = Ok u' /\ Forall (fun x => scalar x = true) w
    /\ ~ matches u w /\ matches u' (enc16 w).
Proof.
  exists re_surr_star, re_surr_star, [0x1F600].
  split; [reflexivity|]. split; [reflexivity|]. split; [repeat constructor|].
  split.
  - intros H. apply matchesb_spec in H. vm_compute in H. discriminate.
  - apply matchesb_spec. vm_compute. reflexivity.
Qed.
