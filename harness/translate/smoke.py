"""smoke/main.py: the stage skeleton of `execute` and the callees of
`_smoke_transpile_to_csharp`, plus the callees of the real generators' mains and of
run.load_model (to check the smoke tool calls the same functions). Fail closed."""
from __future__ import annotations

import ast
from typing import List, Optional

from harness.translate.astutil import TranslateError, coq_text, find_function, parse


def dotted(node: ast.AST) -> Optional[str]:
    if isinstance(node, ast.Name):
        return node.id
    if isinstance(node, ast.Attribute):
        b = dotted(node.value)
        return None if b is None else f"{b}.{node.attr}"
    return None


def calls_in(node: ast.AST) -> List[str]:
    out = []
    for n in ast.walk(node):
        if isinstance(n, ast.Call):
            d = dotted(n.func)
            if d is not None:
                out.append(d)
    return out


def targets_of(stmt) -> List[str]:
    names = []
    tgts = stmt.targets if isinstance(stmt, ast.Assign) else [stmt.target]
    for t in tgts:
        for n in ast.walk(t):
            if isinstance(n, ast.Name):
                names.append(n.id)
    return names


def names_in(expr) -> List[str]:
    return [n.id for n in ast.walk(expr) if isinstance(n, ast.Name)]


def stage_skeleton(fn: ast.FunctionDef):
    """Returns (stages, final_ret). A stage = (callee, tested var, reports, ret)."""
    stages = []
    last_call = None       # (callee, targets)
    final_ret = None
    body = list(fn.body)
    if body and isinstance(body[0], ast.Expr) and isinstance(body[0].value, ast.Constant):
        body = body[1:]  # docstring
    for i, st in enumerate(body):
        if isinstance(st, (ast.Assign, ast.AnnAssign)):
            if st.value is not None and isinstance(st.value, ast.Call):
                d = dotted(st.value.func)
                if d is None:
                    raise TranslateError(f"line {st.lineno}: call of a non-dotted callee")
                last_call = (d, targets_of(st))
            continue
        if isinstance(st, ast.Assert):
            continue
        if isinstance(st, ast.If):
            if st.orelse:
                raise TranslateError(f"line {st.lineno}: if with else in the stage skeleton")
            if last_call is None:
                raise TranslateError(f"line {st.lineno}: check without a preceding call")
            tested = [n for n in names_in(st.test) if n in last_call[1]]
            if not tested:
                raise TranslateError(
                    f"line {st.lineno}: the check does not test a result of {last_call[0]}")
            # the test must be an error test: `x`, `x is not None`, `len(x) > 0`
            t = st.test
            ok = (isinstance(t, ast.Name)
                  or (isinstance(t, ast.Compare) and len(t.ops) == 1
                      and isinstance(t.ops[0], (ast.IsNot, ast.Gt))))
            if not ok:
                raise TranslateError(f"line {st.lineno}: unknown shape of error test")
            # every path through the body must end in `return <int constant>`
            rets = set()
            reports = True

            def walk(stmts, reported):
                nonlocal reports
                for s in stmts:
                    if isinstance(s, ast.Expr) and isinstance(s.value, ast.Call):
                        d = dotted(s.value.func)
                        if d in ("run.write_error_report", "stderr.write"):
                            reported = True
                        continue
                    if isinstance(s, ast.If):
                        if not s.orelse:
                            raise TranslateError(f"line {s.lineno}: inner if without else")
                        walk(s.body, reported)
                        walk(s.orelse, reported)
                        continue
                    if isinstance(s, ast.Return):
                        if not (isinstance(s.value, ast.Constant) and isinstance(s.value.value, int)):
                            raise TranslateError(f"line {s.lineno}: non-constant return")
                        rets.add(s.value.value)
                        if not reported:
                            reports = False
                        return
                    raise TranslateError(f"line {s.lineno}: unexpected statement in a check body")
                raise TranslateError("a path through a check body does not return")

            # body: straight-line or one if/else followed by return
            flat = list(st.body)
            if flat and isinstance(flat[0], ast.If) and flat[0].orelse and isinstance(flat[-1], ast.Return):
                # `if isinstance(..): write else: write` then `return 1`
                inner = flat[0]
                for branch in (inner.body, inner.orelse):
                    walk(list(branch) + flat[1:], False)
            else:
                walk(flat, False)
            if len(rets) != 1:
                raise TranslateError(f"line {st.lineno}: several return codes in one check")
            stages.append((last_call[0], tested[0], reports, rets.pop()))
            last_call = None if False else last_call
            continue
        if isinstance(st, ast.Return):
            if i != len(body) - 1:
                raise TranslateError("return before the end of execute")
            if not (isinstance(st.value, ast.Constant) and isinstance(st.value.value, int)):
                raise TranslateError("final return is not an int constant")
            final_ret = st.value.value
            continue
        raise TranslateError(f"line {st.lineno}: unexpected statement {type(st).__name__} in execute")
    if final_ret is None:
        raise TranslateError("execute does not end with a return")
    return stages, final_ret


def transpile_skeleton(fn: ast.FunctionDef):
    """_smoke_transpile_to_csharp: callees whose error result is returned/collected."""
    collected = []
    last_call = None
    for st in fn.body:
        if isinstance(st, (ast.Assign, ast.AnnAssign)) and st.value is not None \
                and isinstance(st.value, ast.Call) and dotted(st.value.func):
            last_call = (dotted(st.value.func), targets_of(st))
        elif isinstance(st, ast.If) and last_call is not None:
            tested = [n for n in names_in(st.test) if n in last_call[1]]
            if tested:
                # errors must flow out: `return x` or `errors.extend(x)`
                flows = False
                for s in st.body:
                    if isinstance(s, ast.Return) and tested[0] in names_in(s.value):
                        flows = True
                    if isinstance(s, ast.Expr) and isinstance(s.value, ast.Call) \
                            and dotted(s.value.func) == "errors.extend" \
                            and tested[0] in names_in(s.value):
                        flows = True
                if not flows:
                    raise TranslateError(f"line {st.lineno}: errors of {last_call[0]} are dropped")
                collected.append(last_call[0])
    last = fn.body[-1]
    if not (isinstance(last, ast.Return) and names_in(last.value) == ["errors"]):
        raise TranslateError("_smoke_transpile_to_csharp does not return `errors`")
    return collected


def gen_smoke() -> str:
    tree = parse("aas_core_codegen/smoke/main.py")
    stages, final_ret = stage_skeleton(find_function(tree, "execute"))
    collected = transpile_skeleton(find_function(tree, "_smoke_transpile_to_csharp"))
    csharp_calls = calls_in(parse("aas_core_codegen/csharp/main.py"))
    json_calls = calls_in(parse("aas_core_codegen/jsonschema/main.py"))
    xsd_calls = calls_in(parse("aas_core_codegen/xsd/main.py"))
    load_calls = calls_in(find_function(parse("aas_core_codegen/run.py"), "load_model"))

    def lst(xs):
        return "[" + ";\n   ".join(coq_text(x) for x in xs) + "]"

    out = [
        "From Coq Require Import List NArith ZArith Bool.",
        "Import ListNotations.",
        "(* one entry per `if <error>: report; return` check of smoke execute, in order:",
        "   (callee whose result is tested, tested variable, reports on every path, return code) *)",
        "Definition smoke_stages : list (list N * list N * bool * Z) := [",
        ";\n".join(f"  ({coq_text(c)}, {coq_text(v)}, {'true' if r else 'false'}, ({ret})%Z)"
                   for c, v, r, ret in stages),
        "].",
        f"Definition smoke_final_ret : Z := ({final_ret})%Z.",
        "(* callees of _smoke_transpile_to_csharp whose errors flow into its result *)",
        f"Definition smoke_transpile_collected : list (list N) := {lst(collected)}.",
        "(* dotted callees occurring in the real mains / loader *)",
        f"Definition csharp_main_callees : list (list N) := {lst(sorted(set(csharp_calls)))}.",
        f"Definition jsonschema_main_callees : list (list N) := {lst(sorted(set(json_calls)))}.",
        f"Definition xsd_main_callees : list (list N) := {lst(sorted(set(xsd_calls)))}.",
        f"Definition load_model_callees : list (list N) := {lst(sorted(set(load_calls)))}.",
    ]
    return "\n".join(out) + "\n"


GEN_FILES = {"GenSmoke": gen_smoke}
