(** Round trip of the ranges of a character set (C16 [ranges_roundtrip]):
    [_parse_ranges_and_closing] reads back what [Renderer.transform_char_set] printed —
    unescaped first / last dash, escaped first caret, escaped dashes in the middle,
    ranges that start or end at a dash, a caret or a bracket. *)
From Coq Require Import List NArith Bool Arith Lia.
From Acg Require Import Base.Str Base.Outcome Model.Retree Model.RetreeParse
  Model.RetreeRender Proofs.RetreeTotal Proofs.RetreeWf Proofs.RetreeRoundtrip.
Import ListNotations.
Open Scope N_scope.

(** Side conditions on the generated tables used by the whole-tree round trip. *)
Definition esc_backslash (esc : list (N * text)) : bool :=
  forallb (fun p => match snd p with x :: _ => x =? 92 | [] => false end) esc.

Definition tables_rt_ok (T : tables) : bool :=
  esc_backslash (esc_lit T) && esc_backslash (esc_rng T)
  && is_some (assocN 45 (esc_rng T)) && is_some (assocN 93 (esc_rng T))
  && is_some (assocN 92 (esc_rng T))
  && option_eqb N.eqb (assocN 94 (rng_simple T)) (Some 94)
  && memN 41 (lit_stop T) && negb (memN 41 (lit_assert T)).

Lemma assocN_forallb : forall {A} (f : N * A -> bool) (l : list (N * A)) k v,
  forallb f l = true -> assocN k l = Some v -> exists k', f (k', v) = true.
Proof.
  induction l as [|[k0 v0] l IH]; simpl; intros k v H Ha; [discriminate|].
  apply andb_true_iff in H. destruct H as [H1 H2].
  destruct (k =? k0).
  - inversion Ha; subst. eauto.
  - eapply IH; eauto.
Qed.

Lemma render_char_head : forall esc c, esc_backslash esc = true ->
  (exists tl, render_char esc c = 92 :: tl)
  \/ (ch_enc c = false /\ assocN (ch_code c) esc = None /\ render_char esc c = [ch_code c]).
Proof.
  intros esc [code enc] Hb. unfold render_char. cbn [ch_enc ch_code].
  destruct enc.
  - left. destruct (code <? 255); [cbn; eauto|].
    unfold unicode_escape. destruct (code <? 256); [cbn; eauto|].
    destruct (code <? 65536); cbn; eauto.
  - destruct (assocN code esc) as [e|] eqn:E.
    + left. destruct (assocN_forallb _ _ _ _ Hb E) as [k' Hk]. cbn in Hk.
      destruct e as [|x tl]; [discriminate|]. apply N.eqb_eq in Hk. subst. eauto.
    + right. auto.
Qed.

Section WithTables.
  Variable T : tables.
  Hypothesis Hcheck : all_bits 8 0 (char_rt_all T) = true.
  Hypothesis Hsmall : tables_small T = true.
  Hypothesis Hrt : tables_rt_ok T = true.

  Lemma tables_rt_facts :
    esc_backslash (esc_lit T) = true /\ esc_backslash (esc_rng T) = true
    /\ is_some (assocN 45 (esc_rng T)) = true /\ is_some (assocN 93 (esc_rng T)) = true
    /\ is_some (assocN 92 (esc_rng T)) = true
    /\ assocN 94 (rng_simple T) = Some 94
    /\ memN 41 (lit_stop T) = true /\ memN 41 (lit_assert T) = false.
  Proof.
    pose proof Hrt as H. unfold tables_rt_ok in H.
    apply andb_true_iff in H. destruct H as [H H8].
    apply andb_true_iff in H. destruct H as [H H7].
    apply andb_true_iff in H. destruct H as [H H6].
    apply andb_true_iff in H. destruct H as [H H5].
    apply andb_true_iff in H. destruct H as [H H4].
    apply andb_true_iff in H. destruct H as [H H3].
    apply andb_true_iff in H. destruct H as [H1 H2].
    repeat split; auto.
    - destruct (assocN 94 (rng_simple T)) as [x|]; [|discriminate].
      cbn in H6. apply N.eqb_eq in H6. subst. reflexivity.
    - apply negb_true_iff. assumption.
  Qed.

  (** A character that can stand in a set: a Unicode code point, and either encoded,
      escaped by the renderer, or none of [-], [\], []]. *)
  Definition rng_char_ok (c : rchar) : bool :=
    (ch_code c <=? MAX_CODE)
    && (ch_enc c || is_some (assocN (ch_code c) (esc_rng T))
        || negb (memN (ch_code c) [45; 92; 93])).

  Definition range_rt_ok (r : range) : bool :=
    rng_char_ok (rg_start r)
    && match rg_end r with
       | Some e => rng_char_ok e && (ch_code (rg_start r) <=? ch_code e)
       | None => true
       end.

  Lemma rng_char_ok_wf : forall c, rng_char_ok c = true ->
    ch_code c <= MAX_CODE /\ wf_rng_char T c = true.
  Proof.
    intros c H. unfold rng_char_ok in H. apply andb_true_iff in H. destruct H as [H1 H2].
    apply N.leb_le in H1. split; auto.
    unfold wf_rng_char, raw_range_ok.
    destruct (ch_enc c); auto. cbn [orb] in *.
    destruct (is_some (assocN (ch_code c) (esc_rng T))); auto. cbn [orb] in *.
    apply negb_true_iff in H2. apply negb_true_iff.
    cbn [memN] in *. destruct (ch_code c =? 45); [discriminate|].
    destruct (ch_code c =? 92); [discriminate|]. reflexivity.
  Qed.

  Lemma rng_char_parse : forall c rest, rng_char_ok c = true ->
    parse_range_char T (map C (render_char (esc_rng T) c) ++ rest) = Ok (c, rest).
  Proof.
    intros c rest H. destruct (rng_char_ok_wf c H) as [H1 H2].
    apply (range_char_roundtrip T Hcheck Hsmall); auto.
  Qed.

  Lemma rng_char_head : forall c, rng_char_ok c = true ->
    exists x tl, render_char (esc_rng T) c = x :: tl /\ x <> 45 /\ x <> 93 /\
                 (x = 94 -> ch_enc c = false /\ ch_code c = 94).
  Proof.
    intros c H. destruct tables_rt_facts as [_ [Hb [H45 [H93 [H92 _]]]]].
    destruct (render_char_head (esc_rng T) c Hb) as [[tl E]|[He [Ha E]]].
    - exists 92, tl. split; [exact E|]. split; [lia|]. split; [lia|]. intros Hx. lia.
    - exists (ch_code c), []. split; auto.
      unfold rng_char_ok in H. apply andb_true_iff in H. destruct H as [_ H].
      rewrite He, Ha in H. cbn [orb is_some] in H. apply negb_true_iff in H.
      cbn [memN] in H.
      destruct (ch_code c =? 45) eqn:E45; [discriminate|].
      destruct (ch_code c =? 92) eqn:E92; [discriminate|].
      destruct (ch_code c =? 93) eqn:E93; [discriminate|].
      apply N.eqb_neq in E45. apply N.eqb_neq in E93. repeat split; auto.
  Qed.

  (** The start of a range as the renderer prints it (the first-caret rule). *)
  Definition render_start (first compl : bool) (r : range) : text :=
    if first && (ch_code (rg_start r) =? 94) && negb (ch_enc (rg_start r)) && negb compl
    then [92; 94]
    else render_char (esc_rng T) (rg_start r).

  Definition render_end (r : range) : text :=
    match rg_end r with
    | Some e => [45] ++ render_char (esc_rng T) e
    | None => []
    end.

  Lemma render_ranges_cons : forall first compl r rest,
    render_ranges T first compl (r :: rest)
    = (if (first || match rest with [] => true | _ => false end) && is_plain_dash r
       then [45] else render_start first compl r ++ render_end r)
      ++ render_ranges T false compl rest.
  Proof. intros. reflexivity. Qed.

  Lemma render_start_head : forall first compl r, rng_char_ok (rg_start r) = true ->
    exists x tl, render_start first compl r = x :: tl /\ x <> 45 /\ x <> 93
                 /\ (first = true -> compl = false -> x <> 94).
  Proof.
    intros first compl r H. unfold render_start.
    destruct (first && (ch_code (rg_start r) =? 94) && negb (ch_enc (rg_start r)) && negb compl)
      eqn:E.
    - exists 92, [94]. split; [reflexivity|]. split; [lia|]. split; [lia|]. intros _ _. lia.
    - destruct (rng_char_head _ H) as [x [tl [Ex [H1 [H2 H3]]]]].
      exists x, tl. repeat split; auto.
      intros Hf Hc Hx. destruct (H3 Hx) as [He Hcode]. subst first compl.
      rewrite Hcode, He in E. cbn in E. discriminate.
  Qed.

  Lemma render_start_parse : forall first compl r rest, rng_char_ok (rg_start r) = true ->
    parse_range_char T (map C (render_start first compl r) ++ rest) = Ok (rg_start r, rest).
  Proof.
    intros first compl r rest H. unfold render_start.
    destruct (first && (ch_code (rg_start r) =? 94) && negb (ch_enc (rg_start r)) && negb compl)
      eqn:E.
    - destruct tables_rt_facts as [_ [_ [_ [_ [_ [H94 _]]]]]].
      apply andb_true_iff in E. destruct E as [E Ec].
      apply andb_true_iff in E. destruct E as [E E0].
      apply andb_true_iff in E. destruct E as [Ef E1].
      apply N.eqb_eq in E1. apply negb_true_iff in E0.
      destruct (rg_start r) as [code enc]. cbn [ch_code ch_enc] in *. subst.
      cbn [map app parse_range_char]. change (92 =? 45) with false. change (92 =? 92) with true.
      cbv iota. cbn [parse_escape]. change (94 =? 120) with false. change (94 =? 117) with false.
      change (94 =? 85) with false. cbv iota. rewrite H94. reflexivity.
    - apply rng_char_parse. exact H.
  Qed.

  (** ** One round of the loop *)
  Lemma neqb : forall x y : N, x <> y -> (x =? y) = false.
  Proof. intros. apply N.eqb_neq. assumption. Qed.

  Lemma loop_step : forall f x tl acc st r1 en r2,
    x <> 45 -> x <> 93 ->
    parse_range_char T (C x :: tl) = Ok (st, r1) ->
    parse_range_end T r1 = Ok (en, r2) ->
    match en with Some e => ch_code e <? ch_code st | None => false end = false ->
    parse_ranges_loop T (S f) (C x :: tl) acc
    = parse_ranges_loop T f r2 (mkRange st en :: acc).
  Proof.
    intros f x tl acc st r1 en r2 H45 H93 Hs He Ho.
    cbn [parse_ranges_loop]. cbv beta iota. unfold peek_lit. cbn [try_lit].
    rewrite (neqb _ _ H45), (neqb _ _ H93). cbn [is_some].
    rewrite Hs. cbn [bind]. rewrite He. cbn [bind]. rewrite Ho. reflexivity.
  Qed.

  Lemma range_end_some : forall y tl e r2,
    y <> 45 -> y <> 93 ->
    parse_range_char T (C y :: tl) = Ok (e, r2) ->
    parse_range_end T (C 45 :: C y :: tl) = Ok (Some e, r2).
  Proof.
    intros y tl e r2 H45 H93 Hp. unfold parse_range_end, peek_lit. cbn [try_lit].
    change (45 =? 45) with true. cbv iota.
    rewrite (neqb _ _ H93), (neqb _ _ H45). cbn [is_some]. rewrite Hp. reflexivity.
  Qed.

  Lemma range_end_dash_close : forall tl,
    parse_range_end T (C 45 :: C 93 :: tl) = Ok (None, C 45 :: C 93 :: tl).
  Proof. intros. reflexivity. Qed.

  Lemma range_end_other : forall x tl, x <> 45 ->
    parse_range_end T (C x :: tl) = Ok (None, C x :: tl).
  Proof.
    intros x tl H. unfold parse_range_end, peek_lit. cbn [try_lit].
    rewrite (neqb _ _ H). reflexivity.
  Qed.

  Lemma is_plain_dash_eq : forall r, is_plain_dash r = true -> r = dash_range.
  Proof.
    intros [[code enc] [e|]] H; unfold is_plain_dash in H; cbn in H; try discriminate.
    apply andb_true_iff in H. destruct H as [H1 H2]. apply N.eqb_eq in H1.
    apply negb_true_iff in H2. subst. reflexivity.
  Qed.

  (** What follows a range without an end: the closing "-]" / "]" or the next start. *)
  Lemma next_shape : forall compl rs, forallb range_rt_ok rs = true ->
    (exists tl, render_ranges T false compl rs ++ [93] = 45 :: 93 :: tl)
    \/ (exists x tl, render_ranges T false compl rs ++ [93] = x :: tl /\ x <> 45).
  Proof.
    intros compl [|r rs'] H.
    - right. exists 93, []. split; auto. lia.
    - rewrite render_ranges_cons. cbn [orb].
      cbn [forallb] in H. apply andb_true_iff in H. destruct H as [Hr _].
      unfold range_rt_ok in Hr. apply andb_true_iff in Hr. destruct Hr as [Hs _].
      destruct rs' as [|r' rs''].
      + destruct (is_plain_dash r); cbn [andb].
        * left. exists []. reflexivity.
        * right. destruct (render_start_head false compl r Hs) as [x [tl [E [H1 _]]]].
          rewrite E. cbn. eauto.
      + cbn [andb]. right. destruct (render_start_head false compl r Hs) as [x [tl [E [H1 _]]]].
        rewrite E. cbn. eauto.
  Qed.

  Lemma range_eta : forall r, mkRange (rg_start r) (rg_end r) = r.
  Proof. intros [a b]. reflexivity. Qed.

  Lemma range_rt_ok_facts : forall r, range_rt_ok r = true ->
    rng_char_ok (rg_start r) = true
    /\ match rg_end r with
       | Some e => rng_char_ok e = true /\ (ch_code e <? ch_code (rg_start r)) = false
       | None => True
       end.
  Proof.
    intros r H. unfold range_rt_ok in H. apply andb_true_iff in H. destruct H as [H1 H2].
    split; auto. destruct (rg_end r) as [e|]; auto.
    apply andb_true_iff in H2. destruct H2 as [H2 H3]. split; auto.
    apply N.leb_le in H3. apply N.ltb_ge. exact H3.
  Qed.

  (** ** The loop of [_parse_ranges_and_closing] on a rendered list of ranges *)
  Lemma loop_rt : forall compl rs first acc rest fuel,
    forallb range_rt_ok rs = true ->
    (first = true -> match rs with r :: _ => is_plain_dash r = false | [] => True end) ->
    Nat.lt (length (map C (render_ranges T first compl rs ++ [93]) ++ rest)) fuel ->
    parse_ranges_loop T fuel (map C (render_ranges T first compl rs ++ [93]) ++ rest) acc
    = Ok (rev acc ++ rs, rest).
  Proof.
    intros compl rs. induction rs as [|r rs' IH]; intros first acc rest fuel Hok Hfirst Hfuel.
    - destruct fuel as [|f]; [lia|].
      cbn [render_ranges app map]. cbn [parse_ranges_loop]. cbv beta iota. cbn [try_lit].
      change (93 =? 45) with false. change (93 =? 93) with true. cbv iota.
      rewrite app_nil_r. reflexivity.
    - destruct fuel as [|f]; [lia|].
      cbn [forallb] in Hok. apply andb_true_iff in Hok. destruct Hok as [Hr Hok'].
      rewrite render_ranges_cons in *.
      destruct ((first || match rs' with [] => true | _ :: _ => false end) && is_plain_dash r)
        eqn:Ea.
      + apply andb_true_iff in Ea. destruct Ea as [Efl Epd].
        destruct first; [specialize (Hfirst eq_refl); cbn in Hfirst; congruence|].
        destruct rs' as [|r' rs'']; [|discriminate].
        cbn [render_ranges app map]. cbn [parse_ranges_loop]. cbv beta iota. cbn [try_lit].
        change (45 =? 45) with true. change (93 =? 93) with true. cbv iota.
        rewrite (is_plain_dash_eq r Epd). cbn [rev]. reflexivity.
      + destruct (range_rt_ok_facts r Hr) as [Hs He].
        set (NEXT := map C (render_ranges T false compl rs' ++ [93]) ++ rest) in *.
        assert (Einput :
          map C (((render_start first compl r ++ render_end r)
                  ++ render_ranges T false compl rs') ++ [93]) ++ rest
          = map C (render_start first compl r) ++ map C (render_end r) ++ NEXT).
        { unfold NEXT. rewrite !map_app, <- !app_assoc. reflexivity. }
        rewrite Einput in *.
        destruct (render_start_head first compl r Hs) as [x [tl [Ex [H45 [H93 _]]]]].
        pose proof (render_start_parse first compl r (map C (render_end r) ++ NEXT) Hs) as Hstart.
        rewrite Ex in *. cbn [map app] in *.
        assert (Hend : parse_range_end T (map C (render_end r) ++ NEXT) = Ok (rg_end r, NEXT)).
        { unfold render_end. destruct (rg_end r) as [e|] eqn:Ee.
          - destruct He as [He1 He2].
            destruct (rng_char_head e He1) as [y [tl' [Ey [Hy45 [Hy93 _]]]]].
            pose proof (rng_char_parse e NEXT He1) as Hpe.
            cbn [app map]. rewrite Ey in *. cbn [map app] in *.
            apply range_end_some; auto.
          - cbn [map app].
            destruct (next_shape compl rs' Hok') as [[tl' En]|[x' [tl' [En Hx']]]];
              unfold NEXT; rewrite En; cbn [map app].
            + apply range_end_dash_close.
            + apply range_end_other. exact Hx'. }
        assert (Horder : match rg_end r with
                         | Some e => ch_code e <? ch_code (rg_start r)
                         | None => false end = false).
        { destruct (rg_end r); [apply He|reflexivity]. }
        rewrite (loop_step f x _ acc _ _ _ _ H45 H93 Hstart Hend Horder).
        rewrite range_eta.
        unfold NEXT. rewrite IH; auto.
        * cbn [rev]. rewrite <- app_assoc. reflexivity.
        * intros; discriminate.
        * fold NEXT. cbn [length] in Hfuel. rewrite !app_length in Hfuel. lia.
  Qed.

  (** [ranges_roundtrip] *)
  Theorem ranges_roundtrip : forall compl rs rest,
    rs <> [] -> forallb range_rt_ok rs = true -> ranges_disjoint rs = true ->
    parse_ranges_and_closing T (map C (render_ranges T true compl rs ++ [93]) ++ rest)
    = Ok (rs, rest).
  Proof.
    intros compl rs rest Hne Hok Hdis. unfold parse_ranges_and_closing.
    destruct rs as [|r rs']; [congruence|].
    destruct (is_plain_dash r) eqn:Epd.
    - rewrite render_ranges_cons. cbn [orb andb]. rewrite Epd.
      rewrite <- app_assoc. cbn [map app try_lit]. change (45 =? 45) with true. cbv iota.
      cbn [forallb] in Hok. apply andb_true_iff in Hok. destruct Hok as [_ Hok'].
      rewrite (loop_rt compl rs' false [dash_range] rest); auto.
      + cbn [rev app bind]. rewrite <- (is_plain_dash_eq r Epd), Hdis. reflexivity.
      + intros; discriminate.
    - pose proof Hok as Hok2. cbn [forallb] in Hok2. apply andb_true_iff in Hok2.
      destruct Hok2 as [Hr _]. destruct (range_rt_ok_facts r Hr) as [Hs _].
      assert (Hnd : try_lit [45] (map C (render_ranges T true compl (r :: rs') ++ [93]) ++ rest)
                    = None).
      { rewrite render_ranges_cons. cbn [orb andb]. rewrite Epd.
        destruct (render_start_head true compl r Hs) as [x [tl [Ex [H45 _]]]].
        rewrite Ex. cbn [map app try_lit]. rewrite (neqb _ _ H45). reflexivity. }
      rewrite Hnd.
      rewrite (loop_rt compl (r :: rs') true [] rest); auto.
      + cbn [rev app bind]. rewrite Hdis. reflexivity.
    Unshelve. all: auto.
  Qed.

  (** After the opening bracket of a plain set the rendering never starts with a
      caret (so [try_literal("[^")] does not misread it as a complement). *)
  Lemma ranges_no_caret : forall rs rest, forallb range_rt_ok rs = true ->
    try_lit [94] (map C (render_ranges T true false rs ++ [93]) ++ rest) = None.
  Proof.
    intros [|r rs'] rest Hok.
    - reflexivity.
    - rewrite render_ranges_cons. cbn [orb andb].
      cbn [forallb] in Hok. apply andb_true_iff in Hok. destruct Hok as [Hr _].
      destruct (range_rt_ok_facts r Hr) as [Hs _].
      destruct (is_plain_dash r).
      + reflexivity.
      + destruct (render_start_head true false r Hs) as [x [tl [Ex [_ [_ H94]]]]].
        rewrite Ex. cbn [map app try_lit]. rewrite (neqb _ _ (H94 eq_refl eq_refl)). reflexivity.
  Qed.
End WithTables.
