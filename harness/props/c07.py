"""C07 — Type-checked invariants cannot fail at run time
(intermediate/type_inference.py: _Canonicalizer, _Inferrer, infer_for_invariant; the call
check of intermediate/_translate.py)."""
from __future__ import annotations

import json
import os
from typing import Any, Dict, List

from harness import lib
from harness.gen import typeinf as g

META = {
    "title": "Type-checked invariants cannot fail at run time",
    "design_ref": "§4 C07",
    "level_text": (
        "Coq theorems for all expressions, environments and instances over a Gallina model of "
        "the type inference with None-narrowing (canonical keys included) and of Python "
        "evaluation: accepted invariants never dereference None (main theorem, induction with "
        "the non-null-key invariant); they evaluate to a bool or IndexError under an explicit, "
        "executable exclusion predicate (strict operand/argument typing), and the full claim is "
        "refuted by computed witnesses. The model is tied to the code by correspondence streams "
        "evaluated inside Coq (verdict, type of every sub-expression, canonical key of every "
        "sub-expression, and the value/exception of the source lambdas run by Python on "
        "type-conforming instances); the property is also run directly on the implementation."
    ),
    "level_note": (
        "Trusted: agreement of the hand-written models with the code beyond the sampled "
        "inputs; verification functions/methods are deterministic oracles; side condition "
        "'the operand of a None-test shares its canonical key with no other sub-expression' is "
        "proved for None-tests on access paths (C07_canon_path_inj) and otherwise decidable and "
        "checked on every case; bool-valuedness only under "
        "the stated exclusion (known finding: operand/argument types are not checked)."
    ),
    "technique": "Coq proof (structural induction, type soundness with flow-sensitive "
                 "non-null keys) + in-Coq correspondence check + direct oracle",
}
GEN: List[str] = []
MODEL = ["Model/Tree", "Model/PyEval", "Model/TypeInf"]
TRUSTED = [
    "Model/TypeInf.v, Model/PyEval.v, Model/Tree.v are hand-written models (correspondence-checked "
    "on every run against type_inference.py, _translate.py and CPython)",
    "CPython's evaluation of the invariant lambdas is the reference semantics of PyEval.v",
    "verification functions and methods are modelled as deterministic oracles",
    "harness/gen/typeinf.py prints the same meta-model as source text and as Coq symbol table",
]
RULE = ("case = (meta-model, class, invariant) or (meta-model, verification function with "
        "arguments whose body is `return <expression>`); loop variables re-using names of "
        "arguments / `self` / globals and narrowing of a member of an outer name followed by a "
        "quantifier that re-binds that name are generated (expected verdict: rejected); "
        "invariants are generated well-typed by "
        "construction over randomly generated classes (None-guards via and/or/implication, "
        "quantifiers over lists and ranges, len, verification functions, methods, enum and "
        "set membership, f-strings) and about half receive one typed mutation (dropped guard, "
        "swapped operands, guard on the wrong branch, flipped None test, wrong member, foreign "
        "comparison operand, foreign len/call argument, re-defined loop variable, wrong arity); "
        "non-trivial = contains a None-guard, a quantifier or a call; distinct by source text. "
        "Every invariant is also evaluated by Python on type-conforming instances "
        "(all-None, all-set, empty lists, mixed)")

KNOWN_KEY = "operand-types-unchecked"

HEADER = """From Coq Require Import List NArith ZArith Bool.
From Coq Require Strings.String.
Import Coq.Strings.String.StringSyntax.
From Acg Require Import Base.Str Model.Tree Model.PyEval Model.TypeInf.
Import ListNotations.
Open Scope Z_scope.
""" + g.COQ_ORACLES + """
Definition G_of (c : text) : tenv := (s2l "self", TClass c) :: base_tenv.

(* is_fn = the expression is the returned value of a verification function: its calls are
   not visited by the call check of _translate (only contracts and invariants are). *)
Definition vd (St : symtab) (G : tenv) (is_fn : bool) (e : expr) : nat :=
  if is_fn then match infer false St G [] e with Some _ => 0%nat | None => 2%nat end
  else verdict St G e.
Definition caseA := (symtab * tenv * bool * expr * nat * list ty * list text)%type.
Definition caseA_ok (c : caseA) : bool :=
  match c with
  | (St, G, isfn, e, v, tys, cans) =>
      Nat.eqb (vd St G isfn e) v
      && (negb (Nat.eqb v 0)
          || list_eqb (option_eqb ty_eqb) (type_trace false St G [] e) (map Some tys))
      && match cans with
         | [] => true
         | _ => list_eqb text_eqb (canon_trace e) cans
         end
  end.
Definition keys_ok (c : caseA) : bool :=
  match c with (St, G, isfn, e, v, tys, cans) => keys_distinctb e end.
Definition strict_ok (c : caseA) : bool :=
  match c with
  | (St, G, isfn, e, v, tys, cans) =>
      match infer true St G [] e with Some (TPrim PBool) => true | _ => false end
  end.
Definition lax_ok (c : caseA) : bool :=
  match c with (St, G, isfn, e, v, tys, cans) => Nat.eqb (vd St G isfn e) 0 end.
Fixpoint bad_from {A} (ok : A -> bool) (i : nat) (cs : list A) : list nat :=
  match cs with
  | [] => []
  | c :: r => if ok c then bad_from ok (S i) r else i :: bad_from ok (S i) r
  end.
Definition badA := bad_from caseA_ok 0.
Definition badK := bad_from keys_ok 0.
Definition badS := bad_from strict_ok 0.
Definition badL := bad_from lax_ok 0.
(* cases outside the fragment for which the key side condition is proved *)
Definition paths_ok (c : caseA) : bool :=
  match c with (St, G, isfn, e, v, tys, cans) => guards_on_paths e end.
Definition badP := bad_from paths_ok 0.

Inductive expect := EVal (v : value) | EObj (oid : nat) | ERaise (x : exn).
Definition mk_env_l (locals : list (text * value)) : env :=
  mkEnv (locals ++ globals) fn_model meth_model lits_model.
Definition caseB := (list (text * value) * expr * expect)%type.
Definition caseB_ok (c : caseB) : bool :=
  match c with
  | (locals, e, ex) =>
      match eval (mk_env_l locals) e 200, ex with
      | Val v, EVal w => value_eqb v w
      | Val (VObj i _ _), EObj j => Nat.eqb i j
      | Raise x, ERaise y => exn_eqb x y
      | _, _ => false
      end
  end.
Definition badB := bad_from caseB_ok 0.
"""

# witnesses and minimised past disagreements; always in the first meta-model
CORPUS = [
    "self.i0 < self.s0",
    "len(self.i0) > 0",
    "len(self.opt_items) > 0",
    "not (self.i0 > 0) or self.ob0",
    "self.i0 and self.s0",
    "is_ok(self.os0)",
    "is_ok(self.i0)",
    "self.i0 in self.i0",
    "self.item.compute(self.oi0) > 0",
    "self.oi0 is not None and self.oi0 > 0",
    "self.oi0 is not None or self.oi0 > 0",
    "self.oi0 is None or self.oi0 > 0",
    "self.oi0 is None and self.oi0 > 0",
    "not (self.oi0 is not None) or self.oi0 > 0",
    "not (self.b0 and self.oi0 is not None) or self.oi0 > 0",
    "not (self.b0 or self.oi0 is not None) or self.oi0 > 0",
    "(self.oi0 is not None and self.b0) and self.oi0 > 0",
    "self.opt_item is None or self.opt_item.weight is None or self.opt_item.weight > 0",
    "all(x.weight is None or x.weight > 0 for x in self.items)",
    "all(x.weight is not None for x in self.items) and all(x.weight > 0 for x in self.items)",
    "all(all(y > 0 for y in self.li0) for x in self.li0)",
    "all(self.items[i].name != '' for i in range(0, len(self.items)))",
    "self.li0[0] > 0",
    "self.li0[len(self.li0) - 1] > 0",
    "perhaps(self.s0) is not None and len(perhaps(self.s0)) > 0",
    "perhaps(self.s0) is not None and len(perhaps(self.os0)) > 0",
    "self.s0 in Valid_names",
    "f\"a{self.s0}\" == 'ab'",
    "f\"a{self.os0}\" == 'ab'",
    "self.f0 > 1.5 and self.f0 - 0.5 < 100.0",
    "self.i0 + 1.5 > 0",
    "self.i0 > -1",
    "self.item.name == 'it\\'s' or self.item.name == \"q\\\"\"",
    "not (self.opt_item is not None) or self.opt_item.compute(1) == 4",
    "self.opt_item.name == 'a'",
    "self.nope == 1",
    "self.item.name.x == 1",
    "len(self.items) >= 1 and self.items[0].name == 'a'",
    "any(self.i0 > i for i in range(self.i0, 3))",
    "self.b0 == True or not self.b0",
    "self.item.compute == 3",
    "self.item.weight(3) == 3",
    "all(x > 0 for self in self.li0)",
    # loop variables must not re-use a name of any outer scope (self, globals)
    "all(self > 0 for self in self.li0)",
    "all(self.weight is None for self in self.items)",
    "self.weight is None or all(self.weight > 0 for self in self.items)",
    "not (self.weight is not None) or any(self.weight > 0 for self in self.items)",
    "self.weight is not None and all(self.weight > 0 for self in self.items)",
    "all(len > 0 for len in self.li0)",
    "all(Color > 0 for Color in self.li0)",
    "all(Valid_names > 0 for Valid_names in self.li0) or any(is_ok > 0 for is_ok in range(0, 3))",
    "all(x > 0 for x in self.li0) and any(x.name != '' for x in self.items)",
    # Optional operand on either side of every operator that requires non-None
    "0 < self.oi0",
    "self.i0 == self.oi0",
    "self.oi0 == self.i0",
    "self.i0 + self.oi0 > 0",
    "self.oi0 - 1 > 0",
    "self.li0[self.oi0] > 0",
    "self.opt_items[0].name == 'a'",
    "any(i > 0 for i in range(0, self.oi0))",
    "any(i > 0 for i in range(self.oi0, 3))",
    "all(x.name != '' for x in self.opt_items)",
    "not self.ob0",
    "self.ob0 and self.b0",
    "self.b0 and self.ob0",
    "self.b0 or self.ob0",
    "not self.ob0 or self.b0",
    "self.s0 in self.os0",
    "self.os0 in Valid_names",
    "self.opt_item.compute(1) > 0",
    "self.oi0 is not None and (self.oi0 > 0 or self.oi0 < 0)",
    # narrowing must end with its conjunction / disjunction / implication
    "(self.oi0 is not None and self.b0) or self.oi0 > 0",
    "(self.oi0 is None or self.b0) and self.oi0 > 0",
    "(not (self.oi0 is not None) or self.b0) and self.oi0 > 0",
    "all(x.weight is not None and x.weight > 0 for x in self.items) and any(x.weight > 0 for x in self.items)",
    "not (self.oi0 is not None) or not (self.oi0 is None) or self.oi0 > 0",
    "not (self.oi0 is None) or self.oi0 > 0",
    "self.oi0 is not None and self.os0 is not None and len(self.os0) > self.oi0",
    "self.item.weight is not None and self.opt_item is not None and self.opt_item.weight > 0",
    "is_ok(self.s0) and opt_ok(self.os0) and opt_ok(self.s0) and both_pos(self.i0, self.oi0)",
]


ITEM, ITEMS = ("class", "Item"), ("list", ("class", "Item"))
# (parameters, returned expression): loop variables and the names of outer scopes
FN_CORPUS = [
    ([("item", ITEM), ("items", ITEMS)],
     "(item.weight is None) or all(item.weight > 0 for item in items)"),
    ([("item", ITEM), ("items", ITEMS)],
     "(item.weight is None) or all(x.weight is None or item.weight > 0 for x in items)"),
    ([("item", ITEM), ("items", ITEMS)],
     "not (item.weight is not None) or any(item.weight > 0 for item in items)"),
    ([("item", ITEM), ("items", ITEMS)],
     "item.weight is not None and all(item.weight > 0 for item in items)"),
    ([("item", ITEM), ("items", ITEMS)],
     "all(x.weight is None or x.weight > 0 for x in items) and item.weight is None"),
    ([("items", ITEMS)], "all(len > 0 for len in items)"),
    ([("items", ITEMS)], "all(Color.weight is None for Color in items)"),
    ([("items", ITEMS)], "all(is_ok.name != '' for is_ok in items)"),
    ([("items", ITEMS)], "all(items.name != '' for items in items)"),
    ([("n", g.INT), ("numbers", ("list", g.INT))], "all(n > 0 for n in numbers)"),
    ([("n", g.INT), ("numbers", ("list", g.INT))], "all(n > 0 for n in range(0, n))"),
    ([("n", g.INT), ("numbers", ("list", g.INT))], "all(x > n for x in numbers) and any(x > 0 for x in numbers)"),
    ([("opt_n", ("opt", g.INT)), ("numbers", ("list", g.INT))],
     "opt_n is None or all(opt_n > 0 for opt_n in numbers)"),
    ([("opt_n", ("opt", g.INT)), ("numbers", ("list", g.INT))],
     "opt_n is None or all(x > opt_n for x in numbers)"),
    ([("opt_n", ("opt", g.INT)), ("numbers", ("list", g.INT))], "all(x > opt_n for x in numbers)"),
    ([("opt_item", ("opt", ITEM)), ("items", ITEMS)],
     "opt_item is None or opt_item.weight is None or all(x.weight is None or x.weight >= opt_item.weight for x in items)"),
    ([("text", g.STR), ("opt_text", ("opt", g.STR))],
     "opt_text is None or len(opt_text) > len(text)"),
    ([("text", g.STR), ("opt_text", ("opt", g.STR))], "len(opt_text) > len(text)"),
    ([("text", g.STR), ("opt_text", ("opt", g.STR))], "is_ok(text) and opt_ok(opt_text) and is_ok(opt_text)"),
    ([("holder", ("class", "Holder"))],
     "holder.weight is None or all(holder.weight > 0 for holder in holder.items)"),
    ([("holder", ("class", "Holder"))],
     "holder.opt_items is None or all(x.weight is None for x in holder.opt_items)"),
]


def verdict_code(rec: Dict[str, Any], translate_failed: bool) -> int:
    if translate_failed:
        return 1
    v = rec.get("verdict")
    if v == "ok":
        return 0
    if v == "err":
        return 2
    return 3


EXC = {"IndexError": "IndexErr", "NameError": "NameErr", "ValueError": "ValueErr"}


# method member used as a value (bound method object): outside PyEval, inference only
NO_EVAL = {"self.item.compute == 3"}


def expect_term(res: Dict[str, Any]):
    if "val" in res:
        v = res["val"]
        if v["k"] == "obj":
            return f"(EObj {v['oid']}%nat)"
        if contains_unmodelled(v):
            return None
        return f"(EVal {g.cvalue(v)})"
    exc, msg = res["exc"], res.get("msg", "")
    if exc in ("TypeError", "AttributeError"):
        if "NoneType" in msg:
            return "(ERaise NoneDeref)"
        return "(ERaise TypeErr)" if exc == "TypeError" else "(ERaise AttrErr)"
    if exc in EXC:
        return f"(ERaise {EXC[exc]})"
    return None


def contains_unmodelled(v) -> bool:
    if v["k"] in ("set", "other", "fun", "obj"):
        return True
    if v["k"] == "list":
        return any(contains_unmodelled(x) for x in v["v"])
    return False


def nontrivial(tree: Dict[str, Any]) -> bool:
    s = json.dumps(tree)
    return any(k in s for k in ('"IsNone"', '"IsNotNone"', '"Any"', '"All"', '"FunctionCall"',
                                '"MethodCall"'))


def instance_of(models, mi, cls, j):
    payload = models[mi][1]
    if cls.startswith("fn:"):
        return payload["fn_args"][cls[3:]][j]
    return payload["instances"][cls][j]


def build_models(ctx: lib.Ctx):
    """-> list of (MetaModel, payload dict, {desc: (cls, src, kind)})"""
    rng = ctx.rng
    n_models = int(os.environ.get("C07_MODELS", "0")) or ctx.n(10, 150)
    n_holder, n_item, n_fn = 30, 6, 14
    models = []
    for mi in range(n_models):
        mm = g.MetaModel(rng, mi)
        info = {}
        counter = 0

        def add(cls, spec, kind):
            nonlocal counter
            counter += 1
            desc = f"inv {mi} {counter}"
            mm.invariants[cls].append((desc, spec))
            info[desc] = (cls, g.src(spec), kind)

        if mi == 0:
            for s in CORPUS:
                add("Holder", ("raw", s), "corpus")
        for cls, n in (("Holder", n_holder), ("Item", n_item)):
            eg = g.ExprGen(rng, mm, cls)
            for _ in range(n):
                e = eg.invariant()
                kind = "wellformed"
                r = rng.random()
                if r < 0.06:
                    x = eg.narrow_then_shadow([(g.SELF, ("class", cls))])
                    if x is not None:
                        kind, e = "narrow_then_shadow", x
                elif r < 0.53:
                    m = g.mutate(rng, mm, cls, e)
                    if m is not None:
                        kind, e = m
                add(cls, e, kind)
        # verification functions with arguments; the body is `return <expression>`
        eg = g.ExprGen(rng, mm, "Holder")
        fn_specs = []
        if mi == 0:
            for params, body in FN_CORPUS:
                fn_specs.append((params, ("raw", body), "corpus"))
        for _ in range(n_fn):
            params = eg.random_params()
            e = eg.function_body(params)
            kind = "wellformed"
            r = rng.random()
            if r < 0.25:
                x = eg.narrow_then_shadow([(("name", n), t) for n, t in params])
                if x is not None:
                    kind, e = "narrow_then_shadow", x
            elif r < 0.6:
                m = g.mutate(rng, mm, "Holder", e, outer_names=[n for n, _ in params])
                if m is not None:
                    kind, e = m
            fn_specs.append((params, e, kind))
        ig = g.InstanceGen(rng, mm)
        inst = {"Holder": ig.instances("Holder", 4), "Item": ig.instances("Item", 3)}
        fn_args = {}
        for k, (params, e, kind) in enumerate(fn_specs):
            fname = f"vf_{k}"
            mm.functions[fname] = (params, e, kind)
            fn_args[fname] = ig.arg_tuples(params, 6)
        models.append((mm, {"source": mm.source(), "instances": inst, "fn_args": fn_args,
                            "overrides": g.OVERRIDES}, info))
    # wrong arity / unknown function: rejected by _translate for the whole model, hence
    # one invariant per model
    for k, s in enumerate(["len(self.s0, self.s0) > 0", "len() > 0", "is_ok() or self.b0",
                           "both_pos(self.i0)", "twice(1, 2) > 0", "nosuch(self.i0)",
                           "abs(self.i0) > 0", "all(x(1) for x in self.li0)",
                           "all(len(x) > 0 for x in self.items) or len(self.i0, 1) > 0"]
                          [: ctx.n(9, 9)]):
        mm = g.MetaModel(rng, 10000 + k)
        desc = f"inv arity {k}"
        mm.invariants["Holder"].append((desc, ("raw", s)))
        ig = g.InstanceGen(rng, mm)
        models.append((mm, {"source": mm.source(), "instances": {}, "overrides": g.OVERRIDES},
                       {desc: ("Holder", s, "arity")}))
    return models


def streams(ctx: lib.Ctx) -> None:
    models = build_models(ctx)
    results: List[Dict[str, Any]] = []
    B = 40
    for k in range(0, len(models), B):
        results += lib.impl_call("typeinf.py", {"models": [p for _, p, _ in models[k:k + B]]},
                                 timeout=3000)

    units: List[str] = []
    unit_meta: List[Dict[str, Any]] = []      # per unit: global indices of its A and B cases
    casesA: List[str] = []
    metaA: List[Dict[str, Any]] = []
    casesB: List[str] = []
    metaB: List[Dict[str, Any]] = []
    headers: List[str] = []
    n_unmodelled_results = 0
    verdict_hist = {0: 0, 1: 0, 2: 0, 3: 0}
    kind_hist: Dict[str, int] = {}
    for mi, ((mm, payload, info), res) in enumerate(zip(models, results)):
        if "parse_error" in res or "exec_error" in res:
            raise lib.HarnessError(f"generated meta-model {mi} is not usable: "
                                   f"{res.get('parse_error') or res.get('exec_error')}\n"
                                   + payload["source"][-1500:])
        translate_failed = "translate_error" in res or "translate_exception" in res
        arity_model = any(kind == "arity" for _, _, kind in info.values())
        if translate_failed and not arity_model:
            raise lib.HarnessError(f"generated meta-model {mi} rejected by translate: "
                                   f"{res.get('translate_error') or res.get('translate_exception')}")
        header = [HEADER, f"Definition st : symtab := {mm.coq_symtab()}."]
        inst_names: Dict[str, List[str]] = {}
        for cls, insts in payload["instances"].items():
            inst_names[cls] = []
            for j, inst in enumerate(insts):
                nm = f"inst_{cls}_{j}"
                header.append(f"Definition {nm} : value := {g.cvalue(inst)}.")
                inst_names[cls].append(nm)
        ia, ib = [], []
        for rec in res["invariants"]:
            if rec["desc"] not in info:
                continue  # fixed invariants of the prelude
            cls, source, kind = info[rec["desc"]]
            if "tree" not in rec:
                raise lib.HarnessError(f"unmodelled tree: {rec.get('tree_error')} in {source}")
            v = verdict_code(rec, translate_failed)
            if translate_failed and "translate_exception" in res:
                v = 3
            verdict_hist[v] += 1
            kind_hist[kind] = kind_hist.get(kind, 0) + 1
            tys = g.clist(g.ctype_json(t) for t in rec.get("types", [])) if v == 0 else "[]"
            cans = g.clist(g.ctext(c) for c in rec.get("canon", []))
            tree = g.ctree(rec["tree"])
            ia.append(len(casesA))
            casesA.append(f"(st, G_of {g.ctext(cls)}, false, {tree}, {v}%nat, {tys}, {cans})")
            metaA.append({"model": mi, "cls": cls, "source": source, "kind": kind,
                          "verdict": rec.get("verdict", "translate-error" if translate_failed
                                             else "?"),
                          "tree": rec["tree"], "results": rec.get("results"),
                          "messages": rec.get("messages") or res.get("translate_error")})
            for j, r in enumerate(rec.get("results") or []):
                ex = None if source in NO_EVAL else expect_term(r)
                if ex is None:
                    n_unmodelled_results += 1
                    continue
                ib.append(len(casesB))
                casesB.append(f"([(s2l \"self\", {inst_names[cls][j]})], {tree}, {ex})")
                metaB.append({"model": mi, "cls": cls, "source": source, "instance": j,
                              "observed": r})
        for rec in res.get("functions", []):
            fname = rec["name"]
            if fname not in mm.functions:
                continue
            params, spec, kind = mm.functions[fname]
            source = f"def {fname}(" + ", ".join(f"{n}: {g.T_src(t)}" for n, t in params) \
                     + "): return " + g.src(spec)
            if "tree" not in rec:
                raise lib.HarnessError(f"unmodelled function body: {rec.get('tree_error')} in {source}")
            if rec.get("verdict", "").startswith("not-transpilable"):
                raise lib.HarnessError(f"generated function is not transpilable: {source}")
            v = verdict_code(rec, translate_failed)
            verdict_hist[v] += 1
            kind_hist["fn:" + kind] = kind_hist.get("fn:" + kind, 0) + 1
            tys = g.clist(g.ctype_json(t) for t in rec.get("types", [])) if v == 0 else "[]"
            cans = g.clist(g.ctext(c) for c in rec.get("canon", []))
            tree = g.ctree(rec["tree"])
            G = "(" + g.clist(f"({g.ctext(n)}, {g.ctype_json(g.T_json(t))})" for n, t in params) \
                + " ++ base_tenv)"
            ia.append(len(casesA))
            casesA.append(f"(st, {G}, true, {tree}, {v}%nat, {tys}, {cans})")
            metaA.append({"model": mi, "cls": "fn:" + fname, "source": source, "kind": kind,
                          "verdict": rec.get("verdict", "?"), "tree": rec["tree"],
                          "results": rec.get("results"), "messages": rec.get("messages")})
            for j, r in enumerate(rec.get("results") or []):
                ex = expect_term(r)
                if ex is None:
                    n_unmodelled_results += 1
                    continue
                argv = payload["fn_args"][fname][j]
                names = []
                for (n, _), val in zip(params, argv):
                    nm = f"arg_{fname}_{j}_{n}"
                    header.append(f"Definition {nm} : value := {g.cvalue(val)}.")
                    names.append(f"({g.ctext(n)}, {nm})")
                ib.append(len(casesB))
                casesB.append(f"({g.clist(names)}, {tree}, {ex})")
                metaB.append({"model": mi, "cls": "fn:" + fname, "source": source, "instance": j,
                              "observed": r})
        hdr = "\n".join(header) + "\n"
        headers.append(hdr)
        units.append(hdr
                     + "Definition casesA : list caseA := " + g.clist(casesA[i] for i in ia) + ".\n"
                     + "Definition casesB : list caseB := " + g.clist(casesB[i] for i in ib) + ".\n"
                     + "Eval vm_compute in (badA casesA).\nEval vm_compute in (badK casesA).\n"
                     + "Eval vm_compute in (badS casesA).\nEval vm_compute in (badL casesA).\n"
                     + "Eval vm_compute in (badB casesB).\nEval vm_compute in (badP casesA).\n")
        unit_meta.append({"A": ia, "B": ib})

    outs = g.run_units(ctx.work, "cases", units, ncpu=lib.NCPU)
    bad, badk, not_strict, not_lax, badb = [], [], set(), set(), []
    n_not_paths = 0
    for um, o in zip(unit_meta, outs):
        if len(o) == 6:
            n_not_paths += len(o.pop())
        if len(o) != 5:
            raise lib.HarnessError(f"cannot parse the result of a cases file: {o}")
        bad += [um["A"][i] for i in o[0]]
        badk += [um["A"][i] for i in o[1]]
        not_strict |= {um["A"][i] for i in o[2]}
        not_lax |= {um["A"][i] for i in o[3]}
        badb += [um["B"][i] for i in o[4]]

    # ---- correspondence A: verdict, type map, canonical keys
    for i in bad[:12]:
        m = metaA[i]
        model_out = lib.coq_eval(ctx.work, "showA", headers[m["model"]],
                                 f"let c := {casesA[i]} in match c with (St, G, isfn, e, v, t, k) => "
                                 f"(vd St G isfn e, type_trace false St G [] e, canon_trace e) end")
        ctx.corr_break("typeinf-verdict-types-keys",
                       {"source": m["source"], "class": m["cls"], "kind": m["kind"],
                        "meta_model": models[m["model"]][1]["source"]},
                       model_out[-1500:], {"verdict": m["verdict"], "messages": m["messages"]})
    # ---- side condition of the main theorem on every case
    for i in badk[:5]:
        ctx.proof_break("keys_distinct side condition",
                        f"two distinct sub-expressions share a canonical key: {metaA[i]['source']}")
    # ---- correspondence B: evaluation
    for i in badb[:12]:
        m = metaB[i]
        model_out = lib.coq_eval(ctx.work, "showB", headers[m["model"]],
                                 f"let c := {casesB[i]} in match c with (s, e, x) => "
                                 f"eval (mk_env_l s) e 200 end")
        ctx.corr_break("pyeval", {"source": m["source"], "class": m["cls"],
                                  "instance": instance_of(models, m["model"], m["cls"], m["instance"])},
                       model_out[-800:], m["observed"])

    if os.environ.get("C07_DEBUG"):
        with open(os.environ["C07_DEBUG"], "w") as f:
            json.dump(ctx.corr_breaks, f, indent=1, default=str)

    # ---- the property itself, on the implementation
    failing = []
    n_runs = 0
    n_index = 0
    for i, m in enumerate(metaA):
        if m["verdict"] != "ok":
            continue
        for j, r in enumerate(m["results"] or []):
            n_runs += 1
            if "val" in r and r["val"]["k"] == "bool":
                continue
            if r.get("exc") == "IndexError":
                n_index += 1
                continue
            failing.append((i, j, r))
            break
    fail_idx = sorted({i for i, _, _ in failing})
    seen_new = set()
    failing.sort(key=lambda t: len(metaA[t[0]]["source"]))
    for i, j, r in failing:
        m = metaA[i]
        pos = i
        inst = instance_of(models, m["model"], m["cls"], j)
        observed = r
        how = ("load the meta-model, check that type inference accepts the invariant, then "
               "evaluate the lambda on the instance (harness/impl/typeinf.py does exactly this)")
        inp = {"invariant": m["source"], "class": m["cls"], "instance": inst,
               "meta_model": models[m["model"]][1]["source"]}
        if pos in not_lax:
            what = ("accepted by the front end although the (fixed) inference rejects it; "
                    "fails at run time")
            key = ("none-unsafe:" if "NoneType" in r.get("msg", "") or
                   r.get("val", {}).get("k") == "none" else "accepted-unsafe:") + m["source"]
        elif pos in not_strict:
            what = ("operand/argument types are not checked by the type inference: accepted "
                    "invariant raises TypeError/AttributeError or yields a non-boolean")
            key = KNOWN_KEY
        else:
            what = "an invariant accepted even by the strict typing fails at run time"
            key = "typed-invariant-fails:" + m["source"]
        if key != KNOWN_KEY:
            if len(seen_new) >= 6 or key in seen_new:
                continue
            seen_new.add(key)
        elif KNOWN_KEY in seen_new:
            continue
        else:
            seen_new.add(KNOWN_KEY)
        ctx.impl_failure(key, what, inp, observed, "oracle", how)

    ctx.count("typeinf-verdict-types-keys", len(casesA),
              nontrivial_keys=[m["source"] for m in metaA if nontrivial(m["tree"])],
              validated=len(casesA), verdicts={"accepted": verdict_hist[0],
                                               "rejected_by_translate": verdict_hist[1],
                                               "failed_to_infer": verdict_hist[2],
                                               "exception": verdict_hist[3]},
              kinds=kind_hist, meta_models=len(models))
    ctx.count("keys-distinct-side-condition", len(casesA),
              none_tests_all_on_access_paths=len(casesA) - n_not_paths,
              none_tests_on_other_expressions=n_not_paths)
    ctx.count("pyeval", len(casesB), validated=len(casesB),
              results_outside_model=n_unmodelled_results)
    ctx.count("oracle", n_runs, index_errors=n_index,
              failing_invariants=len(fail_idx), excluded_by_strict_typing=len([i for i in fail_idx if i in not_strict]))
    for m in metaA[:4] + metaA[60:64]:
        ctx.sample({"invariant": m["source"], "kind": m["kind"], "verdict": m["verdict"]})
