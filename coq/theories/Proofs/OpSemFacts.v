(** C09 — facts about the operator semantics of [Model/OpSem.v]. *)
From Coq Require Import List NArith ZArith Bool Lia.
From Acg Require Import Base.Str Model.OpSem.
Import ListNotations.
Open Scope Z_scope.

(** * Tables *)

Lemma cmpop_eqb_eq : forall a b, cmpop_eqb a b = true -> a = b.
Proof. intros a b; destruct a, b; simpl; intros H; congruence. Qed.

Lemma cmpop_eqb_refl : forall a, cmpop_eqb a a = true.
Proof. destruct a; reflexivity. Qed.

Lemma all_ops_complete : forall op, In op all_ops.
Proof. destruct op; simpl; tauto. Qed.

(** A table that satisfies [table_ok] maps every comparator, and maps it to a token
    whose primitive reading is that comparator. *)
Lemma table_ok_lookup : forall m, table_ok m = true ->
  forall op, exists tok, lookup_cmp m op = Some tok /\ tok_cmp tok = Some op.
Proof.
  intros m Hok op. unfold table_ok in Hok. rewrite forallb_forall in Hok.
  specialize (Hok op (all_ops_complete op)).
  destruct (lookup_cmp m op) as [tok|] eqn:El; [|discriminate].
  exists tok. split; [reflexivity|].
  destruct (tok_cmp tok) as [op'|] eqn:Et; [|discriminate].
  apply cmpop_eqb_eq in Hok. congruence.
Qed.

Lemma table_ok_sound : forall m, table_ok m = true ->
  forall op tok, lookup_cmp m op = Some tok -> tok_cmp tok = Some op.
Proof.
  intros m Hok op tok Hl. destruct (table_ok_lookup m Hok op) as [tok' [H1 H2]]. congruence.
Qed.

Lemma table_ok_total : forall m, table_ok m = true ->
  forall op, lookup_cmp m op <> None.
Proof.
  intros m Hok op. destruct (table_ok_lookup m Hok op) as [tok [H1 _]]. congruence.
Qed.

(** * C++: full soundness on comparable values *)

Lemma sem_cpp_sound : forall op tok v w,
  tok_cmp tok = Some op -> comparable op v w ->
  sem_cpp tok (cpp_repr v) (cpp_repr w) = py_cmp op v w.
Proof.
  intros op tok v w Ht _. unfold sem_cpp. rewrite Ht.
  destruct v, w; reflexivity.
Qed.

(** * Java *)

(** The comparisons on which Java's operators agree with Python: ordering operators on
    numbers (operands are unboxed; [<] on two [String]s does not compile), or an
    equality with at least one primitive operand, or an equality of two enumeration
    constants. *)
Definition java_safe (op : cmpop) (jv jw : jval) : bool :=
  match op with
  | EQ | NE =>
      jis_prim jv || jis_prim jw ||
      match jv, jw with
      | JRef _ (OEnum _ _), JRef _ (OEnum _ _) => true
      | _, _ => false
      end
  | _ => match junbox jv, junbox jw with Some _, Some _ => true | _, _ => false end
  end.

Lemma sem_java_partial : forall op tok v w jv jw,
  tok_cmp tok = Some op -> comparable op v w ->
  java_repr v jv -> java_repr w jw -> java_safe op jv jw = true ->
  sem_java tok jv jw = py_cmp op v w.
Proof.
  intros op tok v w jv jw Ht Hc Hv Hw Hs. unfold sem_java. rewrite Ht.
  unfold comparable in Hc.
  destruct Hv; destruct Hw; cbn in Hc; try congruence;
    destruct op; cbn in Hs |- *; try discriminate; try reflexivity; try congruence.
  all: destruct (Nat.eqb e e0) eqn:Ee; cbn in Hc |- *; try congruence; reflexivity.
Qed.

(** Reference equality on two boxed values / strings is not value equality. *)
Definition java_witness_str : pyval := PStr [97;98;99]%N.

Lemma sem_java_refuted_str :
  java_repr java_witness_str (JRef (AHeap 1) (OStr [97;98;99]%N)) /\
  java_repr java_witness_str (JRef (AHeap 2) (OStr [97;98;99]%N)) /\
  sem_java t_eq (JRef (AHeap 1) (OStr [97;98;99]%N)) (JRef (AHeap 2) (OStr [97;98;99]%N)) = Some false /\
  py_cmp EQ java_witness_str java_witness_str = Some true.
Proof. repeat split; try constructor. Qed.

Lemma sem_java_refuted_long :
  java_repr (PInt 1000) (JRef (AHeap 1) (OLong 1000)) /\
  java_repr (PInt 1000) (JRef (AHeap 2) (OLong 1000)) /\
  sem_java t_ne (JRef (AHeap 1) (OLong 1000)) (JRef (AHeap 2) (OLong 1000)) = Some true /\
  py_cmp NE (PInt 1000) (PInt 1000) = Some false.
Proof. repeat split; try constructor. Qed.

(** * TypeScript *)

Lemma utf16_bmp : forall s, forallb (fun c => (c <? 55296)%N) s = true -> utf16 s = s.
Proof.
  induction s as [|c r IH]; simpl; intros H; [reflexivity|].
  apply andb_true_iff in H. destruct H as [Hc Hr].
  rewrite (IH Hr). unfold utf16_cp.
  apply N.ltb_lt in Hc.
  destruct (N.ltb c 65536) eqn:E; [reflexivity|].
  apply N.ltb_ge in E. lia.
Qed.

Lemma sem_ts_partial : forall op tok v w,
  tok_cmp tok = Some op -> comparable op v w ->
  ts_safe v = true -> ts_safe w = true ->
  sem_ts tok (ts_repr v) (ts_repr w) = py_cmp op v w.
Proof.
  intros op tok v w Ht _ Sv Sw. unfold sem_ts. rewrite Ht.
  destruct v, w; simpl in *; try reflexivity.
  rewrite (utf16_bmp _ Sv), (utf16_bmp _ Sw). reflexivity.
Qed.

(** Ordering strings by UTF-16 code units is not ordering by code points:
    U+FFFF < U+10000 in Python, but "￿" > "𐀀" in JavaScript. *)
Lemma sem_ts_refuted_order :
  sem_ts t_lt (ts_repr (PStr [65535]%N)) (ts_repr (PStr [65536]%N)) = Some false /\
  py_cmp LT (PStr [65535]%N) (PStr [65536]%N) = Some true.
Proof. split; vm_compute; reflexivity. Qed.

(** * Connective skeletons *)

Lemma bools_complete : forall b, In b bools.
Proof. destruct b; simpl; tauto. Qed.

Lemma opt_bool_eqb_eq : forall x y, opt_bool_eqb x y = true -> x = Some y.
Proof. intros [[]|] []; simpl; intros H; congruence. Qed.

Lemma all2_spec : forall f, all2 f = true -> forall a b, f a b = true.
Proof.
  intros f H a b. unfold all2 in H. rewrite forallb_forall in H.
  specialize (H a (bools_complete a)). rewrite forallb_forall in H.
  exact (H b (bools_complete b)).
Qed.

Lemma impl_shapes_sound : forall l shapes,
  forallb (impl_shape_ok l) shapes = true ->
  forall s a b, In s shapes ->
    eval_shape l (env2 h_antecedent a h_consequent b) s = Some (implb a b).
Proof.
  intros l shapes H s a b Hin. rewrite forallb_forall in H.
  specialize (H s Hin). unfold impl_shape_ok in H.
  apply opt_bool_eqb_eq. exact (all2_spec _ H a b).
Qed.

Lemma not_shapes_sound : forall l shapes,
  forallb (not_shape_ok l) shapes = true ->
  forall s a, In s shapes -> eval_shape l (env1 h_operand a) s = Some (negb a).
Proof.
  intros l shapes H s a Hin. rewrite forallb_forall in H.
  specialize (H s Hin). unfold not_shape_ok in H. rewrite forallb_forall in H.
  apply opt_bool_eqb_eq. exact (H a (bools_complete a)).
Qed.

Lemma and_shapes_sound : forall l shapes,
  forallb (and_shape_ok l) shapes = true ->
  forall s a b, In s shapes -> eval_shape l (env2 h_prev a h_value b) s = Some (andb a b).
Proof.
  intros l shapes H s a b Hin. rewrite forallb_forall in H.
  specialize (H s Hin). unfold and_shape_ok in H.
  apply opt_bool_eqb_eq. exact (all2_spec _ H a b).
Qed.

Lemma or_shapes_sound : forall l shapes,
  forallb (or_shape_ok l) shapes = true ->
  forall s a b, In s shapes -> eval_shape l (env2 h_prev a h_value b) s = Some (orb a b).
Proof.
  intros l shapes H s a b Hin. rewrite forallb_forall in H.
  specialize (H s Hin). unfold or_shape_ok in H.
  apply opt_bool_eqb_eq. exact (all2_spec _ H a b).
Qed.

Lemma conn_ok_parts : forall l nots impls ands ors,
  conn_ok l nots impls ands ors = true ->
  forallb (not_shape_ok l) nots = true /\ forallb (impl_shape_ok l) impls = true /\
  forallb (and_shape_ok l) ands = true /\ forallb (or_shape_ok l) ors = true.
Proof.
  intros l nots impls ands ors H. unfold conn_ok in H.
  repeat (apply andb_true_iff in H; destruct H as [H ?]). auto.
Qed.

Lemma conn_ok_sound : forall l nots impls ands ors,
  conn_ok l nots impls ands ors = true ->
  (forall s a, In s nots -> eval_shape l (env1 h_operand a) s = Some (negb a)) /\
  (forall s a b, In s impls ->
     eval_shape l (env2 h_antecedent a h_consequent b) s = Some (implb a b)) /\
  (forall s a b, In s ands -> eval_shape l (env2 h_prev a h_value b) s = Some (andb a b)) /\
  (forall s a b, In s ors -> eval_shape l (env2 h_prev a h_value b) s = Some (orb a b)).
Proof.
  intros l nots impls ands ors H.
  destruct (conn_ok_parts _ _ _ _ _ H) as [Hn [Hi [Ha Ho]]].
  split; [exact (not_shapes_sound l nots Hn)|].
  split; [exact (impl_shapes_sound l impls Hi)|].
  split; [exact (and_shapes_sound l ands Ha)|exact (or_shapes_sound l ors Ho)].
Qed.

(** * Refutations over any well-formed table *)

Lemma java_refuted_of_table : forall m, table_ok m = true ->
  exists op tok v w jv jw,
    lookup_cmp m op = Some tok /\ comparable op v w /\
    java_repr v jv /\ java_repr w jw /\ sem_java tok jv jw <> py_cmp op v w.
Proof.
  intros m Hok. destruct (table_ok_lookup m Hok EQ) as [tok [Hl Ht]].
  exists EQ, tok, java_witness_str, java_witness_str,
    (JRef (AHeap 1) (OStr [97;98;99]%N)), (JRef (AHeap 2) (OStr [97;98;99]%N)).
  split; [exact Hl|]. split; [vm_compute; discriminate|].
  split; [constructor|]. split; [constructor|].
  unfold sem_java. rewrite Ht. vm_compute. discriminate.
Qed.

Lemma java_refuted_long_of_table : forall m, table_ok m = true ->
  exists op tok jv jw,
    lookup_cmp m op = Some tok /\
    java_repr (PInt 1000) jv /\ java_repr (PInt 1000) jw /\
    sem_java tok jv jw <> py_cmp op (PInt 1000) (PInt 1000).
Proof.
  intros m Hok. destruct (table_ok_lookup m Hok NE) as [tok [Hl Ht]].
  exists NE, tok, (JRef (AHeap 1) (OLong 1000)), (JRef (AHeap 2) (OLong 1000)).
  split; [exact Hl|]. split; [constructor|]. split; [constructor|].
  unfold sem_java. rewrite Ht. vm_compute. discriminate.
Qed.

Lemma ts_refuted_of_table : forall m, table_ok m = true ->
  exists op tok v w,
    lookup_cmp m op = Some tok /\ comparable op v w /\
    sem_ts tok (ts_repr v) (ts_repr w) <> py_cmp op v w.
Proof.
  intros m Hok. destruct (table_ok_lookup m Hok LT) as [tok [Hl Ht]].
  exists LT, tok, (PStr [65535]%N), (PStr [65536]%N).
  split; [exact Hl|]. split; [vm_compute; discriminate|].
  unfold sem_ts. rewrite Ht. vm_compute. discriminate.
Qed.

(** * Java by-value comparison of two references *)

Lemma z_eqb_sym_cmp : forall a b, z_cmp EQ a b = Z.eqb a b.
Proof. reflexivity. Qed.

Lemma java_objects_equals_sound : forall op v w a b x y,
  (op = EQ \/ op = NE) -> comparable op v w ->
  java_repr v (JRef a x) -> java_repr w (JRef b y) ->
  sem_java_objects_equals (match op with NE => true | _ => false end) (JRef a x) (JRef b y)
  = py_cmp op v w.
Proof.
  intros op v w a b x y Hop Hc Hv Hw. unfold comparable in Hc.
  inversion Hv; subst; inversion Hw; subst; cbn in Hc |- *; try congruence;
    destruct Hop as [-> | ->]; cbn in Hc |- *; try reflexivity.
  all: destruct (Nat.eqb e e0) eqn:Ee; cbn in Hc |- *; try congruence; reflexivity.
Qed.

(** * C++ lengths are unsigned *)

(** [len(s) + 1 > len(t) - 1] for [s = "abc"], [t = ""]: 4 > -1 in Python, but
    [t.size() - 1] is 2^64 - 1 in C++. Likewise [-2 <= len(s) - 1]. *)
Lemma cpp_length_arithmetic_refuted :
  exists op l r, z_cmp op l r <> cpp_len_cmp op l r.
Proof. exists GT, (3 + 1), (0 - 1). vm_compute. discriminate. Qed.

Lemma cpp_len_cmp_sound : forall op l r,
  0 <= l < 18446744073709551616 -> 0 <= r < 18446744073709551616 ->
  cpp_len_cmp op l r = z_cmp op l r.
Proof.
  intros op l r Hl Hr. unfold cpp_len_cmp, wrap64.
  rewrite (Z.mod_small l) by lia. rewrite (Z.mod_small r) by lia. reflexivity.
Qed.

(** * Quantifier tables *)

Lemma bool_eqb_eq : forall a b, bool_eqb a b = true -> a = b.
Proof. intros [] []; simpl; congruence. Qed.

Lemma quantifier_table_sound : forall t, quantifier_table_ok t = true ->
  (forall a g a' g', In (a, g, a', g') t -> a' = a /\ g' = g) /\
  (forall a g, exists a' g', In (a, g, a', g') t).
Proof.
  intros t H. unfold quantifier_table_ok in H.
  repeat (apply andb_true_iff in H; destruct H as [H ?]).
  split.
  - intros a g a' g' Hin. rewrite forallb_forall in H. specialize (H _ Hin). simpl in H.
    apply andb_true_iff in H. destruct H as [Ha Hg].
    apply bool_eqb_eq in Ha. apply bool_eqb_eq in Hg. subst. split; reflexivity.
  - assert (P : forall a g, quantifier_case_present t a g = true -> exists a' g', In (a, g, a', g') t).
    { intros a g Hp. unfold quantifier_case_present in Hp. apply existsb_exists in Hp.
      destruct Hp as [[[[x y] a'] g'] [Hin Hxy]]. apply andb_true_iff in Hxy. destruct Hxy as [Hx Hy].
      apply bool_eqb_eq in Hx. apply bool_eqb_eq in Hy. subst. exists a', g'. exact Hin. }
    intros [] []; apply P; assumption.
Qed.
