"""Seeded generator of meta-models for C15 (schema constraint inference).

An abstract meta-model is a plain dict (JSON-able, so that it can be stored in replays):

  {"patterns": [[fname, pattern]], "plain_fns": [fname],
   "consts": [[name, kind, payload]],     kind: "str"/"int" (payload: values),
                                          "enum" (payload: [enum, [literal names]]),
                                          "prim" (payload: value)
   "enums": [[name, [literal names]]],    (several; they may share literal names)
   "cprims": [{"name", "base", "parents": [..], "invs": [inv]}],   (one or two parents)
   "classes": [{"name", "parents": [..], "props": [[name, type]], "invs": [inv]},
   "decl_order": [name, ...]}             optional: order of the constrained primitives and
                                          classes in the TEXT (default: cprims, classes).
                                          "cprims" and "classes" themselves are always listed
                                          parents first (that is what the Coq model gets); the
                                          text may declare a constrained primitive before its
                                          parent or after the classes that use it. A class is
                                          never declared before its parent class (the front
                                          end rejects that).

  type  = ["prim", p] | ["our", name] | ["list", type] | ["opt", type]
  inv   = {"e": expr, "tags": [tag]}      (model order = order of cls.invariants, i.e.
                                           the decorators bottom-up)
  expr  = ["name", id] | ["member", expr, id] | ["int", z] | ["const", src]
        | ["cmp", op, l, r] | ["isin", m, c] | ["isnone", e] | ["isnotnone", e]
        | ["not", e] | ["and", [e..]] | ["or", [e..]] | ["impl", a, c]
        | ["call", fn, [e..]] | ["other", src]
  tag   = what the invariant MEANS for the oracle, written down by the generator
          independently of any matcher:
          ["len", prop, op, const, side, guard]  side "L": len(p) op c, "R": c op len(p);
                                                 guard None | "same" | ["other", q]
          ["pat", prop, fname, guard], ["set", prop, const_name, guard],
          ["expect_err", why]                    (the inference must report an error)
          (no tag: unrecognised form, must be ignored)

Three renderings: `render_source` (text for the real front end), `render_coq` (term of
type Model.InferInline.mmodel), and the dict itself (replays).
"""
from __future__ import annotations

import copy
from typing import Any, Dict, List, Optional

OPS = ["<", "<=", "==", ">", ">=", "!="]
COQ_OP = {"<": "Lt", "<=": "Le", "==": "Eq", ">": "Gt", ">=": "Ge", "!=": "Ne"}
PATTERNS = ["^a+$", "^[0-9]{2}$", "^x.*$", "^(ab)*$"]
STR_VALUES = ["A", "B", "C", "D"]
INT_VALUES = [1, 2, 3, 4]


# ---------------------------------------------------------------------------------
# expression helpers
# ---------------------------------------------------------------------------------
def self_prop(p):
    return ["member", ["name", "self"], p]


def len_of(e):
    return ["call", "len", [e]]


def src(e) -> str:
    k = e[0]
    if k == "name":
        return e[1]
    if k == "member":
        return f"{src(e[1])}.{e[2]}"
    if k == "int":
        return str(e[1])
    if k == "const":
        return e[1]
    if k == "cmp":
        return f"{src(e[2])} {e[1]} {src(e[3])}"
    if k == "isin":
        return f"{src(e[1])} in {src(e[2])}"
    if k == "isnone":
        return f"{src(e[1])} is None"
    if k == "isnotnone":
        return f"{src(e[1])} is not None"
    if k == "not":
        return f"not ({src(e[1])})"
    if k == "and":
        return " and ".join(f"({src(v)})" for v in e[1])
    if k == "or":
        return " or ".join(f"({src(v)})" for v in e[1])
    if k == "impl":
        return f"not ({src(e[1])}) or ({src(e[2])})"
    if k == "call":
        return f"{e[1]}({', '.join(src(a) for a in e[2])})"
    if k == "other":
        return e[1]
    raise AssertionError(k)


def coq_text(s: str) -> str:
    return "[" + ";".join(str(ord(c)) for c in s) + "]"


def coq_expr(e) -> str:
    k = e[0]
    if k == "name":
        return f"(EName {coq_text(e[1])})"
    if k == "member":
        return f"(EMember {coq_expr(e[1])} {coq_text(e[2])})"
    if k == "int":
        return f"(EInt ({e[1]})%Z)"
    if k == "const":
        return "EConstOther"
    if k == "cmp":
        return f"(ECmp {COQ_OP[e[1]]} {coq_expr(e[2])} {coq_expr(e[3])})"
    if k == "isin":
        return f"(EIsIn {coq_expr(e[1])} {coq_expr(e[2])})"
    if k == "isnone":
        return f"(EIsNone {coq_expr(e[1])})"
    if k == "isnotnone":
        return f"(EIsNotNone {coq_expr(e[1])})"
    if k == "not":
        return f"(ENot {coq_expr(e[1])})"
    if k == "and":
        return "(EAnd [" + "; ".join(coq_expr(v) for v in e[1]) + "])"
    if k == "or":
        return "(EOr [" + "; ".join(coq_expr(v) for v in e[1]) + "])"
    if k == "impl":
        return f"(EImpl {coq_expr(e[1])} {coq_expr(e[2])})"
    if k == "call":
        return f"(ECall {coq_text(e[1])} [" + "; ".join(coq_expr(a) for a in e[2]) + "])"
    if k == "other":
        return "EOther"
    raise AssertionError(k)


# ---------------------------------------------------------------------------------
# types
# ---------------------------------------------------------------------------------
def type_src(t) -> str:
    if t[0] == "prim":
        return t[1]
    if t[0] == "our":
        return t[1]
    if t[0] == "list":
        return f"List[{type_src(t[1])}]"
    if t[0] == "opt":
        return f"Optional[{type_src(t[1])}]"
    raise AssertionError(t)


COQ_PRIM = {"bool": "PBool", "int": "PInt", "float": "PFloat", "str": "PStr",
            "bytearray": "PBytes"}


def type_coq(t) -> str:
    if t[0] == "prim":
        return f"(TPrim {COQ_PRIM[t[1]]})"
    if t[0] == "our":
        return f"(TOur {coq_text(t[1])})"
    if t[0] == "list":
        return f"(TList {type_coq(t[1])})"
    if t[0] == "opt":
        return f"(TOpt {type_coq(t[1])})"
    raise AssertionError(t)


def beneath_optional(t):
    while t[0] == "opt":
        t = t[1]
    return t


def levels(t) -> list:
    out = []
    while True:
        if t[0] == "opt":
            t = t[1]
        elif t[0] == "list":
            out.append(t)
            t = t[1]
        else:
            out.append(t)
            return out


# ---------------------------------------------------------------------------------
# model helpers (mirrors of the Coq side)
# ---------------------------------------------------------------------------------
def class_by_name(mm) -> Dict[str, dict]:
    return {c["name"]: c for c in mm["classes"]}


def cprim_by_name(mm) -> Dict[str, dict]:
    return {c["name"]: c for c in mm["cprims"]}


def all_props(mm, cname) -> List[list]:
    """Inherited properties first (parents in order), then own (= Coq props_table)."""
    c = class_by_name(mm)[cname]
    out = []
    for p in c["parents"]:
        out += all_props(mm, p)
    return out + [list(x) for x in c["props"]]


def unique_props(mm, cname) -> List[list]:
    """``all_props`` without the repetitions a diamond produces (what the class really has)."""
    out, seen = [], set()
    for pn, pt in all_props(mm, cname):
        if pn not in seen:
            seen.add(pn)
            out.append([pn, pt])
    return out


def ancestors_and_self(mm, cname) -> List[str]:
    c = class_by_name(mm)[cname]
    out = []
    for p in c["parents"]:
        for a in ancestors_and_self(mm, p):
            if a not in out:
                out.append(a)
    return out + [cname]


def cprim_chain(mm, name) -> List[str]:
    cp = cprim_by_name(mm)[name]
    out = []
    for p in cp["parents"]:
        for a in cprim_chain(mm, p):
            if a not in out:
                out.append(a)
    return out + [name]


# ---------------------------------------------------------------------------------
# rendering
# ---------------------------------------------------------------------------------
def lit_src(v) -> str:
    return repr(v) if not isinstance(v, str) else '"' + v + '"'


def declaration_order(mm) -> List[str]:
    """Names of constrained primitives and classes in text order (robust against names
    removed by the shrinker and against a missing field)."""
    names = [c["name"] for c in mm["cprims"]] + [c["name"] for c in mm["classes"]]
    order = [n for n in mm.get("decl_order", []) if n in names]
    order += [n for n in names if n not in order]
    # classes keep their relative (parents-first) order
    cls_names = [c["name"] for c in mm["classes"]]
    it = iter(cls_names)
    return [next(it) if n in cls_names else n for n in order]


def render_source(mm) -> str:
    out: List[str] = []
    for fname, pattern in mm["patterns"]:
        out += ["@verification", f"def {fname}(text: str) -> bool:",
                f'    return match("{pattern}", text) is not None', "", ""]
    for fname in mm["plain_fns"]:
        out += ["@verification", f"def {fname}(text: str) -> bool:",
                "    return len(text) > 3", "", ""]
    for name, lits in mm["enums"]:
        out += [f"class {name}(Enum):"]
        out += [f'    {lit} = "{lit.lower()}"' for lit in lits]
        out += ["", ""]
    for name, kind, payload in mm["consts"]:
        if kind in ("str", "int"):
            vals = ", ".join(lit_src(v) for v in payload)
            out += [f"{name}: Set[{kind}] = constant_set(values=[{vals}])", ""]
        elif kind == "enum":
            vals = ", ".join(f"{payload[0]}.{lit}" for lit in payload[1])
            out += [f"{name}: Set[{payload[0]}] = constant_set(values=[{vals}])", ""]
        elif kind == "prim":
            out += [f"{name}: int = constant_int(value={payload})", ""]
        else:
            raise AssertionError(kind)
    counter = [0]

    def inv_lines(invs):
        lines = []
        # decorators are applied bottom-up: the model order is the reverse of the text
        for inv in reversed(invs):
            counter[0] += 1
            lines += ["@invariant(", f"    lambda self: {src(inv['e'])},",
                      f'    "d{counter[0]}"', ")"]
        return lines

    def emit_cprim(cp):
        nonlocal out
        out += inv_lines(cp["invs"])
        bases = ", ".join(cp["parents"]) if cp["parents"] else cp["base"]
        out += [f"class {cp['name']}({bases}):", "    pass", "", ""]

    def emit_class(c):
        nonlocal out
        out += inv_lines(c["invs"])
        head = f"class {c['name']}({', '.join(c['parents'])}):" if c["parents"] \
            else f"class {c['name']}:"
        out += [head]
        for pn, pt in c["props"]:
            out += [f"    {pn}: {type_src(pt)}"]
        props = unique_props(mm, c["name"])
        required = [p for p in props if p[1][0] != "opt"]
        optional = [p for p in props if p[1][0] == "opt"]
        args = [f"{pn}: {type_src(pt)}" for pn, pt in required]
        args += [f"{pn}: {type_src(pt)} = None" for pn, pt in optional]
        if not props:
            out += ["    pass", "", ""]
            return
        out += ["", f"    def __init__(self, {', '.join(args)}) -> None:"]
        covered = set()
        for parent in c["parents"]:
            pprops = unique_props(mm, parent)
            # in a diamond the second branch initialises nothing new: it is not called
            if pprops and all(p[0] in covered for p in pprops):
                continue
            covered.update(p[0] for p in pprops)
            preq = [p for p in pprops if p[1][0] != "opt"]
            popt = [p for p in pprops if p[1][0] == "opt"]
            call_args = ", ".join(["self"] + [p[0] for p in preq + popt])
            out += [f"        {parent}.__init__({call_args})"]
        for pn, _ in c["props"]:
            out += [f"        self.{pn} = {pn}"]
        if not c["props"] and not c["parents"]:
            out += ["        pass"]
        out += ["", ""]

    cp_by = cprim_by_name(mm)
    cls_by = class_by_name(mm)
    for name in declaration_order(mm):
        if name in cp_by:
            emit_cprim(cp_by[name])
        else:
            emit_class(cls_by[name])
    out += ['__version__ = "dummy"', '__xml_namespace__ = "https://dummy.com"', ""]
    return "\n".join(out)


def coq_list(items) -> str:
    return "[" + "; ".join(items) + "]"


def coq_lit(v) -> str:
    return f"(LStr {coq_text(v)})" if isinstance(v, str) else f"(LInt ({v})%Z)"


def render_coq(mm) -> str:
    pats = coq_list(f"({coq_text(f)}, {coq_text(p)})" for f, p in mm["patterns"])
    consts = []
    for name, kind, payload in mm["consts"]:
        if kind in ("str", "int"):
            c = f"(CSetPrim {COQ_PRIM[kind]} {coq_list(coq_lit(v) for v in payload)})"
        elif kind == "enum":
            c = f"(CSetEnum {coq_text(payload[0])} {coq_list(coq_text(v) for v in payload[1])})"
        else:
            c = "CPrimConst"
        consts.append(f"({coq_text(name)}, {c})")
    enums = coq_list(coq_text(n) for n, _ in mm["enums"])
    cps = coq_list(
        f"(mk_cprim {coq_text(cp['name'])} {COQ_PRIM[cp['base']]} "
        f"{coq_list(coq_text(p) for p in cp['parents'])} "
        f"{coq_list(coq_expr(i['e']) for i in cp['invs'])})" for cp in mm["cprims"])
    cls = coq_list(
        f"(mk_class {coq_text(c['name'])} {coq_list(coq_text(p) for p in c['parents'])} "
        f"{coq_list('(' + coq_text(pn) + ', ' + type_coq(pt) + ')' for pn, pt in c['props'])} "
        f"{coq_list(coq_expr(i['e']) for i in c['invs'])})" for c in mm["classes"])
    return f"(mk_mmodel {pats} {coq_list(consts)} {enums} {cps} {cls})"


# ---------------------------------------------------------------------------------
# generation
# ---------------------------------------------------------------------------------
def _const(rng, wide=True):
    if wide and rng.random() < 0.35:
        return rng.randint(-2, 70)
    return rng.choice([-2, -1, 0, 0, 1, 1, 2, 3, 4, 5, 5, 6, 7, 10, 69, 70])


FLIP = {"<": ">", "<=": ">=", "==": "==", ">": "<", ">=": "<=", "!=": "!="}


def _bound(rng, target, p_random=0.18):
    """(op, constant, side): mostly a bound that the target interval [lo, hi] satisfies
    (so that several bounds on one property are usually satisfiable, with the constants
    sitting on or next to the boundaries), sometimes an arbitrary one."""
    side = rng.choice("LR")
    if target is None or rng.random() < p_random:
        op = rng.choice(OPS[:5] if rng.random() < 0.9 else OPS)
        return op, _const(rng), side
    lo, hi = target
    slack = rng.choice([0, 0, 0, 1, 1, 2, 5, 30])
    op = rng.choice(["<", "<=", ">", ">=", "==", "!="] if lo == hi else
                    ["<", "<=", ">", ">=", "<", "<=", ">", ">=", "!="])
    if op == "<":
        c = hi + 1 + slack
    elif op == "<=":
        c = hi + slack
    elif op == ">":
        c = lo - 1 - min(slack, 3)
    elif op == ">=":
        c = lo - min(slack, 3)
    elif op == "==":
        c = lo
    else:
        c = hi + 1 + slack
    c = max(-2, min(70, c))
    # written as `len(p) op c`; the other operand order flips the operator
    return (op, c, "L") if side == "L" else (FLIP[op], c, "R")


def _len_inv(rng, prop, guard_candidates, target=None, p_guard_same=0.3,
             p_guard_other=0.2, p_random=0.18):
    """A length bound on ``prop`` with a random operator / side / guard."""
    op, c, side = _bound(rng, target, p_random)
    core = ["cmp", op, len_of(self_prop(prop)), ["int", c]] if side == "L" \
        else ["cmp", op, ["int", c], len_of(self_prop(prop))]
    r = rng.random()
    guard = None
    e = core
    if r < p_guard_same:
        guard = "same"
        g = prop
    elif r < p_guard_same + p_guard_other and guard_candidates:
        g = rng.choice(guard_candidates)
        guard = ["other", g] if g != prop else "same"
    if guard is not None:
        if rng.random() < 0.5:
            e = ["or", [["isnone", self_prop(g)], core]]
        else:
            e = ["impl", ["isnotnone", self_prop(g)], core]
    tags = [] if op == "!=" else [["len", prop, op, c, side, guard]]
    return {"e": e, "tags": tags}


def _guarded(rng, core, prop, guard_candidates, tag_of_guard, p_same=0.3, p_other=0.2):
    r = rng.random()
    guard = None
    g = prop
    if r < p_same:
        guard = "same"
    elif r < p_same + p_other and guard_candidates:
        g = rng.choice(guard_candidates)
        guard = ["other", g] if g != prop else "same"
    if guard is None:
        return core, None
    if rng.random() < 0.5:
        return ["or", [["isnone", self_prop(g)], core]], guard
    return ["impl", ["isnotnone", self_prop(g)], core], guard


def _junk_inv(rng, prop, mm):
    """Forms that no matcher recognises: they must be ignored."""
    c = _const(rng, wide=False)
    lp = len_of(self_prop(prop))
    forms = [
        ["cmp", "!=", lp, ["int", c]],
        ["cmp", "<", ["other", f"len(self.{prop}) + 1"], ["int", c]],
        ["not", ["cmp", ">=", lp, ["int", c]]],
        ["cmp", "<", lp, ["const", "4.5"]],
        ["or", [["isnone", self_prop(prop)], ["cmp", "<", lp, ["int", c]],
                ["cmp", ">", lp, ["int", c + 3]]]],
        ["and", [["isnotnone", self_prop(prop)], ["cmp", "<", lp, ["int", c]]]],
        ["and", [["cmp", ">=", lp, ["int", 0]], ["cmp", "<=", lp, ["int", c]]]],
        ["or", [["cmp", "<", lp, ["int", c]], ["cmp", ">", lp, ["int", c + 5]]]],
        ["impl", ["cmp", ">", lp, ["int", c]], ["cmp", "<", lp, ["int", c + 9]]],
        ["cmp", "<", ["call", "len", [self_prop(prop)]], ["name", "K0"]]
        if any(k[1] == "prim" for k in mm["consts"]) else ["cmp", "!=", lp, ["int", c]],
    ]
    if mm["plain_fns"]:
        forms.append(["call", mm["plain_fns"][0], [self_prop(prop)]])
    if mm["patterns"]:
        f0 = mm["patterns"][0][0]
        f1 = mm["patterns"][-1][0]
        forms.append(["not", ["call", f0, [self_prop(prop)]]])
        forms.append(["or", [["call", f0, [self_prop(prop)]], ["call", f1, [self_prop(prop)]]]])
    return {"e": rng.choice(forms), "tags": []}


def _len(_kind, prop, op, c):
    """The unguarded invariant ``len(self.<prop>) op c`` (``prop == "self"``: ``len(self)``)."""
    target = ["name", "self"] if prop == "self" else self_prop(prop)
    return {"e": ["cmp", op, len_of(target), ["int", c]], "tags": [["len", prop, op, c, "L", None]]}


def gen_model(rng, profile: str = "mixed") -> dict:
    """profile: "mixed" | "bounds" (many bounds on few properties) | "small"."""
    mm: Dict[str, Any] = {"patterns": [], "plain_fns": [], "consts": [], "enums": [],
                          "cprims": [], "classes": []}
    n_pat = rng.choice([0, 1, 2, 3]) if profile != "bounds" else rng.choice([0, 1])
    pats = rng.sample(PATTERNS, n_pat)
    # two functions may share one pattern (de-duplication is by pattern)
    for i, p in enumerate(pats):
        mm["patterns"].append([f"F{i}", p])
    if pats and rng.random() < 0.3:
        mm["patterns"].append([f"F{len(pats)}", pats[0]])
    if rng.random() < 0.4:
        mm["plain_fns"].append("G0")
    with_sets = profile != "bounds" and rng.random() < 0.7
    if with_sets:
        for i in range(rng.choice([1, 2, 3])):
            k = rng.choice([1, 2, 3, 4])
            vals = rng.sample(STR_VALUES, k)
            if rng.random() < 0.04:
                vals.append(vals[0])           # duplicated literal (accepted by the front end)
            mm["consts"].append([f"S{i}", "str", vals])
        for i in range(rng.choice([0, 1, 2])):
            mm["consts"].append([f"I{i}", "int", rng.sample(INT_VALUES, rng.choice([1, 2, 3]))])
        if rng.random() < 0.8:
            # one to three enumerations; they share literal names (E0.L0 is not E1.L0), and
            # every enumeration gets one or two constant sets of its literals
            n_enum = rng.choice([1, 2, 2, 3])
            for j in range(n_enum):
                lits = ["L0", "L1", "L2", "L3"] if j == 0 else rng.sample(["L0", "L1", "L2", "L3", "L4"], 3)
                mm["enums"].append([f"E{j}", lits])
            k = 0
            for name, lits in mm["enums"]:
                for _ in range(rng.choice([1, 1, 2])):
                    mm["consts"].append([f"ES{k}", "enum",
                                         [name, rng.sample(lits, rng.choice([1, 2, min(3, len(lits))]))]])
                    k += 1
    if rng.random() < 0.3:
        mm["consts"].append(["K0", "prim", 5])

    t_lo = rng.choice([0, 0, 1, 1, 2, 3, 5, 20])
    tgt_len = (t_lo, t_lo + rng.choice([0, 0, 1, 2, 4, 9, 40])) if rng.random() < 0.9 else None

    # constrained primitives: trees, or a deep chain (depth 3..5) in which EVERY level
    # carries a recognised invariant (so that losing any ancestor is observable)
    def cp_invariant(base, force_recognised, p_random=None):
        p_random = p_rand if p_random is None else p_random
        r = rng.random()
        if (r < 0.6 or not mm["patterns"] or base != "str") and (r < 0.85 or force_recognised):
            op, c, side = _bound(rng, tgt_len, p_random)
            if force_recognised and op == "!=":
                op = "<=" if side == "L" else ">="
                c = max(c, (tgt_len[1] if tgt_len else 5))
            e = ["cmp", op, len_of(["name", "self"]), ["int", c]] if side == "L" \
                else ["cmp", op, ["int", c], len_of(["name", "self"])]
            tags = [] if op == "!=" or base == "int" else [["len", "self", op, c, side, None]]
            return {"e": e, "tags": tags}
        if mm["patterns"] and base == "str" and (r < 0.85 or force_recognised):
            fs = rng.sample(mm["patterns"], min(len(mm["patterns"]), rng.choice([1, 1, 2])))
            calls = [["call", f[0], [["name", "self"]]] for f in fs]
            e = calls[0] if len(calls) == 1 else ["and", calls]
            return {"e": e, "tags": [["pat", "self", f[0], None] for f in fs]}
        return {"e": ["cmp", "!=", len_of(["name", "self"]), ["int", 3]], "tags": []}

    deep_chain = profile != "small" and rng.random() < 0.4
    want_join = profile != "small" and rng.random() < 0.3
    want_diamond = profile != "small" and rng.random() < 0.22
    # models with multi-level constructions contain many bounds: keep the share of arbitrary
    # (non-target) bounds low there, otherwise almost all of them end in an error
    p_rand = 0.04 if (deep_chain or want_join or want_diamond) else 0.18
    chain_names: List[str] = []
    if deep_chain:
        depth = rng.choice([3, 3, 4, 5])
        base = rng.choice(["str", "str", "str", "bytearray"])
        for i in range(depth):
            invs = [cp_invariant(base, True, 0.04)]
            if rng.random() < 0.3:
                invs.append(cp_invariant(base, False, 0.04))
            mm["cprims"].append({"name": f"P{i}", "base": base,
                                 "parents": [f"P{i - 1}"] if i > 0 else [], "invs": invs})
            chain_names.append(f"P{i}")
    n_cp = rng.choice([0, 0, 1, 2, 3]) if profile != "small" else rng.choice([0, 1])
    if deep_chain:
        n_cp = rng.choice([0, 0, 1])
    for _ in range(n_cp):
        i = len(mm["cprims"])
        parents = []
        base = rng.choice(["str", "str", "str", "bytearray", "int"])
        if i > 0 and rng.random() < 0.6:
            par = rng.choice(mm["cprims"])
            parents = [par["name"]]
            base = par["base"]
        invs = [cp_invariant(base, False) for _ in range(rng.choice([0, 1, 1, 2, 3]))]
        mm["cprims"].append({"name": f"P{i}", "base": base, "parents": parents, "invs": invs})

    # constrained primitives with TWO parents: a join of two roots / chain members, or a
    # diamond over a common ancestor; the parents' bounds are compatible or exclude each
    # other while the join's own invariants (if any) contradict neither parent
    join_names: List[str] = []
    if want_join:
        for _ in range(rng.choice([1, 1, 2])):
            base = rng.choice(["str", "str", "bytearray"])
            k0 = len(mm["cprims"])
            lo_ = (tgt_len[0] if tgt_len else 2)
            hi_ = min(tgt_len[1] if tgt_len else 9, 40)
            grand: List[str] = []
            same_base = [c["name"] for c in mm["cprims"] if c["base"] == base]
            style = rng.choice(["roots", "roots", "diamond", "on-existing"])
            if style == "diamond":
                mm["cprims"].append({"name": f"P{k0}", "base": base, "parents": [],
                                     "invs": [cp_invariant(base, True, 0.04)]})
                grand = [f"P{k0}"]
                k0 += 1
            elif style == "on-existing" and same_base:
                grand = [rng.choice(same_base)]
            contradictory = rng.random() < 0.2
            if contradictory:
                gap = rng.choice([1, 2, 5])
                inv_a = _len("cmp", "self", ">=", hi_ + 20 + gap)
                inv_b = _len("cmp", "self", "<=", hi_ + 20)
            else:
                inv_a = _len("cmp", "self", ">=", max(0, lo_ - rng.choice([0, 1])))
                inv_b = _len("cmp", "self", "<=", hi_ + rng.choice([0, 1, 3]))
            if rng.random() < 0.5:
                inv_a, inv_b = inv_b, inv_a
            pa = {"name": f"P{k0}", "base": base, "parents": list(grand), "invs": [inv_a]}
            pb = {"name": f"P{k0 + 1}", "base": base, "parents": list(grand), "invs": [inv_b]}
            if mm["patterns"] and base == "str" and rng.random() < 0.5:
                f = rng.choice(mm["patterns"])
                pb["invs"].append({"e": ["call", f[0], [["name", "self"]]],
                                   "tags": [["pat", "self", f[0], None]]})
            own = []
            r_own = rng.random()
            if r_own < 0.25:
                own = [_len("cmp", "self", "<=", 70)]               # contradicts neither parent
            elif r_own < 0.4:
                own = [cp_invariant(base, False, 0.04)]
            pj = {"name": f"P{k0 + 2}", "base": base, "parents": [pa["name"], pb["name"]],
                  "invs": own}
            mm["cprims"] += [pa, pb, pj]
            join_names.append(pj["name"])
            if rng.random() < 0.4:
                mm["cprims"].append({"name": f"P{k0 + 3}", "base": base, "parents": [pj["name"]],
                                     "invs": [cp_invariant(base, False, 0.04)]
                                     if rng.random() < 0.5 else []})
                join_names.append(f"P{k0 + 3}")

    def add_invariants(cls, n_inv=None, p_random=None):
        p_random = p_rand if p_random is None else p_random
        """Invariants of one class over all its (own and inherited) properties."""
        avail = unique_props(mm, cls["name"])
        if not avail:
            return
        optional = [p[0] for p in avail if p[1][0] == "opt"]
        names = [p[0] for p in avail]

        def prim_of(t):
            b = beneath_optional(t)
            if b[0] == "prim":
                return b[1]
            if b[0] == "our" and b[1] in cprim_by_name(mm):
                return cprim_by_name(mm)[b[1]]["base"]
            return None

        lenable = [p[0] for p in avail
                   if beneath_optional(p[1])[0] == "list" or prim_of(p[1]) in ("str", "bytearray")]
        strs = [p[0] for p in avail if prim_of(p[1]) == "str"]
        ints = [p[0] for p in avail if prim_of(p[1]) == "int"]
        enum_names = [en_[0] for en_ in mm["enums"]]
        enums = [(p[0], beneath_optional(p[1])[1]) for p in avail
                 if beneath_optional(p[1])[0] == "our" and beneath_optional(p[1])[1] in enum_names]
        hot_prop = rng.choice(lenable) if lenable else None
        if n_inv is None:
            n_inv = {"small": rng.choice([1, 2, 3]), "bounds": rng.choice([1, 2, 3, 4]),
                     "mixed": rng.choice([0, 1, 2, 3, 4, 5])}[profile]
        for _ in range(n_inv):
            r = rng.random()
            guards = optional if rng.random() < 0.8 else names
            if (r < 0.5 or profile == "bounds" and r < 0.85) and lenable:
                p = hot_prop if rng.random() < 0.7 else rng.choice(lenable)
                if profile == "bounds":
                    cls["invs"].append(_len_inv(rng, p, guards, tgt_len, 0.2, 0.12, p_random))
                else:
                    cls["invs"].append(_len_inv(rng, p, guards, tgt_len, p_random=p_random))
            elif r < 0.68 and strs and mm["patterns"]:
                p = rng.choice(strs)
                fs = rng.sample(mm["patterns"], min(len(mm["patterns"]), rng.choice([1, 1, 2])))
                calls = [["call", f[0], [self_prop(p)]] for f in fs]
                q = None
                if len(calls) == 2 and rng.random() < 0.3 and len(strs) > 1:
                    # conjunction over two different properties
                    q = rng.choice([s for s in strs if s != p])
                    calls[1] = ["call", fs[1][0], [self_prop(q)]]
                core = calls[0] if len(calls) == 1 else ["and", calls]
                e, guard = _guarded(rng, core, p, guards, None)
                tags = []
                for j, f in enumerate(fs):
                    target = q if (q is not None and j == 1) else p
                    if guard is None:
                        tags.append(["pat", target, f[0], None])
                    elif guard == "same":
                        # the guard is on p: a conjunct on q is guarded by another property
                        tags.append(["pat", target, f[0], "same" if target == p else ["other", p]])
                    else:
                        tags.append(["pat", target, f[0],
                                     "same" if guard[1] == target else guard])
                cls["invs"].append({"e": e, "tags": tags})
            elif r < 0.84 and with_sets and (strs or ints or enums):
                # element type of every constant set / of every candidate property
                def const_type(k_):
                    return ("enum", k_[2][0]) if k_[1] == "enum" else ("prim", k_[1])
                set_consts = [k_ for k_ in mm["consts"] if k_[1] in ("str", "int", "enum")]
                cand_props = [(pn_, ("prim", "str")) for pn_ in strs] \
                    + [(pn_, ("prim", "int")) for pn_ in ints] + [(pn_, ("enum", en_)) for pn_, en_ in enums]
                cand_props = [(pn_, ty_) for pn_, ty_ in cand_props
                              if any(const_type(k_) == ty_ for k_ in set_consts)]
                if not cand_props:
                    continue
                p, pty = rng.choice(cand_props)
                matching = [k_[0] for k_ in set_consts if const_type(k_) == pty]
                others = [k_[0] for k_ in set_consts if const_type(k_) != pty]
                cs_ = rng.sample(matching, min(len(matching), rng.choice([1, 1, 2])))
                wrong: List[str] = []
                if others and rng.random() < 0.12:
                    # a set of another element type: another enumeration, a primitive set on
                    # an enumeration property, an enumeration / int set on a str property ...
                    same_family = [o for o in others
                                   if const_type(dict((k_[0], k_) for k_ in set_consts)[o])[0] == pty[0]]
                    w = rng.choice(same_family if same_family and rng.random() < 0.7 else others)
                    form = rng.choice(["alone", "alone", "with-matching", "with-matching-first"])
                    wrong = [w]
                    if form == "alone":
                        cs_ = [w]
                    elif form == "with-matching":
                        cs_ = cs_[:1] + [w]
                    else:
                        cs_ = [w] + cs_[:1]
                ins = [["isin", self_prop(p), ["name", cn]] for cn in cs_]
                core = ins[0] if len(ins) == 1 else ["and", ins]
                e, guard = _guarded(rng, core, p, guards, None)
                if not wrong:
                    tags = [["set", p, cn, guard] for cn in cs_]
                elif guard is None or guard == "same":
                    tags = [["expect_err", f"set {wrong[0]} of another element type on {p}"]]
                else:
                    tags = []          # guarded by another property: ignored before the type check
                cls["invs"].append({"e": e, "tags": tags})
            elif r < 0.88 and rng.random() < 0.25:
                # forms for which an error must be reported
                if rng.random() < 0.5 or not (strs and any(k[1] == "int" for k in mm["consts"])):
                    cls["invs"].append({"e": ["cmp", "<", len_of(self_prop("zz")), ["int", 3]],
                                        "tags": [["expect_err", "unknown property"]]})
                else:
                    cn = [k[0] for k in mm["consts"] if k[1] == "int"][0]
                    cls["invs"].append({"e": ["isin", self_prop(rng.choice(strs)), ["name", cn]],
                                        "tags": [["expect_err", "set of another type"]]})
            elif lenable or strs:
                cls["invs"].append(_junk_inv(rng, rng.choice(lenable or strs), mm))

    # classes
    n_cls = {"small": rng.choice([1, 1, 2]), "bounds": rng.choice([1, 2, 3, 4, 6]),
             "mixed": rng.choice([1, 2, 3, 4, 5, 6])}[profile]
    prop_counter = 0
    for i in range(n_cls):
        parents: List[str] = []
        if i > 0 and rng.random() < 0.8:
            # mostly a chain; sometimes a branch
            parents = [mm["classes"][-1]["name"] if rng.random() < 0.75
                       else rng.choice(mm["classes"])["name"]]
            # a second, unrelated root parent (no diamonds: C05 is another property)
            if rng.random() < 0.1:
                anc = set(ancestors_and_self(mm, parents[0]))
                roots = [c["name"] for c in mm["classes"]
                         if not c["parents"] and c["name"] not in anc
                         and not any(c["name"] in ancestors_and_self(mm, d["name"])
                                     for d in mm["classes"] if d["name"] != c["name"])]
                if roots:
                    parents.append(rng.choice(roots))
        props = []
        n_props = rng.choice([1, 1, 2, 3]) if (not parents or rng.random() < 0.5) else 0
        if profile == "bounds" and not parents:
            n_props = rng.choice([1, 2])
        for _ in range(n_props):
            kinds = ["str", "str", "optstr", "optstr", "bytes", "liststr"]
            if mm["cprims"]:
                kinds += ["cp", "cp", "optcp", "listcp"]
            if chain_names or join_names:
                kinds += ["cp", "cp", "cp", "optcp", "listcp", "listcp"]
            if with_sets:
                kinds += ["int", "str", "optstr"]
                if mm["enums"]:
                    kinds += ["enum", "optenum", "enum", "enum"]
            k = rng.choice(kinds)
            cpn = rng.choice(mm["cprims"])["name"] if mm["cprims"] else None
            en = rng.choice(mm["enums"])[0] if mm["enums"] else None
            if chain_names and rng.random() < 0.75:
                cpn = rng.choice(chain_names[-2:])
            if join_names and rng.random() < 0.6:
                cpn = rng.choice(join_names)
            t = {"str": ["prim", "str"], "optstr": ["opt", ["prim", "str"]],
                 "bytes": ["prim", "bytearray"], "liststr": ["list", ["prim", "str"]],
                 "int": ["prim", "int"], "cp": ["our", cpn], "optcp": ["opt", ["our", cpn]],
                 "listcp": ["list", ["our", cpn]], "enum": ["our", en],
                 "optenum": ["opt", ["our", en]]}[k]
            props.append([f"a{prop_counter}", t])
            prop_counter += 1
        cls = {"name": f"C{i}", "parents": parents, "props": props, "invs": []}
        mm["classes"].append(cls)
        add_invariants(cls)
    # a diamond of classes: two branches constrain the SAME inherited property, the join
    # inherits from both (compatible bounds / patterns / sets, or contradicting lengths)
    if want_diamond:
        def lenable_props(cname):
            out_ = []
            for pn, pt in unique_props(mm, cname):
                bt = beneath_optional(pt)
                base = bt[1] if bt[0] == "prim" else (
                    cprim_by_name(mm)[bt[1]]["base"] if bt[0] == "our" and bt[1] in cprim_by_name(mm)
                    else None)
                if bt[0] == "list" or base in ("str", "bytearray"):
                    out_.append(pn)
            return out_
        tops = [c["name"] for c in mm["classes"] if lenable_props(c["name"])]
        if tops:
            top = rng.choice(tops)
            k0 = len(mm["classes"])
            left = {"name": f"C{k0}", "parents": [top], "props": [], "invs": []}
            right = {"name": f"C{k0 + 1}", "parents": [top], "props": [], "invs": []}
            if rng.random() < 0.3:
                right["props"].append([f"a{prop_counter}", ["prim", "str"]])
                prop_counter += 1
            join = {"name": f"C{k0 + 2}", "parents": [left["name"], right["name"]],
                    "props": [], "invs": []}
            for c_ in (left, right, join):
                mm["classes"].append(c_)
                add_invariants(c_, rng.choice([0, 1, 2]) if c_ is join else rng.choice([1, 2, 3]), 0.04)
            shared = rng.choice(lenable_props(top))
            lo_ = min(tgt_len[0] if tgt_len else 2, 20)
            if rng.random() < 0.2:
                # the two branches exclude each other; neither contradicts the join itself
                gap = rng.choice([1, 2, 5])
                left["invs"].append(_len("cmp", shared, ">=", lo_ + 40 + gap))
                right["invs"].append(_len("cmp", shared, "<=", lo_ + 40))
            else:
                left["invs"].append(_len("cmp", shared, ">=", max(0, lo_ - rng.choice([0, 1]))))
                right["invs"].append(_len("cmp", shared, "<=", min(tgt_len[1] if tgt_len else 9, 60)
                                          + rng.choice([0, 1, 3])))
            if rng.random() < 0.3:
                deeper = {"name": f"C{k0 + 3}", "parents": [join["name"]], "props": [], "invs": []}
                mm["classes"].append(deeper)
                add_invariants(deeper, rng.choice([0, 1, 2]), 0.04)
    # text order: the constrained primitives are declared in any order (descendants before
    # their parents, after the classes that use them); classes stay parents-first
    if mm["cprims"] and rng.random() < (0.85 if deep_chain else 0.5):
        cps = [c["name"] for c in mm["cprims"]]
        style = rng.choice(["reversed", "shuffled", "shuffled", "after-classes", "interleaved"])
        if style == "reversed":
            cps.reverse()
        else:
            rng.shuffle(cps)
        cls_names = [c["name"] for c in mm["classes"]]
        if style == "after-classes":
            mm["decl_order"] = cls_names + cps
        elif style == "interleaved":
            order = cps + cls_names
            rng.shuffle(order)
            mm["decl_order"] = order          # classes are put back parents-first when rendered
        else:
            mm["decl_order"] = cps + cls_names
    return mm


# ---------------------------------------------------------------------------------
# shrinking support: structural one-step reductions of a model
# ---------------------------------------------------------------------------------
def reductions(mm) -> List[dict]:
    out = []
    used_cp = set()
    for c in mm["classes"]:
        for _, t in c["props"]:
            for lv in levels(t):
                if lv[0] == "our":
                    used_cp.add(lv[1])
    for cp in mm["cprims"]:
        used_cp.update(cp["parents"])
    used_cls = set()
    for c in mm["classes"]:
        used_cls.update(c["parents"])
    # drop a leaf class / unused constrained primitive
    for i, c in enumerate(mm["classes"]):
        if c["name"] not in used_cls and len(mm["classes"]) > 1:
            m2 = copy.deepcopy(mm)
            del m2["classes"][i]
            out.append(m2)
    for i, cp in enumerate(mm["cprims"]):
        if cp["name"] not in used_cp:
            m2 = copy.deepcopy(mm)
            del m2["cprims"][i]
            out.append(m2)
    # the default text order (parents first), when the failure does not depend on the order
    if "decl_order" in mm:
        m2 = copy.deepcopy(mm)
        del m2["decl_order"]
        out.append(m2)
    # drop an invariant
    for kind in ("classes", "cprims"):
        for i, c in enumerate(mm[kind]):
            for j in range(len(c["invs"])):
                m2 = copy.deepcopy(mm)
                del m2[kind][i]["invs"][j]
                out.append(m2)
    # drop a property nobody mentions
    mentioned = repr([c["invs"] for c in mm["classes"]])
    for i, c in enumerate(mm["classes"]):
        for j, (pn, _) in enumerate(c["props"]):
            if f"'{pn}'" not in mentioned:
                m2 = copy.deepcopy(mm)
                del m2["classes"][i]["props"][j]
                out.append(m2)
    # drop unused functions / constants / enums
    text = repr([mm["classes"], mm["cprims"]])
    for key in ("patterns", "plain_fns", "consts"):
        for i, item in enumerate(mm[key]):
            name = item if isinstance(item, str) else item[0]
            if f"'{name}'" not in text:
                m2 = copy.deepcopy(mm)
                del m2[key][i]
                out.append(m2)
    for i, (ename, _) in enumerate(mm["enums"]):
        if f"'{ename}'" not in repr([mm["classes"], mm["consts"]]):
            m2 = copy.deepcopy(mm)
            del m2["enums"][i]
            out.append(m2)
    return out
