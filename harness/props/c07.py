"""C07 — Type-checked invariants cannot fail at run time
(intermediate/type_inference.py: _Canonicalizer, _Inferrer, infer_for_invariant; the call
check of intermediate/_translate.py)."""
from __future__ import annotations

import json
import os
from typing import Any, Dict, List

from harness import lib
from harness.gen import typeinf as g

META = {
    "title": "Type-checked invariants cannot fail at run time",
    "design_ref": "§4 C07",
    "level_text": (
        "Coq theorems for all expressions, environments and instances over a Gallina model of "
        "the type inference with None-narrowing (canonical keys included) and of Python "
        "evaluation: accepted invariants never dereference None (main theorem, induction with "
        "the non-null-key invariant); they evaluate to a bool or IndexError under an explicit, "
        "executable exclusion predicate (strict operand/argument typing), and the full claim is "
        "refuted by computed witnesses. The model is tied to the code by correspondence streams "
        "evaluated inside Coq (verdict, type of every sub-expression, canonical key of every "
        "sub-expression, and the value/exception of the source lambdas run by Python on "
        "type-conforming instances); the property is also run directly on the implementation."
    ),
    "level_note": (
        "Trusted: agreement of the hand-written models with the code beyond the sampled "
        "inputs; verification functions/methods are deterministic oracles; side condition "
        "'the operand of a None-test shares its canonical key with no other sub-expression' is "
        "proved for None-tests on access paths (C07_canon_path_inj) and otherwise decidable and "
        "checked on every case; bool-valuedness only under "
        "the stated exclusion (known finding: operand/argument types are not checked)."
    ),
    "technique": "Coq proof (structural induction, type soundness with flow-sensitive "
                 "non-null keys) + in-Coq correspondence check + direct oracle",
}
GEN: List[str] = []
MODEL = ["Model/Tree", "Model/PyEval", "Model/TypeInf"]
TRUSTED = [
    "Model/TypeInf.v, Model/PyEval.v, Model/Tree.v are hand-written models (correspondence-checked "
    "on every run against type_inference.py, _translate.py and CPython)",
    "CPython's evaluation of the invariant lambdas is the reference semantics of PyEval.v",
    "verification functions and methods are modelled as deterministic oracles",
    "harness/gen/typeinf.py prints the same meta-model as source text and as Coq symbol table",
]
RULE = ("case = (meta-model, class, invariant) or (meta-model, verification function with "
        "arguments whose body is `return <expression>`); loop variables re-using names of "
        "arguments / `self` / globals and narrowing of a member of an outer name followed by a "
        "quantifier that re-binds that name are generated (expected verdict: rejected); "
        "invariants are generated well-typed by "
        "construction over randomly generated classes (None-guards via and/or/implication, "
        "quantifiers over lists and ranges, len, verification functions, methods, enum and "
        "set membership, f-strings) and about half receive one typed mutation (dropped guard, "
        "swapped operands, guard on the wrong branch, flipped None test, wrong member, foreign "
        "comparison operand, foreign len/call argument, re-defined loop variable, wrong arity); "
        "non-trivial = contains a None-guard, a quantifier or a call; distinct by source text. "
        "Every invariant is also evaluated by Python on type-conforming instances "
        "(all-None, all-set, empty lists, mixed)")

KNOWN_KEY = "operand-types-unchecked"

HEADER = """From Coq Require Import List NArith ZArith Bool.
From Coq Require Strings.String.
Import Coq.Strings.String.StringSyntax.
From Acg Require Import Base.Str Model.Tree Model.PyEval Model.TypeInf.
Import ListNotations.
Open Scope Z_scope.
""" + g.COQ_ORACLES + """
Definition G_of (c : text) : tenv := (s2l "self", TClass c) :: base_tenv.

(* is_fn = the expression is the returned value of a verification function: its calls are
   not visited by the call check of _translate (only contracts and invariants are). *)
Definition vd (St : symtab) (G : tenv) (is_fn : bool) (e : expr) : nat :=
  if is_fn then match infer false St G [] e with Some _ => 0%nat | None => 2%nat end
  else verdict St G e.
Definition caseA := (symtab * tenv * bool * expr * nat * list ty * list text)%type.
Definition caseA_ok (c : caseA) : bool :=
  match c with
  | (St, G, isfn, e, v, tys, cans) =>
      Nat.eqb (vd St G isfn e) v
      && (negb (Nat.eqb v 0)
          || list_eqb (option_eqb ty_eqb) (type_trace false St G [] e) (map Some tys))
      && match cans with
         | [] => true
         | _ => list_eqb text_eqb (canon_trace e) cans
         end
  end.
Definition keys_ok (c : caseA) : bool :=
  match c with (St, G, isfn, e, v, tys, cans) => keys_distinctb e end.
Definition strict_ok (c : caseA) : bool :=
  match c with
  | (St, G, isfn, e, v, tys, cans) =>
      match infer true St G [] e with Some (TPrim PBool) => true | _ => false end
  end.
Definition lax_ok (c : caseA) : bool :=
  match c with (St, G, isfn, e, v, tys, cans) => Nat.eqb (vd St G isfn e) 0 end.
Fixpoint bad_from {A} (ok : A -> bool) (i : nat) (cs : list A) : list nat :=
  match cs with
  | [] => []
  | c :: r => if ok c then bad_from ok (S i) r else i :: bad_from ok (S i) r
  end.
Definition badA := bad_from caseA_ok 0.
Definition badK := bad_from keys_ok 0.
Definition badS := bad_from strict_ok 0.
Definition badL := bad_from lax_ok 0.
(* cases outside the fragment for which the key side condition is proved *)
Definition paths_ok (c : caseA) : bool :=
  match c with (St, G, isfn, e, v, tys, cans) => guards_on_paths e end.
Definition badP := bad_from paths_ok 0.

Inductive expect := EVal (v : value) | EObj (oid : nat) | ERaise (x : exn).
Definition mk_env_l (locals : list (text * value)) : env :=
  mkEnv (locals ++ globals) fn_model meth_model lits_model.
Definition caseB := (list (text * value) * expr * expect)%type.
Definition caseB_ok (c : caseB) : bool :=
  match c with
  | (locals, e, ex) =>
      match eval (mk_env_l locals) e 200, ex with
      | Val v, EVal w => value_eqb v w
      | Val (VObj i _ _), EObj j => Nat.eqb i j
      | Raise x, ERaise y => exn_eqb x y
      | _, _ => false
      end
  end.
Definition badB := bad_from caseB_ok 0.

(* verification functions: bodies of assignments and returns *)
Definition caseF := (symtab * tenv * list stmt * nat * list ty * list text)%type.
Definition vdF (St : symtab) (G : tenv) (body : list stmt) : nat :=
  match infer_body false St G body with Some _ => 0%nat | None => 2%nat end.
Definition caseF_ok (c : caseF) : bool :=
  match c with
  | (St, G, body, v, tys, cans) =>
      Nat.eqb (vdF St G body) v
      && (negb (Nat.eqb v 0)
          || list_eqb (option_eqb ty_eqb) (body_trace false St G body) (map Some tys))
      && match cans with
         | [] => true
         | _ => list_eqb text_eqb (flat_map canon_trace (map stmt_expr body)) cans
         end
  end.
Definition badF := bad_from caseF_ok 0.
Definition badFK := bad_from (fun c : caseF => match c with (St, G, body, v, tys, cans) =>
  forallb keys_distinctb (map stmt_expr body) end) 0.
(* strict typing of a body; every returned value must be a bool (the functions are declared
   `-> bool`; the code does not compare the returned type with the declared one) *)
Fixpoint strict_body (St : symtab) (G : tenv) (body : list stmt) : bool :=
  match body with
  | [] => true
  | SAssign x e :: rest =>
      match infer true St G [] e with
      | None => false
      | Some tv =>
          match lookup x G with
          | Some tg => assignable_real St tg tv && strict_body St G rest
          | None => strict_body St ((x, tv) :: G) rest
          end
      end
  | SReturn e :: rest =>
      match infer true St G [] e with
      | Some (TPrim PBool) => strict_body St G rest
      | _ => false
      end
  end.
Definition badFS := bad_from (fun c : caseF => match c with (St, G, body, v, tys, cans) =>
  strict_body St G body end) 0.
Definition badFL := bad_from (fun c : caseF => match c with (St, G, body, v, tys, cans) =>
  Nat.eqb (vdF St G body) 0 end) 0.
Definition badFP := bad_from (fun c : caseF => match c with (St, G, body, v, tys, cans) =>
  forallb guards_on_paths (map stmt_expr body) end) 0.
Definition caseG := (list (text * value) * list stmt * expect)%type.
Definition caseG_ok (c : caseG) : bool :=
  match c with
  | (locals, body, ex) =>
      match eval_body (mk_env_l locals) body 200, ex with
      | Val v, EVal w => value_eqb v w
      | Val (VObj i _ _), EObj j => Nat.eqb i j
      | Raise x, ERaise y => exn_eqb x y
      | _, _ => false
      end
  end.
Definition badG := bad_from caseG_ok 0.
"""

# witnesses and minimised past disagreements; always in the first meta-model
CORPUS = [
    "self.i0 < self.s0",
    "len(self.i0) > 0",
    "len(self.opt_items) > 0",
    "not (self.i0 > 0) or self.ob0",
    "self.i0 and self.s0",
    "is_ok(self.os0)",
    "is_ok(self.i0)",
    "self.i0 in self.i0",
    "self.item.compute(self.oi0) > 0",
    "self.oi0 is not None and self.oi0 > 0",
    "self.oi0 is not None or self.oi0 > 0",
    "self.oi0 is None or self.oi0 > 0",
    "self.oi0 is None and self.oi0 > 0",
    "not (self.oi0 is not None) or self.oi0 > 0",
    "not (self.b0 and self.oi0 is not None) or self.oi0 > 0",
    "not (self.b0 or self.oi0 is not None) or self.oi0 > 0",
    "(self.oi0 is not None and self.b0) and self.oi0 > 0",
    "self.opt_item is None or self.opt_item.weight is None or self.opt_item.weight > 0",
    "all(x.weight is None or x.weight > 0 for x in self.items)",
    "all(x.weight is not None for x in self.items) and all(x.weight > 0 for x in self.items)",
    "all(all(y > 0 for y in self.li0) for x in self.li0)",
    "all(self.items[i].name != '' for i in range(0, len(self.items)))",
    "self.li0[0] > 0",
    "self.li0[len(self.li0) - 1] > 0",
    "perhaps(self.s0) is not None and len(perhaps(self.s0)) > 0",
    "perhaps(self.s0) is not None and len(perhaps(self.os0)) > 0",
    "self.s0 in Valid_names",
    "f\"a{self.s0}\" == 'ab'",
    "f\"a{self.os0}\" == 'ab'",
    "self.f0 > 1.5 and self.f0 - 0.5 < 100.0",
    "self.i0 + 1.5 > 0",
    "self.i0 > -1",
    "self.item.name == 'it\\'s' or self.item.name == \"q\\\"\"",
    "not (self.opt_item is not None) or self.opt_item.compute(1) == 4",
    "self.opt_item.name == 'a'",
    "self.nope == 1",
    "self.item.name.x == 1",
    "len(self.items) >= 1 and self.items[0].name == 'a'",
    "any(self.i0 > i for i in range(self.i0, 3))",
    "self.b0 == True or not self.b0",
    "self.item.compute == 3",
    "self.item.weight(3) == 3",
    "all(x > 0 for self in self.li0)",
    # loop variables must not re-use a name of any outer scope (self, globals)
    "all(self > 0 for self in self.li0)",
    "all(self.weight is None for self in self.items)",
    "self.weight is None or all(self.weight > 0 for self in self.items)",
    "not (self.weight is not None) or any(self.weight > 0 for self in self.items)",
    "self.weight is not None and all(self.weight > 0 for self in self.items)",
    "all(len > 0 for len in self.li0)",
    "all(Color > 0 for Color in self.li0)",
    "all(Valid_names > 0 for Valid_names in self.li0) or any(is_ok > 0 for is_ok in range(0, 3))",
    "all(x > 0 for x in self.li0) and any(x.name != '' for x in self.items)",
    # Optional operand on either side of every operator that requires non-None
    "0 < self.oi0",
    "self.i0 == self.oi0",
    "self.oi0 == self.i0",
    "self.i0 + self.oi0 > 0",
    "self.oi0 - 1 > 0",
    "self.li0[self.oi0] > 0",
    "self.opt_items[0].name == 'a'",
    "any(i > 0 for i in range(0, self.oi0))",
    "any(i > 0 for i in range(self.oi0, 3))",
    "all(x.name != '' for x in self.opt_items)",
    "not self.ob0",
    "self.ob0 and self.b0",
    "self.b0 and self.ob0",
    "self.b0 or self.ob0",
    "not self.ob0 or self.b0",
    "self.s0 in self.os0",
    "self.os0 in Valid_names",
    "self.opt_item.compute(1) > 0",
    "self.oi0 is not None and (self.oi0 > 0 or self.oi0 < 0)",
    # narrowing must end with its conjunction / disjunction / implication
    "(self.oi0 is not None and self.b0) or self.oi0 > 0",
    "(self.oi0 is None or self.b0) and self.oi0 > 0",
    "(not (self.oi0 is not None) or self.b0) and self.oi0 > 0",
    "all(x.weight is not None and x.weight > 0 for x in self.items) and any(x.weight > 0 for x in self.items)",
    "not (self.oi0 is not None) or not (self.oi0 is None) or self.oi0 > 0",
    "not (self.oi0 is None) or self.oi0 > 0",
    "self.oi0 is not None and self.os0 is not None and len(self.os0) > self.oi0",
    "self.item.weight is not None and self.opt_item is not None and self.opt_item.weight > 0",
    "is_ok(self.s0) and opt_ok(self.os0) and opt_ok(self.s0) and both_pos(self.i0, self.oi0)",
]


ITEM, ITEMS = ("class", "Item"), ("list", ("class", "Item"))
# (parameters, returned expression): loop variables and the names of outer scopes
FN_CORPUS = [
    ([("item", ITEM), ("items", ITEMS)],
     "(item.weight is None) or all(item.weight > 0 for item in items)"),
    ([("item", ITEM), ("items", ITEMS)],
     "(item.weight is None) or all(x.weight is None or item.weight > 0 for x in items)"),
    ([("item", ITEM), ("items", ITEMS)],
     "not (item.weight is not None) or any(item.weight > 0 for item in items)"),
    ([("item", ITEM), ("items", ITEMS)],
     "item.weight is not None and all(item.weight > 0 for item in items)"),
    ([("item", ITEM), ("items", ITEMS)],
     "all(x.weight is None or x.weight > 0 for x in items) and item.weight is None"),
    ([("items", ITEMS)], "all(len > 0 for len in items)"),
    ([("items", ITEMS)], "all(Color.weight is None for Color in items)"),
    ([("items", ITEMS)], "all(is_ok.name != '' for is_ok in items)"),
    ([("items", ITEMS)], "all(items.name != '' for items in items)"),
    ([("n", g.INT), ("numbers", ("list", g.INT))], "all(n > 0 for n in numbers)"),
    ([("n", g.INT), ("numbers", ("list", g.INT))], "all(n > 0 for n in range(0, n))"),
    ([("n", g.INT), ("numbers", ("list", g.INT))], "all(x > n for x in numbers) and any(x > 0 for x in numbers)"),
    ([("opt_n", ("opt", g.INT)), ("numbers", ("list", g.INT))],
     "opt_n is None or all(opt_n > 0 for opt_n in numbers)"),
    ([("opt_n", ("opt", g.INT)), ("numbers", ("list", g.INT))],
     "opt_n is None or all(x > opt_n for x in numbers)"),
    ([("opt_n", ("opt", g.INT)), ("numbers", ("list", g.INT))], "all(x > opt_n for x in numbers)"),
    ([("opt_item", ("opt", ITEM)), ("items", ITEMS)],
     "opt_item is None or opt_item.weight is None or all(x.weight is None or x.weight >= opt_item.weight for x in items)"),
    ([("text", g.STR), ("opt_text", ("opt", g.STR))],
     "opt_text is None or len(opt_text) > len(text)"),
    ([("text", g.STR), ("opt_text", ("opt", g.STR))], "len(opt_text) > len(text)"),
    ([("text", g.STR), ("opt_text", ("opt", g.STR))], "is_ok(text) and opt_ok(opt_text) and is_ok(opt_text)"),
    ([("holder", ("class", "Holder"))],
     "holder.weight is None or all(holder.weight > 0 for holder in holder.items)"),
    ([("holder", ("class", "Holder"))],
     "holder.opt_items is None or all(x.weight is None for x in holder.opt_items)"),
]


# (parameters, full body source lines): assignments and re-assignments of locals
FN_BODY_CORPUS = [
    ([("item", ITEM)], ["text = item.name", "text = item.oc_x", "return len(text) > 0"]),
    ([("item", ITEM)], ["text = item.oc_x", "text = item.name", "return text is None or len(text) > 0"]),
    ([("item", ITEM)], ["text = item.oc_x", "text = item.name", "return len(text) > 0"]),
    ([("item", ITEM)], ["text = item.name", "text = item.name", "return len(text) > 0"]),
    ([("item", ITEM)], ["w = item.weight", "return w is None or w > 0"]),
    ([("item", ITEM)], ["w = item.weight", "return w > 0"]),
    ([("item", ITEM), ("n", g.INT)], ["n = item.weight", "return n > 0"]),
    ([("item", ITEM), ("n", g.INT)], ["n = 3", "return n > 0"]),
    ([("item", ITEM), ("opt_n", ("opt", g.INT))], ["opt_n = 3", "return opt_n is None or opt_n > 0"]),
    ([("item", ITEM), ("opt_n", ("opt", g.INT))], ["opt_n = item.weight", "return opt_n is None or opt_n > 0"]),
    ([("item", ITEM), ("opt_n", ("opt", g.INT))], ["k = 3", "k = opt_n", "return k > 0"]),
    ([("item", ITEM), ("opt_n", ("opt", g.INT))], ["k = opt_n", "k = 3", "return k is None or k > 0"]),
    ([("text", g.STR)], ["n = len(text)", "n = 3", "return n > 0"]),
    ([("text", g.STR)], ["n = len(text)", "n = len(text) + 1", "return n > 0"]),
    ([("text", g.STR)], ["n = 3", "n = 'a'", "return n > 0"]),
    ([("text", g.STR)], ["t = 'a'", "t = 3", "return len(t) > 0"]),
    ([("item", ITEM), ("other", ITEM)], ["it = item", "it = other", "return it.name != ''"]),
    ([("item", ITEM), ("opt_item", ("opt", ITEM))], ["it = item", "it = opt_item", "return it.name != ''"]),
    ([("item", ITEM), ("opt_item", ("opt", ITEM))], ["it = opt_item", "it = item", "return it is None or it.name != ''"]),
    ([("items", ITEMS), ("numbers", ("list", g.INT))], ["xs = items", "xs = numbers", "return all(x.name != '' for x in xs)"]),
    ([("text", g.STR)], ["len = text", "return is_ok(len)"]),
    ([("text", g.STR), ("texts", ("list", g.STR))], ["x = text", "return all(x != '' for x in texts)"]),
    ([("text", g.STR), ("opt_text", ("opt", g.STR))],
     ["t = opt_text", "ok = t is None or len(t) > 0", "t = text", "return ok and len(t) > 0"]),
    ([("text", g.STR)], ["return undefined_local == text"]),
    ([("text", g.STR)], ["return is_ok(later)", "later = text"]),
]


def verdict_code(rec: Dict[str, Any], translate_failed: bool) -> int:
    if translate_failed:
        return 1
    v = rec.get("verdict")
    if v == "ok":
        return 0
    if v == "err":
        return 2
    return 3


EXC = {"IndexError": "IndexErr", "NameError": "NameErr", "ValueError": "ValueErr"}


# method member used as a value (bound method object): outside PyEval, inference only
NO_EVAL = {"self.item.compute == 3"}


def expect_term(res: Dict[str, Any]):
    if "val" in res:
        v = res["val"]
        if v["k"] == "obj":
            return f"(EObj {v['oid']}%nat)"
        if contains_unmodelled(v):
            return None
        return f"(EVal {g.cvalue(v)})"
    exc, msg = res["exc"], res.get("msg", "")
    if exc in ("TypeError", "AttributeError"):
        if "NoneType" in msg:
            return "(ERaise NoneDeref)"
        return "(ERaise TypeErr)" if exc == "TypeError" else "(ERaise AttrErr)"
    if exc in EXC:
        return f"(ERaise {EXC[exc]})"
    return None


def contains_unmodelled(v) -> bool:
    if v["k"] in ("set", "other", "fun", "obj"):
        return True
    if v["k"] == "list":
        return any(contains_unmodelled(x) for x in v["v"])
    return False


def nontrivial(tree: Dict[str, Any]) -> bool:
    s = json.dumps(tree)
    return any(k in s for k in ('"IsNone"', '"IsNotNone"', '"Any"', '"All"', '"FunctionCall"',
                                '"MethodCall"'))


def instance_of(models, mi, cls, j):
    payload = models[mi][1]
    if cls.startswith("fn:"):
        return payload["fn_args"][cls[3:]][j]
    return payload["instances"][cls][j]


def build_models(ctx: lib.Ctx):
    """-> list of (MetaModel, payload dict, {desc: (cls, src, kind)}, group)"""
    rng = ctx.rng
    n_models = int(os.environ.get("C07_MODELS", "0")) or ctx.n(10, 150)
    n_holder, n_item, n_fn = 26, 5, 16
    models = []
    for mi in range(n_models):
        mm = g.MetaModel(rng, mi)
        info = {}
        counter = 0

        def add(cls, spec, kind):
            nonlocal counter
            counter += 1
            desc = f"inv {mi} {counter}"
            mm.invariants[cls].append((desc, spec))
            info[desc] = (cls, g.src(spec), kind)

        if mi == 0:
            for s in CORPUS:
                add("Holder", ("raw", s), "corpus")
        for cls, n in (("Holder", n_holder), ("Item", n_item)):
            eg = g.ExprGen(rng, mm, cls)
            for _ in range(n):
                e = eg.invariant()
                kind = "wellformed"
                r = rng.random()
                if r < 0.06:
                    x = eg.narrow_then_shadow([(g.SELF, ("class", cls))])
                    if x is not None:
                        kind, e = "narrow_then_shadow", x
                elif r < 0.53:
                    m = g.mutate(rng, mm, cls, e)
                    if m is not None:
                        kind, e = m
                add(cls, e, kind)
        # verification functions with arguments: `return <expression>` or assignments + return
        eg = g.ExprGen(rng, mm, "Holder")
        fn_specs = []
        if mi == 0:
            oc = next((p for p, t in mm.classes["Item"]["props"] if t == ("opt", g.BRIEF)), None)
            for params, body in FN_CORPUS:
                fn_specs.append((params, ("raw", body), "corpus"))
            for params, lines in FN_BODY_CORPUS:
                if any("oc_x" in l for l in lines) and oc is None:
                    continue
                stmts = []
                for l in lines:
                    l = l.replace("oc_x", oc or "")
                    if l.startswith("return "):
                        stmts.append(("return", ("raw", l[len("return "):])))
                    else:
                        x, e = l.split(" = ", 1)
                        stmts.append(("assign", x, ("raw", e)))
                fn_specs.append((params, ("body", stmts), "corpus-stmts"))
        for _ in range(n_fn):
            params = eg.random_params()
            r = rng.random()
            if r < 0.45:
                e, kind = eg.function_stmts(params)
            else:
                e = eg.function_body(params)
                kind = "wellformed"
                if r < 0.6:
                    x = eg.narrow_then_shadow([(("name", n), t) for n, t in params])
                    if x is not None:
                        kind, e = "narrow_then_shadow", x
                elif r < 0.85:
                    m = g.mutate(rng, mm, "Holder", e, outer_names=[n for n, _ in params])
                    if m is not None:
                        kind, e = m
            fn_specs.append((params, e, kind))
        ig = g.InstanceGen(rng, mm)
        inst = {"Holder": ig.instances("Holder", 4), "Item": ig.instances("Item", 3)}
        fn_args = {}
        for k, (params, e, kind) in enumerate(fn_specs):
            fname = f"vf_{k}"
            mm.functions[fname] = (params, e, kind)
            fn_args[fname] = ig.arg_tuples(params, 6)
        models.append((mm, {"source": mm.source(), "instances": inst, "fn_args": fn_args,
                            "overrides": g.OVERRIDES}, info, None))

    # ---- calls with a wrong number of arguments at every nesting position. The call check
    # of _translate rejects the whole meta-model, hence one invariant per meta-model; all of
    # them share the classes and instances (one Coq unit).
    base = g.MetaModel(rng, 10000)
    ig = g.InstanceGen(rng, base)
    inst = {"Holder": ig.instances("Holder", 3)}
    ok_info = {}
    seen = set()
    for k in range(ctx.n(16, 60)):
        s = g.arity_invariant(rng, bad=False)
        if s in seen:
            continue
        seen.add(s)
        desc = f"inv arity-ok {k}"
        base.invariants["Holder"].append((desc, ("raw", s)))
        ok_info[desc] = ("Holder", s, "arity-ok")
    models.append((base, {"source": base.source(), "instances": inst,
                          "overrides": g.OVERRIDES}, ok_info, "arity"))
    fixed = ["len(self.s0, self.s0) > 0", "len() > 0", "is_ok() or self.b0",
             "both_pos(self.i0)", "twice(1, 2) > 0", "nosuch(self.i0)", "absolute(self.i0) > 0",
             "all(x(1) for x in self.li0)", "len(echo(self.s0, self.s0)) > 0",
             "len(perhaps()) > 0", "len(self.items) > twice() or self.b0",
             "all(len(x.name) > 0 for x in self.items) or len(self.i0, 1) > 0"]
    bad_srcs = list(fixed)
    while len(bad_srcs) < len(fixed) + ctx.n(26, 150):
        s = g.arity_invariant(rng, bad=True)
        if s not in bad_srcs:
            bad_srcs.append(s)
    for k, s in enumerate(bad_srcs):
        mm = g.MetaModel.__new__(g.MetaModel)
        mm.__dict__.update({"idx": 10001 + k, "classes": base.classes, "functions": {},
                            "invariants": {c: [] for c in base.classes}})
        desc = f"inv arity {k}"
        mm.invariants["Holder"].append((desc, ("raw", s)))
        models.append((mm, {"source": mm.source(), "instances": inst, "overrides": g.OVERRIDES},
                       {desc: ("Holder", s, "arity")}, "arity"))
    return models


def streams(ctx: lib.Ctx) -> None:
    models = build_models(ctx)
    results: List[Dict[str, Any]] = []
    B = 40
    for k in range(0, len(models), B):
        results += lib.impl_call("typeinf.py", {"models": [m[1] for m in models[k:k + B]]},
                                 timeout=3000)

    # units: one Coq file per group of meta-models that share classes and instances
    unit_of: Dict[Any, int] = {}
    unit_hdr: List[List[str]] = []
    unit_idx: List[Dict[str, List[int]]] = []
    unit_inst: List[Dict[str, List[str]]] = []
    cases: Dict[str, List[str]] = {"A": [], "B": [], "F": [], "G": []}
    meta: Dict[str, List[Dict[str, Any]]] = {"A": [], "B": [], "F": [], "G": []}
    n_unmodelled_results = 0
    verdict_hist = {0: 0, 1: 0, 2: 0, 3: 0}
    kind_hist: Dict[str, int] = {}
    model_unit: List[int] = []
    for mi, ((mm, payload, info, group), res) in enumerate(zip(models, results)):
        if "parse_error" in res or "exec_error" in res:
            raise lib.HarnessError(f"generated meta-model {mi} is not usable: "
                                   f"{res.get('parse_error') or res.get('exec_error')}\n"
                                   + payload["source"][-1500:])
        translate_failed = "translate_error" in res or "translate_exception" in res
        arity_model = any(kind == "arity" for _, _, kind in info.values())
        if translate_failed and not arity_model:
            raise lib.HarnessError(f"generated meta-model {mi} rejected by translate: "
                                   f"{res.get('translate_error') or res.get('translate_exception')}")
        key = group if group is not None else ("model", mi)
        if key not in unit_of:
            unit_of[key] = len(unit_hdr)
            header = [HEADER, f"Definition st : symtab := {mm.coq_symtab()}."]
            names: Dict[str, List[str]] = {}
            for cls, insts in payload["instances"].items():
                names[cls] = []
                for j, inst in enumerate(insts):
                    nm = f"inst_{cls}_{j}"
                    header.append(f"Definition {nm} : value := {g.cvalue(inst)}.")
                    names[cls].append(nm)
            unit_hdr.append(header)
            unit_idx.append({"A": [], "B": [], "F": [], "G": []})
            unit_inst.append(names)
        u = unit_of[key]
        model_unit.append(u)
        header, idx, inst_names = unit_hdr[u], unit_idx[u], unit_inst[u]
        for rec in res["invariants"]:
            if rec["desc"] not in info:
                continue  # fixed invariants of the prelude
            cls, source, kind = info[rec["desc"]]
            if "tree" not in rec:
                raise lib.HarnessError(f"unmodelled tree: {rec.get('tree_error')} in {source}")
            v = verdict_code(rec, translate_failed)
            if translate_failed and "translate_exception" in res:
                v = 3
            verdict_hist[v] += 1
            kind_hist[kind] = kind_hist.get(kind, 0) + 1
            tys = g.clist(g.ctype_json(t) for t in rec.get("types", [])) if v == 0 else "[]"
            cans = g.clist(g.ctext(c) for c in rec.get("canon", []))
            tree = g.ctree(rec["tree"])
            idx["A"].append(len(cases["A"]))
            cases["A"].append(f"(st, G_of {g.ctext(cls)}, false, {tree}, {v}%nat, {tys}, {cans})")
            meta["A"].append({"model": mi, "cls": cls, "source": source, "kind": kind,
                              "verdict": rec.get("verdict", "translate-error" if translate_failed
                                                 else "?"),
                              "tree": rec["tree"], "results": rec.get("results"),
                              "messages": rec.get("messages") or res.get("translate_error")})
            for j, r in enumerate(rec.get("results") or []):
                ex = None if source in NO_EVAL else expect_term(r)
                if ex is None:
                    n_unmodelled_results += 1
                    continue
                idx["B"].append(len(cases["B"]))
                cases["B"].append(f"([(s2l \"self\", {inst_names[cls][j]})], {tree}, {ex})")
                meta["B"].append({"model": mi, "cls": cls, "source": source, "instance": j,
                                  "observed": r})
        for rec in res.get("functions", []):
            fname = rec["name"]
            if fname not in mm.functions:
                continue
            params, spec, kind = mm.functions[fname]
            source = f"def {fname}(" + ", ".join(f"{n}: {g.T_src(t)}" for n, t in params) \
                     + "):\n" + g.body_src(spec)
            if "body" not in rec:
                raise lib.HarnessError(f"unmodelled function body: {rec.get('tree_error')} in {source}")
            if rec.get("verdict", "").startswith("not-transpilable"):
                raise lib.HarnessError(f"generated function is not transpilable: {source}")
            v = verdict_code(rec, translate_failed)
            verdict_hist[v] += 1
            kind_hist["fn:" + kind] = kind_hist.get("fn:" + kind, 0) + 1
            tys = g.clist(g.ctype_json(t) for t in rec.get("types", [])) if v == 0 else "[]"
            cans = g.clist(g.ctext(c) for c in rec.get("canon", []))
            body = g.cstmts(rec["body"])
            G = "(" + g.clist(f"({g.ctext(n)}, {g.ctype_json(g.T_json(t))})" for n, t in params) \
                + " ++ base_tenv)"
            idx["F"].append(len(cases["F"]))
            cases["F"].append(f"(st, {G}, {body}, {v}%nat, {tys}, {cans})")
            meta["F"].append({"model": mi, "cls": "fn:" + fname, "source": source, "kind": kind,
                              "verdict": rec.get("verdict", "?"), "tree": rec["body"],
                              "results": rec.get("results"), "messages": rec.get("messages")})
            for j, r in enumerate(rec.get("results") or []):
                ex = expect_term(r)
                if ex is None:
                    n_unmodelled_results += 1
                    continue
                argv = payload["fn_args"][fname][j]
                names = []
                for (n, _), val in zip(params, argv):
                    nm = f"arg_{fname}_{j}_{n}"
                    header.append(f"Definition {nm} : value := {g.cvalue(val)}.")
                    names.append(f"({g.ctext(n)}, {nm})")
                idx["G"].append(len(cases["G"]))
                cases["G"].append(f"({g.clist(names)}, {body}, {ex})")
                meta["G"].append({"model": mi, "cls": "fn:" + fname, "source": source,
                                  "instance": j, "observed": r})

    EVALS = [("badA", "A"), ("badK", "A"), ("badS", "A"), ("badL", "A"), ("badB", "B"),
             ("badP", "A"), ("badF", "F"), ("badFK", "F"), ("badFS", "F"), ("badFL", "F"),
             ("badG", "G"), ("badFP", "F")]
    units, headers = [], []
    for header, idx in zip(unit_hdr, unit_idx):
        hdr = "\n".join(header) + "\n"
        headers.append(hdr)
        text = hdr
        for k in "ABFG":
            text += (f"Definition cases{k} : list case{k} := "
                     + g.clist(cases[k][i] for i in idx[k]) + ".\n")
        for fn, k in EVALS:
            text += f"Eval vm_compute in ({fn} cases{k}).\n"
        units.append(text)
    outs = g.run_units(ctx.work, "cases", units, ncpu=lib.NCPU)
    bad: Dict[str, List[int]] = {fn: [] for fn, _ in EVALS}
    for idx, o in zip(unit_idx, outs):
        if len(o) != len(EVALS):
            raise lib.HarnessError(f"cannot parse the result of a cases file: {o}")
        for (fn, k), lst in zip(EVALS, o):
            bad[fn] += [idx[k][i] for i in lst]

    def hdr_of(m):
        return headers[model_unit[m["model"]]]

    # ---- correspondence: verdict, type map, canonical keys
    for i in bad["badA"][:8]:
        m = meta["A"][i]
        model_out = lib.coq_eval(ctx.work, "showA", hdr_of(m),
                                 f"let c := {cases['A'][i]} in match c with (St, G, isfn, e, v, t, k) => "
                                 f"(vd St G isfn e, type_trace false St G [] e, canon_trace e) end")
        ctx.corr_break("typeinf-verdict-types-keys",
                       {"source": m["source"], "class": m["cls"], "kind": m["kind"],
                        "meta_model": models[m["model"]][1]["source"]},
                       model_out[-1500:], {"verdict": m["verdict"], "messages": m["messages"]})
    for i in bad["badF"][:8]:
        m = meta["F"][i]
        model_out = lib.coq_eval(ctx.work, "showF", hdr_of(m),
                                 f"let c := {cases['F'][i]} in match c with (St, G, b, v, t, k) => "
                                 f"(vdF St G b, body_trace false St G b) end")
        ctx.corr_break("typeinf-verification-function-bodies",
                       {"source": m["source"], "kind": m["kind"],
                        "meta_model": models[m["model"]][1]["source"]},
                       model_out[-1500:], {"verdict": m["verdict"], "messages": m["messages"]})
    # ---- side condition of the main theorem on every case
    for k, fn in (("A", "badK"), ("F", "badFK")):
        for i in bad[fn][:5]:
            ctx.proof_break("keys_distinct side condition",
                            "the operand of a None-test shares its canonical key with another "
                            f"sub-expression: {meta[k][i]['source']}")
    # ---- correspondence: evaluation
    for k, fn, ev in (("B", "badB", "eval (mk_env_l s) e 200"),
                      ("G", "badG", "eval_body (mk_env_l s) e 200")):
        for i in bad[fn][:8]:
            m = meta[k][i]
            model_out = lib.coq_eval(ctx.work, "showB", hdr_of(m),
                                     f"let c := {cases[k][i]} in match c with (s, e, x) => {ev} end")
            ctx.corr_break("pyeval", {"source": m["source"], "class": m["cls"],
                                      "instance": instance_of(models, m["model"], m["cls"],
                                                              m["instance"])},
                           model_out[-800:], m["observed"])

    if os.environ.get("C07_DEBUG"):
        with open(os.environ["C07_DEBUG"], "w") as f:
            json.dump(ctx.corr_breaks, f, indent=1, default=str)

    # ---- the property itself, on the implementation
    failing = []
    n_runs = 0
    n_index = 0
    for k, ns_fn, nl_fn in (("A", "badS", "badL"), ("F", "badFS", "badFL")):
        not_strict, not_lax = set(bad[ns_fn]), set(bad[nl_fn])
        for i, m in enumerate(meta[k]):
            if m["verdict"] != "ok":
                continue
            for j, r in enumerate(m["results"] or []):
                n_runs += 1
                if "val" in r and r["val"]["k"] == "bool":
                    continue
                if r.get("exc") == "IndexError":
                    n_index += 1
                    continue
                failing.append((m, j, r, i in not_lax, i in not_strict))
                break
    seen_new = set()
    failing.sort(key=lambda t: len(t[0]["source"]))
    n_excluded = 0
    for m, j, r, is_not_lax, is_not_strict in failing:
        inst = instance_of(models, m["model"], m["cls"], j)
        how = ("load the meta-model, check that the front end (call check of translate + type "
               "inference) accepts it, then evaluate the lambda / function of the source text "
               "on the instance / arguments (harness/impl/typeinf.py does exactly this)")
        inp = {"invariant_or_function": m["source"], "class": m["cls"],
               "instance_or_arguments": inst,
               "meta_model": models[m["model"]][1]["source"]}
        if is_not_lax:
            what = ("accepted by the front end although the model of the (fixed) front end "
                    "rejects it; fails at run time")
            key = ("none-unsafe:" if "NoneType" in r.get("msg", "") or
                   r.get("val", {}).get("k") == "none" else "accepted-unsafe:") + m["source"]
        elif is_not_strict:
            n_excluded += 1
            what = ("operand/argument types are not checked by the type inference: accepted "
                    "invariant raises TypeError/AttributeError or yields a non-boolean")
            key = KNOWN_KEY
        else:
            what = "an invariant accepted even by the strict typing fails at run time"
            key = "typed-invariant-fails:" + m["source"]
        if key != KNOWN_KEY:
            if len(seen_new) >= 6 or key in seen_new:
                continue
            seen_new.add(key)
        elif KNOWN_KEY in seen_new:
            continue
        else:
            seen_new.add(KNOWN_KEY)
        ctx.impl_failure(key, what, inp, r, "oracle", how)

    nA, nF = len(cases["A"]), len(cases["F"])
    ctx.count("typeinf-verdict-types-keys", nA + nF,
              nontrivial_keys=[m["source"] for m in meta["A"] + meta["F"]
                               if nontrivial(m["tree"])],
              validated=nA + nF, verdicts={"accepted": verdict_hist[0],
                                           "rejected_by_translate": verdict_hist[1],
                                           "failed_to_infer": verdict_hist[2],
                                           "exception": verdict_hist[3]},
              kinds=kind_hist, meta_models=len(models), invariants=nA,
              verification_functions=nF)
    n_not_paths = len(bad["badP"]) + len(bad["badFP"])
    ctx.count("keys-distinct-side-condition", nA + nF,
              none_tests_all_on_access_paths=nA + nF - n_not_paths,
              none_tests_on_other_expressions=n_not_paths)
    ctx.count("pyeval", len(cases["B"]) + len(cases["G"]),
              validated=len(cases["B"]) + len(cases["G"]),
              results_outside_model=n_unmodelled_results)
    ctx.count("oracle", n_runs, index_errors=n_index,
              failing_invariants_or_functions=len(failing),
              excluded_by_strict_typing=n_excluded)
    for m in meta["A"][:4] + meta["A"][60:62] + meta["F"][:2]:
        ctx.sample({"invariant": m["source"], "kind": m["kind"], "verdict": m["verdict"]})
