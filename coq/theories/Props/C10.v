(** C10 — Python SDK serialization round-trips and rejects bad documents.

    Theorems over the executable specification [Model/SdkSpec.v] of the generated
    jsonization module and of the XML text codec. The real generated SDK is tied to the
    specification by the correspondence streams of harness/props/c10.py (sampled, not proved).
    Only statements, [exact]s and [Print Assumptions] here. *)
From Coq Require Import List NArith ZArith Bool.
From Coq Require Strings.String.
Import Coq.Strings.String.StringSyntax.
From Acg Require Import Base.Str Base.Outcome Model.SdkSpec Model.SdkSpecB64
  Proofs.SdkSpecXmlFacts Proofs.SdkSpecJsonFacts Proofs.SdkSpecJsonRoundtrip.
Import ListNotations.

(** ** JSON round trip.
    FULL STATEMENT: for every accepted meta-model [m] and instance [i],
    [from_json m (TOur (cls i)) (to_json m i) = Ok i]. Proved for every meta-model that
    satisfies the decidable condition [mm_ok] (unique names; every class that is read through
    a model-type dispatch writes its model type) and every base64 pair with
    [dec (enc b) = Ok b] on byte strings. *)
Theorem C10_json_roundtrip :
  forall (enc : list N -> text) (dec : text -> outcome (list N) unit) (m : mm),
  (forall b, forallb byte_ok b = true -> dec (enc b) = Ok b) ->
  mm_ok m = true ->
  forall i, wf_instance m i = true ->
  from_json dec m (ACls (cls_of i)) (to_json enc m i) = Ok i.
Proof. exact json_roundtrip. Qed.
Print Assumptions C10_json_roundtrip.

(** ... and through any static class type under which the instance may appear. *)
Theorem C10_json_roundtrip_static :
  forall (enc : list N -> text) (dec : text -> outcome (list N) unit) (m : mm),
  (forall b, forallb byte_ok b = true -> dec (enc b) = Ok b) ->
  mm_ok m = true ->
  forall a v, wf_atom m a v = true -> from_json dec m a (to_json enc m v) = Ok v.
Proof. exact json_roundtrip_atom. Qed.
Print Assumptions C10_json_roundtrip_static.

(** [mm_ok] is not implied by acceptance: the front end demands [with_model_type] only of
    classes used as property types. A concrete class with a concrete descendant and without
    model type is accepted, and its JSON form cannot be read back (finding, replayed on the
    real SDK by the oracle). *)
Definition mt_mm : mm :=
  mkMM [] [mkCls (s2l "Base") (s2l "Base") false false [mkProp (s2l "x") (TAtom (APrim PInt)) false] [s2l "Child"];
           mkCls (s2l "Child") (s2l "Child") false false [mkProp (s2l "x") (TAtom (APrim PInt)) false] []].
Theorem C10_json_roundtrip_refuted_without_model_type :
  exists m i, wf_instance m i = true /\ mm_ok m = false
    /\ from_json py_b64decode m (ACls (cls_of i)) (to_json py_b64encode m i) = Err tt.
Proof. exists mt_mm, (VObj (s2l "Base") [VInt 1]). vm_compute. repeat split; reflexivity. Qed.
Print Assumptions C10_json_roundtrip_refuted_without_model_type.

(** The concrete base64 pair satisfies the hypothesis on all byte strings of length <= 2
    (exhaustively, 65 793 strings); longer ones are covered by the correspondence stream. *)
Fixpoint all_bytes_from (n : nat) (b : N) : list N :=
  match n with O => [] | S k => b :: all_bytes_from k (N.succ b) end.
Definition bytes256 : list N := all_bytes_from 256 0%N.
Theorem C10_b64_roundtrip_len_le_2 :
  forallb (fun bs => bytes_outcome_eqb (py_b64decode (py_b64encode bs)) (Ok bs))
          ([[]] ++ map (fun x => [x]) bytes256
           ++ flat_map (fun x => map (fun y => [x; y]) bytes256) bytes256) = true.
Proof. vm_compute. reflexivity. Qed.
Print Assumptions C10_b64_roundtrip_len_le_2.

(** ** Malformed documents.
    FULL STATEMENT: [forall m a j, from_json m a j] is never [Crash]. False with Python's
    base64 decoder ([_refuted]); proved for every decoder that does not raise ([_partial]):
    base64 is the only source of a foreign exception in the specification. *)
Theorem C10_from_json_total_partial :
  forall (dec : text -> outcome (list N) unit) (m : mm),
  (forall s, is_crash (dec s) = false) ->
  forall a j, is_crash (from_json dec m a j) = false.
Proof. exact from_json_total_partial. Qed.
Print Assumptions C10_from_json_total_partial.

Theorem C10_from_json_total_refuted :
  exists m a j, from_json py_b64decode m a j = Crash ValueError.
Proof. exact from_json_total_refuted. Qed.
Print Assumptions C10_from_json_total_refuted.

(** ** XML text.
    FULL STATEMENT: [xml_repr s -> parse_text (xml_escape s) = s]. False for a carriage
    return ([_refuted]); proved for texts without carriage return ([_partial]); and proved
    for ALL texts for the writer that escapes it as [&#13;] ([_fixed], the repair proposed in
    docs/C10.md). *)
Theorem C10_xml_text_roundtrip_refuted :
  exists s, xml_repr s = true /\ parse_text (xml_escape s) <> s.
Proof. exact xml_text_roundtrip_refuted. Qed.
Print Assumptions C10_xml_text_roundtrip_refuted.

Theorem C10_xml_text_roundtrip_partial : forall s, ~ In CR s -> parse_text (xml_escape s) = s.
Proof. exact xml_text_roundtrip_partial. Qed.
Print Assumptions C10_xml_text_roundtrip_partial.

Theorem C10_xml_text_roundtrip_fixed : forall s, parse_text (xml_escape_cr s) = s.
Proof. exact xml_text_roundtrip_fixed. Qed.
Print Assumptions C10_xml_text_roundtrip_fixed.

(** Non-vacuity: a model with dispatch, enum, bytes, lists, optional properties. *)
Definition ex_mm : mm :=
  mkMM [mkEnum (s2l "Kind") [(s2l "A", s2l "a"); (s2l "B", s2l "")]]
       [mkCls (s2l "Item") (s2l "Item") true true [] [s2l "Leaf"; s2l "Box"];
        mkCls (s2l "Leaf") (s2l "Leaf") false true
          [mkProp (s2l "text") (TAtom (APrim PStr)) false; mkProp (s2l "blob") (TAtom (APrim PBytes)) true;
           mkProp (s2l "kind") (TAtom (AEnum (s2l "Kind"))) false] [];
        mkCls (s2l "Box") (s2l "Box") false true
          [mkProp (s2l "items") (TList (ACls (s2l "Item"))) true;
           mkProp (s2l "nums") (TList (APrim PInt)) false;
           mkProp (s2l "ratio") (TAtom (APrim PFloat)) true] []].
Definition ex_leaf : value := VObj (s2l "Leaf") [VStr (s2l "t<&"); VBytes [0%N; 255%N]; VEnum (s2l "Kind") (s2l "B")].
Definition ex_box : value := VObj (s2l "Box") [VList [ex_leaf; VObj (s2l "Box") [VNone; VList []; VNone]]; VList [VInt 7]; VFloat 1%N].
Example C10_nonvacuous :
  mm_ok ex_mm = true /\ wf_instance ex_mm ex_box = true
  /\ from_json py_b64decode ex_mm (ACls (s2l "Item")) (to_json py_b64encode ex_mm ex_box) = Ok ex_box
  /\ from_json py_b64decode ex_mm (ACls (s2l "Leaf")) (JObj [(s2l "text", JStr []); (s2l "kind", JStr (s2l "a"))]) = Err tt
  /\ parse_text (xml_escape (s2l "a<b&c>d")) = s2l "a<b&c>d".
Proof. vm_compute. repeat split; reflexivity. Qed.
Print Assumptions C10_nonvacuous.
