#!/bin/bash
# usage: sweep_seeds.sh Cnn "<seeds>" [tier]  -- runs the check with several seeds, prints new failure keys
p=$1; seeds=$2; tier=${3:-quick}
for s in $seeds; do
  VERIF_SEED=$s ./check $p --tier $tier > work/sweep_$p_$s.log 2>&1; rc=$?
  python3 - <<PY
import json
d=json.load(open('/verif/evidence/$p.json'))
c=d['coverage']
print("$p seed $s rc=$rc new:", c.get('new_impl_failure_keys'), "corr:", c.get('correspondence_breaks'), "discharged:", c.get('discharged'), "/", c.get('obligations'), "wall", d['wall_s'])
PY
done
