"""Seeded generators of regex patterns for the retree checks (C16; reusable by C17/C18/C13).

A *pattern* is a list of values: ``str`` chunks and ``int`` ids of formatted values, with
no two adjacent strings and no empty string (what ``parse._rules`` produces for a string
constant or an f-string). ``compact`` establishes that form.
"""
from __future__ import annotations

import itertools
import random
from typing import List, Sequence, Union

Value = Union[str, int]

META = list("\\^$.|?*+()[]{}-,")
PLAIN = list("abcxyz019 _:;#/=@!<>~%&'\"") + ["\t", "é", "ß", "€", "中", "\xff", "\x00"]
ASTRAL = ["\U0001F600", "\U00010000", "\U00010001", "\U0010FFFF"]
ODD = ["\ud800", "\udfff", "\n", "\r", "\x0b", "\x0c", " ", "²", "٣"]
LIT_ESCAPES = list(".#^$()[]\\*+?{}") + ["t", "n", "r", "f", "v"]
SET_ESCAPES = list("\\[]^-") + ["t", "n", "r", "f", "v"]
BAD_ESCAPES = list("sSwWdDbBAZ1/-|,<Qe ")
EXHAUSTIVE_ALPHABET = ["a", "1", ",", "-", "^", "|", "(", ")", "[", "]", "{", "}", "*", "\\"]


def compact(parts: Sequence[Value]) -> List[Value]:
    out: List[Value] = []
    for p in parts:
        if isinstance(p, str):
            if p == "":
                continue
            if out and isinstance(out[-1], str):
                out[-1] = out[-1] + p
            else:
                out.append(p)
        else:
            out.append(p)
    return out


def as_text(values: Sequence[Value]) -> str:
    return "".join(v if isinstance(v, str) else "{fv%d}" % v for v in values)


def hex_escape(rng: random.Random, code: int) -> str:
    forms = []
    if code <= 0xFF:
        forms.append("\\x%02x" % code)
        forms.append("\\x%02X" % code)
    if code <= 0xFFFF:
        forms.append("\\u%04x" % code)
        forms.append("\\u%04X" % code)
    if code >= 0x10000:
        forms.append("\\U%08x" % code)
    forms.append("\\U%08X" % code)        # rejected by the parser below the astral planes
    return rng.choice(forms)


def gen_literal(rng: random.Random) -> str:
    r = rng.random()
    if r < 0.50:
        return rng.choice(PLAIN)
    if r < 0.70:
        return "\\" + rng.choice(LIT_ESCAPES)
    if r < 0.82:
        return hex_escape(rng, ord(rng.choice(PLAIN + ASTRAL + list("}{|-]"))))
    if r < 0.88:
        return rng.choice(ASTRAL)
    if r < 0.94:
        return rng.choice(list("}],-"))
    return rng.choice(ODD)


def gen_number(rng: random.Random, small: bool = True) -> str:
    if small or rng.random() < 0.85:
        n = rng.choice([0, 0, 1, 1, 2, 2, 3, 4, 5])
    else:
        n = rng.choice([10, 12, 64, 255, 1000, 65535, 4294967294])
    s = str(n)
    if rng.random() < 0.08:
        s = "0" * rng.randint(1, 2) + s
    return s


def gen_quantifier(rng: random.Random, blanks: bool = True) -> str:
    r = rng.random()
    if r < 0.45:
        return ""
    if r < 0.70:
        q = rng.choice(["*", "+", "?"])
    else:
        def b():
            return rng.choice(["", "", "", " ", "\t", "  "]) if blanks and rng.random() < 0.25 else ""
        a = int(rng.choice([0, 1, 1, 2, 3]))
        kind = rng.random()
        if kind < 0.35:
            body = f"{b()}{a}{b()}"
        elif kind < 0.55:
            body = f"{b()}{a}{b()},{b()}"
        elif kind < 0.70:
            body = f"{b()},{b()}{a + rng.randint(0, 3)}{b()}"
        else:
            body = f"{b()}{a}{b()},{b()}{a + rng.randint(0, 3)}{b()}"
        q = "{" + body + "}"
    if rng.random() < 0.2:
        q += "?"
    return q


def gen_set_char(rng: random.Random, code: int) -> str:
    c = chr(code)
    r = rng.random()
    if c in "\\[]-":
        return "\\" + c if r < 0.8 else hex_escape(rng, code)
    if c == "^":
        return "\\^" if r < 0.5 else "^"
    if c in "\t\n\r\x0b\x0c":
        return {"\t": "\\t", "\n": "\\n", "\r": "\\r", "\x0b": "\\v", "\x0c": "\\f"}[c] if r < 0.7 else c
    if r < 0.12:
        return hex_escape(rng, code)
    return c


SET_POINTS = [0x09, 0x0A, 0x20, 0x2B, 0x2D, 0x2E, 0x30, 0x39, 0x41, 0x5A, 0x5B, 0x5C, 0x5D, 0x5E,
              0x5F, 0x61, 0x66, 0x7A, 0x7B, 0x7D, 0xE9, 0xFF, 0x100, 0x20AC, 0xD7FF, 0xD800,
              0xDFFF, 0xE000, 0xFFFF, 0x10000, 0x10001, 0x1F600, 0x10FFFF]


def gen_set(rng: random.Random) -> str:
    compl = rng.random() < 0.3
    k = rng.choice([1, 1, 2, 2, 3, 4, 6])
    pts = sorted(rng.sample(SET_POINTS, min(k * 2, len(SET_POINTS))))
    if compl and rng.random() < 0.85:
        pts = [p for p in pts if p <= 0x10000] or [0x61]
    items = []
    i = 0
    while i < len(pts) and len(items) < k:
        if i + 1 < len(pts) and rng.random() < 0.5:
            items.append(gen_set_char(rng, pts[i]) + "-" + gen_set_char(rng, pts[i + 1]))
            i += 2
        else:
            items.append(gen_set_char(rng, pts[i]))
            i += 1
    rng.shuffle(items)
    pre = "-" if rng.random() < 0.12 else ""
    post = "-" if rng.random() < 0.12 and not pre else ""
    if pre or post:
        items = [x for x in items if "\\-" not in x and "\\x2d" not in x.lower()
                 and "\\u002d" not in x.lower()]
    return "[" + ("^" if compl else "") + pre + "".join(items) + post + "]"


def gen_term(rng: random.Random, depth: int, fvs: bool) -> List[Value]:
    r = rng.random()
    if r < 0.50:
        atom: List[Value] = [gen_literal(rng)]
    elif r < 0.58:
        atom = ["."]
    elif r < 0.74:
        atom = [gen_set(rng)]
    elif r < 0.90 and depth < 3:
        atom = ["("] + gen_union(rng, depth + 1, fvs) + [")"]
    elif fvs and r < 0.97:
        atom = [rng.randint(0, 3)]
    else:
        return [rng.choice(["^", "$"])]
    return atom + [gen_quantifier(rng)]


def gen_concat(rng: random.Random, depth: int, fvs: bool) -> List[Value]:
    n = rng.choice([0, 1, 1, 2, 2, 3, 4]) if depth else rng.choice([1, 1, 2, 3, 4, 6])
    out: List[Value] = []
    for _ in range(n):
        out += gen_term(rng, depth, fvs)
    return out


def gen_union(rng: random.Random, depth: int, fvs: bool) -> List[Value]:
    n = rng.choice([1, 1, 1, 2, 2, 3])
    out: List[Value] = []
    for i in range(n):
        if i:
            out.append("|")
        out += gen_concat(rng, depth, fvs)
    return out


def gen_pattern(rng: random.Random, fvs: bool = False) -> List[Value]:
    parts = gen_union(rng, 0, fvs)
    if rng.random() < 0.3:
        parts = ["^"] + parts + ["$"]
    return compact(parts)


MUT_POOL = META + list("0123 a-") + ["\\x", "\\u", "\\U", "{,", ",}", "[^", "-]", "*?", "??", "(?", "\t",
                                        "\\s", "\\d", "\\w", "\n", "²", "٣", "\U0001F600"]


def mutate(rng: random.Random, values: Sequence[Value]) -> List[Value]:
    vals = list(values) or [""]
    for _ in range(rng.choice([1, 1, 1, 2, 3])):
        idxs = [i for i, v in enumerate(vals) if isinstance(v, str)]
        if not idxs:
            vals.append(rng.choice(MUT_POOL))
            continue
        i = rng.choice(idxs)
        s = vals[i]
        op = rng.random()
        p = rng.randrange(len(s) + 1)
        if op < 0.40:
            s = s[:p] + rng.choice(MUT_POOL) + s[p:]
        elif op < 0.65 and s:
            p = rng.randrange(len(s))
            s = s[:p] + s[p + 1:]
        elif op < 0.80 and s:
            p = rng.randrange(len(s))
            s = s[:p] + rng.choice(MUT_POOL) + s[p + 1:]
        elif op < 0.90 and len(s) >= 2:
            p = rng.randrange(len(s) - 1)
            s = s[:p] + s[p + 1] + s[p] + s[p + 2:]
        else:
            s = s[:p] + s[p:p + 2] + s[p:]
        vals[i] = s
    return compact(vals)


def near_miss(rng: random.Random) -> List[Value]:
    """Short strings biased towards metacharacters and broken escapes."""
    n = rng.choice([1, 2, 2, 3, 3, 4, 5, 6, 8])
    pool = META * 3 + list("ab019 ") + ["\\" + c for c in BAD_ESCAPES] + \
        ["\\x4", "\\xg0", "\\u12", "\\u12g4", "\\U0000004", "\\U00110000", "\\U0000FFFF",
         "\\U0001F600", "{1,2}", "{2,1}", "{,}", "{ 1 }", "[a-z]", "[^a]", "[z-a]", "[a-a]", "--"]
    return compact([rng.choice(pool) for _ in range(n)])


def interleave(rng: random.Random, values: Sequence[Value]) -> List[Value]:
    """Cut the strings at random places and put formatted values in between."""
    out: List[Value] = []
    for v in values:
        if isinstance(v, str) and v and rng.random() < 0.8:
            cuts = sorted(rng.sample(range(len(v) + 1), min(len(v) + 1, rng.choice([1, 1, 2, 3]))))
            prev = 0
            for c in cuts:
                out.append(v[prev:c])
                out.append(rng.randint(0, 3))
                prev = c
            out.append(v[prev:])
        else:
            out.append(v)
    return compact(out)


def raw_values(rng: random.Random, values: Sequence[Value]) -> List[Value]:
    """Value lists that parse._rules can NOT produce: adjacent strings, empty strings."""
    out = list(values)
    for _ in range(rng.choice([1, 2])):
        p = rng.randrange(len(out) + 1)
        out.insert(p, rng.choice(["", "", "a", "|"]))
    return out


def exhaustive(maxlen: int):
    for n in range(0, maxlen + 1):
        for tup in itertools.product(EXHAUSTIVE_ALPHABET, repeat=n):
            yield ["".join(tup)] if tup else [""]


# Characters with a special role inside a character set (the keys of
# Renderer._ESCAPING_IN_RANGE plus the caret) and the ways to write them.
SET_SPECIALS = ["-", "^", "]", "[", "\\", "\t", "\n", "\r", "\f", "\v"]
_SET_NAMED = {"\t": "\\t", "\n": "\\n", "\r": "\\r", "\f": "\\f", "\v": "\\v"}


def set_special_forms(c: str) -> List[str]:
    forms = ["\\x%02x" % ord(c)]
    if c in _SET_NAMED:
        forms += [_SET_NAMED[c], c]
    else:
        forms += ["\\" + c, c]          # the raw form is a near miss for - ] and backslash
    return forms


def set_boundary_cases() -> List[List[Value]]:
    """Every special character of a character set as a single member, as the start and as
    the end of a range, written escaped / encoded / raw, in the first, a middle and the last
    position (and alone), in plain and complemented sets."""
    out: List[List[Value]] = []
    for c in SET_SPECIALS:
        for form in set_special_forms(c):
            members = [form, form + "-~", "\\x01-" + form, "!-" + form if ord(c) > 0x21 else "\\x02-" + form]
            for m in members:
                for layout in ("[%s]", "[%s\xe9\xff]", "[\xe9%s\xff]", "[\xe9\xff%s]", "x[\xe9-\xff%s]+y"):
                    body = layout % m
                    out.append([body])
                    out.append([body.replace("[", "[^", 1)])
    # dashes next to each other and next to ranges
    for p in ["[\\--/]", "[^\\--/]", "x[\\--9]+y", "[a\\--/]", "[a-z\\--9]*", "[+\\--/x]", "[+-\\-]",
              "[+-\\-x]", "[x+-\\-]", "[\\-]", "[\\-\\-]", "[--\\-]", "[\\---]", "[!-\\--]", "[-\\x2d]",
              "[\\x2d-]", "[\\x2d-\\x2f]", "[a\\x2d-\\x2f]", "[\\x2d-\\x2fa]", "[-a-z]", "[a-z-]", "[-a-z-]",
              "[^-a]", "[^a-]", "[^-]", "[\\^-~]", "[\\^-~a]", "[a\\^-~]", "[^\\^-~]", "[^^-~]", "[a^-~]",
              "[\\]-~]", "[\\]-~a]", "[a\\]-~]", "[!-\\]]", "[\\[-\\]]", "[\\\\-\\]]", "[\\t-\\r]"]:
        out.append([p])
    return out


QUANT_BOUNDS = ["", "0", "1", "2", "3", "10"]


def quantifier_boundary_cases(full: bool = False) -> List[List[Value]]:
    """Deterministic family of counted quantifiers: ``{m}`` and ``{m,n}`` with m, n in
    QUANT_BOUNDS (so: empty bounds, zero bounds, reversed bounds, equal bounds), blanks in
    every placement (after ``{``, after m, after the comma, after n), with and without the
    non-greedy mark, after a character, a group and a character set.

    ``full=False`` keeps, for the group and the set, only the placements without blanks and
    with blanks everywhere, and for the character the placements with at most one blank or
    blanks everywhere."""
    bodies = [(m, None) for m in QUANT_BOUNDS] + [(m, n) for m in QUANT_BOUNDS for n in QUANT_BOUNDS]
    placements = list(itertools.product(["", " "], repeat=4))
    few = [pl for pl in placements if sum(1 for x in pl if x) <= 1 or all(pl)]
    ends = [pl for pl in placements if not any(pl) or all(pl)]
    out: List[List[Value]] = []
    for atom in ["a", "(ab)", "[a-z]"]:
        pls = placements if full else (few if atom == "a" else ends)
        for m, n in bodies:
            for b0, b1, b2, b3 in pls:
                if n is None:
                    if b2:
                        continue
                    body = "{" + b0 + m + b1 + "}" if not b3 else "{" + b0 + m + b1 + b3 + "}"
                else:
                    body = "{" + b0 + m + b1 + "," + b2 + n + b3 + "}"
                for sfx in ("", "?"):
                    out.append([atom + body + sfx])
                    if full or not any((b0, b1, b2, b3)):
                        out.append(["x" + atom + body + sfx + "y"])
    # tabs as blanks, and the witnesses of the seeded change
    out += [["a{3,0}"], ["(ab){ 1 , 0 }?"], ["[a-z]{2,0}"], ["a{\t3\t,\t0\t}"], ["a{10,3}"], ["a{3,10}"],
            ["a{1,0}b{0,1}"], ["a{0}"], ["a{0,0}"], ["a{,0}"], ["a{00,0}"], ["a{01,00}"]]
    seen = set()
    uniq = []
    for v in out:
        if v[0] not in seen:
            seen.add(v[0])
            uniq.append(v)
    return uniq
