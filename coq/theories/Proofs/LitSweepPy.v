(** C19 — decidable side condition on the regenerated tables, discharged by computation
    over every code point 0..0x10FFFF (the bound 1114112 is part of the statement). Kept
    in a file of its own so that the sweeps of the targets compile in parallel. *)
From Coq Require Import List NArith Bool.
From Acg Require Import Base.Str Base.Outcome Model.LitCore Model.Lit Model.LexCore
  Model.LexPython Model.LexJs Model.LexJava Model.LexCpp Model.LexCsharp Model.LexGo
  Proofs.LitFacts Proofs.LitLangs Gen.GenLiteralTables.
Import ListNotations.
Open Scope N_scope.
Lemma py_side1 : py_good py_single 39 id_val. Proof. split; vm_compute; reflexivity. Qed.
Lemma py_side2 : py_good py_double 34 id_val. Proof. split; vm_compute; reflexivity. Qed.
Lemma py_side : py_good py_single_curly 39 curly_val -> py_good py_double_curly 34 curly_val -> py_ok.
Proof. intros H3 H4. exact (conj py_side1 (conj py_side2 (conj H3 H4))). Qed.
