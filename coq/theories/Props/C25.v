(** C25 — Snippet directory is loaded exactly.

    Theorems over the model [Model/Snippets.v] of
    [specific_implementations.read_from_directory], for every decoder and every
    white-space table (Section variables of the model, here universally quantified);
    the key pattern string, the constants of the function and the white-space table of
    the interpreter are regenerated on every run ([Gen/GenSnippets.v],
    [Gen/GenPyWhitespace.v]) and tied by the generated side conditions below.
    This file contains only statements, [exact]s and [Print Assumptions]. *)
From Coq Require Import List NArith ZArith Bool.
From Coq Require Strings.String.
Import Coq.Strings.String.StringSyntax.
From Acg Require Import Base.Str Base.Outcome Model.Snippets Proofs.SnippetsFacts
  Gen.GenSnippets Gen.GenPyWhitespace.
Import ListNotations.
Open Scope N_scope.

(** Generated side conditions: the pattern is the one whose language [key_lang] spells
    out and it is applied with [fullmatch]; the function globs ["**/*"], tests the
    prefix ["."] only, and reads as UTF-8. *)
Theorem C25_gen_key_pattern :
  text_eqb implementation_key_pattern
           (s2l "[a-zA-Z_][a-zA-Z_0-9.]*(/[a-zA-Z_][a-zA-Z_0-9.]*)*")
  && text_eqb key_match_method (s2l "fullmatch") = true.
Proof. vm_compute. reflexivity. Qed.
Print Assumptions C25_gen_key_pattern.

Theorem C25_gen_constants :
  text_eqb glob_pattern (s2l "**/*")
  && negb (Nat.eqb (length hidden_prefixes) 0)
  && forallb (text_eqb [DOT]) hidden_prefixes
  && text_eqb read_encoding (s2l "utf-8") = true.
Proof. vm_compute. reflexivity. Qed.
Print Assumptions C25_gen_constants.

(** The interpreter's white-space contains the ASCII blanks and line ends, and not the
    byte-order mark (which therefore stays in a snippet). *)
Theorem C25_gen_whitespace :
  forallb (fun c => memN c py_whitespace) [9; 10; 11; 12; 13; 32]
  && negb (memN 65279 py_whitespace) = true.
Proof. vm_compute. reflexivity. Qed.
Print Assumptions C25_gen_whitespace.

(** The run succeeds exactly when every non-hidden regular file (no component of its
    relative path starts with a dot, not a directory) has a valid key and decodes; the
    mapping then consists of exactly one pair per such file ... *)
Theorem C25_read_dir_spec :
  forall (ws : list N) (decode : list N -> option text) (l : list entry)
         (m : list (text * text)),
  read_dir ws decode l = Ok m <->
  (forall e, In e l -> visible_file e = true -> entry_good decode e)
  /\ m = mapping_of ws decode (sort_entries l).
Proof. exact read_dir_spec. Qed.
Print Assumptions C25_read_dir_spec.

(** ... key = relative POSIX path, value = stripped decoded content; hidden files,
    files below hidden directories, and directories contribute nothing. *)
Theorem C25_read_dir_mapping :
  forall (ws : list N) (decode : list N -> option text) (l : list entry) (k v : text),
  In (k, v) (mapping_of ws decode (sort_entries l)) <->
  exists e t, In e l /\ visible_file e = true /\ valid_key (key_of (e_path e)) = true
              /\ decode (e_bytes e) = Some t /\ k = key_of (e_path e) /\ v = strip ws t.
Proof. exact mapping_in_sorted. Qed.
Print Assumptions C25_read_dir_mapping.

(** A failing run reports a non-empty error list; every error names a non-hidden
    regular file with an invalid key or undecodable content, and every such file is
    named (nothing is dropped). *)
Theorem C25_read_dir_err_names_file :
  forall (ws : list N) (decode : list N -> option text) (l : list entry)
         (errs : list snippet_error),
  read_dir ws decode l = Err errs ->
  errs <> [] /\
  forall x, In x errs <->
    exists e, In e l /\ visible_file e = true /\
      ((x = KeyErr (e_path e) /\ valid_key (key_of (e_path e)) = false)
       \/ (x = DecodeErr (e_path e) /\ valid_key (key_of (e_path e)) = true
           /\ decode (e_bytes e) = None)).
Proof. exact read_dir_err_names_file. Qed.
Print Assumptions C25_read_dir_err_names_file.

(** Never an exception, for listings of readable regular files and directories
    (unreadable files, dangling links, FIFOs are outside the model: oracle only). *)
Theorem C25_read_dir_total :
  forall (ws : list N) (decode : list N -> option text) (l : list entry),
  is_crash (read_dir ws decode l) = false.
Proof. exact read_dir_total. Qed.
Print Assumptions C25_read_dir_total.

(** The boolean key test decides the language of the pattern. *)
Theorem C25_key_regex_spec : forall k : text, valid_key k = true <-> key_lang k.
Proof. exact key_regex_spec. Qed.
Print Assumptions C25_key_regex_spec.

(** Stripping removes white-space at both ends and nothing else. *)
Theorem C25_strip_spec : forall (ws : list N) (t : text), exists pre post,
  t = pre ++ strip ws t ++ post
  /\ forallb (is_ws ws) pre = true /\ forallb (is_ws ws) post = true
  /\ match strip ws t with [] => True | c :: _ => is_ws ws c = false end
  /\ match rev (strip ws t) with [] => True | c :: _ => is_ws ws c = false end.
Proof. exact strip_spec. Qed.
Print Assumptions C25_strip_spec.

(** Non-vacuity: a tree with a snippet in a sub-directory (CRLF, BOM-less, blanks
    around), a hidden file, a file below a hidden directory, a directory — loads; the
    same tree with an invalid name or invalid UTF-8 fails naming exactly that file. *)
Definition ex_tree : list entry :=
  [ mk_entry [s2l "Types"; s2l "Foo.cs"] false (s2l " a" ++ [13; 10] ++ s2l "b " ++ [10]);
    mk_entry [s2l "Types"] true [];
    mk_entry [s2l ".gitignore"] false [255];
    mk_entry [s2l ".git"] true [];
    mk_entry [s2l ".git"; s2l "config"] false [255] ].
Example C25_nonvacuous :
  read_dir py_whitespace py_decode ex_tree
    = Ok [(s2l "Types/Foo.cs", s2l "a" ++ [10] ++ s2l "b")]
  /\ read_dir py_whitespace py_decode
       (mk_entry [s2l "with space"] false [] :: mk_entry [s2l "ok"] false [192; 128] :: ex_tree)
     = Err [DecodeErr [s2l "ok"]; KeyErr [s2l "with space"]].
Proof. vm_compute. split; reflexivity. Qed.
Print Assumptions C25_nonvacuous.
