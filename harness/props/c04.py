"""C04 — Reported error locations point at the offending construct (common.LinenoColumner)."""
from __future__ import annotations

from harness import lib
from harness.gen import lineno as gen
from harness.lib import coq_list, coq_option, coq_pair, coq_text, coq_z

META = {
    "title": "Reported error locations point at the offending construct",
    "design_ref": "§4 C04",
    "level_text": (
        "Coq theorems for all texts over a Gallina model of the offset -> (line, column) "
        "table of LinenoColumner and its look-up in error_message: the entry at the offset "
        "of a character is (1 + line breaks before it, 1 + characters before it on its "
        "line), on every line; one entry per character; the look-up cannot raise inside "
        "the text. The model is tied to the code by correspondence streams evaluated inside "
        "Coq (raw texts, generated Python programs, the repository's rejected meta-models), "
        "and the property is run end-to-end on the implementation: the reported 'At line L "
        "and column C' of every AST node / every located front-end error is compared with "
        "Python's own lineno / col_offset."
    ),
    "level_note": (
        "Trusted: the hand-written model agrees with the code beyond the sampled inputs; "
        "asttokens.get_text_range(node)[0] is the offset of the node's first character "
        "(validated end-to-end on every run, not proved); which node the front end "
        "attaches to an error is not judged (only where that node is reported)."
    ),
    "technique": "Coq proof (induction over the character loop) + in-Coq correspondence "
                 "check + end-to-end oracle against Python's ast positions",
}
GEN: list = []
MODEL = ["Model/Lineno"]
TRUSTED = [
    "Model/Lineno.v is a hand-written model of LinenoColumner.__init__ and the table look-up "
    "of error_message (correspondence-checked)",
    "asttokens: get_text_range(node)[0] = offset of the node's first character; ASTTokens.text "
    "= the source text (validated end-to-end against ast lineno/col_offset on every run)",
    "CPython ast: lineno / col_offset (UTF-8 bytes) of nodes are taken as the ground truth",
]
RULE = ("case = a text (raw stream: random strings over letters, blanks, LF, CR, CRLF, tab, "
        "VT, FF, NEL, LS, non-BMP, lone surrogate; program stream: generated valid Python in "
        "meta-model style with blank/comment/continuation lines, decorators, multi-line "
        "strings, f-strings, LF or CRLF; model stream: the repository's rejected meta-models "
        "and line-shifted variants); non-trivial = the text has at least two lines and a "
        "non-ASCII character or an offset on a later line is looked up; distinct by text")

HEADER = """From Coq Require Import List NArith ZArith Bool.
From Acg Require Import Base.Str Base.Outcome Model.Lineno.
Import ListNotations.
Open Scope N_scope.
Definition impl_loc (o : option (Z * Z)) : outcome (Z * Z) unit :=
  match o with Some p => Ok p | None => Crash IndexError end.
Definition lookups_ok (t : text) (ls : list (Z * option (Z * Z) * option (Z * Z))) : bool :=
  forallb (fun l => match l with (start, unmarked, impl) =>
                      loc_eqb (report_position t start unmarked) (impl_loc impl) end) ls.
Definition case_ok (c : text * option (list (Z * Z)) * option Z * list (Z * option (Z * Z) * option (Z * Z))) : bool :=
  match c with
  | (t, table, len, ls) =>
      match table with
      | Some tb => list_eqb pos_eqb (positions t) tb
      | None => true
      end
      && match len with Some n => Z.eqb (zlen (positions t)) n | None => true end
      && lookups_ok t ls
  end.
Fixpoint bad_from (i : nat)
  (cs : list (text * option (list (Z * Z)) * option Z * list (Z * option (Z * Z) * option (Z * Z)))) : list nat :=
  match cs with
  | [] => []
  | c :: r => if case_ok c then bad_from (S i) r else i :: bad_from (S i) r
  end.
Definition bad := bad_from 0.
"""
CASE_TYPE = "text * option (list (Z * Z)) * option Z * list (Z * option (Z * Z) * option (Z * Z))"

K_SHIFT = "columns-shifted-by-one-after-first-line"
K_ALIGN = "table-not-aligned-with-text-offsets"
K_UNMARKED = "unmarked-node-located-at-offset-0"
K_RAISE = "error_message-raises"
K_OTHER = "node-location-mismatch"


# ---------------------------------------------------------------------------------
# The property statement, executed on what the implementation answered
# ---------------------------------------------------------------------------------
def spec_pos(text: str, i: int):
    """1-based (line, column) of the character at offset i — written independently of
    the loop of the code: count the line breaks before, measure from the last one."""
    return (1 + text.count("\n", 0, i), i - (text.rfind("\n", 0, i) + 1) + 1)


def table_oracle(text: str, table):
    """-> list of (key, detail) for the table; [] when fine."""
    fails = []
    for i, ch in enumerate(text):
        if ch == "\n":
            continue
        want = spec_pos(text, i)
        got = tuple(table[i]) if i < len(table) else None
        if got == want:
            continue
        if got is not None and want[0] > 1 and got == (want[0], want[1] + 1):
            fails.append((K_SHIFT, {"offset": i, "expected": want, "table": got}))
        else:
            fails.append((K_ALIGN, {"offset": i, "expected": want, "table": got}))
        break
    return fails


def char_col(line: str, byte_col: int) -> int:
    return len(line.encode("utf-8", "surrogatepass")[:byte_col].decode("utf-8", "replace"))


def first_nonblank(line: str) -> int:
    return len(line) - len(line.lstrip(" \t\x0c"))


def node_oracle(text: str, info: dict):
    """The reported (L, C) of a node must be: its own first character (Python's lineno /
    col_offset, bytes -> characters, 1-based), or the first character of its enclosing
    statement (for a decorated definition: of its first decorator line), or the first
    (non-blank) character of the construct's line."""
    if "lineno" not in info:
        return []
    lines = text.split("\n")
    L = info["lineno"]
    own = (L, char_col(lines[L - 1], info["col_offset"]) + 1)
    accepted = {own, (L, 1), (L, first_nonblank(lines[L - 1]) + 1)}
    if "stmt" in info:
        sl, sc = info["stmt"]
        accepted.add((sl, char_col(lines[sl - 1], sc) + 1))
    if "first_decorator_lineno" in info:
        # a decorated definition starts with its first decorator
        dl = info["first_decorator_lineno"]
        accepted.add((dl, first_nonblank(lines[dl - 1]) + 1))
        accepted.add((dl, 1))
    rep = info["reported"]
    if "at" in rep and tuple(rep["at"]) in accepted:
        return []
    detail = {"node": info["type"], "own_position": own, "reported": rep,
              "asttokens_start": info.get("start")}
    if "exc" in rep:
        return [(f"{K_RAISE}-{rep['exc']}", detail)]
    got = tuple(rep.get("at", (None, None)))
    if info.get("start") == 0 and own != (1, 1):
        return [(K_UNMARKED, detail)]
    if L > 1 and got == (own[0], own[1] + 1):
        return [(K_SHIFT, detail)]
    return [(K_OTHER, detail)]


def evaluate(mode: str, text: str, res: dict):
    """-> (fails, coq_table, lookups) for one implementation answer."""
    fails = []
    lookups = []
    table = None
    if mode == "table":
        if "exc" in res:
            fails.append((f"table-raises-{res['exc']}", res))
        else:
            table = res["positions"]
            fails += table_oracle(text, table)
        return fails, table, lookups
    if "syntax" in res:
        return None, None, None
    if "exc" in res:
        return [(f"table-raises-{res['exc']}", res)], None, []
    if "front_end_exc" in res:
        return None, None, None      # a crash of the front end is C01's business
    infos = res.get("nodes", res.get("located", []))
    if mode == "program":
        table = res["positions"]
        fails += table_oracle(text, table)
    table_fails = list(fails)
    for info in infos:
        # a wrong table explains wrong node locations: report the root cause only
        if not table_fails:
            fails += node_oracle(text, info)
        if "start" in info:
            rep = info["reported"]
            um = tuple(info["unmarked"]) if "unmarked" in info else None
            lookups.append((info["start"], um, tuple(rep["at"]) if "at" in rep else None))
    return fails, table, sorted(set(lookups), key=lambda p: (p[0], p[1] or (0, 0)))[:80]


def coq_case(text, table, length, lookups):
    """table: list of pairs or None (not shipped); length: int or None (not shipped)."""
    tb = None if table is None else coq_list(coq_pair(coq_z(a), coq_z(b)) for a, b in table)
    def zz(p):
        return coq_option(None if p is None else coq_pair(coq_z(p[0]), coq_z(p[1])))
    ls = coq_list(coq_pair(coq_z(s), zz(u), zz(p)) for s, u, p in lookups)
    return coq_pair(coq_text(text), coq_option(tb),
                    coq_option(None if length is None else coq_z(length)), ls)


# ---------------------------------------------------------------------------------
# Inputs
# ---------------------------------------------------------------------------------
RAW_CORPUS = ["", "a", "\n", "\na", "a\nb", "a\r\nb", "\r", "😀\né", "a\n\n\nb", "\n\n", " \n x",
              "a\x0cb\nc", "x\u2028y\nz", "ab\ncd\nef"]
PROGRAM_CORPUS = [
    "x = 1\n", "\nx = 1", "x = 1\ny = 2\n", "  \nx = 1\n", "   # c\nx = 1\n", "\t\nx = 1",
    "x = 'é😀'; y = 2\nz = 3\n", "x = 1\r\ny = 2\r\n", "@d\nclass A:\n    x: int\n",
    "x = 1\ny = f'{x!r}'\n", "# c\n\nclass A:\n\n    def f(self) -> None:\n        return (\n  1)\n",
    "\\\nx = 1\n", "",
]
MODEL_CORPUS = [
    # conversion in an f-string: the error is attached to the FormattedValue node
    'class A:\n    x: str\n\n    def __init__(self, x: str) -> None:\n        self.x = x\n\n\n'
    '@verification\ndef f(x: str) -> bool:\n    return match(f"{x!r}", x) is not None\n\n\n'
    '__version__ = "1"\n__xml_namespace__ = "https://x.com"\n',
    "class A(Enum):\n    x: int\n",
    "\n\n  \nclass A:\n    x: int\n    assert True\n",
]


def model_texts(ctx):
    texts = list(MODEL_CORPUS)
    root = lib.REPO / "dev" / "test_data"
    found = []
    for pat in ("parse/unexpected/**/meta_model.py", "intermediate/unexpected/**/meta_model.py",
                "smoke/test_main/unexpected/**/meta_model.py"):
        found += sorted(root.glob(pat))
    base = [p.read_text(encoding="utf-8") for p in found]
    if not ctx.thorough:
        base = ctx.rng.sample(base, min(len(base), 40))
    for t in base:
        texts.append(t)
        k = ctx.rng.randrange(4)
        prefix = ["# é😀\n" * ctx.rng.randrange(1, 4), "\n\n", "  \n", "    # indented first line\n"][k]
        texts.append(prefix + t)
    return texts, len(found)


# ---------------------------------------------------------------------------------
def shrink(mode: str, text: str, key: str, budget: int = 14) -> str:
    """Delta debugging (blocks of lines, then of characters, halving the block size)
    keeping a failure with the same key; at most ``budget`` implementation runs."""
    calls = [0]

    def failing(cands):
        calls[0] += 1
        results = lib.impl_call("lineno.py", {"mode": mode, "texts": cands})
        out = []
        for t, r in zip(cands, results):
            fails, _, _ = evaluate(mode, t, r)
            out.append(bool(fails) and any(k == key for k, _ in fails))
        return out

    cur = text
    for unit in ("line", "char"):
        parts = cur.split("\n") if unit == "line" else list(cur)
        sep = "\n" if unit == "line" else ""
        chunk = max(1, len(parts) // 2)
        while chunk >= 1 and calls[0] < budget and len(parts) > 1:
            cands = [sep.join(parts[:i] + parts[i + chunk:]) for i in range(0, len(parts), chunk)]
            cands = [c for c in dict.fromkeys(cands) if c != cur][:60]
            verdicts = failing(cands) if cands else []
            nxt = next((c for c, v in zip(cands, verdicts) if v), None)
            if nxt is None:
                chunk //= 2
                continue
            cur = nxt
            parts = cur.split("\n") if unit == "line" else list(cur)
            chunk = min(chunk, max(1, len(parts) // 2))
    return cur


def how(mode: str, text: str) -> str:
    if mode == "table":
        return (f"PYTHONPATH={lib.REPO} {lib.PY} -c \"import types; from aas_core_codegen.common import "
                f"LinenoColumner as L; t={text!r}; a=types.SimpleNamespace(text=t, tree=None, "
                f"get_text=lambda n: t); print(L(a).positions)\"")
    return (f"PYTHONPATH={lib.REPO} {lib.PY} -c \"import ast, asttokens; from aas_core_codegen.common "
            f"import LinenoColumner as L, Error; a=asttokens.ASTTokens({text!r}, parse=True); l=L(a); "
            f"[print(type(n).__name__, n.lineno, n.col_offset, l.error_message(Error(n,'m'))) "
            f"for n in ast.walk(a.tree) if hasattr(n,'lineno')]\"")


def streams(ctx: lib.Ctx) -> None:
    raw = list(RAW_CORPUS) + [gen.raw_text(ctx.rng) for _ in range(ctx.n(1500, 12000))]
    programs = list(PROGRAM_CORPUS) + [gen.program(ctx.rng) for _ in range(ctx.n(220, 5000))]
    models, n_model_files = model_texts(ctx)

    batches = [("table", raw), ("program", programs), ("model", models)]
    coq_cases = []
    case_inputs = []
    nontrivial = []
    first_fail = {}      # key -> (mode, text, detail)
    stats = {"nodes": 0, "located_errors": 0, "syntax_skipped": 0, "lookups": 0}
    for mode, texts in batches:
        results = []
        B = 3000
        for k in range(0, len(texts), B):
            results += lib.impl_call("lineno.py", {"mode": mode, "texts": texts[k:k + B]},
                                     timeout=1500)
        n_eval = 0
        for text, res in zip(texts, results):
            fails, table, lookups = evaluate(mode, text, res)
            if fails is None:
                stats["syntax_skipped"] += 1
                continue
            n_eval += 1
            if mode == "program":
                stats["nodes"] += len(res.get("nodes", []))
            if mode == "model":
                stats["located_errors"] += len(res.get("located", []))
            stats["lookups"] += len(lookups)
            for key, detail in fails:
                if key not in first_fail or (first_fail[key][0] == mode
                                             and len(text) < len(first_fail[key][1])):
                    first_fail[key] = (mode, text, detail)
            if "exc" in res:
                # building the table raised: the model never does (forces a mismatch)
                coq_cases.append(coq_case(text, None, -1, []))
            elif mode == "model":
                coq_cases.append(coq_case(text, None, res["positions_len"], lookups))
            elif mode == "program" and len(text) > 400:
                coq_cases.append(coq_case(text, None, len(table), lookups))
            else:
                coq_cases.append(coq_case(text, table, len(table), lookups))
            case_inputs.append((mode, text, res if mode == "table" else {
                "lookups": lookups, "table_len": None if table is None else len(table)}))
            if "\n" in text.strip("\n") and (any(ord(c) > 127 for c in text) or lookups):
                nontrivial.append(text)
        ctx.count(mode, n_eval, validated=n_eval)

    # shards of similar size: raw texts are tiny, programs and meta-models are not
    small = [i for i, c in enumerate(coq_cases) if len(c) < 2000]
    big = [i for i, c in enumerate(coq_cases) if len(c) >= 2000]
    bad = []
    for name, idx, shard in (("cases", small, 300), ("bigcases", big, 12)):
        b, _log = lib.run_cases(ctx.work, name, HEADER, CASE_TYPE, "bad",
                                [coq_cases[i] for i in idx], shard=shard)
        bad += [idx[j] for j in b]
    bad.sort()
    for i in bad[:10]:
        mode, text, res = case_inputs[i]
        model = lib.coq_eval(ctx.work, "show", HEADER, f"positions {coq_text(text[:300])}")
        ctx.corr_break(mode, {"text": text}, model[-1500:], res)

    # report one shrunk failure per kind
    for n_key, (key, (mode, text, detail)) in enumerate(sorted(first_fail.items())):
        small = shrink(mode, text, key) if n_key < 4 else text
        res = lib.impl_call("lineno.py", {"mode": mode, "texts": [small]})[0]
        fails, _, _ = evaluate(mode, small, res)
        det = next((d for k, d in (fails or []) if k == key), detail)
        ctx.impl_failure(key, f"reported location differs from the construct's position ({key})",
                         {"mode": mode, "text": small}, det, mode, how(mode, small))

    ctx.count("all", 0, nontrivial_keys=nontrivial, **stats,
              rejected_meta_model_files=n_model_files,
              line_end_styles="LF, CRLF (programs); LF, CR, CRLF, VT, FF, NEL, LS (raw)")
    for t in (raw[14:16] + programs[13:15]):
        ctx.sample({"text": t[:300]})
