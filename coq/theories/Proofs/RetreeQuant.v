(** Decimal printing ([str(n)], model [dec]) against
    [Cursor.try_positive_integer_without_sign] (model [try_int]): the arithmetic core
    of the quantifier round trip. *)
From Coq Require Import List NArith Bool Arith Lia.
From Acg Require Import Base.Str Base.Outcome Model.Retree Model.RetreeParse
  Model.RetreeRender Proofs.RetreeWf.
Import ListNotations.
Open Scope N_scope.

Lemma pos_size_nat_gt : forall p, N.pos p < 2 ^ N.of_nat (Pos.size_nat p).
Proof.
  induction p as [p IH|p IH|]; cbn [Pos.size_nat].
  - rewrite Nat2N.inj_succ, N.pow_succ_r'. lia.
  - rewrite Nat2N.inj_succ, N.pow_succ_r'. lia.
  - change (2 ^ N.of_nat 1) with 2. lia.
Qed.

Lemma size_nat_gt : forall n, n < 2 ^ N.of_nat (S (N.size_nat n)).
Proof.
  intros [|p].
  - rewrite Nat2N.inj_succ, N.pow_succ_r'. pose proof (N.pow_nonzero 2 (N.of_nat (N.size_nat 0))). lia.
  - cbn [N.size_nat]. rewrite Nat2N.inj_succ, N.pow_succ_r'.
    pose proof (pos_size_nat_gt p). lia.
Qed.

Lemma digits_value_app : forall l d, digits_value (l ++ [d]) = 10 * digits_value l + (d - 48).
Proof. intros l d. unfold digits_value. rewrite fold_left_app. reflexivity. Qed.

Lemma dec_fuel_spec : forall f n, n < 2 ^ N.of_nat f ->
  digits_value (dec_fuel f n) = n /\ forallb is_digit (dec_fuel f n) = true
  /\ (f <> 0%nat -> dec_fuel f n <> []).
Proof.
  induction f as [|f IH]; intros n Hn.
  - change (2 ^ N.of_nat 0) with 1 in Hn. assert (n = 0) by lia. subst.
    cbn. split; [reflexivity|]. split; [reflexivity|]. intros H. exfalso. apply H. reflexivity.
  - cbn [dec_fuel]. destruct (n <? 10) eqn:E.
    + apply N.ltb_lt in E. repeat split.
      * unfold digits_value. cbn [fold_left]. lia.
      * cbn [forallb]. unfold is_digit. rewrite andb_true_r.
        apply andb_true_iff. split; apply N.leb_le; lia.
      * intros _. discriminate.
    + apply N.ltb_ge in E.
      rewrite Nat2N.inj_succ, N.pow_succ_r' in Hn.
      assert (Hq : n / 10 < 2 ^ N.of_nat f).
      { apply N.div_lt_upper_bound; lia. }
      destruct (IH _ Hq) as [Hv [Hd _]].
      assert (Hm : n mod 10 < 10) by (apply N.mod_lt; lia).
      repeat split.
      * rewrite digits_value_app, Hv.
        rewrite (N.add_comm 48), N.add_sub.
        symmetry. apply N.div_mod'.
      * rewrite forallb_app, Hd. cbn [forallb andb]. unfold is_digit. rewrite andb_true_r.
        apply andb_true_iff. split; apply N.leb_le; [apply N.le_add_r|].
        clear -Hm. set (m := n mod 10) in *. lia.
      * intros _ H. apply app_eq_nil in H. destruct H as [_ H]. discriminate.
Qed.

Lemma dec_spec : forall n,
  digits_value (dec n) = n /\ forallb is_digit (dec n) = true /\ dec n <> [].
Proof.
  intros n. unfold dec. destruct (dec_fuel_spec _ _ (size_nat_gt n)) as [H1 [H2 H3]].
  repeat split; auto.
Qed.

Definition starts_with_digit (ts : list tok) : bool :=
  match ts with C c :: _ => is_digit c | _ => false end.

Lemma take_digits_app : forall ds rest,
  forallb is_digit ds = true -> starts_with_digit rest = false ->
  take_digits (map C ds ++ rest) = (ds, rest).
Proof.
  induction ds as [|d ds IH]; intros rest Hd Hr.
  - cbn [map app]. destruct rest as [|[c|f] r]; cbn in *; auto. rewrite Hr. reflexivity.
  - cbn [forallb] in Hd. apply andb_true_iff in Hd. destruct Hd as [H1 H2].
    cbn [map app take_digits]. rewrite H1, (IH _ H2 Hr). reflexivity.
Qed.

(** [try_int] reads back what [str] printed, whatever non-digit follows. *)
Theorem try_int_dec : forall n rest,
  starts_with_digit rest = false -> try_int (map C (dec n) ++ rest) = (Some n, rest).
Proof.
  intros n rest Hr. destruct (dec_spec n) as [Hv [Hd Hne]].
  unfold try_int. rewrite (take_digits_app _ _ Hd Hr).
  destruct (dec n) as [|d ds] eqn:E; [congruence|]. rewrite Hv. reflexivity.
Qed.

(** ** Quantifier round trip: [parse_quantifier (render_quantifier q ++ rest)] *)
Definition starts_blank (ts : list tok) : bool :=
  match ts with C c :: _ => (c =? 32) || (c =? 9) | _ => false end.

Lemma skip_blanks_id : forall ts, starts_blank ts = false -> skip_blanks ts = ts.
Proof.
  intros [|[c|f] r] H; cbn in *; auto. rewrite H. reflexivity.
Qed.

Lemma try_int_none : forall ts, starts_with_digit ts = false -> try_int ts = (None, ts).
Proof.
  intros [|[c|f] r] H; unfold try_int; cbn in *; auto. rewrite H. reflexivity.
Qed.

Lemma dec_head : forall n r, exists d tl,
  map C (dec n) ++ r = C d :: tl /\ is_digit d = true.
Proof.
  intros n r. destruct (dec_spec n) as [_ [Hd Hne]].
  destruct (dec n) as [|d ds]; [congruence|].
  cbn [forallb] in Hd. apply andb_true_iff in Hd. destruct Hd as [Hd _].
  exists d, (map C ds ++ r). split; auto.
Qed.

Lemma digit_not_blank : forall d, is_digit d = true -> (d =? 32) || (d =? 9) = false.
Proof.
  intros d H. unfold is_digit in H. apply andb_true_iff in H. destruct H as [H1 _].
  apply N.leb_le in H1. apply orb_false_iff. split; apply N.eqb_neq; lia.
Qed.

Lemma skip_blanks_dec : forall n r, skip_blanks (map C (dec n) ++ r) = map C (dec n) ++ r.
Proof.
  intros n r. destruct (dec_head n r) as [d [tl [E Hd]]]. rewrite E.
  apply skip_blanks_id. cbn. apply digit_not_blank. exact Hd.
Qed.

Definition qsuffix (ng : bool) : list tok := if ng then [C 63] else [].

Lemma close_braces : forall ng mn mx rest,
  (ng = false -> peek_lit [63] rest = false) ->
  match mx with Some m => m <? mn | None => false end = false ->
  (iflit [125; 63] at C 125 :: qsuffix ng ++ rest as r
   then (do q <- mk_quantifier true mn mx; Ok (q, r))
   else iflit [125] at C 125 :: qsuffix ng ++ rest as r
        then (do q <- mk_quantifier false mn mx; Ok (q, r)) else Err tt)
  = Ok (mkQuant ng mn mx, rest).
Proof.
  intros ng mn mx rest Hf Hg.
  assert (Hq : forall b, mk_quantifier b mn mx = Ok (mkQuant b mn mx)).
  { intros b. unfold mk_quantifier. destruct mx as [m|]; auto. rewrite Hg. reflexivity. }
  destruct ng; cbn [qsuffix app try_lit].
  - change (125 =? 125) with true. change (63 =? 63) with true. cbv iota.
    rewrite Hq. reflexivity.
  - change (125 =? 125) with true. cbv iota.
    specialize (Hf eq_refl). unfold peek_lit in Hf. cbn [try_lit] in Hf.
    destruct rest as [|[c|f] r]; cbn [try_lit]; try (rewrite Hq; reflexivity).
    destruct (c =? 63); [discriminate|]. rewrite Hq. reflexivity.
Qed.

(** "{n}" *)
Lemma parse_braces_exact : forall n ng rest,
  (ng = false -> peek_lit [63] rest = false) ->
  parse_braces (map C (dec n) ++ C 125 :: qsuffix ng ++ rest)
  = Ok (mkQuant ng n (Some n), rest).
Proof.
  intros n ng rest Hf. unfold parse_braces.
  rewrite skip_blanks_dec.
  rewrite (try_int_dec n (C 125 :: qsuffix ng ++ rest) eq_refl).
  cbn [skip_blanks]. change ((125 =? 32) || (125 =? 9)) with false. cbv iota.
  cbn [try_lit]. change (125 =? 44) with false. cbv iota.
  cbn [skip_blanks]. change ((125 =? 32) || (125 =? 9)) with false. cbv iota.
  rewrite (try_int_none (C 125 :: qsuffix ng ++ rest) eq_refl).
  cbn [skip_blanks]. change ((125 =? 32) || (125 =? 9)) with false. cbv iota.
  cbn [is_some negb andb]. rewrite N.ltb_irrefl.
  apply close_braces; auto. apply N.ltb_irrefl.
Qed.

(** "{n,m}" *)
Lemma parse_braces_between : forall n m ng rest,
  n <= m -> (ng = false -> peek_lit [63] rest = false) ->
  parse_braces (map C (dec n) ++ C 44 :: map C (dec m) ++ C 125 :: qsuffix ng ++ rest)
  = Ok (mkQuant ng n (Some m), rest).
Proof.
  intros n m ng rest Hnm Hf. unfold parse_braces.
  rewrite skip_blanks_dec.
  rewrite (try_int_dec n (C 44 :: map C (dec m) ++ C 125 :: qsuffix ng ++ rest) eq_refl).
  cbn [skip_blanks]. change ((44 =? 32) || (44 =? 9)) with false. cbv iota.
  cbn [try_lit]. change (44 =? 44) with true. cbv iota.
  rewrite skip_blanks_dec.
  rewrite (try_int_dec m (C 125 :: qsuffix ng ++ rest) eq_refl).
  cbn [skip_blanks]. change ((125 =? 32) || (125 =? 9)) with false. cbv iota.
  cbn [is_some negb andb].
  assert (Hg : (m <? n) = false) by (apply N.ltb_ge; exact Hnm).
  rewrite Hg. apply close_braces; auto.
Qed.

(** "{n,}" *)
Lemma parse_braces_atleast : forall n ng rest,
  (ng = false -> peek_lit [63] rest = false) ->
  parse_braces (map C (dec n) ++ C 44 :: C 125 :: qsuffix ng ++ rest)
  = Ok (mkQuant ng n None, rest).
Proof.
  intros n ng rest Hf. unfold parse_braces.
  rewrite skip_blanks_dec.
  rewrite (try_int_dec n (C 44 :: C 125 :: qsuffix ng ++ rest) eq_refl).
  cbn [skip_blanks]. change ((44 =? 32) || (44 =? 9)) with false. cbv iota.
  cbn [try_lit]. change (44 =? 44) with true. cbv iota.
  cbn [skip_blanks]. change ((125 =? 32) || (125 =? 9)) with false. cbv iota.
  rewrite (try_int_none (C 125 :: qsuffix ng ++ rest) eq_refl).
  cbn [skip_blanks]. change ((125 =? 32) || (125 =? 9)) with false. cbv iota.
  cbn [is_some negb andb].
  apply close_braces; auto.
Qed.

Lemma map_qsuffix : forall ng : bool, map C (if ng then [63] else ([] : text)) = qsuffix ng.
Proof. destruct ng; reflexivity. Qed.

Lemma peek_none : forall rest, peek_lit [63] rest = false -> try_lit [63] rest = None.
Proof.
  intros rest H. unfold peek_lit in H. destruct (try_lit [63] rest); [discriminate|reflexivity].
Qed.

Lemma parse_quantifier_brace : forall r,
  parse_quantifier (C 123 :: r)
  = (do2 (q, r') <- parse_braces r; (Ok (Some q, r') : presult (option quantifier))).
Proof. intros r. reflexivity. Qed.

Theorem quantifier_roundtrip : forall q rest,
  wf_quant q = true -> (q_non_greedy q = false -> peek_lit [63] rest = false) ->
  parse_quantifier (map C (render_quantifier q) ++ rest) = Ok (Some q, rest).
Proof.
  intros [ng mn mx] rest Hwf Hf. unfold wf_quant in Hwf. cbn [q_min q_max q_non_greedy] in *.
  unfold render_quantifier. cbn [q_min q_max q_non_greedy].
  rewrite map_app, map_qsuffix, <- app_assoc.
  assert (Hsimple : forall c (mn' : N) (mx' : option N),
            memN c [42; 43; 63] = true ->
            (forall b, mk_quantifier b mn' mx' = Ok (mkQuant b mn' mx')) ->
            (forall r,
               parse_quantifier (C c :: C 63 :: r)
               = (do q <- mk_quantifier true mn' mx'; (Ok (Some q, r) : presult (option quantifier)))) ->
            (forall r, try_lit [63] r = None ->
               parse_quantifier (C c :: r)
               = (do q <- mk_quantifier false mn' mx'; (Ok (Some q, r) : presult (option quantifier)))) ->
            parse_quantifier (C c :: qsuffix ng ++ rest) = Ok (Some (mkQuant ng mn' mx'), rest)).
  { intros c mn' mx' _ Hq H1 H2. destruct ng; cbn [qsuffix app].
    - rewrite H1, Hq. reflexivity.
    - rewrite H2, Hq; [reflexivity|]. apply peek_none. apply Hf. reflexivity. }
  destruct mx as [m|].
  - destruct (mn =? m) eqn:Eeq.
    + apply N.eqb_eq in Eeq. subst m.
      rewrite !map_app, <- !app_assoc. cbn [map app].
      rewrite parse_quantifier_brace, (parse_braces_exact mn ng rest Hf). reflexivity.
    + destruct (mn =? 0) eqn:E0.
      * apply N.eqb_eq in E0. subst mn. destruct (m =? 1) eqn:E1.
        -- apply N.eqb_eq in E1. subst m. cbn [map app].
           apply Hsimple; [reflexivity | intros b; reflexivity | | ].
           ++ intros r. unfold parse_quantifier. cbn [try_lit].
              change (63 =? 42) with false. change (63 =? 43) with false.
              change (63 =? 63) with true. cbv iota. reflexivity.
           ++ intros r Hr. unfold parse_quantifier. cbn [try_lit] in Hr |- *.
              change (63 =? 42) with false. change (63 =? 43) with false.
              change (63 =? 63) with true. cbv iota. rewrite Hr. reflexivity.
        -- rewrite !map_app, <- !app_assoc. cbn [map app].
           rewrite parse_quantifier_brace.
           change (C 48 :: C 44 :: map C (dec m) ++ C 125 :: qsuffix ng ++ rest)
             with (map C (dec 0) ++ C 44 :: map C (dec m) ++ C 125 :: qsuffix ng ++ rest).
           rewrite (parse_braces_between 0 m ng rest); auto. apply N.le_0_l.
      * rewrite !map_app, <- !app_assoc. cbn [map app].
        rewrite parse_quantifier_brace.
        rewrite (parse_braces_between mn m ng rest); auto. apply N.leb_le. exact Hwf.
  - destruct (mn =? 0) eqn:E0.
    + apply N.eqb_eq in E0. subst mn. cbn [map app]. apply Hsimple; [reflexivity | intros b; reflexivity | | ].
      * intros r. reflexivity.
      * intros r Hr. unfold parse_quantifier. cbn [try_lit] in Hr |- *.
        change (42 =? 42) with true. change (42 =? 43) with false. change (42 =? 63) with false.
        cbv iota. rewrite Hr. reflexivity.
    + destruct (mn =? 1) eqn:E1.
      * apply N.eqb_eq in E1. subst mn. cbn [map app]. apply Hsimple; [reflexivity | intros b; reflexivity | | ].
        -- intros r. unfold parse_quantifier. cbn [try_lit].
           change (43 =? 42) with false. change (43 =? 43) with true. change (63 =? 63) with true.
           cbv iota. reflexivity.
        -- intros r Hr. unfold parse_quantifier. cbn [try_lit] in Hr |- *.
           change (43 =? 42) with false. change (43 =? 43) with true. change (43 =? 63) with false.
           cbv iota. rewrite Hr. reflexivity.
      * rewrite !map_app, <- !app_assoc. cbn [map app].
        rewrite parse_quantifier_brace.
        rewrite (parse_braces_atleast mn ng rest); auto.
Qed.
