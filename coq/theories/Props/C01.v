(** C01 — Meta-model front end never crashes (partial).

    The front end is not modelled wholesale. This file states totality ([<> Crash])
    theorems for the crash-bearing cores that are modelled, over definitions that are
    re-translated from the sources on every run ([Gen/GenLoadModel.v]):

      - positional / keyword argument unpacking of [constant_set] and
        [constant_<primitive>] ([Model/ArgUnpack.v]),
      - the string-constant type annotation ([Identifier(node.value)]),
      - the control-flow skeletons of [run.load_model] ((result, error) exclusive-or)
        and [main.execute] ([Model/LoadSkel.v]).

    The regular-expression parser ([parse_total], C16) is linked at the end when that
    development is installed. Everything else of the front end is only searched (system
    level streams of harness/props/c01.py). Only statements, [exact]s, [vm_compute]s and
    [Print Assumptions] here. *)
From Coq Require Import List NArith Arith Bool.
From Acg Require Import Base.Outcome Base.Str Model.ArgUnpack Model.LoadSkel
  Proofs.ArgUnpackFacts Proofs.LoadSkelFacts Gen.GenLoadModel.
Import ListNotations.
Open Scope nat_scope.

(** ** Argument unpacking *)

(** Generated side conditions: in the current source every guarded access
    [if len(args) > K: ... args[I]] has [I <= K]. *)
Theorem C01_gen_constant_set_spec_ok : spec_ok constant_set_spec = true.
Proof. vm_compute. reflexivity. Qed.
Print Assumptions C01_gen_constant_set_spec_ok.

Theorem C01_gen_constant_primitive_spec_ok : spec_ok constant_primitive_spec = true.
Proof. vm_compute. reflexivity. Qed.
Print Assumptions C01_gen_constant_primitive_spec_ok.

(** All argument lists (any number of positional arguments, any node type), all
    keyword lists (any names, [**mapping] included, repetitions included). *)
Theorem C01_unpack_total :
  forall (A : Type) (sp : unpack_spec) (args : list A) (kws : list (option text * A)),
    spec_ok sp = true -> forall k, unpack sp args kws <> Crash k.
Proof. exact unpack_total. Qed.
Print Assumptions C01_unpack_total.

Theorem C01_constant_set_unpack_total :
  forall (A : Type) (args : list A) (kws : list (option text * A)) k,
    unpack constant_set_spec args kws <> Crash k.
Proof.
  intros A args kws. exact (unpack_total A constant_set_spec args kws C01_gen_constant_set_spec_ok).
Qed.
Print Assumptions C01_constant_set_unpack_total.

Theorem C01_constant_primitive_unpack_total :
  forall (A : Type) (args : list A) (kws : list (option text * A)) k,
    unpack constant_primitive_spec args kws <> Crash k.
Proof.
  intros A args kws.
  exact (unpack_total A constant_primitive_spec args kws C01_gen_constant_primitive_spec_ok).
Qed.
Print Assumptions C01_constant_primitive_unpack_total.

(** The side condition is tight: a guard with [I > K] crashes on [K+1] arguments. *)
Theorem C01_bad_guard_crashes :
  forall (A : Type) g r (args : list A) slots,
    guard_ok g = false -> length args = S (g_gt g) ->
    run_guards (g :: r) args slots = Crash IndexError.
Proof. exact bad_first_guard_crashes. Qed.
Print Assumptions C01_bad_guard_crashes.

(** Non-vacuity: three positional arguments to [constant_set] are unpacked into the
    three slots; a fourth one is reported; a keyword overrides; [value=] omitted in
    [constant_int()] is reported. *)
Example C01_unpack_set_three_positional :
  unpack constant_set_spec [10; 11; 12] [] = Ok [Some 10; Some 11; Some 12].
Proof. vm_compute. reflexivity. Qed.
Print Assumptions C01_unpack_set_three_positional.

Example C01_unpack_set_four_positional :
  unpack constant_set_spec [10; 11; 12; 13] [] = Err TooManyArguments.
Proof. vm_compute. reflexivity. Qed.
Print Assumptions C01_unpack_set_four_positional.

Example C01_unpack_set_keyword :
  unpack constant_set_spec [10]
    [(Some [115;117;112;101;114;115;101;116;95;111;102]%N, 20); (None, 21)]
  = Err UnexpectedKeyword
  /\ unpack constant_set_spec [10] [(Some [115;117;112;101;114;115;101;116;95;111;102]%N, 20)]
     = Ok [Some 10; None; Some 20].
Proof. vm_compute. split; reflexivity. Qed.
Print Assumptions C01_unpack_set_keyword.

Example C01_unpack_primitive_value_omitted :
  unpack constant_primitive_spec (@nil nat) [] = Err MissingRequired
  /\ unpack constant_primitive_spec [1; 2; 3] [] = Ok [Some 1; Some 2].
Proof. vm_compute. split; reflexivity. Qed.
Print Assumptions C01_unpack_primitive_value_omitted.

(** ** String constant used as a type annotation *)

Theorem C01_gen_annotation_checks_ok : checks_ok annotation_constant_checks = true.
Proof. vm_compute. reflexivity. Qed.
Print Assumptions C01_gen_annotation_checks_ok.

Theorem C01_annotation_of_constant_total :
  forall v k, annotation_of_constant annotation_constant_checks v <> Crash k.
Proof.
  intros v. exact (annotation_of_constant_total annotation_constant_checks v
                     C01_gen_annotation_checks_ok).
Qed.
Print Assumptions C01_annotation_of_constant_total.

(** Without the identifier check the construction violates the pre-condition of
    [Identifier] on a string such as ["a b"] (the behaviour before the fix). *)
Theorem C01_annotation_without_check_crashes :
  forall cs, has_check CheckIsIdentifier cs = false ->
    annotation_of_constant cs (mkConst true false) = Crash Violation.
Proof. exact annotation_without_check_refuted. Qed.
Print Assumptions C01_annotation_without_check_crashes.

Example C01_annotation_nonvacuous :
  annotation_of_constant annotation_constant_checks (mkConst true true) = Ok tt
  /\ annotation_of_constant annotation_constant_checks (mkConst true false) = Err tt
  /\ annotation_of_constant annotation_constant_checks (mkConst false false) = Err tt.
Proof. vm_compute. repeat split; reflexivity. Qed.
Print Assumptions C01_annotation_nonvacuous.

(** ** [run.load_model]: exactly one of (result, error) is set — every oracle
    (which callee reports an error, cache flag, cache hit, kind of parse exception). *)

Theorem C01_gen_load_model_paths_ok : check good_xor load_model_skel [] = true.
Proof. vm_compute. reflexivity. Qed.
Print Assumptions C01_gen_load_model_paths_ok.

Theorem C01_load_model_xor :
  forall o, exists a b, run load_model_skel [] o = RPair a b /\ xorb a b = true.
Proof. exact (check_xor_sound load_model_skel [] C01_gen_load_model_paths_ok). Qed.
Print Assumptions C01_load_model_xor.

(** General form: the path exploration is sound for every skeleton and every
    contract. *)
Theorem C01_check_sound : forall good s st,
  check good s st = true -> forall o, good (run s st o) = true.
Proof. exact check_sound. Qed.
Print Assumptions C01_check_sound.

(** [main.execute]: on every path an exit code is returned; no variable is read
    while it is None, no [assert ... is not None] can fire. *)
Theorem C01_gen_execute_paths_ok : check good_int execute_skel [] = true.
Proof. vm_compute. reflexivity. Qed.
Print Assumptions C01_gen_execute_paths_ok.

Theorem C01_execute_returns_exit_code : forall o, run execute_skel [] o = RInt.
Proof.
  intros o. pose proof (check_sound good_int execute_skel [] C01_gen_execute_paths_ok o) as G.
  destruct (run execute_skel [] o); try discriminate G. reflexivity.
Qed.
Print Assumptions C01_execute_returns_exit_code.

(** Non-vacuity: both outcomes of [load_model] are reachable (searched over all
    oracles of length 10, so that the statement survives harmless refactorings), and
    the skeletons are not trivial trees. *)
Fixpoint all_oracles (n : nat) : list (list bool) :=
  match n with
  | O => [[]]
  | S m => map (cons true) (all_oracles m) ++ map (cons false) (all_oracles m)
  end.
Definition is_pair (a b : bool) (r : result) : bool :=
  match r with RPair x y => Bool.eqb x a && Bool.eqb y b | _ => false end.

Example C01_load_model_both_outcomes :
  existsb (fun o => is_pair true false (run load_model_skel [] o)) (all_oracles 10) = true
  /\ existsb (fun o => is_pair false true (run load_model_skel [] o)) (all_oracles 10) = true
  /\ Nat.leb 8 (leaves load_model_skel) = true /\ Nat.leb 12 (leaves execute_skel) = true.
Proof. vm_compute. repeat split; reflexivity. Qed.
Print Assumptions C01_load_model_both_outcomes.

(** A skeleton that reads the value on the error path is rejected by [check]
    (the checker can fail). *)
Example C01_check_rejects_use_before_check :
  check good_xor (PairCall true 0 1 (Use 0 (Ret2 (RVar 0) (RVar 1)))) [] = false
  /\ run (PairCall true 0 1 (Use 0 (Ret2 (RVar 0) (RVar 1)))) [] [false] = RCrash TypeError.
Proof. vm_compute. split; reflexivity. Qed.
Print Assumptions C01_check_rejects_use_before_check.

(** ** Linked from C16: the regular-expression parser never raises.

    [_verify_patterns_anchored_at_start_and_end] and [pattern_verification] reach
    [parse/retree/_parse.py:parse] with arbitrary user strings. The model
    ([Model/RetreeParse.v]) and the proof ([Proofs/RetreeTotal.v]) belong to C16 (where
    the model is also tied to the code); re-stated here over the escape tables
    regenerated from the source on this run. *)
From Acg Require Import Model.Retree Model.RetreeParse Proofs.RetreeTotal Gen.GenRetreeTables.

Definition retree_tables : tables :=
  mkTables gen_lit_simple gen_lit_unsupported gen_lit_assert gen_lit_stop
           gen_rng_simple gen_rng_unsupported gen_esc_lit gen_esc_rng.

Theorem C01_gen_retree_tables_ok : tables_total_ok retree_tables = true.
Proof. vm_compute. reflexivity. Qed.
Print Assumptions C01_gen_retree_tables_ok.

Theorem C01_parse_total : forall s : text, is_crash (parse_string retree_tables s) = false.
Proof. exact (parse_string_total retree_tables C01_gen_retree_tables_ok). Qed.
Print Assumptions C01_parse_total.
