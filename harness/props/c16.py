"""C16 — Regex front end is total and faithful (parse.retree: parse / render)."""
from __future__ import annotations

import json
import re
from typing import Any, Callable, Dict, List, Optional, Sequence

from harness import lib
from harness.gen import retree as gen

META = {
    "title": "Regex front end is total and faithful",
    "design_ref": "§4 C16",
    "level_text": (
        "Coq theorems over a Gallina model of retree.parse / retree.render (parse never "
        "crashes for any list of values; every parsed tree is well-formed; parsing the "
        "rendering of a well-formed tree gives the tree back), stated over the escape tables "
        "and escape chains re-translated from the source on every run; the model is tied to "
        "the code by correspondence streams evaluated inside Coq (outcome class, tree, "
        "rendering, matching of sampled words against Python's re), and the property is run "
        "directly on the implementation to obtain replays."
    ),
    "level_note": (
        "Trusted: the hand-written model agrees with the code beyond the sampled inputs; "
        "Python's re (semantics of the rendered pattern) is compared with the executable "
        "matching semantics on sampled words only."
    ),
    "technique": "Coq proof (fuel induction, per-site unreachability, round-trip lemmas) + "
                 "in-Coq correspondence check + property oracle on the implementation",
}
GEN = ["GenRetreeTables"]
MODEL = ["Model/Retree", "Model/RetreeParse", "Model/RetreeRender", "Model/RegexSem",
         "Gen/GenRetreeTables"]
TRUSTED = [
    "Model/RetreeParse.v, Model/RetreeRender.v are hand-written models of parse/retree/_parse.py "
    "and _render.py (correspondence-checked on every run)",
    "Model/RegexSem.v (executable matching semantics) agrees with Python's re on the sampled words",
    "harness/translate/retree.py (escape tables, escape chains) via Python's ast",
]
RULE = ("case = list of values (strings / formatted values); streams: corpus, set-boundary (every "
        "special character of a set as member / range start / range end, escaped / encoded / raw, first / "
        "middle / last, plain and complemented), quantifier-boundary ({m} and {m,n} with m, n in "
        "empty/0/1/2/3/10, blanks in every placement, with and without ?, after a char, a group, a set), "
        "grammar-generated "
        "patterns of the supported subset, near-miss mutations and short metacharacter strings, "
        "f-string interleavings, value lists violating the Cursor precondition; non-trivial = "
        "the pattern parses to a tree with at least one quantifier, character set or group, or "
        "is rejected/raises; distinct by the values")

HEADER = """From Coq Require Import List NArith Bool.
From Acg Require Import Base.Str Base.Outcome Model.Retree Model.RetreeParse
  Model.RetreeRender Model.RegexSem Gen.GenRetreeTables.
Import ListNotations.
Open Scope N_scope.
Definition T : tables := mkTables gen_lit_simple gen_lit_unsupported gen_lit_assert gen_lit_stop
  gen_rng_simple gen_rng_unsupported gen_esc_lit gen_esc_rng.
(* a formatted value is handed to Python's re as (?:q|rs) *)
Definition fv_ends (f : fv) (w : text) (i : nat) : list nat :=
  (match nth_error w i with Some a => if a =? 113 then [S i] else [] | None => [] end)
  ++ (match nth_error w i, nth_error w (S i) with
      | Some a, Some b => if (a =? 114) && (b =? 115) then [S (S i)] else []
      | _, _ => []
      end).
Definition case_t : Type :=
  (list pvalue * nat * option regex * option (list pvalue) * list (text * bool))%type.
Definition case_ok (c : case_t) : bool :=
  let '(vs, cls, itree, irend, ws) := c in
  let o := parse_values T vs in
  Nat.eqb (outcome_class o) cls &&
  match o with
  | Ok t =>
      option_eqb union_eqb (Some t) itree
      && option_eqb (list_eqb pvalue_eqb) (Some (render_values T t)) irend
      && forallb (fun wb => Bool.eqb (matches fv_ends true t (fst wb)) (snd wb)) ws
  | _ => true
  end.
Fixpoint bad_from (i : nat) (cs : list case_t) : list nat :=
  match cs with
  | [] => []
  | c :: r => if case_ok c then bad_from (S i) r else i :: bad_from (S i) r
  end.
Definition bad := bad_from 0.
"""


# ---------------------------------------------------------------------------------
# encoding
# ---------------------------------------------------------------------------------
def enc(values: Sequence[gen.Value]) -> list:
    return [v if isinstance(v, int) else [ord(c) for c in v] for v in values]


def dec(encv) -> List[gen.Value]:
    return [v if isinstance(v, int) else "".join(map(chr, v)) for v in encv]


def coq_cps(cps) -> str:
    return "[" + ";".join(str(x) for x in cps) + "]"


def coq_values(encv) -> str:
    return "[" + "; ".join(f"inr {v}" if isinstance(v, int) else f"inl {coq_cps(v)}" for v in encv) + "]"


def coq_char(c) -> str:
    return f"(mkChar {c[0]} {lib.coq_bool(c[1])})"


def coq_union(u) -> str:
    return "[" + "; ".join("[" + "; ".join(coq_term(t) for t in c) + "]" for c in u) + "]"


def coq_term(t) -> str:
    if "g" in t:
        v = f"VGroup {coq_union(t['g'])}"
    elif "c" in t:
        v = f"VChar {coq_char(t['c'])}"
    elif "s" in t:
        rs = "; ".join(
            f"mkRange {coq_char(a)} {'None' if b is None else '(Some ' + coq_char(b) + ')'}"
            for a, b in t["s"][1])
        v = f"VCharSet {lib.coq_bool(t['s'][0])} [{rs}]"
    elif "f" in t:
        v = f"VFormatted {t['f']}"
    else:
        v = "VSymbol " + {"START": "SymStart", "END": "SymEnd", "DOT": "SymDot"}[t["y"]]
    q = t["q"]
    if q is None:
        qs = "None"
    else:
        mx = "None" if q[2] is None else f"(Some {q[2]})"
        qs = f"(Some (mkQuant {lib.coq_bool(q[0])} {q[1]} {mx}))"
    return f"({v}, {qs})"


def coq_case(encv, res) -> str:
    if res["o"] == "exc":
        return f"({coq_values(encv)}, 2%nat, None, None, [])"
    if res["o"] == "err":
        return f"({coq_values(encv)}, 1%nat, None, None, [])"
    tree = f"(Some {coq_union(res['tree'])})"
    rend = "None" if res.get("rendered") is None else f"(Some {coq_values(res['rendered'])})"
    ws = []
    if res.get("m_rend") is not None:
        for w, b in zip(res["words"], res["m_rend"]):
            ws.append(f"({coq_cps(w)}, {lib.coq_bool(b)})")
    return f"({coq_values(encv)}, 0%nat, {tree}, {rend}, [{'; '.join(ws)}])"


# ---------------------------------------------------------------------------------
# running the implementation
# ---------------------------------------------------------------------------------
def run_impl(ctx, cases: Sequence[dict]) -> List[dict]:
    """Batches of 600 cases; a batch in which Python's re runs away (catastrophic backtracking
    on a sampled word) is repeated without word matching."""
    import subprocess
    out: List[dict] = []
    B = 600
    for k in range(0, len(cases), B):
        chunk = list(cases[k:k + B])
        try:
            out += lib.impl_call("retree.py", {"seed": ctx.seed, "cases": chunk}, timeout=400)
        except subprocess.TimeoutExpired:
            ctx.coverage.setdefault("matching_timeouts", 0)
            ctx.coverage["matching_timeouts"] += 1
            chunk = [dict(c, words=0) for c in chunk]
            out += lib.impl_call("retree.py", {"seed": ctx.seed, "cases": chunk}, timeout=900)
    return out


_BIG_NUMBER = re.compile(r"\d{3,}|[2-9]\d")


def case_of(values: Sequence[gen.Value], words: int) -> dict:
    text = "".join(v for v in values if isinstance(v, str))
    odd_digit = any(ch.isdigit() and ch not in "0123456789" for ch in text)
    if _BIG_NUMBER.search(text) or len(text) > 120 or (odd_digit and len(text) > 12):
        # keep matching cheap (re backtracking, the executable semantics): no huge repetition
        # counts; a non-ASCII digit could become one if the parser accepted it
        words = 0
    return {"values": enc(values), "words": words}


# ---------------------------------------------------------------------------------
# the property, executed on the implementation's answers
# ---------------------------------------------------------------------------------
_BRACES = re.compile(r"\{[ \t]*(\d*)[ \t]*(,?)[ \t]*(\d*)[ \t]*\}")


def deblank(pattern: str) -> str:
    """The parser's reading of {m,n} with blanks, written the way Python's re reads it
    (escapes and character sets are skipped)."""
    out = []
    i = 0
    in_set = False
    while i < len(pattern):
        c = pattern[i]
        if c == "\\" and i + 1 < len(pattern):
            out.append(pattern[i:i + 2])
            i += 2
            continue
        if in_set:
            if c == "]":
                in_set = False
        elif c == "[":
            in_set = True
            if pattern[i + 1:i + 2] == "^":
                out.append("[")
                i += 1
                c = "^"
        elif c == "{":
            m = _BRACES.match(pattern, i)
            if m:
                a, comma, b = m.group(1), m.group(2), m.group(3)
                out.append("{" + (a + "," + b if comma else (a or b)) + "}")
                i = m.end()
                continue
        out.append(c)
        i += 1
    return "".join(out)


def feature(values) -> str:
    text = gen.as_text(values)
    if "[" in text:
        return "set"
    if "{" in text or "}" in text:
        return "brace"
    if "(" in text:
        return "group"
    return "literal"


def python_pattern(values) -> str:
    return "".join("(?:q|rs)" if isinstance(v, int) else v for v in values)


def failures_of(values, res) -> List[Dict[str, Any]]:
    """[(kind, detail)] — the ways in which the property fails on this answer."""
    out = []
    if res["o"] == "exc":
        out.append({"kind": f"raises-{res['exc']}-{res.get('site', '')}",
                    "what": f"retree.parse raised {res['exc']} (in {res.get('site', '?')})"})
        return out
    if res["o"] == "err":
        if not res["positioned"]:
            out.append({"kind": "error-not-positioned", "what": "Error without a valid cursor"})
        return out
    if res.get("render_exc"):
        out.append({"kind": f"render-raises-{res['render_exc']}",
                    "what": f"retree.render raised {res['render_exc']}"})
        return out
    if res["re_rend"] != "ok":
        if "Overflow" in res["re_rend"] or "too large" in res["re_rend"] or "RecursionError" in res["re_rend"]:
            out.append({"kind": "engine-limits",
                        "what": f"rendering exceeds a limit of Python's re: {res['re_rend']}"})
        else:
            reason = re.sub(r" at position.*", "", res["re_rend"])
            reason = re.sub(r"[^A-Za-z]+", "-", reason).strip("-")[:50]
            out.append({"kind": f"rendering-invalid-{reason}",
                        "what": f"the rendering is not a valid Python regex: {res['re_rend']}"})
    if res["reparse"] != "same":
        out.append({"kind": f"reparse-{res['reparse'].replace(':', '-')}-{feature(values)}",
                    "what": f"re-parsing the rendering: {res['reparse']}"})
    if res["re_rend"] == "ok" and res["re_orig"] != "ok":
        out.append({"kind": "accepts-non-python-regex-" + feature(values),
                    "what": f"accepted, but Python's re rejects the original: {res['re_orig']}"})
    if res.get("m_rend") is not None and res.get("m_orig") is not None and res["m_rend"] != res["m_orig"]:
        bad = [i for i, (a, b) in enumerate(zip(res["m_rend"], res["m_orig"])) if a != b]
        word = "".join(map(chr, res["words"][bad[0]]))
        kind = f"language-differs-{feature(values)}"
        # blanks inside {m,n}: the parser reads a quantifier, Python's re reads literal text
        orig = python_pattern(values)
        if deblank(orig) != orig:
            try:
                c = re.compile(deblank(orig))
                if [c.fullmatch("".join(map(chr, w))) is not None for w in res["words"]] == res["m_rend"]:
                    kind = "quantifier-blanks"
            except re.error:
                pass
        out.append({"kind": kind,
                    "what": f"original and rendering disagree under re.fullmatch on {word!r} "
                            f"(rendering matches: {res['m_rend'][bad[0]]})"})
    return out


def shrink(ctx, values: List[gen.Value], kind: str, rounds: int = 30) -> List[gen.Value]:
    """Greedy deletion of characters / values keeping a failure of the same kind."""
    cur = list(values)
    for _ in range(rounds):
        cands = []
        for i, v in enumerate(cur):
            if isinstance(v, int):
                cands.append(gen.compact(cur[:i] + cur[i + 1:]))
            else:
                for p in range(len(v)):
                    cands.append(gen.compact(cur[:i] + [v[:p] + v[p + 1:]] + cur[i + 1:]))
        cands = [c for c in cands if c != cur][:400]
        if not cands:
            break
        results = run_impl(ctx, [case_of(c, 4) for c in cands])
        nxt = None
        for c, r in zip(cands, results):
            if any(f["kind"] == kind for f in failures_of(c, r)):
                nxt = c
                break
        if nxt is None:
            break
        cur = nxt
    return cur


def how_to_run(values) -> str:
    vals = ", ".join("FV" if isinstance(v, int) else repr(v) for v in values)
    return (f"PYTHONPATH={lib.REPO} {lib.PY} -c \"from aas_core_codegen.parse import retree; "
            f"r, e = retree.parse([{vals}]); print(e.message if e else retree.render(r))\""
            "   # FV = a parse.tree.FormattedValue")


# ---------------------------------------------------------------------------------
# corpus: minimised past disagreements and witnesses, always run first
# ---------------------------------------------------------------------------------
def corpus() -> List[List[gen.Value]]:
    pats = [
        "^*", "$+", "^{2}", "{", "a*{", "a{1}{2}", "({", "|{", "a{3,2}", "a{2,1}?", "[--a]", "[a-b-c]",
        "[a-", "[a-\\", "[^\U0001F600]", "[^\\U0001F600-\\U0001F601]", "[^\\U00010000]", "[\U0001F600]",
        "[]", "[^]", "[]a]", "a}", "}", "\\{", "\\}", "a{²}", "a{٣}", "a{ 3 }", "a{3 4}", "a{ 1 , 2 }",
        "[--]", "[-\\-]", "[-\\x2d]", "[\\^-z]", "[\\^]", "[^^]", "[a^]", "[\\^-\\^]", "", "|", "||", "()",
        "(", ")", "(|", "(|)", "a{,}", "a{,3}", "a{3,}", "a{0}", "a{0,1}", "a{1,1}", "a{0,}", "a{1,}",
        "a{007}", "\n(", "[a-]", "[-a]", "[-]", "[a-b-]", "[[]", "[\\]]", "a{3}+", "a*?", "a+?", "a??",
        "a**", "(?:a)", "\\d", "[\\w]", "\\x4", "\\x41", "\\u0041", "\\U00000041", "\\U0001F600",
        "\\U00110000", "\\ud800", "[\\ud800-\\udfff]", "a|", "|a", "a||b", "(a|)", "^a$", "a^b$c", ".*",
        "a$\n", "[b-a]", "[a-a]", "[a-bb-c]", "[ab-ca]", "[\\x2d-a]", "[+--]", "[ -\\-]", "\\", "[\\",
        "a\\", "\\-", "[\\.]", "#", "\\#", "x{1,2}{3}", "(a)(b)", "((a))", "(((", "a{1", "a{1,", "a{,",
        "[a", "[^", "[", "]", "a]", "-", "a-b", ",", "{}", "a{}", "a{x}", "a{1,x}", "a{-1}", "a{4294967294}",
        "\t", "a\tb", " ", "\xff", "\\xff", "\\xfe", "\\u00ff", "\\u0100", "\\xFF", "[\\xff-\\u0100]",
    ]
    out: List[List[gen.Value]] = [[p] if p else [""] for p in pats]
    # every printable ASCII character: raw, escaped, in a set, escaped in a set
    for o in range(32, 127):
        c = chr(o)
        out += [["x" + c], ["\\" + c], ["[" + c + "]"], ["[\\" + c + "]"], ["[x" + c + "y]"]]
    # f-strings
    out += [[0], [0, "*"], ["(", 0, ")"], ["[", 0, "]"], ["[a-", 0, "]"], ["a{", 0, "}"], [0, 1],
            ["a", 0, "b"], [0, "{2}"], ["^", 0, "$"], ["\\", 0], ["[\\", 0, "]"], [0, "|", 1],
            ["(", 0], [0, ")"], ["a{1", 0], ["\\x4", 0], ["-", 0], ["[-", 0]]
    out += [[0, ""], []]
    return out


def raw_corpus() -> List[List[gen.Value]]:
    """Value lists that violate the Cursor precondition / invariant."""
    return [["a", "b"], ["", 0], [0, "", 1], ["", ""], ["a", ""], ["", "a"], [0, "", ""]]


def limit_probes() -> List[List[gen.Value]]:
    """Interpreter limits (recursion depth, int digits, re's repetition bound)."""
    return [["(" * 200 + "a" + ")" * 200], ["a{" + "1" * 5000 + "}"], ["a{4294967296}"]]


# ---------------------------------------------------------------------------------
def streams(ctx: lib.Ctx) -> None:
    rng = ctx.rng
    cases: List[List[gen.Value]] = []
    stream_of: List[str] = []

    def add(stream: str, vals: List[gen.Value]) -> None:
        cases.append(vals)
        stream_of.append(stream)

    for v in corpus():
        add("corpus", v)
    for v in raw_corpus():
        add("raw-values", v)
    boundary = gen.set_boundary_cases()
    if not ctx.thorough:
        # quick: everything about - ^ ] [ and the backslash, a third of the white-space cases
        keep = [v for v in boundary if not any(w in v[0] for w in
                ("\\t", "\\n", "\\r", "\\f", "\\v", "\\x09", "\\x0a", "\\x0d", "\\x0c", "\\x0b",
                 "\t", "\n", "\r", "\f", "\v"))]
        rest = [v for v in boundary if v not in keep]
        boundary = keep + rng.sample(rest, len(rest) // 3)
    for v in boundary:
        add("set-boundary", v)
    for v in gen.quantifier_boundary_cases(full=ctx.thorough):
        add("quantifier-boundary", v)
    saved = ctx.work.parent.parent / "harness" / "corpus" / "c16.json"
    if saved.exists():
        for v in json.loads(saved.read_text()):
            add("corpus", dec(v))
    n_gram = ctx.n(500, 6000)
    grams = [gen.gen_pattern(rng, fvs=False) for _ in range(n_gram)]
    for g in grams:
        add("grammar", g)
    for _ in range(ctx.n(400, 5000)):
        add("near-miss", gen.mutate(rng, rng.choice(grams)))
    for _ in range(ctx.n(300, 4000)):
        add("near-miss", gen.near_miss(rng))
    ex = list(gen.exhaustive(ctx.n(3, 4)))
    if not ctx.thorough:
        ex = rng.sample(ex, 300)
    for v in ex:
        add("short-exhaustive", v)
    for _ in range(ctx.n(250, 2000)):
        add("f-string", gen.gen_pattern(rng, fvs=True))
    for _ in range(ctx.n(150, 1000)):
        add("f-string", gen.interleave(rng, rng.choice(grams)))
    for _ in range(ctx.n(40, 200)):
        add("raw-values", gen.raw_values(rng, gen.interleave(rng, rng.choice(grams))))

    payload = [case_of(v, 5 if s in ("grammar", "f-string", "corpus") else 3)
               for v, s in zip(cases, stream_of)]
    results = run_impl(ctx, payload)

    # --- correspondence, inside Coq ---------------------------------------------------
    coq_cases = [coq_case(p["values"], r) for p, r in zip(payload, results)]
    bad, _log = lib.run_cases(ctx.work, "cases", HEADER, "case_t", "bad", coq_cases, shard=300)
    for i in bad[:12]:
        model = lib.coq_eval(
            ctx.work, "show", HEADER,
            f"let o := parse_values T {coq_values(payload[i]['values'])} in "
            f"(outcome_class o, match o with Ok t => Some (t, render_values T t) | _ => None end)")
        ctx.corr_break(stream_of[i], {"values": gen.as_text(cases[i]), "encoded": payload[i]["values"]},
                       model[-1500:], results[i])

    # --- the property itself on the implementation ---------------------------------
    by_kind: Dict[str, List[int]] = {}
    for i, (v, r) in enumerate(zip(cases, results)):
        if stream_of[i] == "raw-values":
            continue       # outside the quantification: parse._rules never builds such lists
        for f in failures_of(v, r):
            by_kind.setdefault(f["kind"], []).append(i)

    # neighbourhood search around correspondence breaks
    if bad:
        extra = []
        for i in bad[:5]:
            extra += [gen.mutate(rng, cases[i]) for _ in range(150)]
        extra_res = run_impl(ctx, [case_of(v, 5) for v in extra])
        base = len(cases)
        for j, (v, r) in enumerate(zip(extra, extra_res)):
            fs = failures_of(v, r)
            if fs:
                cases.append(v)
                results.append(r)
                stream_of.append("search")
                for f in fs:
                    by_kind.setdefault(f["kind"], []).append(base + len(cases) - base - 1)

    # interpreter limits: probed separately, one stable key
    probes = limit_probes()
    probe_res = run_impl(ctx, [case_of(v, 0) for v in probes])
    for v, r in zip(probes, probe_res):
        fs = failures_of(v, r)
        if fs:
            ctx.impl_failure(
                "engine-limits",
                "interpreter limits: " + "; ".join(f["what"] for f in fs),
                {"values": [s[:40] + "..." + s[-10:] if isinstance(s, str) and len(s) > 60 else s
                            for s in v], "length": sum(len(s) for s in v if isinstance(s, str))},
                r if r["o"] != "ok" else {k: r.get(k) for k in ("o", "re_rend", "reparse", "render_exc")},
                "limits", "nesting depth 200 / 5000-digit bound / bound 2^32")

    def prio(kind: str) -> int:
        for n, pre in enumerate(("raises-", "render-raises", "error-not", "reparse-", "rendering-invalid",
                                 "accepts-", "language-differs", "quantifier-blanks")):
            if kind.startswith(pre):
                return n
        return 99

    # the driver writes at most five replays: most severe kinds first, limits last
    limit_failures = list(ctx.impl_failures)
    ctx.impl_failures = []
    for kind, idxs in sorted(by_kind.items(), key=lambda kv: (prio(kv[0]), kv[0])):
        i = min(idxs, key=lambda j: len(gen.as_text(cases[j])))
        if kind in ("engine-limits", "quantifier-blanks") or len(gen.as_text(cases[i])) <= 4:
            small = cases[i]
        else:
            small = shrink(ctx, cases[i], kind, rounds=20)
        r = run_impl(ctx, [case_of(small, 6)])[0]
        fs = [f for f in failures_of(small, r) if f["kind"] == kind]
        what = fs[0]["what"] if fs else kind
        ctx.impl_failure(kind, what, {"values": small, "text": gen.as_text(small),
                                      "occurrences_in_this_run": len(idxs)},
                         {k: v for k, v in r.items() if k not in ("tree",)}, stream_of[i],
                         how_to_run(small))

    ctx.impl_failures += limit_failures

    # --- accounting ------------------------------------------------------------------
    n_by_stream: Dict[str, int] = {}
    for s in stream_of:
        n_by_stream[s] = n_by_stream.get(s, 0) + 1
    classes = {"ok": 0, "err": 0, "exc": 0}
    nontrivial = []
    n_words = 0
    for v, r in zip(cases, results):
        classes[r["o"]] += 1
        if r["o"] == "ok":
            n_words += len(r.get("words") or [])
            dumped = json.dumps(r["tree"])
            if '"q": [' in dumped or '"s"' in dumped or '"g"' in dumped:
                nontrivial.append(gen.as_text(v))
        else:
            nontrivial.append(gen.as_text(v))
    ctx.count("retree", len(cases), nontrivial_keys=nontrivial, validated=len(cases),
              per_stream=n_by_stream, outcomes=classes, words_matched_against_re=n_words,
              short_exhaustive=("all" if ctx.thorough else "300 sampled") +
              f" strings of length <= {ctx.n(3, 4)} over {''.join(gen.EXHAUSTIVE_ALPHABET)!r}",
              correspondence_mismatches=len(bad))
    for idx in (0, 5, len(corpus()) + 3, len(corpus()) + 4, len(cases) - 100):
        if 0 <= idx < len(cases):
            ctx.sample({"values": gen.as_text(cases[idx]), "stream": stream_of[idx],
                        "outcome": results[idx]["o"]})
    if ctx.thorough:
        ctx.coverage["exhaustive"] = False
