(** Proofs about [Model/Report.v] (C03). *)
From Coq Require Import List NArith ZArith Bool Lia.
From Acg Require Import Base.Str Base.Outcome Model.Report.
Import ListNotations.
Open Scope N_scope.

Section Facts.
  Variable lb ws : list N.

  Lemma report_layout m errs out :
    write_error_report lb ws m errs = Ok out ->
    out = m ++ [COLON; NL] ++ concat (map (bullet lb ws) errs)
    /\ message_ok m = true
    /\ forall e, In e errs ->
         error_ok e = true
         /\ exists body, bullet lb ws e = [STAR; SP] ++ body ++ [NL].
  Proof.
    unfold write_error_report.
    destruct (forallb error_ok errs && message_ok m) eqn:H; [|discriminate].
    intros E. injection E as <-. apply andb_true_iff in H as [He Hm].
    split; [reflexivity|]. split; [exact Hm|].
    intros e Hin. split; [rewrite forallb_forall in He; now apply He|].
    eexists. reflexivity.
  Qed.

  Lemma report_headline_one_line m errs out :
    write_error_report lb ws m errs = Ok out -> ~ In NL m ->
    exists rest, out = m ++ COLON :: NL :: rest /\ ~ In NL (m ++ [COLON]).
  Proof.
    intros H Hn. apply report_layout in H as [-> _].
    eexists. split; [reflexivity|].
    intros Hin. apply in_app_or in Hin as [Hin|[Hin|[]]]; [now apply Hn|discriminate].
  Qed.

  Lemma report_violation m errs :
    write_error_report lb ws m errs = Crash Violation <->
    forallb error_ok errs && message_ok m = false.
  Proof.
    unfold write_error_report. destruct (forallb error_ok errs && message_ok m);
      split; intros H; try discriminate; reflexivity.
  Qed.
End Facts.
