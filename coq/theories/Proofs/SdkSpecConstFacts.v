(** Proofs about Model/SdkSpecConst.v (C30). *)
From Coq Require Import List NArith ZArith Bool Lia Relations.
From Acg Require Import Base.Str Base.Outcome Model.SdkSpecConst.
Import ListNotations.

Lemma text_eqb_refl : forall a, text_eqb a a = true.
Proof. induction a as [|x a IH]; cbn; [reflexivity|]. now rewrite N.eqb_refl, IH. Qed.

Lemma text_eqb_eq : forall a b, text_eqb a b = true <-> a = b.
Proof.
  induction a as [|x a IH]; intros [|y b]; cbn; split; intros H; try reflexivity; try discriminate.
  - apply andb_true_iff in H as [H1 H2]. apply N.eqb_eq in H1. apply IH in H2. now subst.
  - inversion H; subst. now rewrite N.eqb_refl, text_eqb_refl.
Qed.

Lemma text_eqb_sym : forall a b, text_eqb a b = text_eqb b a.
Proof.
  intros a b. destruct (text_eqb a b) eqn:E.
  - apply text_eqb_eq in E. subst. now rewrite text_eqb_refl.
  - destruct (text_eqb b a) eqn:E2; [|reflexivity].
    apply text_eqb_eq in E2. subst. now rewrite text_eqb_refl in E.
Qed.

(** Canonical form of a literal under Python equality. *)
Definition canon (l : lit) : lit :=
  match l with LBool b => LInt (z_of_bool b) | _ => l end.

Lemma lit_eqb_canon : forall a b, lit_eqb a b = true <-> canon a = canon b.
Proof.
  intros [x|x|x|x] [y|y|y|y]; cbn; split; intros H; try discriminate; try (inversion H; fail).
  all: try (apply text_eqb_eq in H; now subst).
  all: try (inversion H; subst; apply text_eqb_refl).
  all: try (apply Z.eqb_eq in H; now subst).
  all: try (inversion H; subst; apply Z.eqb_refl).
  - destruct x, y; cbn in *; try discriminate; reflexivity.
  - destruct x, y; cbn in *; try discriminate; reflexivity.
Qed.

Lemma lit_eqb_refl : forall a, lit_eqb a a = true.
Proof. intros a. now apply lit_eqb_canon. Qed.
Lemma lit_eqb_trans : forall a b c, lit_eqb a b = true -> lit_eqb b c = true -> lit_eqb a c = true.
Proof. intros a b c H1 H2. apply lit_eqb_canon in H1, H2. apply lit_eqb_canon. congruence. Qed.

Lemma mem_lit_spec : forall l s, mem_lit l s = true <-> exists x, In x s /\ lit_eqb l x = true.
Proof.
  intros l s. induction s as [|y s IH]; cbn.
  - split; [discriminate|]. intros [x [[] _]].
  - rewrite orb_true_iff, IH. split.
    + intros [H|[x [Hx He]]]; [exists y; auto | exists x; auto].
    + intros [x [[->|Hx] He]]; [now left | right; exists x; auto].
Qed.

Lemma mem_lit_in : forall l s, In l s -> mem_lit l s = true.
Proof. intros l s H. apply mem_lit_spec. exists l. split; [assumption|apply lit_eqb_refl]. Qed.

Lemma mem_lit_trans : forall l a b,
  mem_lit l a = true -> (forall x, In x a -> mem_lit x b = true) -> mem_lit l b = true.
Proof.
  intros l a b Hl Hsub. apply mem_lit_spec in Hl as [x [Hx He]].
  specialize (Hsub x Hx). apply mem_lit_spec in Hsub as [y [Hy He2]].
  apply mem_lit_spec. exists y. split; [assumption|]. eapply lit_eqb_trans; eassumption.
Qed.

Lemma find_const_some : forall table n c,
  find_const table n = Some c -> In c table /\ k_name c = n.
Proof.
  induction table as [|d table IH]; cbn; intros n c H; [discriminate|].
  destruct (text_eqb (k_name d) n) eqn:E.
  - inversion H; subst. apply text_eqb_eq in E. auto.
  - apply IH in H as [H1 H2]. auto.
Qed.

(** ** The resolution loop *)

Definition contained (t s : const) : Prop :=
  forall l, In l (k_lits t) -> mem_lit l (k_lits s) = true.

Lemma filter_nil_forall : forall {A} (f : A -> bool) l,
  filter f l = [] -> forall x, In x l -> f x = false.
Proof.
  intros A f l. induction l as [|y l IH]; cbn; intros H x Hx; [contradiction|].
  destruct (f y) eqn:E; [discriminate|]. destruct Hx as [->|Hx]; auto.
Qed.

Lemma resolve_loop_noerr : forall table s names subs,
  resolve_loop table s names = (subs, []) ->
  map k_name subs = names /\
  Forall2 (fun n t => find_const table n = Some t) names subs /\
  (forall t, In t subs -> k_kind t = k_kind s \/ ckind_eqb (k_kind s) (k_kind t) = true) /\
  (forall t, In t subs -> ckind_eqb (k_kind s) (k_kind t) = true /\ contained t s).
Proof.
  intros table s names. induction names as [|n r IH]; cbn; intros subs H.
  - inversion H; subst. split; [reflexivity|]. split; [constructor|].
    split; intros t [].
  - destruct (resolve_loop table s r) as [subs' errs'] eqn:ER.
    destruct (find_const table n) as [t|] eqn:EF; [|inversion H].
    destruct (negb (same_family (k_kind s) (k_kind t))) eqn:E1; [inversion H|].
    destruct (negb (ckind_eqb (k_kind s) (k_kind t))) eqn:E2; [inversion H|].
    inversion H as [[Hs He]]. apply app_eq_nil in He as [Hm He]. subst errs'.
    specialize (IH subs' eq_refl) as [IH1 [IH2 [IH3 IH4]]].
    apply negb_false_iff in E2.
    assert (Hc : contained t s).
    { intros l Hl. apply map_eq_nil in Hm.
      pose proof (filter_nil_forall _ _ Hm l Hl) as Hf. now apply negb_false_iff in Hf. }
    split; [|split; [|split]].
    + cbn. f_equal; [|assumption]. now apply find_const_some in EF.
    + constructor; assumption.
    + intros t' [<-|Ht']; [now right|auto].
    + intros t' [<-|Ht']; [split; assumption|now apply IH4].
Qed.

Lemma forallb_true_iff : forall {A} (f : A -> bool) l,
  forallb f l = true <-> forall x, In x l -> f x = true.
Proof. intros. apply forallb_forall. Qed.

Lemma list_eqb_text_refl : forall l, list_eqb text_eqb l l = true.
Proof. induction l as [|x l IH]; cbn; [reflexivity|]. now rewrite text_eqb_refl, IH. Qed.

(** The post-conditions of the two resolving functions can never fire: the function never
    raises. *)
Theorem resolve_one_no_crash : forall table s, is_crash (resolve_one table s) = false.
Proof.
  intros table s. unfold resolve_one.
  destruct (resolve_loop table s (k_subsets s)) as [subs errs] eqn:ER.
  destruct errs as [|e errs]; [|reflexivity].
  apply resolve_loop_noerr in ER as [H1 [_ [_ H4]]].
  assert (Hp : post_true_subsets s subs = true).
  { unfold post_true_subsets. apply forallb_forall. intros t Ht. apply forallb_forall.
    intros l Hl. now apply (proj2 (H4 t Ht)). }
  assert (Hq : post_all_resolved s subs = true).
  { unfold post_all_resolved. rewrite H1. apply list_eqb_text_refl. }
  now rewrite Hp, Hq.
Qed.

Lemma resolve_all_from_no_crash : forall table rest, is_crash (resolve_all_from table rest) = false.
Proof.
  intros table rest. induction rest as [|s r IH]; cbn; [reflexivity|].
  pose proof (resolve_one_no_crash table s) as H1.
  destruct (k_kind s); [assumption| |];
    destruct (resolve_one table s); destruct (resolve_all_from table r); cbn in *; congruence.
Qed.

Theorem resolve_all_no_crash : forall table, is_crash (resolve_all table) = false.
Proof. intros. apply resolve_all_from_no_crash. Qed.

Lemma resolve_all_from_ok : forall table rest out,
  resolve_all_from table rest = Ok out ->
  forall s, In s rest -> k_kind s <> KPrimitive -> exists subs, resolve_one table s = Ok subs.
Proof.
  intros table rest. induction rest as [|c r IH]; cbn; intros out H s Hs Hk; [contradiction|].
  destruct Hs as [<-|Hs].
  - destruct (k_kind c) eqn:EK; [congruence| |];
      destruct (resolve_one table c) as [subs|errs|k]; eauto;
      destruct (resolve_all_from table r); discriminate.
  - destruct (k_kind c) eqn:EK; [eapply IH; eauto| |];
      destruct (resolve_one table c) as [subs|errs|k];
      destruct (resolve_all_from table r) as [more|n|k'] eqn:ER; try discriminate;
      eapply IH; eauto.
Qed.

Lemma resolve_one_ok : forall table s subs,
  resolve_one table s = Ok subs ->
  Forall2 (fun n t => find_const table n = Some t) (k_subsets s) subs /\
  (forall t, In t subs -> ckind_eqb (k_kind s) (k_kind t) = true /\ contained t s).
Proof.
  intros table s subs H. unfold resolve_one in H.
  destruct (resolve_loop table s (k_subsets s)) as [subs' errs] eqn:ER.
  destruct errs; [|discriminate].
  destruct (post_true_subsets s subs' && post_all_resolved s subs'); [|discriminate].
  inversion H; subst. apply resolve_loop_noerr in ER as [_ [H2 [_ H4]]]. auto.
Qed.

Lemma Forall2_in_l : forall {A B} (R : A -> B -> Prop) la lb a,
  Forall2 R la lb -> In a la -> exists b, In b lb /\ R a b.
Proof.
  intros A B R la lb a H. induction H as [|x y la lb Hxy H IH]; intros Ha; [contradiction|].
  destruct Ha as [<-|Ha]; [exists y; cbn; auto|].
  destruct (IH Ha) as [b [Hb Hr]]. exists b. cbn; auto.
Qed.

(** A constant set S is declared a superset of T: T is what a name in [superset_of S]
    denotes in the table of constants. *)
Definition declared (table : list const) (s t : const) : Prop :=
  In s table /\ is_set (k_kind s) = true /\
  exists n, In n (k_subsets s) /\ find_const table n = Some t.

(** Accepted: every declared superset contains its subset's literals and has its kind. *)
Theorem subsets_checked_direct : forall table s t,
  accepted table = true -> declared table s t ->
  In t table /\ ckind_eqb (k_kind s) (k_kind t) = true /\ contained t s.
Proof.
  intros table s t Hacc [Hs [Hset [n [Hn Hf]]]].
  unfold accepted, resolve_all in Hacc.
  destruct (resolve_all_from table table) as [out|e|k] eqn:ER; try discriminate.
  assert (Hk : k_kind s <> KPrimitive) by (intros E; rewrite E in Hset; discriminate).
  destruct (resolve_all_from_ok _ _ _ ER s Hs Hk) as [subs Hr].
  apply resolve_one_ok in Hr as [H2 H4].
  destruct (Forall2_in_l _ _ _ n H2 Hn) as [t' [Ht' Hft']].
  rewrite Hf in Hft'. inversion Hft'; subst t'.
  split; [now apply find_const_some in Hf|]. now apply H4.
Qed.

Lemma ckind_eqb_eq : forall a b, ckind_eqb a b = true -> a = b.
Proof.
  intros [|x|x] [|y|y]; cbn; intros H; try discriminate; try reflexivity;
    apply text_eqb_eq in H; now subst.
Qed.

(** Transitively: whatever is reachable through [superset_of] declarations is contained. *)
Theorem subsets_checked : forall table s t,
  accepted table = true ->
  clos_refl_trans const (declared table) s t ->
  contained t s.
Proof.
  intros table s t Hacc H. apply clos_rt_rt1n in H.
  induction H as [s|s m t Hd Hrest IH].
  - intros l Hl. now apply mem_lit_in.
  - destruct (subsets_checked_direct _ _ _ Hacc Hd) as [_ [_ Hc]].
    intros l Hl. specialize (IH l Hl). eapply mem_lit_trans; [exact IH|exact Hc].
Qed.

(** The set the SDK must expose — listed literals plus the literals of all (transitively)
    declared subsets, to any depth — is the set of listed literals. *)
Theorem closure_is_listed : forall table, accepted table = true ->
  forall fuel s, In s table -> is_set (k_kind s) = true ->
  set_eq_lits (closure_lits fuel table s) (k_lits s) = true.
Proof.
  intros table Hacc fuel.
  assert (Hsub : forall fuel s, In s table -> is_set (k_kind s) = true ->
            forall l, In l (closure_lits fuel table s) -> mem_lit l (k_lits s) = true).
  { clear fuel. induction fuel as [|f IH]; intros s Hs Hset l Hl; cbn in Hl.
    - rewrite app_nil_r in Hl. now apply mem_lit_in.
    - apply in_app_or in Hl as [Hl|Hl]; [now apply mem_lit_in|].
      apply in_flat_map in Hl as [n [Hn Hl]].
      destruct (find_const table n) as [t|] eqn:EF; [|contradiction].
      assert (Hd : declared table s t) by (split; [assumption|split; [assumption|eauto]]).
      destruct (subsets_checked_direct _ _ _ Hacc Hd) as [Ht [Hk Hc]].
      assert (Hset' : is_set (k_kind t) = true).
      { apply ckind_eqb_eq in Hk. now rewrite <- Hk. }
      specialize (IH t Ht Hset' l Hl). eapply mem_lit_trans; [exact IH|exact Hc]. }
  intros s Hs Hset. unfold set_eq_lits, subset_lits. apply andb_true_iff. split.
  - apply forallb_forall. intros l Hl. eapply Hsub; eassumption.
  - apply forallb_forall. intros l Hl. apply mem_lit_in.
    destruct fuel; cbn; apply in_or_app; now left.
Qed.

(** ** Enumerations *)

Lemma from_str_rev_none : forall r s,
  ~ In s (map snd r) -> from_str_rev r s = None.
Proof.
  induction r as [|l r IH]; cbn; intros s H; [reflexivity|].
  destruct (text_eqb (snd l) s) eqn:E.
  - apply text_eqb_eq in E. exfalso. apply H. now left.
  - apply IH. intros Hin. apply H. now right.
Qed.

Lemma from_str_rev_some : forall r l,
  NoDup (map snd r) -> In l r -> from_str_rev r (snd l) = Some l.
Proof.
  induction r as [|x r IH]; cbn; intros l Hnd Hin; [contradiction|].
  inversion Hnd as [|? ? Hnot Hnd']; subst.
  destruct Hin as [->|Hin].
  - now rewrite text_eqb_refl.
  - destruct (text_eqb (snd x) (snd l)) eqn:E.
    + apply text_eqb_eq in E. exfalso. apply Hnot. rewrite E. now apply in_map.
    + now apply IH.
Qed.

Theorem enum_roundtrip : forall (lits : list eliteral),
  NoDup (map snd lits) ->
  (forall l, In l lits -> from_str lits (to_str l) = Some l) /\
  (forall s, ~ In s (map snd lits) -> from_str lits s = None).
Proof.
  intros lits Hnd. unfold from_str, to_str. split.
  - intros l Hl. apply from_str_rev_some.
    + rewrite map_rev. apply NoDup_rev. exact Hnd.
    + now apply -> in_rev.
  - intros s Hs. apply from_str_rev_none. rewrite map_rev. intros H. apply Hs. now apply in_rev.
Qed.

(** [from_str] never invents a literal: what it returns is a declared literal with that
    value (no hypothesis). *)
Theorem from_str_sound : forall lits s l, from_str lits s = Some l -> In l lits /\ to_str l = s.
Proof.
  intros lits s l. unfold from_str, to_str.
  assert (H : forall r, from_str_rev r s = Some l -> In l r /\ snd l = s).
  { induction r as [|x r IH]; cbn; [discriminate|].
    destruct (text_eqb (snd x) s) eqn:E; intros H.
    - inversion H; subst. apply text_eqb_eq in E. auto.
    - destruct (IH H); auto. }
  intros Hf. destruct (H _ Hf) as [H1 H2]. split; [now apply in_rev|assumption].
Qed.
