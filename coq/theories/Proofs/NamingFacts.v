(** Facts about [Model/Naming.v]: text equality, the outcome monad, and closure of
    every modelled naming function under the identifier regex. *)
From Coq Require Import List NArith Bool Lia.
From Coq Require Strings.String.
Import Coq.Strings.String.StringSyntax.
From Acg Require Import Base.Outcome Base.Str Model.Naming.
Import ListNotations.
Open Scope N_scope.

(** * Text equality and membership *)
Lemma text_eqb_refl : forall a, text_eqb a a = true.
Proof. induction a as [|x a IH]; cbn; [reflexivity|]. rewrite N.eqb_refl. exact IH. Qed.

Lemma text_eqb_eq : forall a b, text_eqb a b = true -> a = b.
Proof.
  induction a as [|x a IH]; destruct b as [|y b]; cbn; intros H; try discriminate; [reflexivity|].
  apply andb_true_iff in H. destruct H as [Hx Hr].
  apply N.eqb_eq in Hx. subst y. f_equal. apply IH. exact Hr.
Qed.

Lemma text_eqb_iff : forall a b, text_eqb a b = true <-> a = b.
Proof. intros a b. split; [apply text_eqb_eq|]. intros ->. apply text_eqb_refl. Qed.

Lemma mem_text_In : forall x l, mem_text x l = true <-> In x l.
Proof.
  intros x l. induction l as [|y l IH]; cbn.
  - split; [discriminate|contradiction].
  - rewrite orb_true_iff, IH, text_eqb_iff. split; intros [H|H]; auto.
Qed.

Lemma mem_text_false : forall x l, mem_text x l = false <-> ~ In x l.
Proof.
  intros x l. split.
  - intros H Hin. apply mem_text_In in Hin. congruence.
  - intros H. destruct (mem_text x l) eqn:E; [|reflexivity]. exfalso. apply H, mem_text_In, E.
Qed.

(** * The outcome monad *)
Lemma bind_ok : forall {A B E} (o : outcome A E) (f : A -> outcome B E) (b : B),
  bind o f = Ok b -> exists a, o = Ok a /\ f a = Ok b.
Proof. intros A B E [a|e|k] f b H; cbn in H; try discriminate. exists a. split; [reflexivity|exact H]. Qed.

Lemma mapM_ok_In : forall {A B} (f : A -> res B) (l : list A) (ys : list B),
  mapM f l = Ok ys -> forall x, In x l -> exists y, f x = Ok y /\ In y ys.
Proof.
  intros A B f. induction l as [|a l IH]; intros ys H x Hin; [contradiction|].
  cbn in H. apply bind_ok in H. destruct H as [y [Hy H]].
  apply bind_ok in H. destruct H as [ys' [Hys H]]. injection H as <-.
  destruct Hin as [->|Hin].
  - exists y. split; [exact Hy|left; reflexivity].
  - destruct (IH ys' Hys x Hin) as [y' [H1 H2]]. exists y'. split; [exact H1|right; exact H2].
Qed.

Lemma mapM_ok_Forall : forall {A B} (P : B -> Prop) (f : A -> res B),
  (forall a b, f a = Ok b -> P b) ->
  forall l ys, mapM f l = Ok ys -> Forall P ys.
Proof.
  intros A B P f Hf. induction l as [|a l IH]; intros ys H; cbn in H.
  - injection H as <-. constructor.
  - apply bind_ok in H. destruct H as [y [Hy H]].
    apply bind_ok in H. destruct H as [ys' [Hys H]]. injection H as <-.
    constructor; [eapply Hf; exact Hy|apply IH; exact Hys].
Qed.

(** * Closure under the identifier regex *)
Definition ident_closed (f : text -> res text) : Prop :=
  forall i r, f i = Ok r -> is_identifier r = true.

Lemma mk_ident_ok : forall t r, mk_ident t = Ok r -> is_identifier r = true.
Proof. intros t r. unfold mk_ident. destruct (is_identifier t) eqn:E; intros H; [|discriminate].
  injection H as <-. exact E. Qed.

Lemma closed_bind_mk : forall {A} (o : res A) (g : A -> text) r,
  (do x <- o; mk_ident (g x)) = Ok r -> is_identifier r = true.
Proof. intros A o g r H. apply bind_ok in H. destruct H as [x [_ H]]. eapply mk_ident_ok; exact H. Qed.

Lemma prefixed_closed : forall p o r, prefixed p o = Ok r -> is_identifier r = true.
Proof. intros p o r. unfold prefixed. apply closed_bind_mk. Qed.
Lemma suffixed_closed : forall o s r, suffixed o s = Ok r -> is_identifier r = true.
Proof. intros o s r. unfold suffixed. apply (closed_bind_mk o (fun x => x ++ s)). Qed.

Lemma then_closed : forall {A} (o : res A) (f : text -> res text) (g : A -> text),
  ident_closed f -> forall r, (do x <- o; f (g x)) = Ok r -> is_identifier r = true.
Proof. intros A o f g Hf r H. apply bind_ok in H. destruct H as [x [_ H]]. eapply Hf; exact H. Qed.

Lemma lower_snake_closed : ident_closed lower_snake_case.
Proof. intros i r. apply mk_ident_ok. Qed.
Lemma upper_snake_closed : ident_closed upper_snake_case.
Proof. intros i r. apply mk_ident_ok. Qed.
Lemma lower_camel_closed : ident_closed lower_camel_case.
Proof. intros i r. unfold lower_camel_case. destruct (parts_of i) as [|p [|q rest]]; try discriminate;
  apply mk_ident_ok. Qed.
Lemma cap_camel_closed : ident_closed capitalized_camel_case.
Proof. intros i r. apply mk_ident_ok. Qed.
Lemma go_capital_closed : ident_closed go_capital_camel_case.
Proof. intros i r. unfold go_capital_camel_case. apply (closed_bind_mk _ (fun ps => concat ps)). Qed.
Lemma go_lower_closed : ident_closed go_lower_camel_case.
Proof. intros i r. unfold go_lower_camel_case. destruct (parts_of i) as [|p rest]; [discriminate|].
  apply (closed_bind_mk _ (fun ps => lower p ++ concat ps)). Qed.
Lemma go_type_special_closed : ident_closed go_type_special.
Proof. intros i r. unfold go_type_special. destruct (text_eqb i _); [apply mk_ident_ok|apply go_lower_closed]. Qed.
Lemma json_model_type_closed : ident_closed json_model_type.
Proof.
  intros i r H. unfold json_model_type in H. apply bind_ok in H. destruct H as [_ [_ H]].
  apply bind_ok in H. destruct H as [x [Hx H]].
  destruct (memN US x || memN 34 x || memN 39 x || memN 92 x); [discriminate|].
  injection H as <-. eapply cap_camel_closed; exact Hx.
Qed.
Lemma xml_class_name_closed : ident_closed xml_class_name.
Proof. intros i r. unfold xml_class_name. destruct i as [|c i]; [discriminate|].
  destruct (N.eqb (upper_c c) c); [apply lower_camel_closed|discriminate]. Qed.
Lemma req_then_closed : forall (f : text -> res text), ident_closed f ->
  ident_closed (fun i => do _ <- require_first_isupper i; f i).
Proof. intros f Hf i r H. apply bind_ok in H. destruct H as [_ [_ H]]. eapply Hf; exact H. Qed.
Lemma py_enum_name_closed : ident_closed py_enum_name.
Proof. intros i r H. unfold py_enum_name in H. apply bind_ok in H. destruct H as [_ [_ H]].
  eapply mk_ident_ok; exact H. Qed.
Lemma py_private_class_closed : ident_closed py_private_class_name.
Proof. intros i r H. unfold py_private_class_name in H. apply bind_ok in H. destruct H as [_ [_ H]].
  eapply mk_ident_ok; exact H. Qed.
Lemma ts_enum_name_closed : ident_closed ts_enum_name.
Proof. apply (req_then_closed capitalized_camel_case cap_camel_closed). Qed.
Lemma ts_interface_closed : ident_closed ts_interface_name.
Proof. intros i r H. unfold ts_interface_name in H. apply bind_ok in H. destruct H as [_ [_ H]].
  eapply prefixed_closed; exact H. Qed.
Lemma cpp_mutable_closed : ident_closed cpp_mutable_getter_name.
Proof. intros i r. unfold cpp_mutable_getter_name.
  apply (then_closed _ lower_snake_case (fun x => x) lower_snake_closed). Qed.
Lemma cpp_setter_closed : ident_closed cpp_setter_name.
Proof. intros i r. unfold cpp_setter_name.
  apply (then_closed _ lower_snake_case (fun x => x) lower_snake_closed). Qed.
Lemma go_setter_closed : ident_closed go_setter_name.
Proof. intros i r. unfold go_setter_name.
  apply (then_closed _ go_capital_camel_case (fun x => x) go_capital_closed). Qed.
Lemma xsd_type_closed : ident_closed xsd_type_name.
Proof. intros i r. unfold xsd_type_name. apply (closed_bind_mk _ (fun b => b ++ s2l "_t")). Qed.
Lemma xsd_group_closed : ident_closed xsd_group_name.
Proof. intros i r. unfold xsd_group_name. apply (closed_bind_mk _ (fun b => b)). Qed.
Lemma xsd_choice_closed : ident_closed xsd_choice_group_name.
Proof. intros i r. unfold xsd_choice_group_name. apply (closed_bind_mk _ (fun b => b ++ s2l "_choice")). Qed.
Lemma prefixed_fun_closed : forall p (f : text -> res text), ident_closed (fun i => prefixed p (f i)).
Proof. intros p f i r. apply prefixed_closed. Qed.
Lemma suffixed_fun_closed : forall s (f : text -> res text), ident_closed (fun i => suffixed (f i) s).
Proof. intros s f i r. apply suffixed_closed. Qed.
Lemma ts_constant_closed : ident_closed ts_constant_name.
Proof. intros i r. apply mk_ident_ok. Qed.

Lemma go_enum_literal_closed : forall e l r, go_enum_literal_name e l = Ok r -> is_identifier r = true.
Proof.
  intros e l r H. unfold go_enum_literal_name in H. apply bind_ok in H. destruct H as [a [_ H]].
  apply bind_ok in H. destruct H as [b [_ H]]. eapply mk_ident_ok; exact H.
Qed.

#[local] Hint Resolve lower_snake_closed upper_snake_closed lower_camel_closed cap_camel_closed
  go_capital_closed go_lower_closed go_type_special_closed json_model_type_closed
  xml_class_name_closed py_enum_name_closed py_private_class_closed ts_enum_name_closed
  ts_interface_closed cpp_mutable_closed cpp_setter_closed go_setter_closed xsd_type_closed
  xsd_group_closed xsd_choice_closed ts_constant_closed : closed.

Ltac closed_tac :=
  first [ solve [auto with closed]
        | apply prefixed_fun_closed
        | apply suffixed_fun_closed ].

(** Every function of the table maps any text to an identifier whenever it returns. *)
Theorem naming_table_closed :
  Forall (fun kf => ident_closed (snd kf)) naming_table.
Proof.
  unfold naming_table.
  repeat (apply Forall_cons; [cbn [snd]; closed_tac|]).
  apply Forall_nil.
Qed.

Theorem naming_ascii_closed_all : forall k f i r,
  In (k, f) naming_table -> f i = Ok r -> is_identifier r = true.
Proof.
  intros k f i r Hin H.
  pose proof naming_table_closed as HF. rewrite Forall_forall in HF.
  exact (HF (k, f) Hin i r H).
Qed.

(** No modelled naming function reports an error value: it returns or raises. *)
Definition never_err (f : text -> res text) : Prop := forall i e, f i <> Err e.

(** Identifiers are ASCII: every character of an identifier is below 128. *)
Lemma ident_char_ascii : forall c, is_ident_char c = true -> c < 128.
Proof.
  intros c H. unfold is_ident_char, is_ident_start, is_upper_c, is_lower_c, is_digit_c, US in H.
  repeat (apply orb_true_iff in H; destruct H as [H|H]);
    try (apply andb_true_iff in H; destruct H as [_ H]; apply N.leb_le in H; lia).
  apply N.eqb_eq in H. lia.
Qed.

Lemma identifier_ascii : forall t, is_identifier t = true -> Forall (fun c => c < 128) t.
Proof.
  intros [|c r] H; cbn in H; [discriminate|].
  apply andb_true_iff in H. destruct H as [Hc Hr].
  constructor.
  - apply ident_char_ascii. unfold is_ident_char. rewrite Hc. reflexivity.
  - rewrite forallb_forall in Hr. apply Forall_forall. intros x Hx. apply ident_char_ascii. auto.
Qed.
