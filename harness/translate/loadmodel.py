"""Fail-closed translator (tie T) for C01/C02: Gen/GenLoadModel.v.

Translated items (all from the current sources of the repository under test):

* ``load_model_skel``, ``execute_skel`` : the control-flow skeletons of ``run.load_model``
  and ``main.execute`` as decision trees of ``Model/LoadSkel.v``;
* ``constant_set_spec``, ``constant_primitive_spec`` : the guarded positional accesses
  ``if len(node.value.args) > K: ... node.value.args[I]`` and the keyword loop of
  ``parse/_translate.py:_parse_constant_set`` / ``_parse_constant_primitive``;
* ``annotation_constant_checks`` : the checks executed in the ``ast.Constant`` branch of
  ``_type_annotation`` before ``Identifier(node.value)`` is constructed.

Any statement shape that is not understood raises ``TranslateError`` (the Gen file is
then removed and every theorem over it stops compiling).
"""
from __future__ import annotations

import ast
from typing import Dict, List, Optional, Tuple

from harness import lib
from harness.translate.astutil import TranslateError, find_function, parse, coq_text


# =====================================================================================
# Skeletons
# =====================================================================================
class _Skel:
    def __init__(self, fn: ast.FunctionDef, xor_callees: Dict[str, bool]):
        self.fn = fn
        self.xor_callees = xor_callees
        self.vars: Dict[str, int] = {}
        self.notes: List[str] = []
        # variables tested for truthiness somewhere in the function
        self.truth_tested = set()
        for node in ast.walk(fn):
            if isinstance(node, (ast.If, ast.While, ast.IfExp)):
                t = node.test
                if isinstance(t, ast.UnaryOp) and isinstance(t.op, ast.Not):
                    t = t.operand
                if isinstance(t, ast.Name):
                    self.truth_tested.add(t.id)
        self.assigned = set()
        for node in ast.walk(fn):
            if isinstance(node, ast.Assign):
                for tgt in node.targets:
                    for n in ast.walk(tgt):
                        if isinstance(n, ast.Name):
                            self.assigned.add(n.id)
            elif isinstance(node, (ast.AnnAssign, ast.AugAssign)):
                if isinstance(node.target, ast.Name):
                    self.assigned.add(node.target.id)
            elif isinstance(node, ast.withitem) and node.optional_vars is not None:
                for n in ast.walk(node.optional_vars):
                    if isinstance(n, ast.Name):
                        self.assigned.add(n.id)
        for node in ast.walk(fn):
            if isinstance(node, ast.ExceptHandler) and node.name is not None:
                self.assigned.add(node.name)
        self.params = [a.arg for a in fn.args.posonlyargs + fn.args.args + fn.args.kwonlyargs]
        if fn.args.vararg or fn.args.kwarg:
            raise TranslateError(f"{fn.name}: *args/**kwargs not handled")

    def var(self, name: str) -> int:
        if name not in self.vars:
            self.vars[name] = len(self.vars)
        return self.vars[name]

    def tracked(self, name: str) -> bool:
        return name in self.assigned or name in self.params

    # -- uses ------------------------------------------------------------------------
    def uses(self, node: Optional[ast.AST]) -> List[str]:
        """Tracked local variables read inside ``node`` (in source order, no duplicates),
        except where the read is only a test against None."""
        if node is None:
            return []
        out: List[str] = []

        def walk(n: ast.AST) -> None:
            if isinstance(n, ast.Compare) and len(n.ops) == 1 and isinstance(
                    n.ops[0], (ast.Is, ast.IsNot)) and isinstance(n.left, ast.Name) and isinstance(
                    n.comparators[0], ast.Constant) and n.comparators[0].value is None:
                return
            if isinstance(n, ast.Lambda):
                inner = {a.arg for a in n.args.args}
                for m in ast.walk(n.body):
                    if isinstance(m, ast.Name) and m.id not in inner and self.tracked(m.id) \
                            and m.id not in out:
                        out.append(m.id)
                return
            if isinstance(n, ast.Name) and isinstance(n.ctx, ast.Load):
                if self.tracked(n.id) and n.id not in out:
                    out.append(n.id)
                return
            for c in ast.iter_child_nodes(n):
                walk(c)

        walk(node)
        return out

    def with_uses(self, names: List[str], k: str) -> str:
        for name in reversed(names):
            k = f"(Use {self.var(name)} {k})"
        return k

    # -- statements ------------------------------------------------------------------
    def block(self, stmts: List[ast.stmt], k: str) -> str:
        """Translate ``stmts`` followed by the continuation ``k`` (a Coq term)."""
        if not stmts:
            return k
        st, rest = stmts[0], stmts[1:]
        if isinstance(st, ast.Return):
            return self.ret(st)            # the rest is unreachable
        if isinstance(st, ast.Raise):
            raise TranslateError(f"{self.fn.name}: explicit raise at line {st.lineno}")
        kk = self.block(rest, k)
        if isinstance(st, ast.Expr):
            if isinstance(st.value, ast.Constant):
                return kk                  # docstring
            return self.with_uses(self.uses(st.value), kk)
        if isinstance(st, ast.Pass):
            return kk
        if isinstance(st, ast.Assert):
            t = st.test
            if isinstance(t, ast.Compare) and len(t.ops) == 1 and isinstance(t.ops[0], ast.IsNot) \
                    and isinstance(t.left, ast.Name) and isinstance(t.comparators[0], ast.Constant) \
                    and t.comparators[0].value is None:
                return f"(AssertSet {self.var(t.left.id)} {kk})"
            self.notes.append(f"line {st.lineno}: assert outside the skeleton: {ast.unparse(t)[:80]}")
            return self.with_uses(self.uses(t), kk)
        if isinstance(st, (ast.Assign, ast.AnnAssign)):
            return self.assign(st, kk)
        if isinstance(st, ast.If):
            return self.if_(st, kk)
        if isinstance(st, ast.With):
            names: List[str] = []
            for item in st.items:
                names += [n for n in self.uses(item.context_expr) if n not in names]
            inner = self.block(list(st.body), kk)
            for item in st.items:
                if item.optional_vars is not None:
                    if not isinstance(item.optional_vars, ast.Name):
                        raise TranslateError(f"{self.fn.name}: with-target at line {st.lineno}")
                    inner = f"(AssignSet {self.var(item.optional_vars.id)} {inner})"
            return self.with_uses(names, inner)
        if isinstance(st, ast.Try) and st.handlers:
            # try: <one statement> except E as e: <handler>  -- either the statement
            # completes, or the handler runs in the state before the statement
            if st.orelse or st.finalbody or len(st.body) != 1:
                raise TranslateError(f"{self.fn.name}: try/except at line {st.lineno}")
            normal = self.block(list(st.body), kk)
            for h in reversed(st.handlers):
                hb = self.block(list(h.body), kk)
                if h.name is not None:
                    self.assigned.add(h.name)
                    hb = f"(AssignSet {self.var(h.name)} {hb})"
                normal = f"(IfOpaque {hb} {normal})"
            return normal
        if isinstance(st, ast.Try):
            if st.orelse:
                raise TranslateError(f"{self.fn.name}: try/else at line {st.lineno}")
            # exceptions of the environment (I/O) are outside the skeleton: body; finally
            return self.block(list(st.body) + list(st.finalbody), kk)
        raise TranslateError(
            f"{self.fn.name}: statement {type(st).__name__} at line {st.lineno} not understood")

    def callee_name(self, call: ast.Call) -> str:
        f = call.func
        if isinstance(f, ast.Attribute):
            return f.attr
        if isinstance(f, ast.Name):
            return f.id
        raise TranslateError(f"{self.fn.name}: callee at line {call.lineno}")

    def assign(self, st: ast.stmt, kk: str) -> str:
        if isinstance(st, ast.AnnAssign):
            targets = [st.target]
            value = st.value
            if value is None:
                return kk
        else:
            if len(st.targets) != 1:
                raise TranslateError(f"{self.fn.name}: chained assignment at line {st.lineno}")
            targets = st.targets
            value = st.value
        tgt = targets[0]
        used = self.uses(value)
        if isinstance(tgt, ast.Tuple):
            if len(tgt.elts) != 2 or not all(isinstance(e, ast.Name) for e in tgt.elts):
                raise TranslateError(f"{self.fn.name}: tuple target at line {st.lineno}")
            a, b = (e.id for e in tgt.elts)
            if isinstance(value, ast.Call):
                name = self.callee_name(value)
                if name not in self.xor_callees:
                    raise TranslateError(
                        f"{self.fn.name}: pair-returning callee {name!r} at line {st.lineno} unknown")
                xor = "true" if self.xor_callees[name] else "false"
                return self.with_uses(
                    used, f"(PairCall {xor} {self.var(a)} {self.var(b)} {kk})")
            if isinstance(value, ast.Name):
                # unpacking of a value: None is not admissible
                return self.with_uses(
                    [value.id], f"(AssignSet {self.var(a)} (AssignSet {self.var(b)} {kk}))")
            raise TranslateError(f"{self.fn.name}: tuple assignment at line {st.lineno}")
        if not isinstance(tgt, ast.Name):
            raise TranslateError(f"{self.fn.name}: assignment target at line {st.lineno}")
        v = self.var(tgt.id)
        if isinstance(value, ast.Constant) and value.value is None:
            return f"(AssignNone {v} {kk})"
        if isinstance(value, ast.Name):
            raise TranslateError(f"{self.fn.name}: alias assignment at line {st.lineno}")
        if isinstance(value, ast.IfExp):
            raise TranslateError(f"{self.fn.name}: conditional value at line {st.lineno}")
        ctor = "AssignChoice" if tgt.id in self.truth_tested else "AssignSet"
        return self.with_uses(used, f"({ctor} {v} {kk})")

    def if_(self, st: ast.If, kk: str) -> str:
        t = st.test
        neg = False
        if isinstance(t, ast.UnaryOp) and isinstance(t.op, ast.Not):
            neg = True
            t = t.operand
        then_ = self.block(list(st.body), kk)
        else_ = self.block(list(st.orelse), kk)
        if neg:
            then_, else_ = else_, then_
        if isinstance(t, ast.Name) and self.tracked(t.id):
            return f"(IfTruthy {self.var(t.id)} {then_} {else_})"
        if isinstance(t, ast.Compare) and len(t.ops) == 1 and isinstance(t.left, ast.Name) \
                and self.tracked(t.left.id) and isinstance(t.comparators[0], ast.Constant) \
                and t.comparators[0].value is None and isinstance(t.ops[0], (ast.Is, ast.IsNot)):
            if isinstance(t.ops[0], ast.Is):
                then_, else_ = else_, then_
            return f"(IfNotNone {self.var(t.left.id)} {then_} {else_})"
        if isinstance(t, (ast.BoolOp, ast.IfExp)):
            raise TranslateError(f"{self.fn.name}: compound condition at line {st.lineno}")
        return self.with_uses(self.uses(t), f"(IfOpaque {then_} {else_})")

    def ret(self, st: ast.Return) -> str:
        v = st.value
        if v is None:
            raise TranslateError(f"{self.fn.name}: bare return at line {st.lineno}")
        if isinstance(v, ast.Tuple) and len(v.elts) == 2:
            parts = []
            used: List[str] = []
            for e in v.elts:
                if isinstance(e, ast.Constant) and e.value is None:
                    parts.append("RNone")
                elif isinstance(e, ast.Name) and self.tracked(e.id):
                    parts.append(f"(RVar {self.var(e.id)})")
                elif isinstance(e, (ast.Tuple, ast.JoinedStr)) or (
                        isinstance(e, ast.Constant) and isinstance(e.value, str)) or (
                        isinstance(e, ast.Call) and isinstance(e.func, ast.Attribute)
                        and e.func.attr == "getvalue"):
                    parts.append("RSome")
                    if isinstance(e, ast.Tuple):
                        # a tuple of possibly-None values is still not None; its elements
                        # are read by the caller, so they count as uses
                        used += [n for n in self.uses(e) if n not in used]
                    elif isinstance(e, ast.JoinedStr):
                        pass
                else:
                    raise TranslateError(
                        f"{self.fn.name}: returned element {ast.unparse(e)[:60]!r} at line {st.lineno}")
            return self.with_uses(used, f"(Ret2 {parts[0]} {parts[1]})")
        if isinstance(v, ast.Constant) and isinstance(v.value, int) and not isinstance(v.value, bool):
            return "RetInt"
        if isinstance(v, ast.Call):
            return self.with_uses(self.uses(v), "RetInt")
        raise TranslateError(f"{self.fn.name}: return value at line {st.lineno} not understood")

    def translate(self) -> str:
        body = self.block(list(self.fn.body), "FellOff")
        # parameters: never None; those tested for truth are a choice of the environment
        for p in reversed(self.params):
            ctor = "AssignChoice" if p in self.truth_tested else "AssignSet"
            body = f"({ctor} {self.var(p)} {body})"
        return body


def _has_xor_contract(fn: ast.FunctionDef) -> bool:
    for d in fn.decorator_list:
        if isinstance(d, ast.Call) and isinstance(d.func, ast.Name) and d.func.id == "ensure" and d.args:
            lam = d.args[0]
            if isinstance(lam, ast.Lambda) and isinstance(lam.body, ast.BinOp) and isinstance(
                    lam.body.op, ast.BitXor):
                txt = ast.unparse(lam.body)
                if "result[0]" in txt and "result[1]" in txt and "None" in txt:
                    return True
    return False


_CALLEES = {
    "source_to_atok": ("aas_core_codegen/parse/_translate.py", "source_to_atok"),
    "atok_to_symbol_table": ("aas_core_codegen/parse/_translate.py", "atok_to_symbol_table"),
    "translate": ("aas_core_codegen/intermediate/_translate.py", "translate"),
    "read_from_directory": ("aas_core_codegen/specific_implementations.py", "read_from_directory"),
    "load_model": ("aas_core_codegen/run.py", "load_model"),
}


def _xor_callees() -> Dict[str, bool]:
    out = {}
    for name, (rel, fname) in _CALLEES.items():
        tree = parse(rel)
        fns = [n for n in tree.body if isinstance(n, ast.FunctionDef) and n.name == fname]
        if len(fns) != 1:
            raise TranslateError(f"callee {fname} not found in {rel}")
        out[name] = _has_xor_contract(fns[0])
    return out


def _skeleton(rel: str, fname: str, xor: Dict[str, bool]) -> Tuple[str, _Skel]:
    tree = parse(rel)
    fns = [n for n in tree.body if isinstance(n, ast.FunctionDef) and n.name == fname]
    if len(fns) != 1:
        raise TranslateError(f"{fname} not found in {rel}")
    sk = _Skel(fns[0], xor)
    return sk.translate(), sk


# =====================================================================================
# Argument unpacking
# =====================================================================================
def _is_args_len(node: ast.AST) -> bool:
    """``len(node.value.args)``"""
    return (isinstance(node, ast.Call) and isinstance(node.func, ast.Name) and node.func.id == "len"
            and len(node.args) == 1 and _is_args(node.args[0]))


def _is_args(node: ast.AST) -> bool:
    return ast.unparse(node) == "node.value.args"


def _args_index(node: ast.AST) -> Optional[int]:
    if isinstance(node, ast.Subscript) and _is_args(node.value):
        idx = node.slice
        if isinstance(idx, ast.Constant) and isinstance(idx.value, int) and idx.value >= 0:
            return idx.value
        raise TranslateError(f"args subscript {ast.unparse(node)!r} is not a literal index")
    return None


def _unpack_spec(fname: str) -> str:
    tree = parse("aas_core_codegen/parse/_translate.py")
    fn = find_function(tree, fname)
    slots: Dict[str, int] = {}
    guards: List[str] = []
    keywords: List[str] = []
    required: List[int] = []
    accounted = set()  # ids of Subscript nodes on node.value.args that were translated
    saw_loop = False
    for st in fn.body:
        if isinstance(st, (ast.Assign, ast.AnnAssign)):
            tgt = st.targets[0] if isinstance(st, ast.Assign) else st.target
            val = st.value
            if isinstance(tgt, ast.Name) and tgt.id.endswith("_arg_node") and isinstance(
                    val, ast.Constant) and val.value is None:
                if saw_loop or guards:
                    raise TranslateError(f"{fname}: slot {tgt.id} initialised after the guards")
                slots[tgt.id] = len(slots)
            continue
        if isinstance(st, ast.If) and isinstance(st.test, ast.Compare) and _is_args_len(st.test.left):
            if saw_loop:
                raise TranslateError(f"{fname}: positional guard after the keyword loop")
            cmp_ = st.test
            if len(cmp_.ops) != 1 or not isinstance(cmp_.ops[0], ast.Gt) or not isinstance(
                    cmp_.comparators[0], ast.Constant) or not isinstance(cmp_.comparators[0].value, int):
                raise TranslateError(f"{fname}: guard {ast.unparse(cmp_)!r} is not `len(args) > K`")
            k = cmp_.comparators[0].value
            if st.orelse or len(st.body) != 1:
                raise TranslateError(f"{fname}: guard body at line {st.lineno} not understood")
            inner = st.body[0]
            subs = [n for n in ast.walk(inner) if isinstance(n, ast.Subscript) and _is_args(n.value)]
            if len(subs) != 1:
                raise TranslateError(f"{fname}: guard body at line {st.lineno}: "
                                     f"{len(subs)} accesses to args")
            idx = _args_index(subs[0])
            accounted.add(id(subs[0]))
            if isinstance(inner, ast.Assign) and isinstance(inner.targets[0], ast.Name) \
                    and inner.targets[0].id in slots and inner.value is subs[0]:
                guards.append(f"mkGuard {k} {idx} (Some {slots[inner.targets[0].id]})")
            elif isinstance(inner, ast.Return):
                guards.append(f"mkGuard {k} {idx} None")
            else:
                raise TranslateError(f"{fname}: guard body at line {st.lineno} not understood")
            continue
        if isinstance(st, ast.For) and ast.unparse(st.iter) == "node.value.keywords":
            saw_loop = True
            if not isinstance(st.target, ast.Name) or len(st.body) != 1 or not isinstance(st.body[0], ast.If):
                raise TranslateError(f"{fname}: keyword loop not understood")
            kw = st.target.id
            cur: Optional[ast.stmt] = st.body[0]
            while isinstance(cur, ast.If):
                t = cur.test
                if not (isinstance(t, ast.Compare) and ast.unparse(t.left) == f"{kw}.arg"
                        and len(t.ops) == 1 and isinstance(t.ops[0], ast.Eq)
                        and isinstance(t.comparators[0], ast.Constant)
                        and isinstance(t.comparators[0].value, str)):
                    raise TranslateError(f"{fname}: keyword test {ast.unparse(t)!r}")
                if len(cur.body) != 1 or not isinstance(cur.body[0], ast.Assign) or not isinstance(
                        cur.body[0].targets[0], ast.Name) or cur.body[0].targets[0].id not in slots \
                        or ast.unparse(cur.body[0].value) != f"{kw}.value":
                    raise TranslateError(f"{fname}: keyword branch at line {cur.lineno}")
                keywords.append(f"({coq_text(t.comparators[0].value)}, "
                                f"{slots[cur.body[0].targets[0].id]})")
                if len(cur.orelse) != 1:
                    raise TranslateError(f"{fname}: keyword chain without final else")
                cur = cur.orelse[0]
            if not isinstance(cur, ast.Return):
                raise TranslateError(f"{fname}: keyword chain must end by returning an error")
            continue
        # a slot tested right after the loop:  if X is None: return error  /
        # if not isinstance(X, ast.Constant): return error   (X None is then reported)
        if saw_loop and isinstance(st, ast.If) and st.body and isinstance(st.body[0], ast.Return):
            names = [n.id for n in ast.walk(st.test) if isinstance(n, ast.Name) and n.id in slots]
            t = st.test
            is_none_test = (isinstance(t, ast.Compare) and isinstance(t.ops[0], ast.Is)
                            and isinstance(t.left, ast.Name) and t.left.id in slots)
            not_isinstance = (isinstance(t, ast.UnaryOp) and isinstance(t.op, ast.Not)
                              and isinstance(t.operand, ast.Call)
                              and isinstance(t.operand.func, ast.Name)
                              and t.operand.func.id == "isinstance"
                              and isinstance(t.operand.args[0], ast.Name)
                              and t.operand.args[0].id in slots)
            if (is_none_test or not_isinstance) and names and slots[names[0]] not in required \
                    and not required:
                required.append(slots[names[0]])
    # every other access to node.value.args must have been translated
    for n in ast.walk(fn):
        if isinstance(n, ast.Subscript) and _is_args(n.value) and id(n) not in accounted:
            raise TranslateError(f"{fname}: untranslated access {ast.unparse(n)!r} at line {n.lineno}")
    if not guards or not keywords or not slots:
        raise TranslateError(f"{fname}: no guards / keywords / slots found")
    return (f"mkSpec {len(slots)}\n    [" + ";\n     ".join(guards) + "]\n    ["
            + ";\n     ".join(keywords) + "]\n    [" + "; ".join(str(r) for r in required) + "]")


# =====================================================================================
# Identifier(node.value) in _type_annotation
# =====================================================================================
def _annotation_checks() -> str:
    tree = parse("aas_core_codegen/parse/_translate.py")
    fn = find_function(tree, "_type_annotation")
    # the branch `elif isinstance(node, ast.Constant):`
    branch: Optional[ast.If] = None
    for n in ast.walk(fn):
        if isinstance(n, ast.If) and ast.unparse(n.test) == "isinstance(node, ast.Constant)":
            branch = n
            break
    if branch is None:
        raise TranslateError("_type_annotation: ast.Constant branch not found")
    checks: List[str] = []
    built = False
    for st in branch.body:
        if isinstance(st, ast.If) and st.body and isinstance(st.body[-1], ast.Return) and not st.orelse:
            t = ast.unparse(st.test)
            if t == "not isinstance(node.value, str)":
                checks.append("CheckIsStr")
            elif t in ("not IDENTIFIER_RE.fullmatch(node.value)",
                       "IDENTIFIER_RE.fullmatch(node.value) is None"):
                checks.append("CheckIsIdentifier")
            else:
                raise TranslateError(f"_type_annotation: check {t!r} not understood")
        elif isinstance(st, ast.Return):
            txt = ast.unparse(st)
            if "Identifier(node.value)" not in txt:
                raise TranslateError("_type_annotation: constant branch does not build "
                                     "Identifier(node.value)")
            built = True
            break
        else:
            raise TranslateError(f"_type_annotation: statement at line {st.lineno} not understood")
    if not built:
        raise TranslateError("_type_annotation: constant branch has no final return")
    return "[" + "; ".join(checks) + "]"


# =====================================================================================
def gen_load_model() -> str:
    xor = _xor_callees()
    lm, lm_sk = _skeleton("aas_core_codegen/run.py", "load_model", xor)
    ex, ex_sk = _skeleton("aas_core_codegen/main.py", "execute", xor)
    out = [
        "From Coq Require Import List NArith Arith Bool.",
        "From Acg Require Import Base.Outcome Base.Str Model.ArgUnpack Model.LoadSkel.",
        "Import ListNotations.",
        "Open Scope nat_scope.",
        "",
        "(* xor post-conditions found on the pair-returning callees: "
        + ", ".join(f"{k}={'yes' if v else 'NO'}" for k, v in sorted(xor.items())) + " *)",
        "(* run.load_model; variables: "
        + ", ".join(f"{i}={n}" for n, i in sorted(lm_sk.vars.items(), key=lambda kv: kv[1])) + " *)",
    ]
    out += [f"(* note: {n} *)" for n in lm_sk.notes]
    out += [f"Definition load_model_skel : sk :=\n  {lm}.", ""]
    out += ["(* main.execute; variables: "
            + ", ".join(f"{i}={n}" for n, i in sorted(ex_sk.vars.items(), key=lambda kv: kv[1])) + " *)"]
    out += [f"(* note: {n} *)" for n in ex_sk.notes]
    out += [f"Definition execute_skel : sk :=\n  {ex}.", ""]
    out += [f"Definition constant_set_spec : unpack_spec :=\n  {_unpack_spec('_parse_constant_set')}.", ""]
    out += [f"Definition constant_primitive_spec : unpack_spec :=\n  "
            f"{_unpack_spec('_parse_constant_primitive')}.", ""]
    out += [f"Definition annotation_constant_checks : list pre_check := {_annotation_checks()}.", ""]
    return "\n".join(out)


GEN_FILES = {"GenLoadModel": gen_load_model}
