(** C08 — facts about the rules that read a Python expression AST into the tree
    ([Model/AstRules.v]).

    - [ast_rules_sound]: the repaired rules ([strict = true]) translate every accepted Python
      expression into a tree that has the same Python value / exception in every environment.
    - [ast_rules_unpatched_refuted]: the rules as found ([strict = false]) do not: they drop
      the [if] filters of a comprehension.
    - [ast_rules_strict_rejects_filters]: the repaired rules never accept a filtered
      comprehension.
    - [ast_to_tree_strict_agrees]: whatever the repaired rules accept, the rules as found
      accept with the same tree. *)
From Coq Require Import List NArith ZArith Bool Lia Arith.Wf_nat.
From Coq Require Strings.String.
Import Coq.Strings.String.StringSyntax.
From Acg Require Import Base.Str Base.Outcome Model.Tree Model.PyEval Model.AstRules.
Import ListNotations.
Open Scope Z_scope.

(** ** A size measure for the nested inductive [pyast] *)

Fixpoint psize (a : pyast) : nat :=
  let lsz := fix go (l : list pyast) : nat :=
     match l with [] => O | x :: l' => S (psize x + go l')%nat end in
  match a with
  | PBoolOp _ vs => S (lsz vs)
  | PUnaryOp _ e => S (psize e)
  | PCompare l rest =>
      S (psize l +
         (fix go (l : list (pcmp * pyast)) : nat :=
            match l with [] => O | (_, c) :: l' => S (psize c + go l')%nat end) rest)%nat
  | PCall f args _ => S (psize f + lsz args)%nat
  | PGeneratorExp elt gens =>
      S (psize elt +
         (fix go (gs : list comprehension) : nat :=
            match gs with
            | [] => O
            | (t, i, c) :: gs' => S (psize t + psize i + lsz c + go gs')%nat
            end) gens)%nat
  | PAttribute v _ => S (psize v)
  | PSubscript v i => S (psize v + psize i)%nat
  | PName _ | PConstant _ | POther => 1%nat
  | PJoinedStr ps =>
      S ((fix go (l : list (pjpart pyast)) : nat :=
            match l with
            | [] => O
            | p :: l' => S (match p with PJFmt e _ _ => psize e | _ => O end + go l')%nat
            end) ps)
  | PBinOp _ l r => S (psize l + psize r)%nat
  | PParen e => S (psize e)
  end.

Definition lsz : list pyast -> nat :=
  fix go (l : list pyast) : nat :=
    match l with [] => O | x :: l' => S (psize x + go l')%nat end.

Definition jsz : list (pjpart pyast) -> nat :=
  fix go (l : list (pjpart pyast)) : nat :=
    match l with
    | [] => O
    | p :: l' => S (match p with PJFmt e _ _ => psize e | _ => O end + go l')%nat
    end.

Lemma psize_PBoolOp op vs : psize (PBoolOp op vs) = S (lsz vs).
Proof. reflexivity. Qed.
Lemma psize_PCall f args n : psize (PCall f args n) = S (psize f + lsz args)%nat.
Proof. reflexivity. Qed.
Lemma psize_PJoinedStr ps : psize (PJoinedStr ps) = S (jsz ps).
Proof. reflexivity. Qed.

Lemma lsz_In : forall l x, In x l -> (psize x < lsz l)%nat.
Proof.
  induction l as [|y l IHl]; intros x Hin; [destruct Hin|].
  cbn [lsz]. destruct Hin as [Heq | Hin].
  - subst y. lia.
  - specialize (IHl x Hin). fold lsz. lia.
Qed.

Lemma jsz_In : forall l e c s, In (PJFmt e c s) l -> (psize e < jsz l)%nat.
Proof.
  induction l as [|y l IHl]; intros e c s Hin; [destruct Hin|].
  cbn [jsz]. fold jsz. destruct Hin as [Heq | Hin].
  - subst y. lia.
  - specialize (IHl e c s Hin). lia.
Qed.

(** ** [seq_map] *)

Lemma seq_map_map {A B C} (f : A -> outcome B unit) (g : B -> C) (h : A -> C) :
  forall l ys,
    seq_map f l = Ok ys ->
    (forall x y, In x l -> f x = Ok y -> g y = h x) ->
    map g ys = map h l.
Proof.
  induction l as [|x l IHl]; intros ys Hs Hall.
  - cbn in Hs. injection Hs as <-. reflexivity.
  - cbn [seq_map] in Hs. fold (seq_map f) in Hs.
    destruct (f x) as [y| |] eqn:Hfx; try discriminate.
    destruct (seq_map f l) as [ys'| |] eqn:Hl; try discriminate.
    injection Hs as <-. cbn [map]. f_equal.
    + apply Hall; [left; reflexivity | exact Hfx].
    + apply IHl; [reflexivity|]. intros x0 y0 Hin Hf. apply Hall; [right; exact Hin | exact Hf].
Qed.

(** ** The statement proved by induction on the size *)

Definition sound_at (a : pyast) : Prop :=
  forall e, ast_to_tree true a = Ok e ->
  forall r fuel, eval r e fuel = eval_py r a fuel.

Definition below (a : pyast) : Prop :=
  forall b, (psize b < psize a)%nat -> sound_at b.

Lemma same_result (x : pyresult) :
  match x with Raise ex => Raise ex | Val c => Val c end = x.
Proof. destruct x; reflexivity. Qed.

Lemma sound_PName x : sound_at (PName x).
Proof.
  intros e He r fuel. cbn [ast_to_tree] in He. injection He as <-. reflexivity.
Qed.

Lemma sound_PConstant c : sound_at (PConstant c).
Proof.
  intros e He r fuel. cbn [ast_to_tree] in He.
  destruct c; cbn in He; try discriminate; injection He as <-; reflexivity.
Qed.

Lemma sound_PAttribute v n : below (PAttribute v n) -> sound_at (PAttribute v n).
Proof.
  intros IH e He r fuel. cbn [ast_to_tree] in He.
  destruct (ast_to_tree true v) as [v'| |] eqn:Hv; try discriminate.
  injection He as <-.
  cbn [eval eval_py]. rewrite (IH v ltac:(cbn [psize]; lia) v' Hv). reflexivity.
Qed.

Lemma sound_PSubscript v i : below (PSubscript v i) -> sound_at (PSubscript v i).
Proof.
  intros IH e He r fuel. cbn [ast_to_tree] in He.
  destruct (ast_to_tree true v) as [v'| |] eqn:Hv; try discriminate.
  destruct (ast_to_tree true i) as [i'| |] eqn:Hi; try discriminate.
  injection He as <-.
  cbn [eval eval_py].
  rewrite (IH v ltac:(cbn [psize]; lia) v' Hv), (IH i ltac:(cbn [psize]; lia) i' Hi).
  reflexivity.
Qed.

Lemma sound_PBinOp op x y : below (PBinOp op x y) -> sound_at (PBinOp op x y).
Proof.
  intros IH e He r fuel.
  destruct op; cbn [ast_to_tree] in He; try discriminate.
  all: destruct (ast_to_tree true x) as [x'| |] eqn:Hx; try discriminate.
  all: destruct (ast_to_tree true y) as [y'| |] eqn:Hy; try discriminate.
  all: injection He as <-.
  all: cbn [eval eval_py].
  all: rewrite (IH x ltac:(cbn [psize]; lia) x' Hx), (IH y ltac:(cbn [psize]; lia) y' Hy).
  all: reflexivity.
Qed.

Lemma sound_PUnaryOp op x : below (PUnaryOp op x) -> sound_at (PUnaryOp op x).
Proof.
  intros IH e He r fuel.
  destruct op; cbn [ast_to_tree] in He; try discriminate.
  - destruct (ast_to_tree true x) as [x'| |] eqn:Hx; try discriminate.
    injection He as <-. cbn [eval eval_py].
    rewrite (IH x ltac:(cbn [psize]; lia) x' Hx). reflexivity.
  - destruct x; try discriminate.
    destruct c; cbn [neg_const] in He; try discriminate; injection He as <-; reflexivity.
Qed.

Lemma sound_PCompare l rest : below (PCompare l rest) -> sound_at (PCompare l rest).
Proof.
  intros IH e He r fuel.
  destruct rest as [|[op c] [|oc2 rest]]; cbn [ast_to_tree fst snd] in He; try discriminate.
  assert (Hl : sound_at l) by (apply IH; cbn [psize]; lia).
  assert (Hc : sound_at c) by (apply IH; cbn [psize]; lia).
  destruct op; cbn [cmpop_of cmp_kind] in He; try discriminate.
  (* <, <=, >, >=, ==, != *)
  1-6: destruct (ast_to_tree true l) as [l'| |] eqn:Hl'; try discriminate;
       destruct (ast_to_tree true c) as [c'| |] eqn:Hc'; try discriminate;
       injection He as <-;
       cbn [eval eval_py map cmp_chain fst snd];
       rewrite (Hl l' Hl'), (Hc c' Hc');
       destruct (eval_py r l fuel) as [vl|]; [|reflexivity];
       destruct (eval_py r c fuel) as [vc|]; [|reflexivity];
       cbn [cmp1]; rewrite same_result; reflexivity.
  - (* is *)
    destruct c as [ | | | | | | | |k| | | | ]; cbn [is_none_const] in He; try discriminate.
    destruct k; try discriminate.
    destruct (ast_to_tree true l) as [l'| |] eqn:Hl'; try discriminate.
    injection He as <-.
    cbn [eval eval_py map cmp_chain fst snd const_value].
    rewrite (Hl l' Hl').
    destruct (eval_py r l fuel) as [vl|]; reflexivity.
  - (* is not *)
    destruct c as [ | | | | | | | |k| | | | ]; cbn [is_none_const] in He; try discriminate.
    destruct k; try discriminate.
    destruct (ast_to_tree true l) as [l'| |] eqn:Hl'; try discriminate.
    injection He as <-.
    cbn [eval eval_py map cmp_chain fst snd const_value].
    rewrite (Hl l' Hl').
    destruct (eval_py r l fuel) as [vl|]; reflexivity.
  - (* in *)
    destruct (ast_to_tree true l) as [l'| |] eqn:Hl'; try discriminate.
    destruct (ast_to_tree true c) as [c'| |] eqn:Hc'; try discriminate.
    injection He as <-.
    cbn [eval eval_py map cmp_chain fst snd].
    rewrite (Hl l' Hl'), (Hc c' Hc').
    destruct (eval_py r l fuel) as [vl|]; [|reflexivity].
    destruct (eval_py r c fuel) as [vc|]; [|reflexivity].
    cbn [cmp1]. rewrite same_result. reflexivity.
Qed.

Lemma seq_args_sound vs vs' :
  (forall v, In v vs -> sound_at v) ->
  seq_map (ast_to_tree true) vs = Ok vs' ->
  forall r fuel, map (fun v => eval r v fuel) vs' = map (fun v => eval_py r v fuel) vs.
Proof.
  intros Hall Hs r fuel.
  apply (seq_map_map (ast_to_tree true) (fun v => eval r v fuel) (fun v => eval_py r v fuel)
           vs vs' Hs).
  intros x y Hin Hx. apply (Hall x Hin y Hx).
Qed.

Lemma a2t_BOr_cases s vs :
  (exists x y, vs = [PUnaryOp UNot x; y] /\
     ast_to_tree s (PBoolOp BOr vs) =
     match ast_to_tree s x with
     | Ok x' => match ast_to_tree s y with
                | Ok y' => Ok (Implication x' y')
                | Err e => Err e | Crash k => Crash k
                end
     | Err e => Err e | Crash k => Crash k
     end) \/
  ast_to_tree s (PBoolOp BOr vs) =
  match seq_map (ast_to_tree s) vs with
  | Ok vs' => Ok (Or vs')
  | Err e => Err e | Crash k => Crash k
  end.
Proof.
  destruct vs as [|v1 [|y [|z vs]]]; try (right; reflexivity).
  destruct v1; try (right; reflexivity).
  destruct op; try (right; reflexivity).
  left. exists v1, y. split; reflexivity.
Qed.

Lemma a2t_BAnd s vs :
  ast_to_tree s (PBoolOp BAnd vs) =
  match seq_map (ast_to_tree s) vs with
  | Ok vs' => Ok (And vs')
  | Err e => Err e | Crash k => Crash k
  end.
Proof. reflexivity. Qed.

Lemma sound_PBoolOp op vs : below (PBoolOp op vs) -> sound_at (PBoolOp op vs).
Proof.
  intros IH e He r fuel.
  assert (Hall : forall v, In v vs -> sound_at v).
  { intros v Hin. apply IH. rewrite psize_PBoolOp. pose proof (lsz_In vs v Hin). lia. }
  destruct op.
  - rewrite a2t_BAnd in He.
    destruct (seq_map (ast_to_tree true) vs) as [vs'| |] eqn:Hs; try discriminate.
    injection He as <-. cbn [eval eval_py].
    rewrite (seq_args_sound vs vs' Hall Hs). reflexivity.
  - destruct (a2t_BOr_cases true vs) as [(x & y & Hvs & Heq) | Heq]; rewrite Heq in He; clear Heq.
    + subst vs.
      assert (Hx : sound_at x) by (apply IH; cbn [psize]; lia).
      assert (Hy : sound_at y) by (apply IH; cbn [psize]; lia).
      destruct (ast_to_tree true x) as [x'| |] eqn:Hx'; try discriminate.
      destruct (ast_to_tree true y) as [y'| |] eqn:Hy'; try discriminate.
      injection He as <-.
      cbn [eval eval_py map or_results].
      rewrite (Hx x' Hx'), (Hy y' Hy').
      destruct (eval_py r x fuel) as [vx|]; [|reflexivity].
      cbn [truthy]. destruct (truthy vx); cbn [negb].
      * rewrite same_result. reflexivity.
      * reflexivity.
    + destruct (seq_map (ast_to_tree true) vs) as [vs'| |] eqn:Hs; try discriminate.
      injection He as <-. cbn [eval eval_py].
      rewrite (seq_args_sound vs vs' Hall Hs). reflexivity.
Qed.

Lemma sound_PJoinedStr ps : below (PJoinedStr ps) -> sound_at (PJoinedStr ps).
Proof.
  intros IH e He r fuel. cbn [ast_to_tree] in He.
  match type of He with
  | match ?sm with _ => _ end = _ => destruct sm as [ps'| |] eqn:Hs; try discriminate
  end.
  injection He as <-. cbn [eval eval_py]. f_equal.
  eapply seq_map_map; [exact Hs|].
  intros p q Hin Hp.
  destruct p as [s| |a conv has_spec|]; cbn beta iota in Hp; try discriminate.
  - injection Hp as <-. reflexivity.
  - destruct (conv =? -1); cbn [negb] in Hp; try discriminate.
    destruct has_spec; try discriminate.
    destruct (ast_to_tree true a) as [a'| |] eqn:Ha; try discriminate.
    injection Hp as <-. cbn [andb negb].
    apply (IH a); [|exact Ha].
    rewrite psize_PJoinedStr. pose proof (jsz_In ps a _ _ Hin). lia.
Qed.

(** ** Calls *)

Ltac head_scrut t :=
  match t with
  | match ?x with _ => _ end => head_scrut x
  | _ => t
  end.

Ltac step_in H :=
  match type of H with
  | (match ?y with _ => _ end) = _ => let x := head_scrut y in destruct x eqn:?
  | Ok (match ?y with _ => _ end) = _ => let x := head_scrut y in destruct x eqn:?
  end.

Lemma a2t_member_inv s f inst m :
  ast_to_tree s f = Ok (Member inst m) ->
  exists i, f = PAttribute i m /\ ast_to_tree s i = Ok inst.
Proof.
  intros H.
  destruct f as [op vs|op x|l rest|g args nkw|elt gens|v attr|v idx|id|c|parts|op l r0| |x];
    cbn [ast_to_tree] in H.
  6: { destruct (ast_to_tree s v) as [v'| |] eqn:Hv; try discriminate H.
       injection H as <- <-. exists v. split; [reflexivity | exact Hv]. }
  all: exfalso; try discriminate H.
  all: repeat (step_in H; try discriminate H).
Qed.

Lemma eval_py_call_name r id args fuel :
  is_any_all id = None ->
  eval_py r (PCall (PName id) args 0) fuel =
  match lookup id (vars r) with
  | None => Raise NameErr
  | Some fv =>
      match args_results (map (fun x => eval_py r x fuel) args) with
      | LRaise x => Raise x
      | LVal vs =>
          match fv with
          | VFun g => if text_eqb g (s2l "len") then py_len vs else fn_impl r g vs
          | VNone => Raise NoneDeref
          | _ => Raise TypeErr
          end
      end
  end.
Proof.
  intros Hid.
  destruct args as [|garg [|a2 args]]; try reflexivity.
  destruct garg; try reflexivity.
  cbn [eval_py]. rewrite Hid. reflexivity.
Qed.

Lemma eval_py_call_meth r i m args fuel :
  eval_py r (PCall (PAttribute i m) args 0) fuel =
  match eval_py r i fuel with
  | Raise x => Raise x
  | Val VNone => Raise NoneDeref
  | Val (VObj _ cls fs) =>
      match args_results (map (fun x => eval_py r x fuel) args) with
      | LRaise x => Raise x
      | LVal vs =>
          match lookup m fs with
          | Some VNone => Raise NoneDeref
          | Some _ => Raise TypeErr
          | None => meth_impl r cls fs m vs
          end
      end
  | Val _ => Raise AttrErr
  end.
Proof. reflexivity. Qed.

(** The items that a generator [for x in it] of a comprehension runs over. *)
Definition py_items (r : env) (fuel : nat) (it : pyast) : list value + exn :=
  let plain := gen_items fuel (ForEach (eval_py r it fuel)) in
  match it with
  | PCall rf rargs rkw =>
      match rf with
      | PName rg =>
          if is_range rg && Nat.eqb rkw 0 then
            match rargs with
            | [b] => gen_items fuel (ForRange (Val (VInt 0)) (eval_py r b fuel))
            | [a0; b] => gen_items fuel (ForRange (eval_py r a0 fuel) (eval_py r b fuel))
            | _ => inr Malformed
            end
          else plain
      | _ => plain
      end
  | _ => plain
  end.

Lemma flat_map_single {A B} (f : A -> B) l : flat_map (fun x => [f x]) l = map f l.
Proof. induction l as [|x l IHl]; [reflexivity|]. cbn. rewrite IHl. reflexivity. Qed.

Lemma eval_py_anyall r id is_all elt x it fuel :
  is_any_all id = Some is_all ->
  eval_py r (PCall (PName id) [PGeneratorExp elt [(PName x, it, [])]] 0) fuel =
  match py_items r fuel it with
  | inr ex => Raise ex
  | inl its =>
      let rs := map (fun item => eval_py (bind_var x item r) elt fuel) its in
      if is_all then all_results rs else any_results rs
  end.
Proof.
  intros Hid. cbn [eval_py]. rewrite Hid.
  fold (py_items r fuel it).
  destruct (py_items r fuel it) as [its|ex].
  - cbn [map filters_pass]. rewrite flat_map_single. reflexivity.
  - destruct is_all; reflexivity.
Qed.

Lemma a2t_call_other s f args nkw :
  (forall id, f <> PName id) ->
  ast_to_tree s (PCall f args nkw) =
  match seq_map (ast_to_tree s) args with
  | Err e => Err e | Crash k => Crash k
  | Ok args' =>
      match nkw with
      | S _ => err
      | O =>
          match ast_to_tree s f with
          | Err e => Err e | Crash k => Crash k
          | Ok f' =>
              match f' with
              | Member inst m => Ok (MethodCall inst m args')
              | _ => Crash AssertionError
              end
          end
      end
  end.
Proof.
  intros Hf. destruct f; try reflexivity. exfalso. apply (Hf id). reflexivity.
Qed.

Lemma quant_results_ext (is_all : bool) (f g : value -> pyresult) its :
  (forall item, f item = g item) ->
  (if is_all then all_results (map f its) else any_results (map f its)) =
  (let rs := map g its in if is_all then all_results rs else any_results rs).
Proof.
  intros Hfg. cbv zeta. rewrite (map_ext f g Hfg). reflexivity.
Qed.

Lemma foreach_sound it x elt cond (is_all : bool) e ait :
  ait = ast_to_tree true it -> sound_at it -> sound_at elt ->
  ast_to_tree true elt = Ok cond ->
  match ait with
  | Ok it' => Ok (if is_all then All x (ForEach it') cond else Any x (ForEach it') cond)
  | Err e0 => Err e0 | Crash k => Crash k
  end = Ok e ->
  forall r fuel,
    eval r e fuel =
    match gen_items fuel (ForEach (eval_py r it fuel)) with
    | inr ex => Raise ex
    | inl its =>
        let rs := map (fun item => eval_py (bind_var x item r) elt fuel) its in
        if is_all then all_results rs else any_results rs
    end.
Proof.
  intros Hait Hit Helt Hcond He r fuel.
  destruct ait as [it'| |]; try discriminate. injection He as <-. symmetry in Hait.
  pose proof (Hit it' Hait r fuel) as Hi.
  destruct is_all; cbn [eval]; rewrite Hi;
    (destruct (gen_items fuel (ForEach (eval_py r it fuel))) as [its|ex]; [|reflexivity]).
  - apply (quant_results_ext true). intros item. apply (Helt cond Hcond).
  - apply (quant_results_ext false). intros item. apply (Helt cond Hcond).
Qed.

Lemma sound_PCall f args nkw : below (PCall f args nkw) -> sound_at (PCall f args nkw).
Proof.
  intros IH e He r fuel.
  assert (Hall : forall v, In v args -> sound_at v).
  { intros v Hin. apply IH. rewrite psize_PCall. pose proof (lsz_In args v Hin). lia. }
  assert (Hf : (exists id, f = PName id) \/ (forall id, f <> PName id)).
  { destruct f; try (right; intros; discriminate). left. eexists. reflexivity. }
  destruct Hf as [[id Hf] | Hf].
  - (* a name *)
    subst f. cbn [ast_to_tree] in He.
    destruct (is_any_all id) as [is_all|] eqn:Hid.
    + destruct nkw; try discriminate.
      destruct args as [|garg [|a2 args]]; try discriminate.
      destruct garg as [ | | | |elt gens| | | | | | | | ]; try discriminate.
      destruct (ast_to_tree true elt) as [cond| |] eqn:Hcond; try discriminate.
      destruct gens as [|[[tgt it] ifs] [|g2 gens]]; try discriminate.
      cbn [fst snd] in He.
      destruct tgt as [ | | | | | | |x| | | | | ]; try discriminate.
      destruct ifs as [|c ifs]; cbn [no_filters negb andb] in He; try discriminate.
      rewrite (eval_py_anyall r id is_all elt x it fuel Hid).
      assert (Helt : sound_at elt) by (apply IH; cbn [psize]; lia).
      assert (Hit : sound_at it) by (apply IH; cbn [psize]; lia).
      clear Hall.
      remember (ast_to_tree true it) as ait eqn:Hait.
      destruct it as [op vs|op y|l rest|rf rargs rkw|elt2 gens|v attr|v idx|id2|c|parts|op l r0| |y];
        try (cbn [py_items];
             apply (foreach_sound _ x elt cond is_all e ait Hait Hit Helt Hcond He)).
      destruct rf as [op vs|op y|l rest|rf2 rargs2 rkw2|elt2 gens|v attr|v idx|rg|c|parts|op l r0| |y];
        try (cbn [py_items];
             apply (foreach_sound _ x elt cond is_all e ait Hait Hit Helt Hcond He)).
      destruct (is_range rg) eqn:Hrg.
      * destruct rargs as [|a0 [|b [|c rargs]]]; try discriminate.
        destruct rkw; try discriminate.
        assert (Ha0 : sound_at a0) by (apply IH; cbn [psize]; lia).
        assert (Hb : sound_at b) by (apply IH; cbn [psize]; lia).
        destruct (ast_to_tree true a0) as [a0'| |] eqn:Ha0'; try discriminate.
        destruct (ast_to_tree true b) as [b'| |] eqn:Hb'; try discriminate.
        injection He as <-.
        cbn [py_items]. rewrite Hrg. cbn [andb Nat.eqb].
        destruct is_all; cbn [eval]; rewrite (Ha0 a0' Ha0'), (Hb b' Hb');
          (destruct (gen_items fuel (ForRange (eval_py r a0 fuel) (eval_py r b fuel)))
             as [its|ex]; [|reflexivity]).
        -- apply (quant_results_ext true). intros item. apply (Helt cond Hcond).
        -- apply (quant_results_ext false). intros item. apply (Helt cond Hcond).
      * cbn [py_items]. rewrite Hrg. cbn [andb].
        apply (foreach_sound _ x elt cond is_all e ait Hait Hit Helt Hcond He).
    + destruct (seq_map (ast_to_tree true) args) as [args'| |] eqn:Hs; try discriminate.
      destruct nkw; try discriminate. injection He as <-.
      rewrite (eval_py_call_name r id args fuel Hid). cbn [eval].
      rewrite (seq_args_sound args args' Hall Hs). reflexivity.
  - (* not a name: a method call *)
    rewrite (a2t_call_other true f args nkw Hf) in He.
    destruct (seq_map (ast_to_tree true) args) as [args'| |] eqn:Hs; try discriminate.
    destruct nkw; try discriminate.
    destruct (ast_to_tree true f) as [f'| |] eqn:Hf'; try discriminate.
    destruct f'; try discriminate.
    injection He as <-.
    destruct (a2t_member_inv true f f' name Hf') as (i & -> & Hi).
    rewrite eval_py_call_meth. cbn [eval].
    rewrite (IH i ltac:(cbn [psize]; lia) f' Hi).
    rewrite (seq_args_sound args args' Hall Hs). reflexivity.
Qed.

(** ** The main theorem *)

Lemma sound_by_size : forall n a, (psize a < n)%nat -> sound_at a.
Proof.
  induction n as [|n IHn]; intros a Hn; [lia|].
  assert (IH : below a) by (intros b Hb; apply IHn; lia).
  destruct a.
  - apply sound_PBoolOp; exact IH.
  - apply sound_PUnaryOp; exact IH.
  - apply sound_PCompare; exact IH.
  - apply sound_PCall; exact IH.
  - intros e He; discriminate He.
  - apply sound_PAttribute; exact IH.
  - apply sound_PSubscript; exact IH.
  - apply sound_PName.
  - apply sound_PConstant.
  - apply sound_PJoinedStr; exact IH.
  - apply sound_PBinOp; exact IH.
  - intros e He; discriminate He.
  - intros e He; discriminate He.
Qed.

(** The repaired rules translate every accepted Python expression into a tree with the same
    Python value / exception in every environment. *)
Theorem ast_rules_sound :
  forall a e, ast_to_tree true a = Ok e ->
  forall r fuel, eval r e fuel = eval_py r a fuel.
Proof.
  intros a. exact (sound_by_size (S (psize a)) a (Nat.lt_succ_diag_r _)).
Qed.

(** Non-vacuity: [not a or all(x < 3 for x in range(0, n))] is accepted, and the theorem
    speaks about a real evaluation. *)
Definition nv_ast : pyast :=
  PBoolOp BOr
    [PUnaryOp UNot (PName (s2l "a"));
     PCall (PName (s2l "all"))
       [PGeneratorExp
          (PCompare (PName (s2l "x")) [(CLt, PConstant (KInt 3))])
          [(PName (s2l "x"),
            PCall (PName (s2l "range")) [PConstant (KInt 0); PName (s2l "n")] 0%nat,
            [])]] 0%nat].

Definition nv_env (n : Z) : env :=
  mkEnv [(s2l "a", VBool true); (s2l "n", VInt n)]
        (fun _ _ => Raise NameErr) (fun _ _ _ _ => Raise NameErr) (fun _ => []).

Example ast_rules_sound_nonvacuous :
  ast_to_tree true nv_ast =
  Ok (Implication (Name (s2l "a"))
        (All (s2l "x") (ForRange (Constant (CInt 0)) (Name (s2l "n")))
           (Comparison Lt (Name (s2l "x")) (Constant (CInt 3))))) /\
  eval_py (nv_env 3) nv_ast 10%nat = Val (VBool true) /\
  eval_py (nv_env 5) nv_ast 10%nat = Val (VBool false).
Proof. vm_compute. repeat split; reflexivity. Qed.

(** ** The rules as found drop the filters of a comprehension *)

(** [all(x > 0 for x in xs if x != -1)] with [xs = [-1]]: Python skips the only item and
    answers [True]; the tree built by the unpatched rules, [all(x > 0 for x in xs)],
    evaluates to [False]. *)
Definition cx_ast : pyast :=
  PCall (PName (s2l "all"))
    [PGeneratorExp
       (PCompare (PName (s2l "x")) [(CGt, PConstant (KInt 0))])
       [(PName (s2l "x"), PName (s2l "xs"),
         [PCompare (PName (s2l "x")) [(CNe, PConstant (KInt (-1)))]])]] 0%nat.

Definition cx_env : env :=
  mkEnv [(s2l "xs", VList [VInt (-1)])]
        (fun _ _ => Raise NameErr) (fun _ _ _ _ => Raise NameErr) (fun _ => []).

Theorem ast_rules_unpatched_refuted :
  exists a e r fuel, ast_to_tree false a = Ok e /\ eval r e fuel <> eval_py r a fuel.
Proof.
  exists cx_ast,
    (All (s2l "x") (ForEach (Name (s2l "xs")))
       (Comparison Gt (Name (s2l "x")) (Constant (CInt 0)))),
    cx_env, 5%nat.
  split.
  - vm_compute. reflexivity.
  - vm_compute. discriminate.
Qed.

Example cx_values :
  eval_py cx_env cx_ast 5%nat = Val (VBool true) /\
  ast_to_tree true cx_ast = Err tt.
Proof. vm_compute. split; reflexivity. Qed.

(** A filtered comprehension is never accepted by the repaired rules. *)
Theorem ast_rules_strict_rejects_filters :
  forall id elt tgt it c ifs nkw e,
    is_any_all id <> None ->
    ast_to_tree true (PCall (PName id) [PGeneratorExp elt [(tgt, it, c :: ifs)]] nkw) <> Ok e.
Proof.
  intros id elt tgt it c ifs nkw e Hid He.
  cbn [ast_to_tree] in He.
  destruct (is_any_all id) as [is_all|]; [|apply Hid; reflexivity].
  destruct nkw; try discriminate He.
  destruct (ast_to_tree true elt) as [cond| |]; try discriminate He.
  cbn [fst snd no_filters negb andb] in He.
  destruct tgt; discriminate He.
Qed.

(** ** Whatever the repaired rules accept, the rules as found accept with the same tree *)

Definition agree_at (a : pyast) : Prop :=
  forall e, ast_to_tree true a = Ok e -> ast_to_tree false a = Ok e.

Definition agree_below (a : pyast) : Prop :=
  forall b, (psize b < psize a)%nat -> agree_at b.

Lemma seq_map_agree {A B} (f g : A -> outcome B unit) :
  forall l ys,
    seq_map f l = Ok ys ->
    (forall x y, In x l -> f x = Ok y -> g x = Ok y) ->
    seq_map g l = Ok ys.
Proof.
  induction l as [|x l IHl]; intros ys Hs Hall.
  - exact Hs.
  - cbn [seq_map] in Hs |- *. fold (seq_map f) in Hs. fold (seq_map g).
    destruct (f x) as [y| |] eqn:Hfx; try discriminate.
    destruct (seq_map f l) as [ys'| |] eqn:Hl; try discriminate.
    rewrite (Hall x y (or_introl eq_refl) Hfx).
    rewrite (IHl ys' eq_refl (fun x0 y0 Hin Hf => Hall x0 y0 (or_intror Hin) Hf)).
    exact Hs.
Qed.

Ltac agree_auto IH He :=
  repeat (step_in He; try discriminate He; cbv beta iota in He |- *;
          repeat match goal with p : prod _ _ |- _ => destruct p end;
          cbn [fst snd] in *;
          try match goal with
              | E : ast_to_tree true ?x = Ok ?y |- _ =>
                  rewrite (IH x ltac:(cbn [psize]; lia) y E); clear E
              end;
          cbv beta iota in He |- *);
  try exact He.

Lemma agree_simple a :
  match a with PBoolOp _ _ | PCall _ _ _ | PJoinedStr _ => False | _ => True end ->
  agree_below a -> agree_at a.
Proof.
  intros Hshape IH e He.
  destruct a; try contradiction; cbn [ast_to_tree] in He |- *; try discriminate He.
  all: agree_auto IH He.
Qed.

Lemma seq_args_agree vs vs' :
  (forall v, In v vs -> agree_at v) ->
  seq_map (ast_to_tree true) vs = Ok vs' ->
  seq_map (ast_to_tree false) vs = Ok vs'.
Proof.
  intros Hall Hs. apply (seq_map_agree (ast_to_tree true) (ast_to_tree false) vs vs' Hs).
  intros x y Hin Hx. apply (Hall x Hin y Hx).
Qed.

Lemma a2t_BOr_shape vs :
  (exists x y, vs = [PUnaryOp UNot x; y]) \/
  (forall s, ast_to_tree s (PBoolOp BOr vs) =
             match seq_map (ast_to_tree s) vs with
             | Ok vs' => Ok (Or vs')
             | Err e => Err e | Crash k => Crash k
             end).
Proof.
  destruct vs as [|v1 [|y [|z vs]]]; try (right; reflexivity).
  destruct v1; try (right; reflexivity).
  destruct op; try (right; reflexivity).
  left. exists v1, y. reflexivity.
Qed.

Lemma agree_PBoolOp op vs : agree_below (PBoolOp op vs) -> agree_at (PBoolOp op vs).
Proof.
  intros IH e He.
  assert (Hall : forall v, In v vs -> agree_at v).
  { intros v Hin. apply IH. rewrite psize_PBoolOp. pose proof (lsz_In vs v Hin). lia. }
  destruct op.
  - rewrite a2t_BAnd in He |- *.
    destruct (seq_map (ast_to_tree true) vs) as [vs'| |] eqn:Hs; try discriminate.
    rewrite (seq_args_agree vs vs' Hall Hs). exact He.
  - destruct (a2t_BOr_shape vs) as [(x & y & Hvs) | Heq].
    + subst vs. cbn [ast_to_tree] in He |- *.
      destruct (ast_to_tree true x) as [x'| |] eqn:Hx'; try discriminate.
      destruct (ast_to_tree true y) as [y'| |] eqn:Hy'; try discriminate.
      rewrite (IH x ltac:(cbn [psize]; lia) x' Hx'), (IH y ltac:(cbn [psize]; lia) y' Hy').
      exact He.
    + rewrite Heq in He |- *.
      destruct (seq_map (ast_to_tree true) vs) as [vs'| |] eqn:Hs; try discriminate.
      rewrite (seq_args_agree vs vs' Hall Hs). exact He.
Qed.

Lemma agree_PJoinedStr ps : agree_below (PJoinedStr ps) -> agree_at (PJoinedStr ps).
Proof.
  intros IH e He. cbn [ast_to_tree] in He |- *.
  match type of He with
  | match ?sm with _ => _ end = _ => destruct sm as [ps'| |] eqn:Hs; try discriminate
  end.
  erewrite seq_map_agree; [exact He | exact Hs |].
  intros p q Hin Hp.
  destruct p as [s| |a conv has_spec|]; cbv beta iota in Hp |- *; try discriminate; try exact Hp.
  destruct (negb (conv =? -1)); try discriminate.
  destruct has_spec; try discriminate.
  destruct (ast_to_tree true a) as [a'| |] eqn:Ha; try discriminate.
  assert (Hsz : (psize a < psize (PJoinedStr ps))%nat).
  { rewrite psize_PJoinedStr. pose proof (jsz_In ps a _ _ Hin). lia. }
  rewrite (IH a Hsz a' Ha). exact Hp.
Qed.

Lemma agree_PCall f args nkw : agree_below (PCall f args nkw) -> agree_at (PCall f args nkw).
Proof.
  intros IH e He.
  assert (Hall : forall v, In v args -> agree_at v).
  { intros v Hin. apply IH. rewrite psize_PCall. pose proof (lsz_In args v Hin). lia. }
  assert (Hf : (exists id, f = PName id) \/ (forall id, f <> PName id)).
  { destruct f; try (right; intros; discriminate). left. eexists. reflexivity. }
  destruct Hf as [[id Hf] | Hf].
  - subst f. cbn [ast_to_tree] in He |- *.
    destruct (is_any_all id) as [is_all|] eqn:Hid.
    + clear Hall. cbn [andb] in He |- *.
      agree_auto IH He.
    + destruct (seq_map (ast_to_tree true) args) as [args'| |] eqn:Hs; try discriminate.
      rewrite (seq_args_agree args args' Hall Hs). exact He.
  - rewrite (a2t_call_other true f args nkw Hf) in He.
    rewrite (a2t_call_other false f args nkw Hf).
    destruct (seq_map (ast_to_tree true) args) as [args'| |] eqn:Hs; try discriminate.
    rewrite (seq_args_agree args args' Hall Hs).
    destruct nkw; try discriminate.
    destruct (ast_to_tree true f) as [f'| |] eqn:Hf'; try discriminate.
    rewrite (IH f ltac:(cbn [psize]; lia) f' Hf'). exact He.
Qed.

Lemma agree_by_size : forall n a, (psize a < n)%nat -> agree_at a.
Proof.
  induction n as [|n IHn]; intros a Hn; [lia|].
  assert (IH : agree_below a) by (intros b Hb; apply IHn; lia).
  destruct a.
  1: apply agree_PBoolOp; exact IH.
  3: apply agree_PCall; exact IH.
  8: apply agree_PJoinedStr; exact IH.
  all: apply agree_simple; [exact I | exact IH].
Qed.

Theorem ast_to_tree_strict_agrees :
  forall a e, ast_to_tree true a = Ok e -> ast_to_tree false a = Ok e.
Proof.
  intros a. exact (agree_by_size (S (psize a)) a (Nat.lt_succ_diag_r _)).
Qed.
