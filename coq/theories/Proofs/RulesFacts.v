(** C06 — per-rule reflection lemmas and [rulesb_spec : rulesb r m = true <-> Rules r m]. *)
From Coq Require Import List NArith Bool Lia.
From Acg Require Import Base.Str Model.Rules Proofs.RulesBase Proofs.RulesTopo.
Import ListNotations.
Open Scope N_scope.

(** ** Reserved names *)

Lemma reserved_typeb_spec : forall r n, reserved_typeb r n = true <-> ReservedType r n.
Proof.
  intros r n. unfold reserved_typeb, ReservedType. apply rb_orb.
  - apply rb_mem_text_In.
  - apply rb_existsb. intros; reflexivity.
Qed.

Lemma reserved_propb_spec : forall r n, reserved_propb r n = true <-> ReservedProp r n.
Proof.
  intros r n. unfold reserved_propb, ReservedProp. apply rb_orb.
  - apply rb_mem_text_In.
  - apply rb_existsb. intros; reflexivity.
Qed.

Lemma reserved_methodb_spec : forall r n, reserved_methodb r n = true <-> ReservedMethod r n.
Proof.
  intros r n. unfold reserved_methodb, ReservedMethod.
  rewrite orb_true_iff, orb_true_iff, andb_true_iff, rb_mem_text_In.
  rewrite (rb_existsb _ (fun p => starts_with p (lower n) = true)) by (intros; reflexivity).
  rewrite (rb_existsb _ (fun s => ends_with s (lower n) = true)) by (intros; reflexivity).
  tauto.
Qed.

Lemma reserved_globalb_spec : forall r n, reserved_globalb r n = true <-> ReservedGlobal r n.
Proof.
  intros r n. unfold reserved_globalb, ReservedGlobal. apply rb_orb; apply rb_mem_text_In.
Qed.

(** ** Names *)

Lemma types_uniqueb_spec : forall m, types_uniqueb m = true <-> R_types_unique m.
Proof. intro m. apply rb_nodupb_spec. Qed.

Lemma types_freeb_spec : forall r m, types_freeb r m = true <-> R_types_free r m.
Proof.
  intros r m. unfold types_freeb, R_types_free. apply rb_forallb. intros n _.
  apply rb_negb. apply reserved_typeb_spec.
Qed.

Lemma members_uniqueb_spec : forall m, members_uniqueb m = true <-> R_members_unique m.
Proof.
  intro m. unfold members_uniqueb, R_members_unique. apply rb_andb.
  - apply rb_forallb. intros c _. apply rb_andb; apply rb_nodupb_spec.
  - apply rb_forallb. intros e _. apply rb_nodupb_spec.
Qed.

Lemma members_freeb_spec : forall r m, members_freeb r m = true <-> R_members_free r m.
Proof.
  intros r m. unfold members_freeb, R_members_free. apply rb_forallb. intros c _. apply rb_andb.
  - apply rb_forallb. intros p _. apply rb_negb. apply reserved_propb_spec.
  - apply rb_forallb. intros f _. apply rb_negb. apply reserved_methodb_spec.
Qed.

Lemma consts_uniqueb_spec : forall m, consts_uniqueb m = true <-> R_consts_unique m.
Proof. intro m. apply rb_nodupb_spec. Qed.

Lemma funs_uniqueb_spec : forall m, funs_uniqueb m = true <-> R_funs_unique m.
Proof. intro m. apply rb_nodupb_spec. Qed.

Lemma consts_freeb_spec : forall r m, consts_freeb r m = true <-> R_consts_free r m.
Proof.
  intros r m. unfold consts_freeb, R_consts_free. apply rb_forallb. intros n _.
  apply rb_negb. apply reserved_globalb_spec.
Qed.

Lemma funs_freeb_spec : forall r m, funs_freeb r m = true <-> R_funs_free r m.
Proof.
  intros r m. unfold funs_freeb, R_funs_free. apply rb_forallb. intros n _.
  apply rb_negb. apply reserved_globalb_spec.
Qed.

(** ** Inheritance *)

Lemma bases_existb_spec : forall m, bases_existb m = true <-> R_bases_exist m.
Proof.
  intro m. unfold bases_existb, R_bases_exist. apply rb_andb.
  - apply rb_forallb. intros c _. apply rb_forallb. intros b _. apply rb_mem_text_In.
  - apply rb_forallb. intros c _. apply rb_forallb. intros b _. apply rb_mem_text_In.
Qed.

Lemma node_names_split : forall m, node_names m = cprim_names m ++ class_names m.
Proof.
  intro m. unfold node_names, nodes, cprim_names, class_names.
  rewrite map_app, !map_map. reflexivity.
Qed.

Lemma nodes_bases_exist : forall m, R_bases_exist m ->
  forall nd, In nd (nodes m) -> forall b, In b (n_bases nd) -> In b (map n_name (nodes m)).
Proof.
  intros m [Hc Hp] nd Hnd b Hb. fold (node_names m). rewrite node_names_split.
  unfold nodes in Hnd. apply in_app_or in Hnd. destruct Hnd as [Hnd|Hnd];
    apply in_map_iff in Hnd; destruct Hnd as [c [<- Hin]]; cbn in Hb; apply in_or_app.
  - left. eapply Hp; eauto.
  - right. eapply Hc; eauto.
Qed.

Lemma acyclicb_spec : forall m,
  R_types_unique m -> R_bases_exist m -> (acyclicb m = true <-> R_acyclic m).
Proof.
  intros m Hu Hb.
  assert (Hnd : NoDup (map n_name (nodes m))).
  { unfold R_types_unique, type_names in Hu. apply rb_nodup_app_r in Hu. exact Hu. }
  pose proof (topo_decides (nodes m) Hnd) as [Hs Hc].
  unfold acyclicb, topo_of, R_acyclic, node_names. split.
  - intro H. destruct (topo (length (nodes m)) [] (nodes m)) as [t|] eqn:E; [|discriminate].
    destruct (Hs (ex_intro _ t eq_refl)) as [_ Hg].
    intros n Hn. apply in_map_iff in Hn. destruct Hn as [nd [<- Hin]]. apply Hg. exact Hin.
  - intro H. destruct Hc as [t Ht].
    + split; [apply nodes_bases_exist; exact Hb|].
      intros nd Hin. apply H. apply in_map. exact Hin.
    + rewrite Ht. reflexivity.
Qed.

Lemma no_redeclareb_spec : forall m, no_redeclareb m = true <-> R_no_redeclare m.
Proof.
  intro m. unfold no_redeclareb, R_no_redeclare. apply rb_forallb. intros c _. apply rb_andb.
  - apply rb_forallb. intros p _. apply rb_negb. apply rb_mem_text_In.
  - apply rb_forallb. intros f _. apply rb_negb. apply rb_mem_text_In.
Qed.

(** ** Constructors *)

Lemma subseq_drop_head : forall x l m, Subseq (x :: l) m -> Subseq l m.
Proof.
  intros x l m H. remember (x :: l) as xl eqn:E. revert x l E.
  induction H as [m|y l' m' H IH|y l' m' H IH]; intros x l E.
  - discriminate.
  - injection E as -> ->. apply SubSkip. exact H.
  - apply SubSkip. eapply IH. exact E.
Qed.

Lemma subseqb_spec : forall l m, subseqb l m = true <-> Subseq l m.
Proof.
  intros l m. revert l. induction m as [|y m IH]; intro l.
  - destruct l as [|x l]; cbn [subseqb]; split; intro H; try constructor; try discriminate.
    inversion H.
  - destruct l as [|x l]; cbn [subseqb].
    + split; [constructor | reflexivity].
    + destruct (text_eqb x y) eqn:E.
      * apply rb_text_eqb_eq in E. subst y. rewrite IH. split; intro H.
        -- apply SubTake. exact H.
        -- inversion H as [| ? ? ? H' | ? ? ? H']; subst; [exact H' | eapply subseq_drop_head; exact H'].
      * rewrite IH. split; intro H.
        -- apply SubSkip. exact H.
        -- inversion H as [| ? ? ? H' | ? ? ? H']; subst; [|exact H'].
           rewrite rb_text_eqb_refl in E. discriminate.
Qed.

Lemma same_namesb_spec : forall l1 l2,
  same_namesb l1 l2 = true <-> (forall n, In n l1 <-> In n l2).
Proof.
  intros l1 l2. unfold same_namesb. rewrite andb_true_iff, !forallb_forall. split.
  - intros [H1 H2] n. split; intro H; apply rb_mem_text_In; auto.
  - intro H. split; intros n Hn; apply rb_mem_text_In; apply H; exact Hn.
Qed.

Lemma is_opt_spec : forall t, is_opt t = true <-> exists v, t = TOpt v.
Proof.
  intro t. destruct t; cbn; split; intro H; try discriminate; try (destruct H as [v H]; discriminate).
  - eexists; reflexivity.
  - reflexivity.
Qed.

Lemma ctor_okb_spec : forall sp ctor, ctor_okb sp ctor = true <-> CtorOk sp ctor.
Proof.
  intros sp [args|]; cbn [ctor_okb CtorOk].
  2:{ destruct sp; split; intro H; try reflexivity; discriminate. }
  rewrite !andb_true_iff, same_namesb_spec, !subseqb_spec.
  assert (Hty : forallb (fun a => forallb (fun p => negb (text_eqb (a_name a) (p_name p))
                                             || ty_eqb (a_ty a) (p_ty p)) sp) args = true
                <-> (forall a p, In a args -> In p sp -> a_name a = p_name p -> a_ty a = p_ty p)).
  { rewrite forallb_forall. split.
    - intros H a p Ha Hp Hn. specialize (H a Ha). rewrite forallb_forall in H. specialize (H p Hp).
      apply orb_true_iff in H. destruct H as [H|H].
      + apply negb_true_iff in H. rewrite Hn, rb_text_eqb_refl in H. discriminate.
      + apply rb_ty_eqb_eq. exact H.
    - intros H a Ha. rewrite forallb_forall. intros p Hp.
      destruct (text_eqb (a_name a) (p_name p)) eqn:E; cbn [negb orb]; [|reflexivity].
      apply rb_ty_eqb_eq. apply H; auto. apply rb_text_eqb_eq. exact E. }
  assert (Hopt : forallb (fun a => negb (is_opt (a_ty a))
                           || match a_dflt a with DefaultNone => true | _ => false end) args = true
                 <-> (forall a v, In a args -> a_ty a = TOpt v -> a_dflt a = DefaultNone)).
  { rewrite forallb_forall. split.
    - intros H a v Ha Hv. specialize (H a Ha). rewrite Hv in H. cbn in H.
      destruct (a_dflt a); try discriminate. reflexivity.
    - intros H a Ha. destruct (a_ty a) eqn:E; cbn; try reflexivity.
      rewrite (H a t Ha E). reflexivity. }
  rewrite Hty, Hopt. tauto.
Qed.

Lemma ctorb_spec : forall m, ctorb m = true <-> R_ctor m.
Proof.
  intro m. unfold ctorb, R_ctor. apply rb_forallb. intros c _. apply ctor_okb_spec.
Qed.

(** ** Type shapes *)

Lemma shapeb_spec : forall t, shapeb t = true <-> ShapeOk t.
Proof.
  induction t as [p|n|u IH|u IH]; cbn [shapeb].
  - split; [constructor | reflexivity].
  - split; [constructor | reflexivity].
  - rewrite andb_true_iff, negb_true_iff, IH. split.
    + intros [H1 H2]. constructor; [|exact H2]. intros v ->. discriminate.
    + intro H. inversion H as [| | ? Hn Hs | ]; subst. split; [|exact Hs].
      destruct u; try reflexivity. exfalso. eapply Hn. reflexivity.
  - rewrite andb_true_iff, negb_true_iff, IH. split.
    + intros [H1 H2]. constructor; [|exact H2]. intros v ->. discriminate.
    + intro H. inversion H as [| | | ? Hn Hs]; subst. split; [|exact Hs].
      destruct u; try reflexivity. exfalso. eapply Hn. reflexivity.
Qed.

Lemma shapesb_spec : forall m, shapesb m = true <-> R_shapes m.
Proof.
  intro m. unfold shapesb, R_shapes. apply rb_forallb. intros c _. apply rb_forallb. intros p _.
  apply shapeb_spec.
Qed.

(** ** Invariant descriptions, references, patterns *)

Lemma invs_uniqueb_spec : forall m, invs_uniqueb m = true <-> R_invs_unique m.
Proof.
  intro m. unfold invs_uniqueb, R_invs_unique. apply rb_forallb. intros n _. apply rb_nodupb_spec.
Qed.

Lemma resolvableb_spec : forall m d, resolvableb m d = true <-> Resolvable m d.
Proof.
  intros m d. destruct d as [n|[o|] a|n|n [sig|]|i]; cbn [resolvableb Resolvable];
    try apply rb_mem_text_In; try (split; [discriminate | tauto]).
  apply rb_orb.
  - rewrite existsb_exists. split.
    + intros [e [He H]]. apply andb_true_iff in H. destruct H as [H1 H2].
      exists e. split; [exact He|]. split; [apply rb_text_eqb_eq; exact H1 | apply rb_mem_text_In; exact H2].
    + intros [e [He [H1 H2]]]. exists e. split; [exact He|]. apply andb_true_iff.
      split; [apply rb_text_eqb_eq; exact H1 | apply rb_mem_text_In; exact H2].
  - apply rb_andb; apply rb_mem_text_In.
Qed.

Lemma refsb_spec : forall m, refsb m = true <-> R_refs m.
Proof.
  intro m. unfold refsb, R_refs. apply rb_forallb. intros d _. apply resolvableb_spec.
Qed.

Lemma pattern_okb_spec : forall p, pattern_okb p = true <-> PatternOk p.
Proof.
  intro p. unfold pattern_okb, PatternOk. destruct p as [|c p].
  - split; [discriminate | intros [H _]; exfalso; apply H; reflexivity].
  - rewrite andb_true_iff. cbn [hd_error]. destruct (rev (c :: p)) as [|d q] eqn:E.
    + split; [intros [_ H]; discriminate | intros [_ [_ [q [H _]]]]; discriminate].
    + rewrite andb_true_iff, !N.eqb_eq. split.
      * intros [-> [-> He]]. split; [discriminate | split; [reflexivity|]].
        exists q. split; [reflexivity | exact He].
      * intros [_ [H1 [q' [H2 He]]]]. injection H1 as ->. injection H2 as -> ->.
        split; [reflexivity | split; [reflexivity | exact He]].
Qed.

Lemma patternsb_spec : forall m, patternsb m = true <-> R_patterns m.
Proof.
  intro m. unfold patternsb, R_patterns. rewrite forallb_forall. split.
  - intros H f p Hf Hp. specialize (H f Hf). rewrite Hp in H. apply pattern_okb_spec. exact H.
  - intros H f Hf. destruct (f_pattern f) as [p|] eqn:E; [|reflexivity].
    apply pattern_okb_spec. eapply H; eauto.
Qed.

Lemma stacked_uniqueb_spec : forall m, stacked_uniqueb m = true <-> R_stacked_unique m.
Proof.
  intro m. unfold stacked_uniqueb, R_stacked_unique. apply rb_forallb. intros c _.
  apply rb_andb; apply rb_nodupb_spec.
Qed.

Lemma toplevel_uniqueb_spec : forall m, toplevel_uniqueb m = true <-> R_toplevel_unique m.
Proof. intro m. apply rb_nodupb_spec. Qed.

(** * The reference checker decides the rules *)

Theorem rulesb_spec : forall r m, rulesb r m = true <-> Rules r m.
Proof.
  intros r m. unfold rulesb, Rules.
  apply rb_and_dep; [apply types_uniqueb_spec | intro Hu].
  apply rb_and_dep; [apply bases_existb_spec | intro Hb].
  apply rb_and; [apply acyclicb_spec; assumption |].
  apply rb_and; [apply types_freeb_spec |].
  apply rb_and; [apply members_uniqueb_spec |].
  apply rb_and; [apply members_freeb_spec |].
  apply rb_and; [apply consts_uniqueb_spec |].
  apply rb_and; [apply consts_freeb_spec |].
  apply rb_and; [apply funs_uniqueb_spec |].
  apply rb_and; [apply funs_freeb_spec |].
  apply rb_and; [apply no_redeclareb_spec |].
  apply rb_and; [apply ctorb_spec |].
  apply rb_and; [apply shapesb_spec |].
  apply rb_and; [apply invs_uniqueb_spec |].
  apply rb_and; [apply refsb_spec |].
  apply rb_and; [apply patternsb_spec |].
  apply rb_and; [apply stacked_uniqueb_spec | apply toplevel_uniqueb_spec].
Qed.

(** Consequences used in Props/C06.v. *)
Corollary rules_no_cycle : forall r m, Rules r m ->
  forall n, In n (node_names m) ->
  ~ Relation_Operators.clos_trans text (fun a b => In (a, b) (edges (nodes m))) n n.
Proof.
  intros r m H n Hn. apply grounded_no_cycle. destruct H as [_ [_ [Ha _]]]. apply Ha. exact Hn.
Qed.
