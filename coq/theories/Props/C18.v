(** C18 — Regex virtual-machine programs match like the pattern.

    Models: [Model/RevmTree.v] (regex AST of the real parser + matching semantics),
    [Model/Revm.v] (intermediate/revm.py: translator with label counter, relabelling,
    no-op removal), [Model/RevmComp.v] (label-free compilation), [Model/RevmVM.v]
    (instruction semantics; the generated C++ [Match] loop on fuel).
    This file contains only statements, [exact]s / [vm_compute]s and [Print Assumptions]. *)
From Coq Require Import List NArith Bool Arith.
From Coq Require Strings.String.
Import Coq.Strings.String.StringSyntax.
From Acg Require Import Base.Outcome Base.Str Model.RevmTree Model.Revm Model.RevmVM
  Model.RevmComp Proofs.RevmFrag Proofs.RevmCompCorrect Proofs.RevmTop Proofs.RevmTargets.
Import ListNotations.
Open Scope N_scope.

(** ** sample trees (as printed by the harness from the real parser) *)
Definition star (v : value) : term := Term v (Some (mkQ false 0%nat None)).
Definition lit (c : N) : term := Term (VChar c) None.
Definition anchored_of (mid : list term) : regex :=
  UCons (concat_of_terms (t_start :: mid ++ [t_end])) UNil.

(** the pattern  ^ ( a-star )-star $  *)
Definition t_star_star : regex :=
  anchored_of [star (VGroup (UCons (CCons (star (VChar 97)) CNil) UNil))].
(** the pattern ^(ab|c)+[^x-z]{2,3}. * $ , here with the . * $ shortcut *)
Definition t_mixed : regex :=
  anchored_of
    [Term (VGroup (UCons (CCons (lit 97) (CCons (lit 98) CNil))
                  (UCons (CCons (lit 99) CNil) UNil)))
          (Some (mkQ false 1%nat None));
     Term (VSet true [(120, Some 122)]) (Some (mkQ false 2%nat (Some 3%nat)));
     star (VSym SDot)].
(** [^a^b$] *)
Definition t_inner_start : regex := anchored_of [lit 97; t_start; lit 98].
(** [^a+?$] *)
Definition t_non_greedy : regex :=
  anchored_of [Term (VChar 97) (Some (mkQ true 1%nat None))].

(** ** 1. Fragment invariant of the compilation, for every sub-tree, every program
    containing the fragment at offset [a], every word without line breaks:
    the code of the sub-tree relates positions exactly like its denotation. *)
Theorem C18_comp_fragment : forall (p : list instr) (w : list N), no_linebreak w ->
  (forall v, okv v = true -> forall a, at_off p a (comp_v v a) ->
             frag p w a (a + vlen v) (dv w v))
  /\ (forall t, okt t = true -> forall a, at_off p a (comp_t t a) ->
                frag p w a (a + tlen t) (dt w t))
  /\ (forall c, okc c = true -> forall a, at_off p a (comp_c c a) ->
                frag p w a (a + clen c) (dc w c))
  /\ (forall u, oku u = true -> forall a, at_off p a (comp_alts u (a + ulen u) a) ->
                frag p w a (a + ulen u) (du w u)).
Proof. exact comp_frag. Qed.
Print Assumptions C18_comp_fragment.

(** ** 2. Compiler correctness of the label-free compilation: for every anchored pattern
    [^ mid $] whose inner terms contain no further start anchor and only ordered
    quantifier bounds, the program accepts a word without line breaks iff the pattern
    fully matches it ([.*$ => match] shortcut included). All trees, all words. *)
Theorem C18_comp_regex_correct : forall c mid w,
  terms_of c = t_start :: mid ++ [t_end] -> forallb okt mid = true -> no_linebreak w ->
  (vm_accepts (comp_regex (UCons c UNil)) w <-> matches w (UCons c UNil)).
Proof. exact comp_regex_correct. Qed.
Print Assumptions C18_comp_regex_correct.

(** ** 3. translate_correct.
    Full statement (NOT proved in general; false without [greedy r], see 4.):
      forall r w, fe_accepts r = true -> greedy r = true -> quantifier bounds ordered ->
        exists p, program r = Ok p /\ (no_linebreak w -> (vm_accepts p w <-> matches w r)).
    Proved: the statement under the side condition [program r = Ok (comp_regex r)]
    (the labelled translation with [_relabel_in_place] and [_remove_noop_in_place]
    produces the label-free compilation). The side condition is decidable; it is
    evaluated inside Coq for every tree of the correspondence stream on every run
    (stream "comp") and proved below for the sample trees. Missing: the general
    syntactic lemma [program r = Ok (comp_regex r)] for all accepted trees. *)
Theorem C18_translate_correct_partial : forall c mid p w,
  terms_of c = t_start :: mid ++ [t_end] -> forallb okt mid = true ->
  greedy (UCons c UNil) = true ->
  program (UCons c UNil) = Ok p -> p = comp_regex (UCons c UNil) ->
  no_linebreak w ->
  (vm_accepts p w <-> matches w (UCons c UNil)).
Proof.
  intros c mid p w H1 H2 _ _ Hp H3. rewrite Hp. exact (comp_regex_correct c mid w H1 H2 H3).
Qed.
Print Assumptions C18_translate_correct_partial.

Example C18_side_condition_star_star :
  program t_star_star = Ok (comp_regex t_star_star)
  /\ comp_regex t_star_star
     = [ISplit 1 5; ISplit 2 4; IChar 97; IJump 1; IJump 0; IEnd; IMatch]%nat.
Proof. vm_compute. split; reflexivity. Qed.
Print Assumptions C18_side_condition_star_star.

Example C18_side_condition_mixed :
  program t_mixed = Ok (comp_regex t_mixed) /\ targets_ok (comp_regex t_mixed) = true.
Proof. vm_compute. split; reflexivity. Qed.
Print Assumptions C18_side_condition_mixed.

(** non-vacuity of 2./3.: the hypotheses hold for [t_mixed] and the word "abcab!!zzz"
    is matched (so it is accepted by the program), "ab" is not *)
Example C18_nonvacuous :
  forallb okt [Term (VGroup (UCons (CCons (lit 97) (CCons (lit 98) CNil))
                            (UCons (CCons (lit 99) CNil) UNil)))
                    (Some (mkQ false 1%nat None));
               Term (VSet true [(120, Some 122)]) (Some (mkQ false 2%nat (Some 3%nat)));
               star (VSym SDot)] = true
  /\ greedy t_mixed = true /\ eps_cyclic (comp_regex t_mixed) = false
  /\ matchb (s2l "abcab!!zzz") t_mixed = true /\ matchb (s2l "ab") t_mixed = false
  /\ cpp_match true shipped_fuel (comp_regex t_mixed) (s2l "abcab!!zzz")
     = Ok true
  /\ cpp_match true shipped_fuel (comp_regex t_mixed) (s2l "ab")
     = Ok false.
Proof. vm_compute. repeat split; reflexivity. Qed.
Print Assumptions C18_nonvacuous.

(** ** 4. translate_total / labels_wf.
    Full statement of totality, as the property demands it:
      translate_total : fe_accepts r = true -> exists p, translate r = Ok p
    It is REFUTED for the code as it is: a pattern with a non-greedy quantifier passes the
    front end and [transform_regex] raises [NotImplementedError] (known finding
    [nongreedy-notimplemented]; the repair would edit a pinned test case).
    NOT proved: totality under the additional hypothesis [greedy r = true] (it follows
    from the missing syntactic lemma of 3.). *)
(** labels_wf, proved for the label-free program of every anchored pattern: every
    jump/split target is an index of the program (so the validation loop at the top of
    the C++ [Match] never throws and [Spawn] never indexes outside [has_]). *)
Theorem C18_labels_wf_partial : forall c mid,
  terms_of c = t_start :: mid ++ [t_end] -> forallb okt mid = true ->
  targets_ok (comp_regex (UCons c UNil)) = true.
Proof. exact comp_regex_targets_ok. Qed.
Print Assumptions C18_labels_wf_partial.

Theorem C18_inner_start_rejected_by_front_end :
  translate t_inner_start = Crash AssertionError /\ fe_accepts t_inner_start = false
  /\ anchored t_inner_start = true.
Proof. vm_compute. repeat split; reflexivity. Qed.
Print Assumptions C18_inner_start_rejected_by_front_end.

Theorem C18_translate_total_refuted :
  exists r, fe_accepts r = true /\ greedy r = false
            /\ translate r = Crash NotImplementedError.
Proof. exists t_non_greedy. vm_compute. repeat split; reflexivity. Qed.
Print Assumptions C18_translate_total_refuted.

(** ** 5. character sets: sorting the ranges does not change membership (all sets) *)
Theorem C18_set_instruction_sound : forall compl rs c,
  consumes (set_instr compl rs) c = xorb compl (in_ranges c rs).
Proof. exact consumes_set. Qed.
Print Assumptions C18_set_instruction_sound.

(** ** 6. the generated C++ matcher.
    Full statements (NOT proved in general):
      cpp_match_refines    : cpp_match true fuel p w = Ok b -> (b = true <-> vm_accepts p w)
      cpp_match_terminates : targets_ok p = true -> constructible p = true ->
                             exists fuel, cpp_match true fuel p w <> Crash OutOfFuel
                             (a _partial form for [eps_cyclic p = false] is NOT proved)
    (validated by the "cpp-model" stream against re.fullmatch and by the compiled
    matcher). Proved: termination is REFUTED for the matcher as shipped, where
    [ThreadList::Pop] clears [has_]: on the program of t_star_star (an epsilon-cycle
    0 -> 1 -> 4 -> 0) and the word "a" the loop is still running after 5000
    iterations of one phase (the compiled C++ never returns: known finding
    [cpp-match-epsilon-cycle-nontermination], see docs/C18.md), whereas
    with the flag kept until [Clear] it answers within [enough_fuel]. *)
Theorem C18_cpp_match_terminates_refuted :
  exists p w, program t_star_star = Ok p
    /\ eps_cyclic p = true
    /\ cpp_match true (50 * 100)%nat p w = Crash OutOfFuel
    /\ cpp_match false (enough_fuel p) p w = Ok true.
Proof.
  exists (comp_regex t_star_star), (s2l "a"). vm_compute. repeat split; reflexivity.
Qed.
Print Assumptions C18_cpp_match_terminates_refuted.
