"""Seeded generator of small meta-model texts (valid and invalid) and of run histories
for the cache checks C23 / C24."""
from __future__ import annotations

from typing import List, Tuple

PRIMS = ["str", "int", "bool", "float", "bytearray"]
WORDS = ["alpha", "beta", "gamma", "delta", "kappa", "omega", "sigma", "theta"]


def _class(name: str, props: List[Tuple[str, str]], base: str = "", base_props: List[Tuple[str, str]] = (),
           decorators: List[str] = ()) -> str:
    allp = list(base_props) + list(props)
    lines = list(decorators)
    lines.append(f"class {name}({base + ', ' if base else ''}DBC):")
    for n, t in props:
        lines.append(f"    {n}: {t}")
    if props:
        lines.append("")
    required = [(n, t) for n, t in allp if not t.startswith("Optional")]
    optional = [(n, t) for n, t in allp if t.startswith("Optional")]
    sig = ", ".join(["self"] + [f"{n}: {t}" for n, t in required] + [f"{n}: {t} = None" for n, t in optional])
    lines.append(f"    def __init__({sig}) -> None:")
    if base:
        breq = [n for n, t in base_props if not t.startswith("Optional")]
        bopt = [n for n, t in base_props if t.startswith("Optional")]
        lines.append(f"        {base}.__init__(self, " + ", ".join(breq + [f"{n}={n}" for n in bopt]) + ")")
    for n, _ in props:
        lines.append(f"        self.{n} = {n}")
    if not props and not base:
        lines.append("        pass")
    return "\n".join(lines) + "\n"


def valid_model(rng, tag: str = "") -> str:
    """A valid meta-model: an enumeration, a small class hierarchy (so that the derived
    id-sets dropped on pickling are non-trivial), optional/list properties, an invariant."""
    w = rng.sample(WORDS, 4)
    n_lit = rng.randint(1, 4)
    lits = rng.sample(WORDS, n_lit)
    out = ["from enum import Enum", "from typing import List, Optional", "",
           "from icontract import invariant, DBC", "", ""]
    if tag:
        out.insert(0, f"# {tag}")
    out.append(f"class Kind_{w[0]}(Enum):")
    for lit in lits:
        out.append(f"    {lit.capitalize()} = \"{lit}\"")
    out += ["", ""]
    base_props = [(f"{w[1]}_id", "str")]
    if rng.random() < 0.5:
        base_props.append((f"{w[1]}_kind", f"Optional[Kind_{w[0]}]"))
    decorators = (["@abstract"] if rng.random() < 0.5 else []) + ["@serialization(with_model_type=True)"]
    out.append(_class(f"Node_{w[1]}", base_props, decorators=decorators))
    out.append("")
    props = []
    for i in range(rng.randint(1, 3)):
        t = rng.choice(PRIMS + [f"Kind_{w[0]}"])
        shape = rng.random()
        if shape < 0.25:
            t = f"List[{t}]"
        elif shape < 0.5:
            t = f"Optional[{t}]"
        props.append((f"{w[2]}_{i}", t))
    decs = []
    strs = [n for n, t in props if t == "str"]
    if strs and rng.random() < 0.7:
        decs.append(f"@invariant(lambda self: len(self.{strs[0]}) > 0, \"{strs[0]} must be non-empty\")")
    out.append(_class(f"Leaf_{w[2]}", props, base=f"Node_{w[1]}", base_props=base_props, decorators=decs))
    out.append("")
    out.append(_class(f"Holder_{w[3]}", [("node", f"Node_{w[1]}"), ("leaves", f"List[Leaf_{w[2]}]")]))
    out.append("")
    out.append("__version__ = \"dummy\"")
    out.append("__xml_namespace__ = \"https://dummy.com\"")
    return "\n".join(out) + "\n"


def deep_model(rng, tag: str = "") -> str:
    """A valid meta-model with an inheritance CHAIN of depth 3..4 (a class with a grandparent and
    a great-grandparent) and a DIAMOND (two abstract bases sharing a root, joined again, with a
    further descendant), an enumeration and a class referring to the hierarchy: direct
    inheritances differ from the ancestors, so the derived id-sets rebuilt on unpickling are
    exercised for indirect ancestors / descendants."""
    w = rng.sample(WORDS, 6)
    out = ["from enum import Enum", "from typing import List, Optional, Set", "",
           "from icontract import invariant, DBC", "", ""]
    if tag:
        out.insert(0, f"# {tag}")
    out.append(f"class Kind_{w[0]}(Enum):")
    lits = rng.sample(WORDS, rng.randint(2, 4))
    for lit in lits:
        out.append(f"    {lit.capitalize()} = \"{lit}\"")
    out += ["", ""]
    # a constant set of enumeration literals and a chain of constrained primitives (depth 3)
    out.append(f"Some_kinds_{w[5]}: Set[Kind_{w[0]}] = constant_set(values=["
               + ", ".join(f"Kind_{w[0]}.{x.capitalize()}" for x in lits[:2]) + "])")
    out += ["", ""]
    out.append("@invariant(lambda self: len(self) > 0, \"Non-empty\")")
    out.append(f"class Non_empty_{w[5]}(str, DBC):\n    pass\n\n")
    out.append("@invariant(lambda self: len(self) < 100, \"Short\")")
    out.append(f"class Short_{w[5]}(Non_empty_{w[5]}, DBC):\n    pass\n\n")
    out.append(f"class Tiny_{w[5]}(Short_{w[5]}, DBC):\n    pass\n\n")
    root = f"Root_{w[1]}"
    root_props = [("identifier", "str")]
    out.append(_class(root, root_props, decorators=["@abstract", "@serialization(with_model_type=True)"]))
    out.append("")
    # the chain
    depth = rng.randint(3, 4)
    prev, prev_props = root, list(root_props)
    chain = []
    for i in range(depth):
        name = f"Level{i}_{w[2]}"
        t = rng.choice(PRIMS + [f"Kind_{w[0]}"])
        if rng.random() < 0.3:
            t = f"Optional[{t}]"
        props = [(f"{w[2]}_{i}", t)]
        decs = []
        if t == "str" and rng.random() < 0.6:
            decs.append(f"@invariant(lambda self: len(self.{props[0][0]}) > 0, \"{props[0][0]} must be non-empty\")")
        out.append(_class(name, props, base=prev, base_props=prev_props, decorators=decs))
        out.append("")
        chain.append(name)
        prev, prev_props = name, prev_props + props
    # the diamond
    left, right, join, below = f"Left_{w[3]}", f"Right_{w[3]}", f"Join_{w[3]}", f"Below_{w[3]}"
    lp, rp = [("left_text", "str")], [("right_value", "int")]
    out.append(_class(left, lp, base=root, base_props=root_props, decorators=["@abstract"]))
    out.append("")
    out.append(_class(right, rp, base=root, base_props=root_props, decorators=["@abstract"]))
    out.append("")
    jp = [("extra", "bool")]
    lines = [f"class {join}({left}, {right}, DBC):", "    extra: bool", "",
             "    def __init__(self, identifier: str, left_text: str, right_value: int, extra: bool) -> None:",
             f"        {left}.__init__(self, identifier, left_text)",
             f"        {right}.__init__(self, identifier, right_value)",
             "        self.extra = extra"]
    out.append("\n".join(lines) + "\n")
    out.append("")
    out.append(_class(below, [("carat", "float")], base=join, base_props=root_props + lp + rp + jp))
    out.append("")
    out.append(_class(f"Holder_{w[4]}", [("any_node", root), ("first", chain[0]),
                                          ("deepest", f"List[{chain[-1]}]"), ("joined", f"Optional[{join}]"),
                                          ("tiny", f"Tiny_{w[5]}")]))
    out.append("")
    out.append("__version__ = \"dummy\"")
    out.append("__xml_namespace__ = \"https://dummy.com\"")
    return "\n".join(out) + "\n"


def break_model(rng, text: str) -> str:
    """An invalid variant of a valid text (each goes through a different error exit of
    load_model)."""
    kind = rng.choice(["syntax", "import", "symbol", "translate", "novers"])
    if kind == "syntax":
        return text.replace("class Holder_", "class :Holder_", 1)
    if kind == "import":
        return "import os\n" + text
    if kind == "symbol":
        # a function at module level that is not a verification function
        return text + "\n\ndef stray(x):\n    return x\n"
    if kind == "translate":
        if "node: Node_" in text:
            return text.replace("node: Node_", "node: Unknown_", 1)
        return text.replace("any_node: Root_", "any_node: Unknown_", 1)
    return text.replace('__version__ = "dummy"\n', "")


def edit_model(rng, text: str) -> str:
    """A small edit of a text (the model file changes between runs)."""
    kind = rng.choice(["comment", "space", "rename", "literal", "break"])
    if kind == "comment":
        return text + f"# edit {rng.randint(0, 10**6)}\n"
    if kind == "space":
        return text.replace("\n\n\n", "\n\n\n\n", 1) if rng.random() < 0.5 else text + "\n"
    if kind == "rename":
        return text.replace("Holder_", "Keeper_")
    if kind == "literal":
        return text.replace('= "', '= "x', 1)
    return break_model(rng, text)


def history(rng, max_len: int = 6) -> List[Tuple[str, bool]]:
    """A history of runs (text, flag): a few texts, revisited, with and without the flag."""
    tag = f"m{rng.randint(0, 10**9)}"
    base = deep_model(rng, tag=tag) if rng.random() < 0.7 else valid_model(rng, tag=tag)
    texts = [base]
    for _ in range(rng.randint(0, 2)):
        texts.append(edit_model(rng, rng.choice(texts)))
    if rng.random() < 0.3:
        texts.append(break_model(rng, base))
    n = rng.randint(2, max_len)
    out = []
    for _ in range(n):
        out.append((rng.choice(texts), rng.random() < 0.7))
    return out
