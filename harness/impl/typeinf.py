"""Adapter for C07: front-end verdict, type map and canonical keys of every invariant of a
meta-model (tree under test), and direct evaluation of the invariant lambdas.

JSON stdin: {"models": [{"source": str, "instances": {cls: [instance...]},
                         "overrides": str (python source executed after the meta-model)}]}
JSON stdout: per model {"parse_error": ...} | {"translate_error": [...], "invariants": [...]}
  | {"invariants": [{cls, desc, tree, verdict, types, canon, results}]}.

The lambdas are NOT taken from the parsed tree: the meta-model source text is executed by
Python itself (with inert stand-ins for the marker decorators), so what is evaluated is the
expression as written in the source.
"""
import ast
import enum
import json
import sys
import types as pytypes

from aas_core_codegen import parse, intermediate
from aas_core_codegen.common import Identifier
from aas_core_codegen.intermediate import type_inference as ti
from aas_core_codegen.intermediate import _types as it
from aas_core_codegen.parse import tree as pt


# ------------------------------------------------------------------ tree / type export
def dump_tree(n):
    k = type(n).__name__
    if isinstance(n, pt.Member):
        return {"k": k, "inst": dump_tree(n.instance), "name": n.name}
    if isinstance(n, pt.Name):
        return {"k": k, "id": n.identifier}
    if isinstance(n, pt.Constant):
        v = n.value
        if isinstance(v, bool):
            return {"k": k, "t": "bool", "v": v}
        if isinstance(v, int):
            return {"k": k, "t": "int", "v": v}
        if isinstance(v, float):
            return {"k": k, "t": "float", "v": float_q(v)}
        return {"k": k, "t": "str", "v": v}
    if isinstance(n, pt.Index):
        return {"k": k, "a": dump_tree(n.collection), "b": dump_tree(n.index)}
    if isinstance(n, pt.Comparison):
        return {"k": k, "op": n.op.value, "a": dump_tree(n.left), "b": dump_tree(n.right)}
    if isinstance(n, pt.IsIn):
        return {"k": k, "a": dump_tree(n.member), "b": dump_tree(n.container)}
    if isinstance(n, (pt.IsNone, pt.IsNotNone)):
        return {"k": k, "a": dump_tree(n.value)}
    if isinstance(n, pt.Not):
        return {"k": k, "a": dump_tree(n.operand)}
    if isinstance(n, (pt.And, pt.Or)):
        return {"k": k, "vs": [dump_tree(v) for v in n.values]}
    if isinstance(n, pt.Implication):
        return {"k": k, "a": dump_tree(n.antecedent), "b": dump_tree(n.consequent)}
    if isinstance(n, pt.FunctionCall):
        return {"k": k, "f": n.name.identifier, "args": [dump_tree(a) for a in n.args]}
    if isinstance(n, pt.MethodCall):
        return {"k": k, "inst": dump_tree(n.member.instance), "m": n.member.name,
                "args": [dump_tree(a) for a in n.args]}
    if isinstance(n, (pt.Add, pt.Sub)):
        return {"k": k, "a": dump_tree(n.left), "b": dump_tree(n.right)}
    if isinstance(n, (pt.Any, pt.All)):
        g = n.generator
        if isinstance(g, pt.ForEach):
            gd = {"k": "ForEach", "a": dump_tree(g.iteration)}
        else:
            gd = {"k": "ForRange", "a": dump_tree(g.start), "b": dump_tree(g.end)}
        return {"k": k, "var": g.variable.identifier, "g": gd, "c": dump_tree(n.condition)}
    if isinstance(n, pt.JoinedStr):
        parts = []
        for v in n.values:
            if isinstance(v, str):
                parts.append({"lit": v})
            else:
                parts.append({"fmt": dump_tree(v.value)})
        return {"k": k, "parts": parts}
    raise ValueError(f"unmodelled node {k}")


def float_q(v):
    q = v * 8
    if q != int(q) or abs(v) >= 1e15:
        raise ValueError(f"float outside the modelled set: {v!r}")
    return int(q)


def walk(n, out):
    """Pre-order, exactly as Model/TypeInf.v type_trace / canon_trace."""
    out.append(n)
    if isinstance(n, pt.Member):
        walk(n.instance, out)
    elif isinstance(n, pt.Index):
        walk(n.collection, out); walk(n.index, out)
    elif isinstance(n, pt.Comparison):
        walk(n.left, out); walk(n.right, out)
    elif isinstance(n, pt.IsIn):
        walk(n.member, out); walk(n.container, out)
    elif isinstance(n, (pt.IsNone, pt.IsNotNone)):
        walk(n.value, out)
    elif isinstance(n, pt.Not):
        walk(n.operand, out)
    elif isinstance(n, (pt.And, pt.Or)):
        for v in n.values:
            walk(v, out)
    elif isinstance(n, pt.Implication):
        walk(n.antecedent, out); walk(n.consequent, out)
    elif isinstance(n, pt.FunctionCall):
        out.append(n.name)
        for a in n.args:
            walk(a, out)
    elif isinstance(n, pt.MethodCall):
        out.append(n.member)
        walk(n.member.instance, out)
        for a in n.args:
            walk(a, out)
    elif isinstance(n, (pt.Add, pt.Sub)):
        walk(n.left, out); walk(n.right, out)
    elif isinstance(n, (pt.Any, pt.All)):
        g = n.generator
        out.append(g.variable)
        if isinstance(g, pt.ForEach):
            walk(g.iteration, out)
        else:
            walk(g.start, out); walk(g.end, out)
        walk(n.condition, out)
    elif isinstance(n, pt.JoinedStr):
        for v in n.values:
            if not isinstance(v, str):
                walk(v.value, out)


def dump_type(t, type_map=None, node=None):
    if isinstance(t, ti.PrimitiveTypeAnnotation):
        return {"k": "prim", "p": t.a_type.value}
    if isinstance(t, ti.OurTypeAnnotation):
        o = t.our_type
        if isinstance(o, it.Enumeration):
            return {"k": "enum", "n": o.name}
        if isinstance(o, it.ConstrainedPrimitive):
            return {"k": "cons", "n": o.name, "p": o.constrainee.value}
        return {"k": "class", "n": o.name}
    if isinstance(t, ti.ListTypeAnnotation):
        return {"k": "list", "t": dump_type(t.items)}
    if isinstance(t, ti.SetTypeAnnotation):
        return {"k": "set", "t": dump_type(t.items)}
    if isinstance(t, ti.OptionalTypeAnnotation):
        return {"k": "opt", "t": dump_type(t.value)}
    if isinstance(t, ti.VerificationTypeAnnotation):
        return {"k": "verif", "n": t.func.name}
    if isinstance(t, ti.BuiltinFunctionTypeAnnotation):
        return {"k": "builtin", "n": t.func.name}
    if isinstance(t, ti.MethodTypeAnnotation):
        cls = None
        if type_map is not None and isinstance(node, pt.Member):
            inst_t = type_map.get(node.instance)
            if isinstance(inst_t, ti.OurTypeAnnotation):
                cls = inst_t.our_type.name
        return {"k": "method", "c": cls, "n": t.method.name}
    if isinstance(t, ti.EnumerationAsTypeTypeAnnotation):
        return {"k": "enumtype", "n": t.enumeration.name}
    raise ValueError(f"unmodelled type {t}")


# ------------------------------------------------------------------ direct evaluation
class _Recorder:
    def __init__(self):
        self.invs = {}


def exec_meta_model(source, overrides):
    """Execute the meta-model text as the Python program it is."""
    marker = pytypes.ModuleType("aas_core_meta.marker")
    ident = lambda x=None, *a, **k: x  # noqa

    def deco_with_optional_args(*args, **kwargs):
        if len(args) == 1 and callable(args[0]) and not kwargs:
            return args[0]
        return lambda f: f

    for name in ["abstract", "implementation_specific", "verification", "non_mutating",
                 "template", "reference_in_the_book", "is_superset_of"]:
        setattr(marker, name, deco_with_optional_args)
    marker.serialization = lambda **k: (lambda c: c)
    marker.constant_set = lambda values, description=None, reference_in_the_book=None, superset_of=None: frozenset(values)
    for name in ["constant_str", "constant_int", "constant_float", "constant_bool",
                 "constant_bytearray"]:
        setattr(marker, name, lambda value, description=None, **k: value)
    pkg = pytypes.ModuleType("aas_core_meta")
    pkg.marker = marker
    ic = pytypes.ModuleType("icontract")

    class DBC:
        pass

    def invariant(condition, description=None):
        def deco(cls):
            lst = cls.__dict__.get("__c07_invs__")
            if lst is None:
                lst = []
                setattr(cls, "__c07_invs__", lst)
            lst.append((description, condition))
            return cls
        return deco

    def passthrough(*a, **k):
        return lambda f: f

    ic.DBC = DBC
    ic.invariant = invariant
    ic.require = passthrough
    ic.ensure = passthrough
    ic.snapshot = passthrough
    saved = {k: sys.modules.get(k) for k in ("aas_core_meta", "aas_core_meta.marker", "icontract")}
    sys.modules["aas_core_meta"] = pkg
    sys.modules["aas_core_meta.marker"] = marker
    sys.modules["icontract"] = ic
    try:
        ns = {"__name__": "meta_model_under_test"}
        exec(compile(source, "<meta-model>", "exec"), ns)
        if overrides:
            exec(compile(overrides, "<overrides>", "exec"), ns)
    finally:
        for k, v in saved.items():
            if v is None:
                sys.modules.pop(k, None)
            else:
                sys.modules[k] = v
    return ns


def build(ns, j):
    k = j["k"]
    if k == "none":
        return None
    if k in ("bool", "int", "str"):
        return j["v"]
    if k == "float":
        return j["q"] / 8.0
    if k == "bytes":
        return bytes(j["v"])
    if k == "list":
        return [build(ns, x) for x in j["v"]]
    if k == "enum":
        return getattr(ns[j["e"]], j["lit"])
    if k == "obj":
        cls = ns[j["cls"]]
        o = object.__new__(cls)
        o.__dict__["__oid__"] = j["oid"]
        for name, v in j["fields"]:
            setattr(o, name, build(ns, v))
        return o
    raise ValueError(k)


def unbuild(v):
    if v is None:
        return {"k": "none"}
    if isinstance(v, bool):
        return {"k": "bool", "v": v}
    if isinstance(v, int):
        return {"k": "int", "v": v}
    if isinstance(v, float):
        q = v * 8
        if q == int(q):
            return {"k": "float", "q": int(q)}
        return {"k": "other", "repr": repr(v)}
    if isinstance(v, str):
        return {"k": "str", "v": v}
    if isinstance(v, (bytes, bytearray)):
        return {"k": "bytes", "v": list(v)}
    if isinstance(v, list):
        return {"k": "list", "v": [unbuild(x) for x in v]}
    if isinstance(v, (set, frozenset)):
        return {"k": "set", "n": len(v)}
    if isinstance(v, enum.Enum):
        return {"k": "enum", "e": type(v).__name__, "lit": v.name}
    if hasattr(v, "__dict__") and "__oid__" in v.__dict__:
        return {"k": "obj", "oid": v.__dict__["__oid__"]}
    if callable(v):
        return {"k": "fun", "n": getattr(v, "__name__", "?")}
    return {"k": "other", "repr": repr(v)[:80]}


def run_lambda(cond, obj):
    try:
        r = cond(obj)
    except RecursionError:
        raise
    except Exception as e:  # noqa
        return {"exc": type(e).__name__, "msg": str(e)[:200]}
    return {"val": unbuild(r)}


# ------------------------------------------------------------------ main
def process(model):
    source = model["source"]
    out = {}
    atok, exc = parse.source_to_atok(source=source)
    if exc is not None:
        return {"parse_error": repr(exc)}
    import_errors = parse.check_expected_imports(atok=atok)
    if import_errors:
        return {"parse_error": "imports: " + "; ".join(map(str, import_errors))}
    try:
        parsed, error = parse.atok_to_symbol_table(atok=atok)
    except Exception as e:  # noqa
        return {"parse_error": "exception " + type(e).__name__ + ": " + str(e)[:300]}
    if error is not None:
        return {"parse_error": flatten(error)}

    # trees from the parse stage (available even if translate rejects)
    inv_nodes = {}
    for ot in parsed.our_types:
        if isinstance(ot, parse.Class):
            for inv in ot.invariants:
                inv_nodes[(ot.name, inv.description)] = inv.body

    try:
        st, error = intermediate.translate(parsed_symbol_table=parsed, atok=atok)
    except Exception as e:  # noqa
        st, error = None, None
        out["translate_exception"] = type(e).__name__ + ": " + str(e)[:300]
    if error is not None:
        out["translate_error"] = flatten(error)

    verdicts = {}
    if st is not None:
        base = ti.populate_base_environment(symbol_table=st)
        for cls in st.classes:
            env = ti.MutableEnvironment(parent=base)
            env.set(Identifier("self"), ti.OurTypeAnnotation(our_type=cls))
            for inv in cls.invariants:
                if inv.specified_for is not cls:
                    continue
                rec = {}
                canonicalizer = ti._Canonicalizer()
                try:
                    canonicalizer.transform(inv.body)
                    nodes = []
                    walk(inv.body, nodes)
                    rec["canon"] = [canonicalizer.representation_map[n] for n in nodes]
                except Exception as e:  # noqa
                    rec["canon_exc"] = type(e).__name__
                try:
                    type_map, err = ti.infer_for_invariant(invariant=inv, environment=env)
                except Exception as e:  # noqa
                    rec["verdict"] = "exc:" + type(e).__name__
                else:
                    if err is not None:
                        rec["verdict"] = "err"
                        rec["messages"] = flatten(err)[:6]
                    else:
                        rec["verdict"] = "ok"
                        nodes = []
                        walk(inv.body, nodes)
                        rec["types"] = [dump_type(type_map[n], type_map, n) for n in nodes]
                verdicts[(cls.name, inv.description)] = rec
                inv_nodes[(cls.name, inv.description)] = inv.body

    # direct evaluation of the lambdas of the source text
    results = {}
    instances = model.get("instances") or {}
    try:
        ns = exec_meta_model(source, model.get("overrides"))
    except Exception as e:  # noqa
        ns = None
        out["exec_error"] = type(e).__name__ + ": " + str(e)[:300]
    if ns is not None:
        for cls_name, insts in instances.items():
            cls = ns.get(cls_name)
            if cls is None:
                continue
            objs = [build(ns, j) for j in insts]
            for desc, cond in cls.__dict__.get("__c07_invs__", []):
                results[(cls_name, desc)] = [run_lambda(cond, o) for o in objs]

    invs = []
    for (cls_name, desc), body in inv_nodes.items():
        rec = {"cls": cls_name, "desc": desc}
        try:
            rec["tree"] = dump_tree(body)
        except ValueError as e:
            rec["tree_error"] = str(e)
        rec.update(verdicts.get((cls_name, desc), {}))
        if (cls_name, desc) in results:
            rec["results"] = results[(cls_name, desc)]
        invs.append(rec)
    out["invariants"] = invs

    # ---- verification functions whose body consists of assignments to names and returns
    fn_args = model.get("fn_args") or {}
    funcs = []
    for pf in parsed.verification_functions:
        if not isinstance(pf, parse.UnderstoodMethod):
            continue
        if not pf.name.startswith(model.get("fn_prefix", "vf_")):
            continue
        rec = {"name": pf.name}

        def statements(body_nodes):
            """-> (json statements, expression nodes) or raises ValueError"""
            js, exprs = [], []
            for node in body_nodes:
                if isinstance(node, pt.Return) and node.value is not None:
                    js.append({"k": "return", "e": dump_tree(node.value)})
                    exprs.append(node.value)
                elif isinstance(node, pt.Assignment) and isinstance(node.target, pt.Name):
                    js.append({"k": "assign", "x": node.target.identifier,
                               "e": dump_tree(node.value)})
                    exprs.append(node.value)
                else:
                    raise ValueError(f"unmodelled statement {type(node).__name__}")
            return js, exprs

        try:
            rec["body"], _ = statements(pf.body)
        except ValueError as e:
            rec["tree_error"] = str(e)
            funcs.append(rec)
            continue
        if st is not None:
            vf = st.verification_functions_by_name.get(pf.name)
            if isinstance(vf, intermediate.TranspilableVerification):
                _, exprs = statements(vf.parsed.body)
                canonicalizer = ti._Canonicalizer()
                try:
                    for node in vf.parsed.body:
                        canonicalizer.transform(node)
                    nodes = []
                    for e in exprs:
                        walk(e, nodes)
                    rec["canon"] = [canonicalizer.representation_map[n] for n in nodes]
                except Exception as e:  # noqa
                    rec["canon_exc"] = type(e).__name__
                try:
                    inference, err = ti.infer_for_verification(
                        verification=vf, base_environment=base)
                except Exception as e:  # noqa
                    rec["verdict"] = "exc:" + type(e).__name__
                else:
                    if err is not None:
                        rec["verdict"] = "err"
                        rec["messages"] = flatten(err)[:6]
                    else:
                        rec["verdict"] = "ok"
                        nodes = []
                        for e in exprs:
                            walk(e, nodes)
                        rec["types"] = [dump_type(inference.type_map[n], inference.type_map, n)
                                        for n in nodes]
            else:
                rec["verdict"] = "not-transpilable:" + type(vf).__name__
        if ns is not None and pf.name in fn_args and callable(ns.get(pf.name)):
            res = []
            for argv in fn_args[pf.name]:
                vals = [build(ns, j) for j in argv]
                try:
                    r = ns[pf.name](*vals)
                except RecursionError:
                    raise
                except Exception as e:  # noqa
                    res.append({"exc": type(e).__name__, "msg": str(e)[:200]})
                else:
                    res.append({"val": unbuild(r)})
            rec["results"] = res
        funcs.append(rec)
    out["functions"] = funcs
    return out


def flatten(err):
    msgs = []
    stack = [err] if not isinstance(err, list) else list(err)
    while stack:
        e = stack.pop()
        if e.underlying:
            stack.extend(e.underlying)
        else:
            msgs.append(e.message[:300])
    return msgs


def main():
    payload = json.load(sys.stdin)
    res = []
    for m in payload["models"]:
        res.append(process(m))
    json.dump(res, sys.stdout)


if __name__ == "__main__":
    main()
