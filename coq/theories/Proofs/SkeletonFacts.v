(** Proofs about [Model/Skeleton.v] (C03). *)
From Coq Require Import List NArith ZArith Bool Lia.
From Acg Require Import Base.Str Model.Skeleton.
Import ListNotations.
Open Scope Z_scope.

(** What a trace of a checked skeleton looks like. *)
Definition good (tr : list event) (t : term) : Prop :=
  match t with
  | Fell => tr = []
  | Delegated _ => tr = []
  | Returned z =>
      (z = 0 <-> stderr_of tr = [])
      /\ (z = 0 -> exists o, tr = [EvOut o] /\ is_generated_line o = true)
      /\ (z <> 0 -> tr <> [] /\ forallb is_err tr = true)
  end.

Lemma err_exit_sound s : err_exit s = true ->
  forall tr t, exec s tr t -> exists z, t = Returned z /\ z <> 0 /\ forallb is_err tr = true.
Proof.
  intros H tr t He. induction He; cbn [err_exit] in H; try discriminate.
  - destruct (IHHe H) as [z [-> [Hz Hall]]]. exists z. repeat split; assumption.
  - destruct (IHHe H) as [z [-> [Hz Hall]]]. exists z. repeat split; [assumption|].
    cbn [forallb is_err]. exact Hall.
  - exists z. repeat split. apply negb_true_iff in H. apply Z.eqb_neq in H. exact H.
Qed.

Lemma forallb_err_filter tr : forallb is_err tr = true -> stderr_of tr = tr.
Proof.
  induction tr as [|ev r IH]; [reflexivity|]. cbn [forallb stderr_of filter].
  intros H. apply andb_true_iff in H as [H1 H2]. rewrite H1. f_equal. now apply IH.
Qed.

Lemma check_contract_sound s : check_contract s = true ->
  forall tr t, exec s tr t -> good tr t.
Proof.
  intros H tr t He. induction He; cbn [check_contract] in H; try discriminate.
  - reflexivity.
  - now apply IHHe.
  - (* WriteErr *)
    destruct (err_exit_sound k H tr t He) as [z [-> [Hz Hall]]].
    cbn [good]. split; [|split].
    + split; [intros E; contradiction|]. cbn [stderr_of filter is_err]. discriminate.
    + intros E. contradiction.
    + intros _. split; [discriminate|]. cbn [forallb is_err]. exact Hall.
  - (* WriteOut *)
    apply andb_true_iff in H as [Hg Hk].
    destruct k; try discriminate. apply Z.eqb_eq in Hk. subst z.
    inversion He; subst. cbn [good]. split; [|split].
    + split; [reflexivity|reflexivity].
    + intros _. exists o. split; [reflexivity|exact Hg].
    + intros E. contradiction.
  - reflexivity.
  - (* If then exit *)
    apply andb_true_iff in H as [H Hk]. apply andb_true_iff in H as [Ha Hb]. now apply IHHe.
  - apply andb_true_iff in H as [H Hk]. apply andb_true_iff in H as [Ha Hb].
    specialize (IHHe1 Ha). cbn [good] in IHHe1. subst tr1. cbn [app]. now apply IHHe2.
  - apply andb_true_iff in H as [H Hk]. apply andb_true_iff in H as [Ha Hb]. now apply IHHe.
  - apply andb_true_iff in H as [H Hk]. apply andb_true_iff in H as [Ha Hb].
    specialize (IHHe1 Hb). cbn [good] in IHHe1. subst tr1. cbn [app]. now apply IHHe2.
  - apply andb_true_iff in H as [Ha Hk]. now apply IHHe.
  - apply andb_true_iff in H as [Ha Hk]. now apply IHHe.
  - pose proof H as H'. apply andb_true_iff in H' as [Ha Hk].
    specialize (IHHe1 Ha). cbn [good] in IHHe1. subst tr1. cbn [app]. now apply IHHe2.
Qed.

(** The contract in the words of the property. *)
Lemma contract_of_good tr z : good tr (Returned z) ->
  (z = 0 <-> stderr_of tr = [])
  /\ (z = 0 -> exists o, last_out tr = Some o /\ is_generated_line o = true)
  /\ (z <> 0 -> stderr_of tr <> []).
Proof.
  intros [H1 [H2 H3]]. split; [exact H1|]. split.
  - intros E. destruct (H2 E) as [o [-> Ho]]. exists o. split; [reflexivity|exact Ho].
  - intros E. destruct (H3 E) as [Hne Hall]. rewrite forallb_err_filter by exact Hall. exact Hne.
Qed.

(** Errors are not dropped. *)
Lemma starts_with_report_sound v s : starts_with_report_of v s = true ->
  forall tr t, exec s tr t -> exists e tr', tr = EvErr e :: tr' /\ In v (err_uses e).
Proof.
  intros H tr t He. induction He; cbn [starts_with_report_of] in H; try discriminate.
  - now apply IHHe.
  - exists e, tr. split; [reflexivity|].
    clear -H. induction (err_uses e) as [|x r IH]; cbn [mem_text] in H; [discriminate|].
    apply orb_true_iff in H as [H|H]; [left|right; now apply IH].
    clear -H. revert x H. induction v as [|c v IHv]; intros [|d x] H; cbn in H; try discriminate;
      [reflexivity|]. apply andb_true_iff in H as [H1 H2]. apply N.eqb_eq in H1. subst. f_equal.
    now apply IHv.
Qed.

(** Sub-skeletons guarded by an error variable. *)
Inductive guarded_branch : skel -> text -> skel -> Prop :=
| GHere v a b k : guarded_branch (If (Some v) a b k) v a
| GOpaque k v x : guarded_branch k v x -> guarded_branch (Opaque k) v x
| GWriteErr e k v x : guarded_branch k v x -> guarded_branch (WriteErr e k) v x
| GWriteOut o k v x : guarded_branch k v x -> guarded_branch (WriteOut o k) v x
| GIfA g a b k v x : guarded_branch a v x -> guarded_branch (If g a b k) v x
| GIfB g a b k v x : guarded_branch b v x -> guarded_branch (If g a b k) v x
| GIfK g a b k v x : guarded_branch k v x -> guarded_branch (If g a b k) v x
| GLoopA a k v x : guarded_branch a v x -> guarded_branch (Loop a k) v x
| GLoopK a k v x : guarded_branch k v x -> guarded_branch (Loop a k) v x.

Lemma errors_not_dropped s : errors_reported s = true ->
  forall v a, guarded_branch s v a ->
  forall tr t, exec a tr t -> exists e tr', tr = EvErr e :: tr' /\ In v (err_uses e).
Proof.
  intros H v a G. induction G; cbn [errors_reported] in H;
    repeat (apply andb_true_iff in H; destruct H as [H ?]);
    try (now apply IHG).
  now apply starts_with_report_sound.
Qed.
