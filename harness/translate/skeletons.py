"""Control-flow skeletons (C03, C28): main.execute, every <target>/main.py:execute,
smoke/main.py:execute -> Gen/GenSkeletons.v; plus the headline constants of
run.load_model. Fails closed on every statement shape that touches stdout/stderr in a
way that is not understood."""
from __future__ import annotations

import ast
from typing import List

from harness.translate.astutil import TranslateError, coq_text, find_function, parse

TARGETS = ["csharp", "cpp", "golang", "java", "jsonschema", "python", "typescript", "xsd"]
STREAMS = {"stdout", "stderr"}


def names_in(node) -> List[str]:
    out = []
    for n in ast.walk(node):
        if isinstance(n, ast.Name) and n.id not in out:
            out.append(n.id)
    return out


def mentions_streams(node) -> bool:
    return any(isinstance(n, ast.Name) and n.id in STREAMS for n in ast.walk(node))


def template(node, what) -> str:
    """f-string / constant -> Coq list frag."""
    frags = []
    if isinstance(node, ast.Constant) and isinstance(node.value, str):
        frags.append(("lit", node.value))
    elif isinstance(node, ast.JoinedStr):
        for v in node.values:
            if isinstance(v, ast.Constant) and isinstance(v.value, str):
                if frags and frags[-1][0] == "lit":
                    frags[-1] = ("lit", frags[-1][1] + v.value)
                else:
                    frags.append(("lit", v.value))
            elif isinstance(v, ast.FormattedValue):
                frags.append(("hole", None))
            else:
                raise TranslateError(f"{what}: unexpected f-string part")
    else:
        raise TranslateError(f"{what}: not a string constant or f-string ({ast.dump(node)[:80]})")
    return "[" + "; ".join(f"Lit {coq_text(t)}" if k == "lit" else "Hole" for k, t in frags) + "]"


def uses(node) -> str:
    return "[" + "; ".join(coq_text(n) for n in names_in(node) if n not in STREAMS) + "]"


def guard_of(test) -> str:
    """Some v when the test is `v is not None` / `v` / `len(v) > 0` / `v is not None and ...`
    for a variable whose name says it holds errors."""
    cand = None
    if isinstance(test, ast.Name):
        cand = test.id
    elif (isinstance(test, ast.Compare) and isinstance(test.left, ast.Name) and len(test.ops) == 1
          and isinstance(test.ops[0], ast.IsNot) and isinstance(test.comparators[0], ast.Constant)
          and test.comparators[0].value is None):
        cand = test.left.id
    elif (isinstance(test, ast.Compare) and isinstance(test.left, ast.Call)
          and isinstance(test.left.func, ast.Name) and test.left.func.id == "len"
          and len(test.left.args) == 1 and isinstance(test.left.args[0], ast.Name)
          and isinstance(test.ops[0], ast.Gt)):
        cand = test.left.args[0].id
    if cand is not None and "error" in cand.lower():
        return f"(Some {coq_text(cand)})"
    return "None"


def call_name(func) -> str:
    if isinstance(func, ast.Name):
        return func.id
    if isinstance(func, ast.Attribute):
        return call_name(func.value) + "." + func.attr
    return "?"


def block(stmts, where) -> str:
    """Continuation-style term for a statement list (falls through to Done)."""
    if not stmts:
        return "Done"
    s, rest = stmts[0], stmts[1:]
    loc = f"{where}:{getattr(s, 'lineno', '?')}"

    def k():
        return block(rest, where)

    def opaque():
        kk = k()
        return kk if kk.startswith("(Opaque ") or kk.startswith("Opaque ") else f"(Opaque {kk})"

    if isinstance(s, ast.Return):
        v = s.value
        if isinstance(v, ast.Constant) and isinstance(v.value, int) and not isinstance(v.value, bool):
            return f"(Ret ({v.value})%Z)"
        if (isinstance(v, ast.Call) and isinstance(v.func, ast.Attribute) and v.func.attr == "execute"
                and isinstance(v.func.value, ast.Name)):
            kw = {x.arg: x.value for x in v.keywords}
            if (v.args or not all(isinstance(kw.get(n), ast.Name) and kw[n].id == n for n in STREAMS)):
                raise TranslateError(f"{loc}: delegation does not pass stdout=stdout, stderr=stderr")
            return f"(RetCall {coq_text(v.func.value.id)})"
        raise TranslateError(f"{loc}: return of something else than an int constant or a delegation")
    if isinstance(s, ast.Expr) and isinstance(s.value, ast.Call):
        c = s.value
        name = call_name(c.func)
        if name == "stderr.write":
            if len(c.args) != 1 or c.keywords:
                raise TranslateError(f"{loc}: unexpected stderr.write call")
            a = c.args[0]
            if isinstance(a, ast.Name):
                return f"(WriteErr (ErrDynamic [{coq_text(a.id)}]) {k()})"
            return f"(WriteErr (ErrLine {template(a, loc)} {uses(a)}) {k()})"
        if name == "stdout.write":
            if len(c.args) != 1 or c.keywords:
                raise TranslateError(f"{loc}: unexpected stdout.write call")
            return f"(WriteOut {template(c.args[0], loc)} {k()})"
        if name in ("run.write_error_report", "write_error_report"):
            kw = {x.arg: x.value for x in c.keywords}
            if c.args or set(kw) != {"message", "errors", "stderr"}:
                raise TranslateError(f"{loc}: write_error_report not called with message/errors/stderr")
            if not (isinstance(kw["stderr"], ast.Name) and kw["stderr"].id == "stderr"):
                raise TranslateError(f"{loc}: write_error_report does not write to stderr")
            # the preconditions of write_error_report iterate over ``errors`` before the
            # body does: it must be a list (display, comprehension, or a name), never a
            # one-shot iterator such as map(...) or a generator expression
            if not isinstance(kw["errors"], (ast.List, ast.ListComp, ast.Name)):
                raise TranslateError(f"{loc}: errors= is not a list display, a list "
                                     f"comprehension or a name: {ast.dump(kw['errors'])[:80]}")
            return (f"(WriteErr (ErrReport {template(kw['message'], loc)} {uses(kw['errors'])}) {k()})")
        if name == "assert_never":
            return "Abort"
        if mentions_streams(c):
            raise TranslateError(f"{loc}: call {name} receives a stream and is not translated")
        return opaque()
    if isinstance(s, ast.If):
        return (f"(If {guard_of(s.test)} {block(s.body, where)} {block(s.orelse, where)} {k()})")
    if isinstance(s, (ast.For, ast.While)):
        if s.orelse:
            raise TranslateError(f"{loc}: loop with else")
        if mentions_streams(s.iter if isinstance(s, ast.For) else s.test):
            raise TranslateError(f"{loc}: loop header touches a stream")
        return f"(Loop {block(s.body, where)} {k()})"
    if isinstance(s, ast.Try):
        for b in s.body + s.finalbody + s.orelse:
            if mentions_streams(b) or any(isinstance(n, ast.Return) for n in ast.walk(b)):
                raise TranslateError(f"{loc}: try body/finally touches a stream or returns")
        term = k()
        # either no exception (fall to the rest) or one of the handlers runs
        for h in reversed(s.handlers):
            term = f"(If None {block(h.body, where)} Done {term})"
        return f"(Opaque {term})"
    if isinstance(s, ast.With):
        if any(mentions_streams(i) for i in s.items):
            raise TranslateError(f"{loc}: with-item touches a stream")
        return block(list(s.body) + list(rest), where)
    if isinstance(s, (ast.Assign, ast.AnnAssign, ast.AugAssign, ast.Assert, ast.Pass, ast.Expr,
                      ast.Import, ast.ImportFrom)):
        if mentions_streams(s):
            raise TranslateError(f"{loc}: statement touches a stream: {ast.dump(s)[:100]}")
        return opaque()
    raise TranslateError(f"{loc}: statement kind {type(s).__name__} not understood")


def load_model_headlines() -> List[str]:
    fn = find_function(parse("aas_core_codegen/run.py"), "load_model")
    out = []
    for n in ast.walk(fn):
        if isinstance(n, ast.Call) and call_name(n.func) in ("write_error_report", "run.write_error_report"):
            kw = {x.arg: x.value for x in n.keywords}
            if "message" not in kw:
                raise TranslateError("load_model: write_error_report without message=")
            out.append(template(kw["message"], "run.load_model"))
    if not out:
        raise TranslateError("load_model: no write_error_report call found")
    return out


def gen_skeletons() -> str:
    items = [("main", "aas_core_codegen/main.py")]
    items += [(t, f"aas_core_codegen/{t}/main.py") for t in TARGETS]
    # smoke/main.py:execute has another contract (stderr only, no "Code generated" line,
    # writes in both branches before a common return): it belongs to C28, not translated here
    out = [
        "From Coq Require Import List NArith ZArith.",
        "From Acg Require Import Base.Str Model.Skeleton.",
        "Import ListNotations.",
    ]
    names = []
    for name, rel in items:
        fn = find_function(parse(rel), "execute")
        args = [a.arg for a in fn.args.args]
        if not STREAMS <= set(args):
            raise TranslateError(f"{rel}: execute does not take stdout and stderr")
        out.append(f"Definition sk_{name}_execute : skel :=\n  {block(fn.body, rel)}.")
        names.append(name)
    out.append("Definition all_skeletons : list (list N * skel) := ["
               + "; ".join(f"({coq_text(n)}, sk_{n}_execute)" for n in names) + "].")
    out.append("Definition load_model_headlines : list (list frag) := ["
               + ";\n  ".join(load_model_headlines()) + "].")
    out.append("Definition all_headlines : list (list frag) :=\n"
               "  flat_map (fun p => headlines (snd p)) all_skeletons ++ load_model_headlines.")
    # the dispatch of main.execute must reach every target
    out.append("Definition dispatch_targets : list (list N) := ["
               + "; ".join(coq_text(f"{t}_main") for t in TARGETS) + "].")
    return "\n".join(out) + "\n"


GEN_FILES = {"GenSkeletons": gen_skeletons}
