(** Proofs about [Model/SetInfer.v], [Model/PatternInfer.v] and the collection loops of
    [Model/InferInline.v]: literal-set intersection, merging of literal sets and of
    pattern lists, and "unrecognised forms contribute nothing" (C15). *)
From Coq Require Import List NArith ZArith Bool Lia.
From Acg Require Import Base.Str Base.Outcome Model.InferExpr Model.LenInfer
     Model.PatternInfer Model.SetInfer Model.InferInline Proofs.InferLen.
Import ListNotations.

Section Generic.
  Variable A : Type.
  Variable eqb : A -> A -> bool.
  Hypothesis eqb_spec : forall x y, eqb x y = true <-> x = y.

  Lemma existsb_eqb_In : forall v l, existsb (eqb v) l = true <-> In v l.
  Proof.
    intros v l. rewrite existsb_exists. split.
    - intros [x [Hx He]]. apply eqb_spec in He. subst. exact Hx.
    - intros H. exists v. split; [exact H | apply eqb_spec; reflexivity].
  Qed.

  (** The counting loop of [observe] / [compute_literals]. *)
  Lemma count_fold_le : forall (P : list A -> bool) rest a,
    (fold_left (fun acc l => if P l then S acc else acc) rest a <= a + length rest)%nat.
  Proof.
    intros P. induction rest as [|l r IH]; intros a; cbn [fold_left length].
    - lia.
    - destruct (P l); [specialize (IH (S a)) | specialize (IH a)]; lia.
  Qed.

  Lemma count_fold_full : forall (P : list A -> bool) rest a,
    fold_left (fun acc l => if P l then S acc else acc) rest a = (a + length rest)%nat
    <-> forallb P rest = true.
  Proof.
    intros P. induction rest as [|l r IH]; intros a; cbn [fold_left length forallb].
    - split; [reflexivity | lia].
    - destruct (P l) eqn:Hp; cbn [andb].
      + rewrite <- (IH (S a)). split; intro H; lia.
      + split; [|discriminate]. intro H.
        pose proof (count_fold_le P r a). lia.
  Qed.

  (** [intersect_spec]: the intersection keeps exactly the literals of the first set
      that occur in every other set (with the fix, repeated literals do not matter). *)
  Theorem intersect_spec : forall first rest v,
    In v (intersect eqb first rest) <-> (In v first /\ forall l, In l rest -> In v l).
  Proof.
    intros first rest v. unfold intersect. rewrite filter_In.
    rewrite Nat.eqb_eq.
    pose proof (count_fold_full (fun l => existsb (eqb v) l) rest 0) as Hc.
    cbn [plus Nat.add] in Hc. rewrite Hc, forallb_forall.
    split; intros [H1 H2]; (split; [exact H1|]); intros l Hl.
    - apply existsb_eqb_In. apply H2. exact Hl.
    - apply existsb_eqb_In. apply H2. exact Hl.
  Qed.

  Theorem intersect_all_spec : forall f r v,
    In v (intersect_all eqb (f :: r)) <-> forall l, In l (f :: r) -> In v l.
  Proof.
    intros f r v. cbn [intersect_all]. rewrite intersect_spec. cbn [In]. split.
    - intros [H1 H2] l [<-|Hl]; [exact H1 | apply H2; exact Hl].
    - intros H. split; [apply H; left; reflexivity | intros l Hl; apply H; right; exact Hl].
  Qed.

  Lemma dedup_by_In : forall l seen v,
    In v (dedup_by eqb seen l) <-> (In v l /\ ~ In v seen).
  Proof.
    induction l as [|x r IH]; intros seen v; cbn [dedup_by In].
    - tauto.
    - destruct (existsb (eqb x) seen) eqn:He.
      + apply existsb_eqb_In in He. rewrite IH. split.
        * intros [H1 H2]. split; [right; exact H1 | exact H2].
        * intros [[<-|H1] H2]; [contradiction | split; assumption].
      + assert (Hx : ~ In x seen).
        { intro Hin. apply existsb_eqb_In in Hin. rewrite Hin in He. discriminate. }
        cbn [In]. rewrite IH. cbn [In]. split.
        * intros [<-|[H1 H2]]; [split; [left; reflexivity | exact Hx]|].
          split; [right; exact H1 | intro Hs; apply H2; right; exact Hs].
        * intros [[<-|H1] H2]; [left; reflexivity|].
          destruct (eqb x v) eqn:Hxv.
          -- apply eqb_spec in Hxv. left. exact Hxv.
          -- right. split; [exact H1|]. intros [Heq|Hs]; [|contradiction].
             subst. assert (eqb v v = true) by (apply eqb_spec; reflexivity). congruence.
  Qed.

  (** Merging two literal sets along inheritance is their intersection. *)
  Theorem merge_lits_spec : forall a b v,
    In v (merge_lits eqb a b) <-> (In v a /\ In v b).
  Proof.
    intros a b v. unfold merge_lits. rewrite filter_In, dedup_by_In, in_app_iff.
    destruct (existsb (eqb v) a) eqn:Ha; destruct (existsb (eqb v) b) eqn:Hb;
      cbn [Nat.add Nat.eqb];
      repeat match goal with
             | H : existsb (eqb v) _ = true |- _ => apply existsb_eqb_In in H
             | H : existsb (eqb v) ?l = false |- _ =>
                 assert (~ In v l) by (intro Hin; apply existsb_eqb_In in Hin; congruence);
                 clear H
             end; cbn [In]; split; intros; try tauto; try (destruct H1; discriminate);
      try (destruct H0 as [_ H0]; discriminate); try (destruct H as [_ H]; discriminate).
  Qed.
End Generic.

Lemma lit_eqb_spec : forall x y, lit_eqb x y = true <-> x = y.
Proof.
  intros [a|a] [b|b]; cbn; split; intro H; try discriminate.
  - apply text_eqb_eq in H. subst. reflexivity.
  - inversion H; subst. apply text_eqb_refl.
  - apply Z.eqb_eq in H. subst. reflexivity.
  - inversion H; subst. apply Z.eqb_refl.
Qed.

(** The behaviour before the fix: occurrences were counted, so a repeated literal broke
    both the intersection and the merge. *)
Definition count_occ_b {A} (eqb : A -> A -> bool) (v : A) (l : list A) : nat :=
  length (filter (eqb v) l).
Definition intersect_unfixed {A} (eqb : A -> A -> bool) (first : list A) (rest : list (list A)) :=
  filter (fun v => Nat.eqb (fold_left (fun acc l => (acc + count_occ_b eqb v l)%nat) rest 0%nat)
                           (length rest)) first.
Definition merge_lits_unfixed {A} (eqb : A -> A -> bool) (a b : list A) :=
  filter (fun v => Nat.eqb (count_occ_b eqb v (a ++ b)) 2%nat) (dedup_by eqb [] (a ++ b)).

Lemma sets_unfixed_refuted :
  let A := LStr [65%N] in let B := LStr [66%N] in
  (In A [A] /\ In A [A; B; A] /\ ~ In A (intersect_unfixed lit_eqb [A] [[A; B; A]]))
  /\ (~ In A [B] /\ In A (merge_lits_unfixed lit_eqb [A; A] [B])).
Proof.
  cbn zeta. split; [split; [left; reflexivity | split; [left; reflexivity|]]|].
  - vm_compute. tauto.
  - split; [intros [H|[]]; discriminate | vm_compute; left; reflexivity].
Qed.

(** ** Pattern lists *)

Lemma mem_name_In : forall x l, mem_name x l = true <-> In x l.
Proof.
  intros x l. induction l as [|y r IH]; cbn [mem_name In].
  - split; [discriminate | tauto].
  - rewrite orb_true_iff, IH, text_eqb_spec. split; intros [H|H]; auto.
Qed.

Lemma dedup_from_In : forall l seen p,
  In p (dedup_from seen l) <-> (In p l /\ ~ In p seen).
Proof.
  induction l as [|x r IH]; intros seen p; cbn [dedup_from In].
  - tauto.
  - destruct (mem_name x seen) eqn:He.
    + apply mem_name_In in He. rewrite IH. split.
      * intros [H1 H2]. split; [right; exact H1 | exact H2].
      * intros [[<-|H1] H2]; [contradiction | split; assumption].
    + assert (Hx : ~ In x seen).
      { intro Hin. apply mem_name_In in Hin. rewrite Hin in He. discriminate. }
      cbn [In]. rewrite IH. cbn [In]. split.
      * intros [<-|[H1 H2]]; [split; [left; reflexivity | exact Hx]|].
        split; [right; exact H1 | intro Hs; apply H2; right; exact Hs].
      * intros [[<-|H1] H2]; [left; reflexivity|].
        destruct (text_eqb x p) eqn:Hxp.
        -- apply text_eqb_eq in Hxp. left. exact Hxp.
        -- right. split; [exact H1|]. intros [Heq|Hs]; [|contradiction].
           subst. rewrite text_eqb_refl in Hxp. discriminate.
Qed.

Lemma dedup_from_NoDup : forall l seen, NoDup (dedup_from seen l).
Proof.
  induction l as [|x r IH]; intros seen; cbn [dedup_from]; [constructor|].
  destruct (mem_name x seen); [apply IH|].
  constructor; [|apply IH]. rewrite dedup_from_In. intros [_ H]. apply H. left. reflexivity.
Qed.

Definition pats_hold (ps : option (list text)) (holds : text -> Prop) : Prop :=
  match ps with Some l => forall p, In p l -> holds p | None => True end.

(** [patterns_conj]: the merged pattern list is the conjunction of both lists (and when
    both are present it has no repetitions). *)
Theorem patterns_conj : forall a b (holds : text -> Prop),
  pats_hold (merge_pats a b) holds <-> (pats_hold a holds /\ pats_hold b holds).
Proof.
  intros [a|] [b|] holds; cbn [merge_pats pats_hold]; try tauto.
  split.
  - intros H. split; intros p Hp; apply H; rewrite dedup_from_In, in_app_iff; cbn [In]; tauto.
  - intros [Ha Hb] p Hp. rewrite dedup_from_In, in_app_iff in Hp.
    destruct Hp as [[Hp|Hp] _]; auto.
Qed.

Theorem merge_pats_nodup : forall a b c, merge_pats (Some a) (Some b) = Some c -> NoDup c.
Proof. intros a b c H. inversion H. apply dedup_from_NoDup. Qed.

(** ** Unrecognised invariants are ignored by all three collections *)

Theorem unrecognised_len_ignored : forall props body rest acc errs,
  match_len_invariant body = None ->
  collect_len props (body :: rest) acc errs = collect_len props rest acc errs.
Proof. intros props body rest acc errs H. cbn [collect_len]. rewrite H. reflexivity. Qed.

Theorem unrecognised_pattern_ignored : forall pm props body rest,
  pattern_matches_of_invariant pm body = [] ->
  patterns_from_invariants pm props (body :: rest) = patterns_from_invariants pm props rest.
Proof.
  intros pm props body rest H. unfold patterns_from_invariants. cbn [flat_map].
  rewrite H. reflexivity.
Qed.

Theorem unrecognised_set_ignored : forall ptypes consts body rest,
  set_matches_of_invariant body = [] ->
  infer_sets ptypes consts (body :: rest) = infer_sets ptypes consts rest.
Proof.
  intros ptypes consts body rest H. unfold infer_sets. cbn [flat_map].
  rewrite H. reflexivity.
Qed.

(** A guard on another property makes all three matchers ignore the invariant. *)
Lemma guard_on_other_property_ignored :
  let a := EMember (EName self_id) [97%N] in
  let b := EMember (EName self_id) [98%N] in
  let f := [70%N] in let s := [83%N] in
  let pm := [(f, [94%N; 97%N; 36%N])] in
  forallb (fun body =>
             match match_len_invariant body, pattern_matches_of_invariant pm body,
                   set_matches_of_invariant body with
             | None, [], [] => true
             | _, _, _ => false
             end)
    [ EOr [EIsNone a; ECmp Lt (ECall len_id [b]) (EInt 3)];
      EImpl (EIsNotNone a) (ECmp Ge (ECall len_id [b]) (EInt 3));
      EOr [EIsNone a; ECall f [b]];
      EImpl (EIsNotNone a) (ECall f [b]);
      EOr [EIsNone a; EIsIn b (EName s)];
      EImpl (EIsNotNone a) (EAnd [EIsIn b (EName s); ECall f [b]]) ] = true.
Proof. vm_compute. reflexivity. Qed.
