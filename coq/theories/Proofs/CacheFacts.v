(** C23 — the sequential cache protocol: without the flag nothing is touched; with the
    flag the result is the uncached one over every history of runs and edits. *)
From Coq Require Import List NArith Bool Arith Lia.
From Acg Require Import Base.Str Model.Cache Proofs.CacheFmap.
Import ListNotations.
Local Open Scope nat_scope.

Section CacheFacts.
  Variables M E : Type.
  Variable parse : text -> result M E.
  Variable sha : text -> text.
  Variable pickle : M -> bytes.
  Variable unpickle : bytes -> option M.
  Variable uuid : nat -> text.

  (** Third-party behaviour as hypotheses. [sha] is only assumed injective on the
      texts of the history under consideration (see [inj_on]). *)
  Hypothesis unpickle_pickle : forall m, unpickle (pickle m) = Some m.

  Notation load_model := (load_model M E parse sha pickle unpickle uuid).
  Notation run_history := (run_history M E parse sha pickle unpickle uuid).

  Definition inj_on (T : list text) : Prop :=
    forall t1 t2, In t1 T -> In t2 T -> sha t1 = sha t2 -> t1 = t2.

  (** Every cache entry [model-h] holds [pickle (parse t')] for a text [t'] of [T]
      with [sha t' = h] (unique when [sha] is injective on [T]) — in particular it is
      the pickle of a successfully parsed model: errors are never in the cache. *)
  Definition Inv (T : list text) (w : world) : Prop :=
    forall h c, lookup (PCache h) (files w) = Some c ->
      exists t m, In t T /\ sha t = h /\ parse t = ROk m /\ c = pickle m.

  Lemma Inv_incl : forall T T' w, incl T T' -> Inv T w -> Inv T' w.
  Proof.
    intros T T' w Hincl HI h c Hl.
    destruct (HI h c Hl) as (t & m & Hin & Hs & Hp & Hc).
    exists t, m. repeat split; try assumption. apply Hincl. exact Hin.
  Qed.

  Lemma Inv_empty : forall T, Inv T empty_world.
  Proof. intros T h c Hl. cbn in Hl. discriminate. Qed.

  (** * Opt-in *)
  Lemma no_flag_no_touch : forall t w r w' tr,
    load_model false t w = (r, w', tr) -> w' = w /\ tr = [] /\ r = parse t.
  Proof.
    intros t w r w' tr H. unfold Cache.load_model in H. cbn in H.
    injection H as Hr Hw Ht. subst. repeat split; reflexivity.
  Qed.

  (** * One run with the flag *)
  Lemma load_model_result : forall T t w,
    inj_on T -> In t T -> Inv T w ->
    fst (fst (load_model true t w)) = parse t.
  Proof.
    intros T t w Hinj Hin HI. unfold Cache.load_model. cbn [negb].
    destruct (lookup (PCache (sha t)) (files w)) as [c|] eqn:Hl.
    - cbn. destruct (HI _ _ Hl) as (t' & m & Hin' & Hs & Hp & Hc).
      assert (t' = t) by (apply Hinj; assumption). subst t' c.
      unfold load_result. rewrite unpickle_pickle. symmetry. exact Hp.
    - destruct (parse t) as [m|e|k]; reflexivity.
  Qed.

  Lemma load_model_inv : forall T flag t w,
    In t T -> Inv T w -> Inv T (snd (fst (load_model flag t w))).
  Proof.
    intros T flag t w Hin HI. unfold Cache.load_model.
    destruct flag; cbn [negb]; [|exact HI].
    destruct (lookup (PCache (sha t)) (files w)) as [c|] eqn:Hl; [exact HI|].
    destruct (parse t) as [m|e|k] eqn:Hp; try exact HI.
    cbn [fst snd]. intros h c Hc. cbn [files] in Hc.
    rewrite lookup_fremove_neq in Hc by discriminate.
    destruct (path_eq_dec (PCache h) (PCache (sha t))) as [Heq|Hne].
    - rewrite Heq in Hc. rewrite lookup_fset_eq in Hc. injection Hc as Hc. subst c.
      injection Heq as Heq. exists t, m. repeat split; auto.
    - rewrite lookup_fset_neq in Hc by exact Hne.
      rewrite lookup_fremove_neq in Hc by discriminate.
      rewrite lookup_fset_neq in Hc by discriminate.
      apply HI. exact Hc.
  Qed.

  (** * Errors (and crashes of the front end) are never cached *)
  Lemma errors_never_cached : forall flag t w,
    (forall m, parse t <> ROk m) ->
    snd (fst (load_model flag t w)) = w.
  Proof.
    intros flag t w Hne. unfold Cache.load_model.
    destruct flag; cbn [negb]; [|reflexivity].
    destruct (lookup (PCache (sha t)) (files w)) as [c|]; [reflexivity|].
    destruct (parse t) as [m|e|k] eqn:Hp; try reflexivity.
    exfalso. apply (Hne m). reflexivity.
  Qed.

  (** * Histories *)
  Lemma run_history_spec : forall T hist w,
    inj_on T -> incl (map snd hist) T -> Inv T w ->
    map fst (fst (run_history hist w)) = map (fun ft => parse (snd ft)) hist
    /\ Inv T (snd (run_history hist w)).
  Proof.
    intros T hist. induction hist as [|[flag t] rest IH]; intros w Hinj Hincl HI.
    - cbn. split; [reflexivity|exact HI].
    - cbn [Cache.run_history].
      assert (Hin : In t T) by (apply Hincl; left; reflexivity).
      assert (Hincl' : incl (map snd rest) T) by (intros x Hx; apply Hincl; right; exact Hx).
      pose proof (load_model_inv T flag t w Hin HI) as HI1.
      assert (Hres : fst (fst (load_model flag t w)) = parse t).
      { destruct flag.
        - apply (load_model_result T); assumption.
        - unfold Cache.load_model. reflexivity. }
      destruct (load_model flag t w) as [[r w1] tr] eqn:Hlm. cbn [fst snd] in HI1, Hres.
      destruct (IH w1 Hinj Hincl' HI1) as [IHr IHI].
      destruct (run_history rest w1) as [rs w2] eqn:Hrh. cbn [fst snd] in *.
      split; [|exact IHI].
      cbn [map fst snd]. rewrite Hres, IHr. reflexivity.
  Qed.

  (** Transparency over every history of runs (with and without the flag) and edits:
      each run returns exactly what an uncached run of its text returns. *)
  Theorem cache_transparent : forall hist w,
    inj_on (map snd hist) -> Inv (map snd hist) w ->
    map fst (fst (run_history hist w)) = map (fun ft => parse (snd ft)) hist
    /\ Inv (map snd hist) (snd (run_history hist w)).
  Proof.
    intros hist w Hinj HI. apply run_history_spec; try assumption. apply incl_refl.
  Qed.

  (** * A cache entry is only reused for an identical text *)

  (** texts of the earlier runs that had the flag *)
  Definition flagged (hist : list (bool * text)) : list text :=
    map snd (filter (fun ft : bool * text => fst ft) hist).

  Lemma load_model_inv_flagged : forall T (flag : bool) t w,
    Inv T w -> Inv (if flag then t :: T else T) (snd (fst (load_model flag t w))).
  Proof.
    intros T flag t w HI. destruct flag.
    - apply load_model_inv; [left; reflexivity|].
      apply (Inv_incl T); [intros x Hx; right; exact Hx|exact HI].
    - unfold Cache.load_model. exact HI.
  Qed.

  Lemma history_inv_flagged : forall hist T w,
    Inv T w -> Inv (rev (flagged hist) ++ T) (snd (run_history hist w)).
  Proof.
    induction hist as [|[flag t] rest IH]; intros T w HI.
    - exact HI.
    - cbn [Cache.run_history].
      pose proof (load_model_inv_flagged T flag t w HI) as HI1.
      destruct (load_model flag t w) as [[r w1] tr]. cbn [fst snd] in HI1.
      specialize (IH _ w1 HI1).
      destruct (run_history rest w1) as [rs w2]. cbn [fst snd] in *.
      unfold flagged in *. cbn [filter fst]. destruct flag; cbn [map snd rev].
      + rewrite <- app_assoc. exact IH.
      + exact IH.
  Qed.

  Lemma hit_lookup : forall flag t w,
    is_hit (snd (load_model flag t w)) = true ->
    flag = true /\ exists c, lookup (PCache (sha t)) (files w) = Some c.
  Proof.
    intros flag t w Hh. unfold Cache.load_model in Hh.
    destruct flag; cbn [negb] in Hh; [|cbn in Hh; discriminate].
    split; [reflexivity|].
    destruct (lookup (PCache (sha t)) (files w)) as [c|]; [exists c; reflexivity|].
    destruct (parse t); cbn in Hh; discriminate.
  Qed.

  (** Starting from an empty cache: if the run of [t] after the runs [pre] reads a
      cache entry, then an earlier run with the flag had exactly the text [t]. *)
  Theorem reuse_only_identical : forall pre t flag,
    inj_on (t :: map snd pre) ->
    is_hit (snd (load_model flag t (snd (run_history pre empty_world)))) = true ->
    flag = true /\ In t (flagged pre).
  Proof.
    intros pre t flag Hinj Hh.
    apply hit_lookup in Hh. destruct Hh as [Hf [c Hl]]. split; [exact Hf|].
    pose proof (history_inv_flagged pre [] empty_world (Inv_empty [])) as HI.
    rewrite app_nil_r in HI.
    destruct (HI _ _ Hl) as (t' & m & Hin & Hs & _ & _).
    apply in_rev in Hin.
    assert (t' = t).
    { apply Hinj; [right|left; reflexivity|exact Hs].
      unfold flagged in Hin. apply in_map_iff in Hin. destruct Hin as [[f x] [Hx Hin]].
      apply filter_In in Hin. destruct Hin as [Hin _]. cbn in Hx. subst x.
      apply in_map_iff. exists (f, t'). split; [reflexivity|exact Hin]. }
    subst t'. exact Hin.
  Qed.

  (** Stray temporary files are ignored: result and cache entries of a run do not
      depend on them. *)
  Lemma load_model_strip : forall flag t w,
    fst (fst (load_model flag t (World (cdir w) (strip_tmps (files w)) (next w))))
    = fst (fst (load_model flag t w)).
  Proof.
    intros flag t w. unfold Cache.load_model. destruct flag; cbn [negb]; [|reflexivity].
    cbn [files]. rewrite lookup_strip_cache.
    destruct (lookup (PCache (sha t)) (files w)); [reflexivity|].
    destruct (parse t); reflexivity.
  Qed.
End CacheFacts.
