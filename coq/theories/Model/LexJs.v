(** C19 — ECMAScript (TypeScript) string literal and no-substitution template lexers,
    ECMA-262 §12.9.4 (String Literals) and §12.9.6 (Template Literal Lexical
    Components), strict mode (TypeScript modules): no legacy octal escapes.
    The denoted value is a sequence of UTF-16 code units. A template with a
    substitution [${] has no constant value ([None]).
    Executable definitions only. *)
From Coq Require Import List NArith Bool.
From Acg Require Import Base.Str Model.LexCore.
Import ListNotations.
Open Scope N_scope.

Definition js_line_terminator (c : N) : bool :=
  (c =? 10) || (c =? 13) || (c =? 8232) || (c =? 8233).

Inductive js_state : Type :=
| JStart
| JBody
| JEsc
| JZero                      (* after \0 : next must not be a decimal digit *)
| JHex (remaining : nat) (acc : N)      (* \xHH, \uHHHH *)
| JU                         (* after \u *)
| JBrace (seen : bool) (acc : N)        (* \u{H+} *)
| JEscCR                     (* line continuation: \ CR, an LF may follow *)
| JDollar                    (* template: after $ *)
| JCR                        (* template: after a raw CR (already emitted as LF) *)
| JDone.

Definition js_simple_escape (c : N) : option N :=
  if c =? 39 then Some 39 else if c =? 34 then Some 34 else if c =? 92 then Some 92
  else if c =? 98 then Some 8 else if c =? 102 then Some 12 else if c =? 110 then Some 10
  else if c =? 114 then Some 13 else if c =? 116 then Some 9 else if c =? 118 then Some 11
  else None.

(** [tpl] = template literal (delimiter backtick) or double-quoted string. *)
Definition js_body_char (tpl : bool) (c : N) : option (js_state * text) :=
  if negb (source_char c) then None
  else if c =? 92 then Some (JEsc, [])
  else if tpl then
    if c =? 96 then Some (JDone, [])
    else if c =? 36 then Some (JDollar, [])
    else if c =? 13 then Some (JCR, [10])          (* CR and CRLF are cooked to LF *)
    else Some (JBody, utf16_cp c)
  else
    if c =? 34 then Some (JDone, [])
    else if (c =? 10) || (c =? 13) then None
    else Some (JBody, utf16_cp c).

Definition js_step (tpl : bool) (st : js_state) (c : N) : option (js_state * text) :=
  match st with
  | JStart => if c =? (if tpl then 96 else 34) then Some (JBody, []) else None
  | JBody => js_body_char tpl c
  | JEsc =>
      if negb (source_char c) then None else
      match js_simple_escape c with
      | Some v => Some (JBody, [v])
      | None =>
          if c =? 48 then Some (JZero, [])
          else if is_digit c then None                 (* \1..\9: not in strict mode / templates *)
          else if c =? 120 then Some (JHex 2 0, [])
          else if c =? 117 then Some (JU, [])
          else if c =? 13 then Some (JEscCR, [])
          else if js_line_terminator c then Some (JBody, [])   (* line continuation *)
          else Some (JBody, utf16_cp c)                (* NonEscapeCharacter *)
      end
  | JZero =>
      if is_digit c then None
      else match js_body_char tpl c with
           | Some (st', out) => Some (st', 0 :: out)
           | None => None
           end
  | JHex remaining acc =>
      match hex_val c with
      | None => None
      | Some d =>
          match remaining with
          | O => None
          | S O => Some (JBody, [acc * 16 + d])
          | S k => Some (JHex k (acc * 16 + d), [])
          end
      end
  | JU =>
      if c =? 123 then Some (JBrace false 0, [])
      else match hex_val c with
           | Some d => Some (JHex 3 d, [])
           | None => None
           end
  | JBrace seen acc =>
      if c =? 125 then (if seen then Some (JBody, utf16_cp acc) else None)
      else match hex_val c with
           | Some d => if acc * 16 + d <=? 1114111 then Some (JBrace true (acc * 16 + d), []) else None
           | None => None
           end
  | JEscCR =>
      if c =? 10 then Some (JBody, []) else js_body_char tpl c
  | JDollar =>
      if c =? 123 then None                            (* substitution *)
      else match js_body_char tpl c with
           | Some (st', out) => Some (st', 36 :: out)
           | None => None
           end
  | JCR =>
      if c =? 10 then Some (JBody, []) else js_body_char tpl c
  | JDone => None
  end.

Definition lex_js (tpl : bool) (l : text) : option text :=
  match run (js_step tpl) JStart l with
  | Some (JDone, v) => Some v
  | _ => None
  end.
