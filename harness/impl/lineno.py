"""Adapter for C04: common.LinenoColumner of the tree under test. JSON stdin -> stdout.

payload = {"mode": ..., "texts": [...]}
  mode "table"   : arbitrary texts; the character loop only, through a duck-typed
                   token object (text / tree / get_text) -> positions table
  mode "program" : valid Python texts; real asttokens.ASTTokens + LinenoColumner:
                   the table, and for every AST node with a lineno the node's own
                   (lineno, col_offset[utf-8 bytes]), asttokens' start offset and the
                   "At line L and column C" of error_message(Error(node, "m"))
  mode "model"   : rejected meta-models; the real front end (parse + intermediate);
                   every located error (recursively through ``underlying``) with the
                   node's own position and the reported one
"""
import ast
import json
import re
import sys

import asttokens

from aas_core_codegen.common import Error, LinenoColumner

AT_RE = re.compile(r"^At line (-?\d+) and column (-?\d+): ")


class FakeAtok:
    """Only what LinenoColumner.__init__ may touch."""

    def __init__(self, text):
        self.text = text
        self.tree = None

    def get_text(self, node, padded=True):
        return self.text

    def get_text_range(self, node, padded=True):
        return (0, len(self.text))


def reported(lc, error):
    try:
        msg = lc.error_message(error)
    except BaseException as e:  # noqa
        return {"exc": type(e).__name__}
    m = AT_RE.match(msg)
    if not m:
        return {"noprefix": msg[:80]}
    return {"at": [int(m.group(1)), int(m.group(2))]}


def node_info(atok, lc, node, message="m"):
    info = {"type": type(node).__name__}
    if hasattr(node, "lineno"):
        info["lineno"] = node.lineno
        info["col_offset"] = node.col_offset
    decos = getattr(node, "decorator_list", None)
    if decos:
        info["first_decorator_lineno"] = decos[0].lineno
    add_start(atok, node, info)
    info["reported"] = reported(lc, Error(node, message))
    return info


def add_start(atok, node, info):
    try:
        rng = atok.get_text_range(node)
        info["start"] = rng[0]
        if tuple(rng) == (0, 0) and isinstance(node, (ast.expr, ast.stmt)):
            info["unmarked"] = [node.lineno, node.col_offset]
    except BaseException as e:  # noqa
        info["start_exc"] = type(e).__name__


def stmt_of(tree):
    """Map id(node) -> (lineno, col_offset) of the innermost enclosing statement."""
    out = {}

    def go(node, stmt):
        if isinstance(node, ast.stmt):
            stmt = node
        if stmt is not None:
            out[id(node)] = (stmt.lineno, stmt.col_offset)
        for ch in ast.iter_child_nodes(node):
            go(ch, stmt)

    go(tree, None)
    return out


def do_table(text):
    try:
        lc = LinenoColumner(FakeAtok(text))
        return {"positions": [list(p) for p in lc.positions]}
    except BaseException as e:  # noqa
        return {"exc": type(e).__name__}


def do_program(text):
    try:
        atok = asttokens.ASTTokens(text, parse=True)
    except BaseException as e:  # noqa
        return {"syntax": type(e).__name__}
    try:
        lc = LinenoColumner(atok)
    except BaseException as e:  # noqa
        return {"exc": type(e).__name__}
    stmts = stmt_of(atok.tree)
    nodes = []
    for node in ast.walk(atok.tree):
        if hasattr(node, "lineno"):
            info = node_info(atok, lc, node)
            info["stmt"] = list(stmts.get(id(node), (node.lineno, node.col_offset)))
            nodes.append(info)
    module = reported(lc, Error(atok.tree, "m"))
    return {"positions": [list(p) for p in lc.positions], "nodes": nodes, "module": module}


def do_model(text):
    from aas_core_codegen import parse, intermediate

    atok, exc = parse.source_to_atok(source=text)
    if exc is not None:
        return {"syntax": type(exc).__name__}
    try:
        lc = LinenoColumner(atok)
    except BaseException as e:  # noqa
        return {"exc": type(e).__name__}
    stmts = stmt_of(atok.tree)
    errors = []
    stage = "parse"
    try:
        table, error = parse.atok_to_symbol_table(atok=atok)
        if error is not None:
            errors = [error]
        else:
            stage = "intermediate"
            _, error = intermediate.translate(parsed_symbol_table=table, atok=atok)
            if error is not None:
                errors = [error]
    except BaseException as e:  # noqa
        return {"front_end_exc": type(e).__name__, "stage": stage}
    located = []

    def go(err):
        if err.node is not None:
            node = err.node
            info = {"type": type(node).__name__, "message": err.message[:60]}
            if hasattr(node, "lineno"):
                info["lineno"] = node.lineno
                info["col_offset"] = node.col_offset
                info["stmt"] = list(stmts.get(id(node), (node.lineno, node.col_offset)))
            decos = getattr(node, "decorator_list", None)
            if decos:
                info["first_decorator_lineno"] = decos[0].lineno
            add_start(atok, node, info)
            sub = Error(node, "m")
            info["reported"] = reported(lc, sub)
            located.append(info)
        for u in err.underlying or []:
            go(u)

    for e in errors:
        go(e)
    return {"stage": stage, "n_errors": len(errors), "located": located,
            "positions_len": len(lc.positions)}


payload = json.load(sys.stdin)
fn = {"table": do_table, "program": do_program, "model": do_model}[payload["mode"]]
json.dump([fn(t) for t in payload["texts"]], sys.stdout)
