"""Adapter for the ArgUnpack correspondence (C01): call the real
``parse._translate._parse_constant_set`` / ``_parse_constant_primitive`` on calls with a
given number of positional arguments and a given keyword list and report which argument
ended up in which slot.

Input: ``[{"fn": "set" | "primitive", "n_pos": int, "kws": [name | null, ...]}, ...]``
(``null`` = ``**mapping``). Positional argument ``i`` has the id ``i``, keyword ``j`` the
id ``100 + j``; every argument carries its id in its content and has the type its
*intended* slot needs, so that a successfully parsed constant tells where each came from.

Output per case: ``{"cls": "ok" | "err" | "crash", "slots": [id | null, ...],
"exc": class name | null, "message": str}``.
"""
import ast
import json
import sys
import traceback

import asttokens


def _arg_text(kind: str, ident: int) -> str:
    if kind == "values":
        return f'["v{ident}"]'
    if kind == "description":
        return f'"D{ident}."'
    if kind == "superset_of":
        return f"[S{ident}]"
    if kind == "value":
        return str(1000 + ident)
    return f"other{ident}"


def run_case(case):
    from aas_core_codegen.common import Identifier
    from aas_core_codegen.parse import _translate, _types

    is_set = case["fn"] == "set"
    pos_kinds = (["values", "description", "superset_of"] if is_set else ["value", "description"])
    parts = []
    for i in range(case["n_pos"]):
        kind = pos_kinds[i] if i < len(pos_kinds) else "other"
        parts.append(_arg_text(kind, i))
    for j, name in enumerate(case["kws"]):
        ident = 100 + j
        if name is None:
            parts.append(f"**k{ident}")
        else:
            parts.append(f"{name}={_arg_text(name, ident)}")
    call = ("constant_set" if is_set else "constant_int") + "(" + ", ".join(parts) + ")"
    source = f"X: {'Set[str]' if is_set else 'int'} = {call}\n"
    atok = asttokens.ASTTokens(source, parse=True)
    node = atok.tree.body[0]
    assert isinstance(node, ast.AnnAssign)
    try:
        if is_set:
            anno = _types.AtomicTypeAnnotation(identifier=Identifier("str"), node=node.annotation.slice)
            result, error = _translate._parse_constant_set(
                name=Identifier("X"), items_type_annotation=anno, node=node, atok=atok)
        else:
            result, error = _translate._parse_constant_primitive(
                name=Identifier("X"), primitive_type=Identifier("int"), node=node, atok=atok)
    except BaseException as exc:  # noqa
        if isinstance(exc, KeyboardInterrupt):
            raise
        return {"cls": "crash", "slots": [], "exc": type(exc).__name__,
                "message": str(exc)[:300], "source": source}
    if error is not None:
        return {"cls": "err", "slots": [], "exc": None, "message": error.message[:300],
                "source": source}
    slots = []
    if is_set:
        lits = result.set_literals
        slots.append(int(lits[0].node.value[1:]) if lits else None)
        desc = result.description
        slots.append(None if desc is None else int(desc.node.value[1:-1]))
        slots.append(int(result.subsets[0][1:]) if result.subsets else None)
    else:
        slots.append(result.value - 1000)
        desc = result.description
        slots.append(None if desc is None else int(desc.node.value[1:-1]))
    return {"cls": "ok", "slots": slots, "exc": None, "message": "", "source": source}


def main():
    cases = json.load(sys.stdin)
    json.dump([run_case(c) for c in cases], sys.stdout)


if __name__ == "__main__":
    main()
