(** Model of [run.write_error_report], [textwrap.indent] and the recursion of
    [common.LinenoColumner.error_message] (C03). The line boundaries of
    [str.splitlines] and the white-space of [str.strip] are Section variables,
    instantiated from [Gen/GenPyWhitespace.v]. Hand-written, executable only. *)
From Coq Require Import List NArith ZArith Bool.
From Acg Require Import Base.Str Base.Outcome.
Import ListNotations.
Open Scope N_scope.

Definition COLON : N := 58.
Definition STAR : N := 42.

Section Report.
  Variable lb : list N.    (* str.splitlines boundaries *)
  Variable ws : list N.    (* str.isspace *)

  (** [text.splitlines(True)]; ["\r\n"] is one boundary. [cur] = reversed current line. *)
  Fixpoint splitlines_keep (t cur : text) : list text :=
    match t with
    | [] => match cur with [] => [] | _ => [rev cur] end
    | c :: r =>
        if memN c lb then
          match r with
          | d :: r' =>
              if (c =? CR) && (d =? NL) then rev (d :: c :: cur) :: splitlines_keep r' []
              else rev (c :: cur) :: splitlines_keep r []
          | [] => [rev (c :: cur)]
          end
        else splitlines_keep r (c :: cur)
    end.

  Definition blank_line (l : text) : bool := forallb (fun c => memN c ws) l.

  (** [textwrap.indent(text, prefix)]: lines consisting solely of white-space are not
      prefixed. *)
  Definition indent (prefix t : text) : text :=
    concat (map (fun l => if blank_line l then l else prefix ++ l) (splitlines_keep t [])).

  Definition two : text := [SP; SP].
  Definition bullet (e : text) : text := [STAR; SP] ++ skipn 2 (indent two e) ++ [NL].

  Definition error_ok (e : text) : bool :=
    match e with
    | [] => false
    | c :: _ => negb (c =? NL) && negb (c =? STAR) && negb (ends_with [NL] e)
    end.
  Definition message_ok (m : text) : bool :=
    negb (ends_with [COLON] m) && negb (ends_with [NL] m)
    && negb (starts_with [NL] m) && negb (starts_with [STAR] m).

  (** What is written to [stderr]; a violated [@require] is [Crash Violation]. *)
  Definition write_error_report (m : text) (errs : list text) : outcome text unit :=
    if forallb error_ok errs && message_ok m
    then Ok (m ++ [COLON; NL] ++ concat (map bullet errs))
    else Crash Violation.

  (** [Error] with the already formatted location prefix. *)
  Inductive error := MkError (prefix msg : text) (underlying : list error).

  Fixpoint error_message (e : error) : text :=
    match e with
    | MkError prefix msg underlying =>
        match underlying with
        | [] => prefix ++ msg
        | _ => prefix ++ msg ++ [NL]
               ++ join [NL] (map (fun u => indent two (error_message u)) underlying)
        end
    end.
End Report.

Definition res_eqb (a b : outcome text unit) : bool :=
  match a, b with
  | Ok x, Ok y => text_eqb x y
  | Crash _, Crash _ => true
  | _, _ => false
  end.
