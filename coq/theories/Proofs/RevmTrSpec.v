(** C18 — stage 1: characterisation of the labelled code produced by the translator.
    For every translatable sub-tree the translator succeeds, only allocates labels
    from its counter upwards, and its leaves, once the labels are resolved to the
    positions where they are defined, are the label-free code [comp_*]. *)
From Coq Require Import List NArith Bool Arith Lia.
From Acg Require Import Base.Outcome Model.RevmTree Model.Revm Model.RevmVM Model.RevmComp Model.RevmShape
  Proofs.RevmFrag Proofs.RevmCompCorrect Proofs.RevmLabels.
Import ListNotations.

Definition good (f : nat -> res (list leaf * nat)) (len : nat) (code : nat -> list instr) : Prop :=
  forall n, exists ls n', f n = Ok (ls, n') /\ n <= n'
                          /\ spec ls (fun l => n <= l < n') len (fun _ => code).

Ltac neqb :=
  repeat first [ rewrite Nat.eqb_refl | rewrite (proj2 (Nat.eqb_neq _ _)) by lia ].

Ltac lp := do 3 (cbn [lab_pos lab_is snd noop_at real fst is_noop option_map]; neqb).

Ltac mk_app name S1 S2 :=
  pose proof (spec_app _ _ _ _ _ _ _ _ S1 S2) as name; cbv beta in name;
  specialize (name ltac:(cbv beta; intros; lia)).

Ltac rng := let l := fresh "l" in let H := fresh "H" in intros l H; cbv beta in H; lia.

(** finish: from an assembled spec [T] to the goal spec *)
Ltac fin T := eapply spec_len; [eapply spec_weaken; [eapply spec_code; [exact T|]|rng]|try lia].

Lemma lab_pos_skip : forall l1 l2 p q l,
  (forall l', defined l1 l' -> p <= l' < q) -> (l < p \/ q <= l) ->
  lab_pos (l1 ++ l2) l = option_map (fun k => creal l1 + k) (lab_pos l2 l).
Proof.
  intros l1 l2 p q l H Hl. rewrite lab_pos_app. rewrite (lab_pos_none l1 l); [reflexivity|].
  intros Hd. specialize (H _ Hd). lia.
Qed.

Lemma mk_ranges_ok : forall rs,
  forallb (fun r : N * option N => match snd r with Some b => N.leb (fst r) b | None => true end) rs = true ->
  mk_ranges rs = Ok (map norm_range rs).
Proof.
  induction rs as [|[a e] r IH]; intros H; [reflexivity|].
  cbn [forallb fst snd] in H. apply andb_prop in H. destruct H as [H1 H2].
  cbn [mk_ranges map]. unfold norm_range at 1. cbn [fst snd].
  destruct e as [b|].
  - rewrite H1, (IH H2). reflexivity.
  - rewrite N.leb_refl, (IH H2). reflexivity.
Qed.

Lemma tr_set_ok : forall compl rs, set_wf rs = true ->
  tr_set compl rs = Ok [real (set_instr compl rs)].
Proof.
  intros compl rs H. unfold set_wf in H. apply andb_prop in H. destruct H as [H1 H2].
  unfold tr_set. rewrite (mk_ranges_ok rs H1), H2. unfold set_instr.
  destruct compl; reflexivity.
Qed.

(** * quantifier loops *)
Section Quant.
  Variable body : nat -> res (list leaf * nat).
  Variable bodyc : nat -> list instr.
  Variable blen : nat.
  Hypothesis Hb : good body blen bodyc.

  Lemma copies_good : forall k, good (tr_copies body k) (k * blen) (copies bodyc blen k).
  Proof.
    induction k as [|k IH]; intros n.
    - exists [], n. split; [reflexivity|]. split; [lia|].
      eapply spec_weaken; [apply spec_nil|intros l H; destruct H].
    - destruct (Hb n) as [c [n1 [E1 [L1 S1]]]]. destruct (IH n1) as [cs [n2 [E2 [L2 S2]]]].
      exists (c ++ cs), n2. cbn [tr_copies]. rewrite E1, E2. split; [reflexivity|].
      split; [lia|]. mk_app Sa S1 S2. fin Sa. intros; reflexivity.
  Qed.

  Lemma optionals_spec : forall k final n, final < n ->
    exists ls n', tr_optionals body k final n = Ok (ls, n') /\ n <= n'
      /\ spec ls (fun l => n <= l < n') (k * S blen)
              (fun s a => optionals bodyc blen k (s final) a).
  Proof.
    induction k as [|k IH]; intros final n Hf.
    - exists [], n. split; [reflexivity|]. split; [lia|].
      eapply spec_weaken; [apply spec_nil|intros l H; destruct H].
    - destruct (Hb (S n)) as [c [n1 [E1 [L1 S1]]]].
      destruct (IH final n1) as [cs [n2 [E2 [L2 S2]]]]; [lia|].
      exists (real (ISplit n final) :: noop_at n :: c ++ cs), n2.
      cbn [tr_optionals]. rewrite E1, E2. split; [reflexivity|]. split; [lia|].
      mk_app Sa S1 S2. mk_app Sb (spec_noop_at n) Sa. mk_app Sc (spec_real (ISplit n final)) Sb.
      fin Sc. intros s a Hag.
      assert (Hs : s n = a + 1).
      { apply (agree_at _ _ _ _ _ Hag). cbn [app]. lp. reflexivity. }
      cbv beta. cbn [app sub optionals]. rewrite Hs.
      replace (a + 1) with (S a) by lia. replace (S a + 0) with (S a) by lia. reflexivity.
  Qed.

  Lemma quant_good : forall q, q_ng q = false ->
    good (tr_quant body q) (qlen blen q) (comp_quant bodyc blen q).
  Proof.
    intros q Hng n. unfold tr_quant, qlen, comp_quant. cbv zeta. rewrite Hng.
    destruct (Nat.eqb (q_min q) 1 && match q_max q with Some 1 => true | _ => false end) eqn:E11.
    - exact (Hb n).
    - destruct (q_max q) as [mx|].
      + destruct (copies_good (q_min q) n) as [c1 [n1 [E1 [L1 S1]]]]. rewrite E1.
        destruct (mx - q_min q) as [|j] eqn:Ej.
        * exists c1, n1. split; [reflexivity|]. split; [lia|].
          eapply spec_len; [eapply spec_code; [exact S1|]|lia].
          intros s a _. cbv beta; cbn [optionals]. rewrite app_nil_r. reflexivity.
        * destruct (optionals_spec (S j) n1 (S n1)) as [c2 [n2 [E2 [L2 S2]]]]; [lia|].
          rewrite E2. exists (c1 ++ c2 ++ [noop_at n1]), n2.
          split; [reflexivity|]. split; [lia|].
          mk_app Sa S2 (spec_noop_at n1). mk_app Sb S1 Sa.
          fin Sb. intros s a Hag.
          assert (Hs : s n1 = a + (q_min q * blen + S j * S blen)).
          { apply (agree_at _ _ _ _ _ Hag).
            destruct S1 as [C1 [R1 _]]. destruct S2 as [C2 [R2 _]].
            rewrite (lab_pos_skip c1 _ n n1 n1 R1) by lia.
            rewrite (lab_pos_skip c2 _ (S n1) n2 n1 R2) by lia.
            lp. rewrite C1, C2. lp. f_equal. lia. }
          cbv beta. rewrite Hs, app_nil_r.
          replace (a + q_min q * blen + S j * S blen)
            with (a + (q_min q * blen + S j * S blen)) by lia.
          reflexivity.
      + destruct (q_min q) as [|m].
        * destruct (Hb (S (S (S n)))) as [c [n1 [E1 [L1 S1]]]]. rewrite E1.
          eexists. exists n1. split; [reflexivity|]. split; [lia|].
          mk_app T1 (spec_real (IJump n)) (spec_noop_at (S (S n))).
          mk_app T2 S1 T1. mk_app T3 (spec_noop_at (S n)) T2.
          mk_app T4 (spec_real_at (ISplit (S n) (S (S n))) n) T3.
          fin T4. intros s a Hag. destruct S1 as [C1 [R1 _]].
          assert (H0 : s n = a + 0).
          { apply (agree_at _ _ _ _ _ Hag). lp. reflexivity. }
          assert (H1 : s (S n) = a + 1).
          { apply (agree_at _ _ _ _ _ Hag). lp. reflexivity. }
          assert (H2 : s (S (S n)) = a + S (S blen)).
          { apply (agree_at _ _ _ _ _ Hag). lp.
            rewrite (lab_pos_skip c _ (S (S (S n))) n1 (S (S n)) R1) by lia.
            lp. rewrite C1. lp. f_equal. lia. }
          cbv beta. cbn [app sub]. rewrite H0, H1, H2.
          replace (a + 0) with a by lia. replace (a + 1) with (S a) by lia.
          replace (S a + 0) with (S a) by lia. reflexivity.
        * destruct (copies_good m n) as [c1 [n1 [E1 [L1 S1]]]]. rewrite E1.
          destruct (Hb (S (S n1))) as [c [n2 [E2 [L2 S2]]]]. rewrite E2.
          eexists. exists n2. split; [reflexivity|]. split; [lia|].
          mk_app T1 (spec_real (ISplit n1 (S n1))) (spec_noop_at (S n1)).
          mk_app T2 S2 T1. mk_app T3 (spec_noop_at n1) T2. mk_app T4 S1 T3.
          fin T4. intros s a Hag. destruct S1 as [C1 [R1 _]]. destruct S2 as [C2 [R2 _]].
          assert (H1 : s n1 = a + m * blen).
          { apply (agree_at _ _ _ _ _ Hag).
            rewrite (lab_pos_skip c1 _ n n1 n1 R1) by lia.
            lp. rewrite C1. lp. f_equal. lia. }
          assert (H2 : s (S n1) = a + (m * blen + S blen)).
          { apply (agree_at _ _ _ _ _ Hag).
            rewrite (lab_pos_skip c1 _ n n1 (S n1) R1) by lia. lp.
            rewrite (lab_pos_skip c _ (S (S n1)) n2 (S n1) R2) by lia.
            lp. rewrite C1, C2. lp. f_equal. lia. }
          cbv beta. cbn [app sub]. rewrite H1, H2.
          replace (a + m * blen + 0) with (a + m * blen) by lia.
          replace (a + (m * blen + S blen)) with (a + m * blen + S blen) by lia. reflexivity.
  Qed.
End Quant.

(** * the translator, by mutual induction on the tree *)
Lemma good_single : forall i n,
  spec [real i] (fun l => n <= l < n) 1 (fun _ _ => [i]) -> True.
Proof. trivial. Qed.

Lemma spec_real_closed : forall i n, sub (fun x => x) i = i ->
  (forall s, sub s i = i) ->
  spec [real i] (fun l => n <= l < n) 1 (fun _ _ => [i]).
Proof.
  intros i n _ H. eapply spec_weaken; [eapply spec_code; [apply spec_real|]|intros l Hl; destruct Hl].
  intros s a _. cbv beta. rewrite H. reflexivity.
Qed.

Lemma tr_uniates_cons2 : forall c c2 u2 final n,
  tr_uniates (UCons c (UCons c2 u2)) final n =
  match tr_concat c (S (S n)) with
  | Ok (l, n1) =>
      match tr_uniates (UCons c2 u2) final n1 with
      | Ok (ls, n2) =>
          Ok (real (ISplit n (S n)) :: noop_at n :: l
                ++ real (IJump final) :: noop_at (S n) :: ls, n2)
      | Err e => Err e
      | Crash k => Crash k
      end
  | Err e => Err e
  | Crash k => Crash k
  end.
Proof. reflexivity. Qed.

Lemma tr_good :
  (forall v, trv v = true -> good (tr_value v) (vlen v) (comp_v v))
  /\ (forall t, trt t = true -> good (tr_term t) (tlen t) (comp_t t))
  /\ (forall c, trc c = true ->
        good (tr_concat_all c) (clen c) (comp_c c) /\ good (tr_concat c) (clen c) (comp_c c))
  /\ (forall u, tru u = true ->
        good (tr_union u) (ulen u) (comp_u u)
        /\ (u <> UNil -> forall final n, final < n ->
            exists ls n', tr_uniates u final n = Ok (ls ++ [noop_at final], n') /\ n <= n'
              /\ spec ls (fun l => n <= l < n') (ulen u)
                      (fun s a => comp_alts u (s final) a))).
Proof.
  apply tree_mutind.
  - (* symbols *)
    intros s H n. destruct s; [discriminate| |]; cbn [tr_value tr_sym vlen comp_v].
    + exists [real IEnd], n. split; [reflexivity|]. split; [lia|].
      apply spec_real_closed; reflexivity.
    + exists [real IAny], n. split; [reflexivity|]. split; [lia|].
      apply spec_real_closed; reflexivity.
  - (* char *)
    intros c _ n. exists [real (IChar c)], n. split; [reflexivity|]. split; [lia|].
    apply spec_real_closed; reflexivity.
  - (* set *)
    intros compl rs H n. cbn [trv] in H. cbn [tr_value]. rewrite (tr_set_ok compl rs H).
    exists [real (set_instr compl rs)], n. split; [reflexivity|]. split; [lia|].
    cbn [vlen comp_v]. apply spec_real_closed; unfold set_instr; destruct compl; reflexivity.
  - (* group *)
    intros u IH H n. cbn [trv] in H. destruct (IH H) as [IH1 _]. exact (IH1 n).
  - (* term *)
    intros v IHv q H. destruct q as [q|]; cbn [trt] in H.
    + apply andb_prop in H. destruct H as [Hq Hv]. apply negb_true_iff in Hq.
      cbn [tr_term tlen comp_t]. apply quant_good; [apply IHv; exact Hv|exact Hq].
    + cbn [tr_term tlen comp_t]. apply IHv. exact H.
  - (* CNil *)
    intros _. split; intros n.
    + exists [], n. split; [reflexivity|]. split; [lia|].
      eapply spec_weaken; [apply spec_nil|intros l H; destruct H].
    + exists [noop], n. split; [reflexivity|]. split; [lia|].
      eapply spec_weaken; [apply spec_noop|intros l H; destruct H].
  - (* CCons *)
    intros t IHt c IHc H. cbn [trc] in H. apply andb_prop in H. destruct H as [Ht Hc].
    specialize (IHt Ht). destruct (IHc Hc) as [IHall IHcat].
    assert (Hall : good (tr_concat_all (CCons t c)) (clen (CCons t c)) (comp_c (CCons t c))).
    { intros n. destruct (IHt n) as [l1 [n1 [E1 [L1 S1]]]].
      destruct (IHall n1) as [l2 [n2 [E2 [L2 S2]]]].
      exists (l1 ++ l2), n2. cbn [tr_concat_all]. rewrite E1, E2.
      split; [reflexivity|]. split; [lia|]. mk_app Sa S1 S2. cbn [clen comp_c].
      fin Sa. intros; reflexivity. }
    split; [exact Hall|].
    destruct c as [|t2 c2].
    + intros n. destruct (IHt n) as [l1 [n1 [E1 [L1 S1]]]].
      exists l1, n1. cbn [tr_concat]. split; [exact E1|]. split; [lia|].
      cbn [clen comp_c]. eapply spec_len; [eapply spec_code; [exact S1|]|lia].
      intros s a _. cbv beta. rewrite app_nil_r. reflexivity.
    + intros n. destruct (Hall n) as [ls [n' [E [L S0]]]].
      exists ls, n'. split; [|split; [exact L|exact S0]].
      cbn [tr_concat]. cbn [tr_concat_all] in E. exact E.
  - (* UNil *)
    intros _. split.
    + intros n. exists [noop], n. split; [reflexivity|]. split; [lia|].
      eapply spec_weaken; [apply spec_noop|intros l H; destruct H].
    + intros H. exfalso. apply H. reflexivity.
  - (* UCons *)
    intros c IHc u IHu H. cbn [tru] in H. apply andb_prop in H. destruct H as [Hc Hu].
    destruct (IHc Hc) as [_ IHcat]. destruct (IHu Hu) as [IHun IHuni].
    destruct u as [|c2 u2].
    + split.
      * intros n. destruct (IHcat n) as [l [n1 [E1 [L1 S1]]]].
        exists l, n1. cbn [tr_union]. split; [exact E1|]. split; [lia|exact S1].
      * intros _ final n Hf. destruct (IHcat n) as [l [n1 [E1 [L1 S1]]]].
        exists l, n1. cbn [tr_uniates]. rewrite E1. split; [reflexivity|]. split; [lia|].
        cbn [ulen comp_alts]. exact S1.
    + set (u' := UCons c2 u2) in *.
      assert (Hne : u' <> UNil) by discriminate.
      split.
      * intros n. destruct (IHcat (S (S (S n)))) as [l [n1 [E1 [L1 S1]]]].
        destruct (IHuni Hne n n1) as [ls' [n2 [E2 [L2 S2]]]]; [lia|].
        eexists. exists n2.
        split.
        { unfold u'. cbn [tr_union]. fold u'. rewrite E1, E2. reflexivity. }
        split; [lia|].
        mk_app T1 S2 (spec_noop_at n). mk_app T2 (spec_noop_at (S (S n))) T1.
        mk_app T3 (spec_real (IJump n)) T2. mk_app T4 S1 T3.
        mk_app T5 (spec_noop_at (S n)) T4. mk_app T6 (spec_real (ISplit (S n) (S (S n)))) T5.
        fin T6.
        { intros s a Hag. destruct S1 as [C1 [R1 _]]. destruct S2 as [C2 [R2 _]].
          assert (H1 : s (S n) = a + 1).
          { apply (agree_at _ _ _ _ _ Hag). lp. reflexivity. }
          assert (H2 : s (S (S n)) = a + S (S (clen c))).
          { apply (agree_at _ _ _ _ _ Hag). lp.
            rewrite (lab_pos_skip l _ (S (S (S n))) n1 (S (S n)) R1) by lia.
            lp. rewrite C1. lp. f_equal. lia. }
          assert (H3 : s n = a + (S (clen c) + S (ulen u'))).
          { apply (agree_at _ _ _ _ _ Hag). lp.
            rewrite (lab_pos_skip l _ (S (S (S n))) n1 n R1) by lia. lp.
            rewrite (lab_pos_skip ls' _ n1 n2 n R2) by lia.
            lp. rewrite C1, C2. lp. f_equal. lia. }
          change (comp_u (UCons c u') a)
            with (ISplit (S a) (a + S (S (clen c))) :: comp_c c (S a)
                    ++ IJump (a + ulen (UCons c u'))
                    :: comp_alts u' (a + ulen (UCons c u')) (a + S (S (clen c)))).
          change (ulen (UCons c u')) with (S (clen c) + S (ulen u')).
          cbv beta. cbn [app sub]. rewrite H1, H2, H3, app_nil_r.
          replace (a + 1) with (S a) by lia. replace (S a + 0) with (S a) by lia.
          replace (S a + clen c + 1 + 0) with (a + S (S (clen c))) by lia. reflexivity. }
        change (ulen (UCons c u')) with (S (clen c) + S (ulen u')). lia.
      * intros _ final n Hf. destruct (IHcat (S (S n))) as [l [n1 [E1 [L1 S1]]]].
        destruct (IHuni Hne final n1) as [ls' [n2 [E2 [L2 S2]]]]; [lia|].
        exists (real (ISplit n (S n)) :: noop_at n :: l ++ real (IJump final) :: noop_at (S n) :: ls'), n2.
        split.
        { unfold u'. rewrite tr_uniates_cons2. fold u'. rewrite E1, E2. f_equal. f_equal.
          cbn [app]. rewrite <- app_assoc. reflexivity. }
        split; [lia|].
        mk_app T2 (spec_noop_at (S n)) S2.
        mk_app T3 (spec_real (IJump final)) T2. mk_app T4 S1 T3.
        mk_app T5 (spec_noop_at n) T4. mk_app T6 (spec_real (ISplit n (S n))) T5.
        fin T6.
        { intros s a Hag. destruct S1 as [C1 [R1 _]]. destruct S2 as [C2 [R2 _]].
          assert (H1 : s n = a + 1).
          { apply (agree_at _ _ _ _ _ Hag). lp. reflexivity. }
          assert (H2 : s (S n) = a + S (S (clen c))).
          { apply (agree_at _ _ _ _ _ Hag). lp.
            rewrite (lab_pos_skip l _ (S (S n)) n1 (S n) R1) by lia.
            lp. rewrite C1. lp. f_equal. lia. }
          change (comp_alts (UCons c u') (s final) a)
            with (ISplit (S a) (a + S (S (clen c))) :: comp_c c (S a)
                    ++ IJump (s final) :: comp_alts u' (s final) (a + S (S (clen c)))).
          cbv beta. cbn [app sub]. rewrite H1, H2.
          replace (a + 1) with (S a) by lia. replace (S a + 0) with (S a) by lia.
          replace (S a + clen c + 1 + 0) with (a + S (S (clen c))) by lia. reflexivity. }
        change (ulen (UCons c u')) with (S (clen c) + S (ulen u')). lia.
Qed.
