(** C26: composition. Raw linearisation (proved for all flows, [Proofs/LinearRaw.v])
    + validated clean-up (sound validator, [Proofs/LinearCheck.v]) = trace equality of
    the generated C++ state machine with the structured flow, for all oracles.
    Plus the structural facts about labels and targets. *)
From Coq Require Import List NArith Bool Arith Lia.
From Acg Require Import Base.Outcome Base.Str Model.Flow Model.Linear Model.LinearCheck
  Proofs.LinearSem Proofs.LinearRaw Proofs.LinearCheck.
Import ListNotations.
Open Scope nat_scope.

Lemma struct_run_len : forall orc k sc i t sc' i',
  struct_run orc k sc i = (t, sc', i') -> length t <= k /\ (length t = k \/ sc' = SHalt).
Proof.
  intros orc k; induction k as [|k IH]; intros sc i t sc' i' H.
  - cbn in H. inversion H; subst. cbn. split; [lia|left; reflexivity].
  - cbn [struct_run] in H. destruct sc as [w|].
    + destruct (struct_step orc w i) as [[e c1] i1].
      destruct (struct_run orc k c1 i1) as [[t' c2] i2] eqn:E.
      inversion H; subst. destruct (IH _ _ _ _ _ E) as [A [B|B]]; cbn [length].
      * split; [lia|left; lia].
      * split; [lia|right; exact B].
    + inversion H; subst. cbn. split; [lia|right; reflexivity].
Qed.

(** From "reaches a configuration having emitted exactly [t]" to the stable prefix. *)
Lemma reach_limit : forall M orc k n c0 i0 t c i,
  lin_run M orc n c0 i0 = (t, c, i) -> length t <= k -> (length t = k \/ c = LHalt) ->
  forall n', n <= n' -> firstn k (fst (fst (lin_run M orc n' c0 i0))) = t.
Proof.
  intros M orc k n c0 i0 t c i H Hle Hor n' Hn.
  replace n' with (n + (n' - n)) by lia.
  rewrite lin_run_app, H.
  destruct (lin_run M orc (n' - n) c i) as [[t2 c2] i2] eqn:E. cbn [fst].
  destruct Hor as [Hk | Hh].
  - rewrite firstn_app, Hk, Nat.sub_diag. cbn [firstn]. rewrite app_nil_r.
    rewrite <- Hk. apply firstn_all.
  - subst c. rewrite lin_run_halt in E. inversion E; subst. rewrite app_nil_r.
    apply firstn_all2. exact Hle.
Qed.

Lemma match_conf_halt : forall code c, match_conf code SHalt c -> c = LHalt.
Proof. intros code [p|t| |] H; cbn in H; try contradiction; reflexivity. Qed.

(** The trace statement used by the theorems: for every [k], the first [k] events of the
    machine are, from some number of machine steps on and forever, exactly the first
    [k] events of the structured flow ([EDone] included, so termination agrees, and
    [EStuck] never occurs within them). *)
Definition same_traces (run : nat -> list event) (f : list node) (orc : oracle) : Prop :=
  forall k, exists n, forall n', n <= n' -> firstn k (run n') = run_struct k f orc.

Theorem raw_same_traces : forall f orc, wf_flow f = true ->
  same_traces (fun n => fst (fst (lin_run (flat_machine (linearize_control_flow f)) orc n (LRun 0) 0)))
              f orc.
Proof.
  intros f orc Hwf k. unfold run_struct.
  destruct (struct_run orc k (SRun f) 0) as [[t sc] i] eqn:E.
  destruct (raw_correct f orc k Hwf t sc i E) as [n [c [Hrun HR]]].
  destruct (struct_run_len _ _ _ _ _ _ _ E) as [Hle Hor].
  exists n. cbn [fst]. eapply reach_limit; [exact Hrun|exact Hle|].
  destruct Hor as [A|B]; [left; exact A|right]. subst sc. eapply match_conf_halt; exact HR.
Qed.

Theorem empty_same_traces : forall orc, same_traces (fun n => run_lin n [] orc) [] orc.
Proof.
  intros orc k. exists 1. intros n' Hn. destruct n' as [|n']; [lia|].
  destruct k as [|k]; [reflexivity|]. destruct k; reflexivity.
Qed.

Theorem validated_same_traces : forall f subs orc, wf_flow f = true -> subs <> [] ->
  validate f subs = true -> same_traces (fun n => run_lin n subs orc) f orc.
Proof.
  intros f subs orc Hwf Hne Hv k. unfold run_struct, run_lin.
  destruct subs as [|sub0 subs']; [congruence|]. set (subs := sub0 :: subs') in *.
  destruct (struct_run orc k (SRun f) 0) as [[t sc] i] eqn:E.
  destruct (raw_correct f orc k Hwf t sc i E) as [n1 [c1 [Hrun1 HR]]].
  destruct (sim_check_sound _ _ _ _ Hv orc n1 0 t c1 i Hrun1) as [n2 [c2 [Hrun2 Hh]]].
  destruct (struct_run_len _ _ _ _ _ _ _ E) as [Hle Hor].
  exists n2. cbn [fst]. eapply reach_limit; [exact Hrun2|exact Hle|].
  destruct Hor as [A|B]; [left; exact A|right]. subst sc. apply Hh.
  eapply match_conf_halt; exact HR.
Qed.

(* ------------------------------------------------------------------------- *)
(** * Labels are consecutive (whenever the function returns) *)

Definition heads_consecutive (subs : list (list stmt)) : Prop :=
  forall i a b, nth_error subs i = Some a -> nth_error subs (S i) = Some b ->
  exists l, sub_head_label a = Some l /\ sub_head_label b = Some (S l).

Lemma consecutive_heads_spec : forall subs,
  consecutive_heads subs = Ok true -> heads_consecutive subs.
Proof.
  induction subs as [|a r IH]; intros H i x y Hx Hy.
  - destruct i; discriminate.
  - destruct r as [|b r'].
    + destruct i; cbn in Hy; [discriminate|destruct i; discriminate].
    + cbn [consecutive_heads] in H.
      destruct (sub_head_label a) as [la|] eqn:Ea; [|discriminate].
      destruct (option_eqb Nat.eqb (Some (S la)) (sub_head_label b)) eqn:Eb; [|discriminate].
      destruct i as [|i].
      * cbn in Hx, Hy. inversion Hx; inversion Hy; subst x y.
        exists la. split; [exact Ea|].
        destruct (sub_head_label b) as [lb|]; cbn [option_eqb] in Eb; [|discriminate].
        apply Nat.eqb_eq in Eb. congruence.
      * cbn [nth_error] in Hx, Hy. exact (IH H i x y Hx Hy).
Qed.

Theorem labels_consecutive : forall f subs,
  linearize_to_subroutines f = Ok subs -> heads_consecutive subs.
Proof.
  intros f subs H. apply consecutive_heads_spec.
  unfold linearize_to_subroutines in H. destruct f as [|x f'].
  - inversion H; subst. reflexivity.
  - destruct (compress (linearize_control_flow (x :: f'))) as [s1| |]; cbn [bind] in H; try discriminate.
    destruct (fix_labels s1) as [s2| |]; cbn [bind] in H; try discriminate.
    destruct (split_in_subroutines s2) as [ss| |]; cbn [bind] in H; try discriminate.
    destruct (consecutive_heads ss) as [ok| |] eqn:E; cbn [bind] in H; try discriminate.
    destruct ok; [|discriminate]. inversion H; subst. exact E.
Qed.

(* ------------------------------------------------------------------------- *)
(** * Every jump target is a case label (validated) *)

Lemma check_pairs_targets : forall M1 M2 ks c1 k c2 p q,
  check_pairs M1 M2 ks c1 k c2 p q = true ->
  forall s2 t, In s2 c2 -> In t (kind_targets (s_kind s2)) ->
  exists pos, m_resolve M2 t = Some pos.
Proof.
  intros M1 M2 ks c1; induction c1 as [|s1 r1 IH]; intros k c2 p q H s2 t Hin Ht.
  - destruct k; cbn in H; [|discriminate]. destruct c2; [contradiction|discriminate].
  - destruct k as [|b kr]; cbn [check_pairs] in H; [discriminate|]. destruct b.
    + destruct c2 as [|s2' r2]; [discriminate|].
      apply andb_prop in H. destruct H as [H Hrest]. apply andb_prop in H. destruct H as [Hk _].
      destruct Hin as [->|Hin]; [|exact (IH _ _ _ _ Hrest s2 t Hin Ht)].
      assert (Htgt : forall a b, tgt_ok M1 M2 ks a b = true -> exists pos, m_resolve M2 b = Some pos).
      { intros a b Hab. unfold tgt_ok in Hab. destruct (m_resolve M1 a); [|discriminate].
        destruct (m_resolve M2 b) as [pos|]; [exists pos; reflexivity|discriminate]. }
      destruct (s_kind s1) as [a|c a b|t1| |]; destruct (s_kind s2) as [a'|c' a' b'|t'| |];
        cbn in Hk, Ht; try discriminate; try contradiction.
      * apply andb_prop in Hk. destruct Hk as [Hk Hb]. apply andb_prop in Hk. destruct Hk as [_ Ha].
        apply in_app_or in Ht. destruct Ht as [Ht|Ht].
        -- destruct a' as [y|]; cbn in Ht; [|contradiction]. destruct Ht as [->|[]].
           destruct a as [x0|]; cbn in Ha; [|discriminate]. exact (Htgt _ _ Ha).
        -- destruct b' as [y|]; cbn in Ht; [|contradiction]. destruct Ht as [->|[]].
           destruct b as [x0|]; cbn in Hb; [|discriminate]. exact (Htgt _ _ Hb).
      * destruct Ht as [->|[]]. exact (Htgt _ _ Hk).
    + apply andb_prop in H. destruct H as [_ Hrest]. exact (IH _ _ _ _ Hrest s2 t Hin Ht).
Qed.

Theorem validated_targets_exist : forall f subs, validate f subs = true ->
  forall s t, In s (concat subs) -> In t (kind_targets (s_kind s)) ->
  exists pos, find_case subs 0 t = Some pos.
Proof.
  intros f subs H s t Hs Ht. unfold validate, sim_check in H.
  destruct (align _ _) as [ks|]; [|discriminate].
  apply andb_prop in H. destruct H as [Hp _].
  exact (check_pairs_targets _ _ _ _ _ _ _ _ Hp s t Hs Ht).
Qed.
