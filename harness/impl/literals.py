"""Adapter: run the literal helpers of the tree under test (PYTHONPATH = repo).

stdin JSON:
  {"op": "batch", "cases": [[mode, [code points]], ...]}
      -> [{"ok": [code points]} | {"okb": bool} | {"okm": [[code points], bool]} | {"exc": name}]
  {"op": "single_all", "modes": [...], "ranges": {mode: [[lo, hi], ...]}, "procs": n}
      -> {mode: [[lo, hi, signature], ...]}   run-length description of f(chr(c)), see `describe`

Strings travel as lists of code points (JSON would merge adjacent lone surrogates).
"""
import json
import multiprocessing
import sys

from aas_core_codegen.cpp import common as cpp
from aas_core_codegen.csharp import common as cs
from aas_core_codegen.golang import common as go
from aas_core_codegen.java import common as java
from aas_core_codegen.python import common as py
from aas_core_codegen.typescript import common as ts

SQ = py.StringQuoting.SINGLE_QUOTES
DQ = py.StringQuoting.DOUBLE_QUOTES

MODES = {
    "py_n": lambda s: py.string_literal(s),
    "py_s": lambda s: py.string_literal(s, SQ),
    "py_d": lambda s: py.string_literal(s, DQ),
    "py_nc": lambda s: py.string_literal(s, None, False, True),
    "py_sc": lambda s: py.string_literal(s, SQ, False, True),
    "py_dc": lambda s: py.string_literal(s, DQ, False, True),
    "py_sw": lambda s: py.string_literal(s, SQ, True),
    "py_dw": lambda s: py.string_literal(s, DQ, True),
    "py_nw": lambda s: py.string_literal(s, None, True),
    "ts_q": lambda s: ts.string_literal(s),
    "ts_t": lambda s: ts.string_literal(s, False, True),
    "ts_qw": lambda s: ts.string_literal(s, True, False),
    "ts_tw": lambda s: ts.string_literal(s, True, True),
    "cpp_w": lambda s: cpp.wstring_literal(s),
    "cpp_s": lambda s: cpp.string_literal(s),
    "cpp_c": lambda s: cpp.wchar_literal(s),
    "cs": lambda s: cs.string_literal(s),
    "java": lambda s: java.string_literal(s),
    "go": lambda s: go.string_literal(s),
    "py_needs": lambda s: py.needs_escaping(s),
    "py_needs_curly": lambda s: py.needs_escaping(s, True),
    "cpp_needs": lambda s: cpp.needs_escaping(s),
    "cs_needs": lambda s: cs.needs_escaping(s),
    "java_needs": lambda s: java.needs_escaping(s),
    "go_needs": lambda s: go.needs_escaping(s),
}


def run_one(mode, cps):
    try:
        if mode == "py_bytes":
            lit, multi = py.bytes_literal(bytes(cps))
            return {"okm": [[ord(ch) for ch in lit], bool(multi)]}
        s = "".join(chr(c) for c in cps)
        r = MODES[mode](s)
        if isinstance(r, bool):
            return {"okb": r}
        if not isinstance(r, str):
            return {"exc": "NotAString"}
        return {"ok": [ord(ch) for ch in r]}
    except BaseException as e:  # noqa
        return {"exc": type(e).__name__}


FORMATS = [("08x", 16, 8), ("04x", 16, 4), ("03o", 8, 3), ("02x", 16, 2), ("x", 16, 0), ("o", 8, 0)]


def instantiate(sig, c):
    k = sig[0]
    if k == "exc":
        return None
    if k == "const":
        return sig[1]
    if k == "char":
        return sig[1] + chr(c) + sig[2]
    if k == "num":
        fmt = {(16, 8): "08x", (16, 4): "04x", (8, 3): "03o", (16, 2): "02x", (16, 0): "x", (8, 0): "o"}[
            (sig[2], sig[3])]
        return sig[1] + format(c, fmt) + sig[4]
    raise AssertionError(sig)


def describe(c, o):
    """A description of the output o of f(chr(c)) that `instantiate` maps back to o."""
    ch = chr(c)
    if o.count(ch) == 1 and not ("0" <= ch <= "9" or "a" <= ch <= "f"):
        i = o.index(ch)
        return ["char", o[:i], o[i + 1:]]
    for fmt, base, width in FORMATS:
        d = format(c, fmt)
        if o.count(d) == 1:
            i = o.index(d)
            sig = ["num", o[:i], base, width, o[i + len(d):]]
            if instantiate(sig, c) == o:
                return sig
    return ["const", o]


def sweep(args):
    mode, lo, hi = args
    f = MODES[mode]
    runs = []
    cur = None  # [lo, hi, sig]
    for c in range(lo, hi + 1):
        try:
            o = f(chr(c))
            exc = None
        except BaseException as e:  # noqa
            o = None
            exc = type(e).__name__
        if cur is not None:
            sig = cur[2]
            if (exc is not None and sig == ["exc", exc]) or (
                    exc is None and sig[0] != "exc" and instantiate(sig, c) == o):
                cur[1] = c
                continue
        sig = ["exc", exc] if exc is not None else describe(c, o)
        if sig[0] != "exc":
            assert instantiate(sig, c) == o
        cur = [c, c, sig]
        runs.append(cur)
    return mode, runs


def enc(sig):
    """strings inside signatures as code point lists"""
    return [[ord(ch) for ch in x] if isinstance(x, str) and i > 0 and sig[0] != "exc" else x
            for i, x in enumerate(sig)]


def main():
    req = json.load(sys.stdin)
    if req["op"] == "batch":
        json.dump([run_one(m, cps) for m, cps in req["cases"]], sys.stdout)
        return
    if req["op"] == "single_all":
        jobs = []
        for mode in req["modes"]:
            for lo, hi in req["ranges"][mode]:
                step = 8192
                for a in range(lo, hi + 1, step):
                    jobs.append((mode, a, min(hi, a + step - 1)))
        with multiprocessing.Pool(req.get("procs", 8)) as pool:
            res = pool.map(sweep, jobs, chunksize=1)
        out = {m: [] for m in req["modes"]}
        for mode, runs in res:
            for lo, hi, sig in runs:
                prev = out[mode][-1] if out[mode] else None
                if prev is not None and prev[1] + 1 == lo and prev[2] == sig and sig[0] != "const":
                    prev[1] = hi
                elif prev is not None and prev[1] + 1 == lo and prev[2] == sig and sig[0] == "const":
                    prev[1] = hi
                else:
                    out[mode].append([lo, hi, sig])
        json.dump({m: [[lo, hi, enc(sig)] for lo, hi, sig in runs] for m, runs in out.items()},
                  sys.stdout)
        return
    raise SystemExit("unknown op")


if __name__ == "__main__":
    main()
