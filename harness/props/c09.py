"""C09 — All runnable SDK targets agree with the Python SDK (partial; TypeScript text level only)."""
from __future__ import annotations

import json
import random
import re
import time
from concurrent.futures import ThreadPoolExecutor
from typing import Any, Dict, List, Optional, Tuple

from harness import lib
from harness.gen import metamodel as mmg
from harness.gen import xtarget as xg
from harness.gen import xtarget_text as xt

META = {
    "title": "All runnable SDK targets agree with the Python SDK",
    "design_ref": "§4 C09",
    "level_text": (
        "Coq theorems over the comparison tables and connective skeletons of the Python, "
        "TypeScript, Java and C++ transpilers, re-translated from the sources on every run: "
        "the emitted token, read with the target language's semantics on the SDK's run-time "
        "representation, computes Python's comparison (full for C++; Java and TypeScript "
        "_partial with machine-checked _refuted witnesses: address comparison of boxed "
        "values/strings in Java, UTF-16 code unit order in JavaScript); not/and/or/implication "
        "proved for all four. Tied to the generators by a text-level correspondence (the "
        "invariant checks of the four real generated SDKs parsed into operator trees and "
        "compared) and, in the thorough tier, by compiling and running the generated Java and "
        "C++ SDKs against the Python SDK on the same instances."
    ),
    "level_note": (
        "Partial. TypeScript cannot be compiled or run here (no tsc): it is covered at "
        "table/text level only. The per-language operator semantics in Model/OpSem.v are "
        "hand-written from the language specifications (trusted). JSON of Java/C++ is compared "
        "only when Jackson / nlohmann-json happen to be installed (searched at run time). XML, "
        "de-serialisation of malformed documents and the 140 kLOC of text-emitting glue are "
        "corresponded on generated meta-models, not proved."
    ),
    "technique": "Coq proof over regenerated tables + text-level and compile-and-run differential correspondence",
}
GEN = ["GenOperatorTables"]
MODEL = ["Model/OpSem", "Gen/GenOperatorTables"]
TRUSTED = [
    "Model/OpSem.v: hand-written semantics of ==, !=, <, <=, >, >= in Java (JLS 15.20/15.21, boxing), "
    "C++ (value comparison, 32-bit wchar_t), JavaScript (ECMA-262 7.2.13/7.2.14) and Python",
    "harness/translate/optables.py (dict displays and f-string templates via Python's ast; templates "
    "parsed with harness/gen/xtarget_text.py)",
    "harness/gen/xtarget_text.py: tokenizer/precedence parser/idiom normaliser for the four target languages",
    "javac/java, g++ and the Python interpreter when the thorough tier runs the generated SDKs",
]
RULE = ("case (text) = one invariant of a meta-model (the hand-built probe model with every comparator x "
        "value kind, every connective and every operator pair whose relative precedence/associativity "
        "matters; probe-precedence models with seeded random well-typed expressions of depth <= 4; then "
        "seeded mmgen models) in one target language, compared as PARSED operator trees; "
        "non-trivial = the invariant contains a comparison or a connective; distinct by "
        "(model, description, language). case (run) = (meta-model, instance, target); non-trivial = "
        "the Python SDK reports at least one error for the instance; distinct by (model, instance, target)")

TARGETS = ("python", "typescript", "java", "cpp")
VERIF_FILE = {
    "python": re.compile(r"^[^/]+/verification\.py$"),
    "typescript": re.compile(r"^src/verification\.ts$"),
    "java": re.compile(r"^src/main/java/.*/verification/Verification\.java$"),
    "cpp": re.compile(r"^src/verification\.cpp$"),
}
SEM_TOKEN = {"<": "LT", "<=": "LE", ">": "GT", ">=": "GE", "==": "EQ", "!=": "NE"}


# ----------------------------------------------------------------------------------------
# generation with the real CLI
# ----------------------------------------------------------------------------------------
def generate(models: List[Tuple[str, mmg.MetaModel]], targets=TARGETS, workers: int = 4) -> List[Dict[str, Any]]:
    """Run the real CLI for every (model, target); returns per model {target: result}."""
    jobs = []
    for name, mm in models:
        text = mmg.render_source(mm)
        for t in targets:
            jobs.append({"model_text": text, "target": t, "snippets": mmg.synth_snippets(mm, t)})
    chunks = [jobs[i::workers] for i in range(workers)]
    chunks = [c for c in chunks if c]

    def run(chunk):
        return lib.impl_call("cli.py", {"jobs": chunk, "files": "text"}, timeout=1500)

    with ThreadPoolExecutor(max_workers=len(chunks) or 1) as ex:
        parts = list(ex.map(run, chunks))
    flat: List[Any] = [None] * len(jobs)
    for w, part in enumerate(parts):
        for k, r in enumerate(part):
            flat[w + k * workers] = r
    out = []
    i = 0
    for name, mm in models:
        d = {}
        for t in targets:
            d[t] = flat[i]
            i += 1
        out.append(d)
    return out


def _verif_text(target: str, result: Dict[str, Any]) -> Optional[str]:
    for rel, content in result["files"].items():
        if VERIF_FILE[target].match(rel) and isinstance(content, str):
            return content
    return None


# ----------------------------------------------------------------------------------------
# neutral trees: semantic reading, evaluation under a pseudo-random valuation, first difference
# ----------------------------------------------------------------------------------------
def sem_tree(t):
    """Read the comparison tokens (`<` ... `!=`; the same six in all four languages)."""
    if isinstance(t, tuple):
        if t and t[0] == "cmp":
            if t[1] not in SEM_TOKEN:
                raise xt.TextError(f"unknown comparison token {t[1]!r}")
            return ("cmp", SEM_TOKEN[t[1]], sem_tree(t[2]), sem_tree(t[3]))
        return tuple(sem_tree(x) for x in t)
    if isinstance(t, list):
        return [sem_tree(x) for x in t]
    return t


def cmp_tokens(t, acc: List[str]) -> List[str]:
    if isinstance(t, (tuple, list)):
        if isinstance(t, tuple) and t and t[0] == "cmp":
            acc.append(t[1])
        for x in t:
            cmp_tokens(x, acc)
    return acc


def first_difference(a, b) -> str:
    """Stable signature of the first place two neutral trees differ (root first)."""
    if isinstance(a, tuple) and isinstance(b, tuple) and a and b:
        if a[0] != b[0]:
            return f"{a[0]}-as-{b[0]}"
        if a[0] == "cmp" and a[1] != b[1]:
            return f"cmp-{a[1]}-as-{b[1]}"
        if len(a) != len(b):
            return f"{a[0]}-arity"
        for x, y in zip(a[1:], b[1:]):
            d = first_difference(x, y)
            if d:
                return d
        return ""
    if isinstance(a, list) and isinstance(b, list):
        if len(a) != len(b):
            return "operand-count"
        for x, y in zip(a, b):
            d = first_difference(x, y)
            if d:
                return d
        return ""
    return "" if a == b else "leaf"


def _h(seed: int, key: Any, mod: int) -> int:
    import hashlib
    d = hashlib.sha256(json.dumps([seed, xt.tojson(key)], sort_keys=True, default=str).encode()).digest()
    return int.from_bytes(d[:4], "big") % mod


def _literals(t, acc):
    if isinstance(t, tuple) and t and t[0] in ("int", "float"):
        acc.add(t[1])
    elif isinstance(t, (tuple, list)):
        for x in t:
            _literals(x, acc)
    return acc


def _mentions(t, var: str) -> bool:
    if isinstance(t, tuple) and len(t) == 2 and t[0] == "var" and t[1] == var:
        return True
    if isinstance(t, (tuple, list)):
        return any(_mentions(x, var) for x in t)
    return False


class Valuation:
    """Pseudo-random values for the opaque leaves of neutral trees, a function of
    (seed, leaf) only, so that two trees are evaluated under the same assignment.
    Numbers are drawn from the literals of the trees and their neighbours."""

    def __init__(self, seed: int, trees):
        self.seed = seed
        lits = set()
        for t in trees:
            _literals(t, lits)
        pool = set(range(0, 4))
        for c in lits:
            pool.update({c - 1, c, c + 1})
        self.pool = sorted(pool)
        self.assigned: Dict[str, Any] = {}
        self.bind: Dict[str, int] = {}

    def truth(self, t) -> bool:
        k = t[0]
        if k == "not":
            return not self.truth(t[1])
        if k == "and":
            return all(self.truth(x) for x in t[1])
        if k == "or":
            return any(self.truth(x) for x in t[1])
        if k == "cmp":
            l, r = self.number(t[2]), self.number(t[3])
            return {"LT": l < r, "LE": l <= r, "GT": l > r, "GE": l >= r, "EQ": l == r, "NE": l != r}[t[1]]
        if k == "bool":
            return t[1]
        if k in ("any", "all"):
            # two pseudo-elements: the bound variable takes the values 0 and 1, so that
            # "only some elements satisfy the condition" occurs and any / all differ
            var = t[1]
            results = []
            for idx in (0, 1):
                self.bind[var] = idx
                results.append(self.truth(t[3]))
            self.bind.pop(var, None)
            return any(results) if k == "any" else all(results)
        key = self._key(t)
        v = bool(_h(self.seed, key, 2))
        self.assigned[json.dumps(xt.tojson(key))] = v
        return v

    def _key(self, t):
        """The leaf together with the current values of the bound variables it mentions."""
        bound = sorted((v, i) for v, i in self.bind.items() if _mentions(t, v))
        return (t, bound) if bound else t

    def number(self, t):
        k = t[0]
        if k in ("int", "float"):
            return t[1]
        if k == "add":
            return self.number(t[1]) + self.number(t[2])
        if k == "sub":
            return self.number(t[1]) - self.number(t[2])
        if k in ("str", "enum", "bool"):
            return _h(0, t, 1000003)
        key = self._key(t)
        v = self.pool[_h(self.seed, key, len(self.pool))]
        self.assigned[json.dumps(xt.tojson(key))] = v
        return v


def evaluate(t, seed: int, trees=None) -> bool:
    return Valuation(seed, trees if trees is not None else [t]).truth(t)


def distinguishing_seed(a, b) -> Optional[int]:
    for seed in range(400):
        try:
            v = Valuation(seed, [a, b])
            if v.truth(a) != v.truth(b):
                return seed
        except Exception:
            return None
    return None


# ----------------------------------------------------------------------------------------
# text-level correspondence
# ----------------------------------------------------------------------------------------
def checks_by_description(lang: str, text: str) -> Tuple[Dict[str, List[Any]], List[str]]:
    """description -> list of neutral trees of `flagged when` (canonical form), one per
    occurrence; plus notes on skipped reports."""
    out: Dict[str, List[Any]] = {}
    notes = []
    for c in xt.extract_checks(lang, text):
        if "skipped" in c:
            notes.append(c["description"])
            continue
        t = xt.canon(xt.flagged_when(lang, c))
        out.setdefault(c["description"], []).append(t)
    return out, notes


def text_stream(ctx: lib.Ctx, tables: Optional[Dict[str, Any]], models, gens) -> None:
    n_eval = 0
    nontrivial = []
    ops_seen: Dict[str, int] = {}
    n_models_ok = 0
    for (name, mm), gen in zip(models, gens):
        failed = [t for t in TARGETS if gen[t]["rc"] != 0 or gen[t]["exception"]]
        if failed:
            # generation itself is the business of C02; here only note it
            ctx.count("text", 0, skipped_models=ctx.coverage["streams"].get("text", {}).get("skipped_models", 0) + 1)
            if name.startswith("probe"):
                ctx.corr_break("text", {"model": name, "targets": failed}, "probe model generates on all targets",
                               {t: (gen[t]["stderr"] or str(gen[t]["exception"]))[-600:] for t in failed})
            continue
        n_models_ok += 1
        declared = [inv.description for _, inv in xg.all_invariants(mm)]
        per_lang: Dict[str, Dict[str, List[Any]]] = {}
        broken = False
        for lang in TARGETS:
            text = _verif_text(lang, gen[lang])
            if text is None:
                ctx.corr_break("text", {"model": name, "lang": lang}, "verification file", "missing")
                broken = True
                continue
            try:
                per_lang[lang], _notes = checks_by_description(lang, text)
            except xt.TextError as e:
                ctx.corr_break("text", {"model": name, "lang": lang, "source": mmg.render_source(mm)[:3000]},
                               "parsable invariant checks", str(e)[:800],
                               note="the generated verification code no longer has the shape the reader knows")
                broken = True
        if broken or "python" not in per_lang:
            continue
        py = per_lang["python"]
        for desc in declared:
            if desc not in py:
                ctx.impl_failure(f"text:python:invariant-not-checked", "a declared invariant is not checked by the Python SDK",
                                 {"model": name, "description": desc, "source": mmg.render_source(mm)}, None, "text")
        for lang in TARGETS:
            if lang not in per_lang:
                continue
            for desc in declared:
                n_eval += 1
                ref = py.get(desc)
                got = per_lang[lang].get(desc)
                if ref is None:
                    continue
                if got is None:
                    ctx.impl_failure(f"text:{lang}:invariant-not-checked",
                                     f"the {lang} SDK never reports the invariant (or reports it under another description)",
                                     {"model": name, "description": desc,
                                      "descriptions_in_target": sorted(per_lang[lang])[:80],
                                      "source": mmg.render_source(mm)}, None, "text")
                    continue
                if len(got) != len(ref):
                    ctx.impl_failure(f"text:{lang}:dispatch-count",
                                     f"the invariant is checked at {len(got)} places in {lang}, {len(ref)} in python",
                                     {"model": name, "description": desc, "source": mmg.render_source(mm)},
                                     None, "text")
                try:
                    ref_s = sorted({json.dumps(xt.tojson(sem_tree(t))) for t in ref})
                    got_s = sorted({json.dumps(xt.tojson(sem_tree(t))) for t in got})
                except xt.TextError as e:
                    ctx.corr_break("text", {"model": name, "lang": lang, "description": desc}, "known tokens", str(e))
                    continue
                toks = cmp_tokens(got[0], [])
                for tk in toks:
                    ops_seen[f"{lang}:{tk}"] = ops_seen.get(f"{lang}:{tk}", 0) + 1
                if toks or any(k in got_s[0] for k in ('"and"', '"or"', '"not"')):
                    nontrivial.append((name, desc, lang))
                # the emitted tokens are the ones of the language's table
                if tables is not None and lang in tables:
                    emitted = set(toks)
                    allowed = {v for _, v in tables[lang]["comparison_map"]}
                    if not emitted <= allowed:
                        ctx.corr_break("text", {"model": name, "lang": lang, "description": desc},
                                       f"tokens of the table {sorted(allowed)}", sorted(emitted),
                                       note="transform_comparison emits a token that is not in the translated table")
                if ref_s == got_s:
                    continue
                a = sem_tree(ref[0])
                b = sem_tree(got[0])
                sig = first_difference(a, b) or "structure"
                seed = distinguishing_seed(a, b)
                inp = {"model": name, "description": desc, "language": lang,
                       "python_flags_when": xt.tojson(a), "target_flags_when": xt.tojson(b),
                       "source": mmg.render_source(mm)}
                if seed is not None:
                    inp["valuation_seed"] = seed
                    val = Valuation(seed, [a, b])
                    inp["python_flags"] = val.truth(a)
                    inp["target_flags"] = val.truth(b)
                    inp["operand_values"] = val.assigned
                    ctx.impl_failure(f"text:{lang}:{sig}",
                                     f"the {lang} SDK flags the invariant under a different condition than the Python SDK "
                                     f"({sig}); under the valuation of the operands derived from seed {seed} python "
                                     f"flags={inp['python_flags']} and {lang} flags={inp['target_flags']}",
                                     inp, None, "text",
                                     "generate both SDKs from `source` with aas-core-codegen and compare the check "
                                     "guarding the description in the two verification modules")
                else:
                    ctx.corr_break("text", inp, xt.tojson(a), xt.tojson(b),
                                   note="operator trees differ; no distinguishing valuation found")
    ctx.count("text", n_eval, nontrivial_keys=nontrivial, validated=n_eval, models=n_models_ok,
              comparison_tokens_seen=dict(sorted(ops_seen.items())))


# ----------------------------------------------------------------------------------------
def streams(ctx: lib.Ctx) -> None:
    from harness.translate import optables
    try:
        tables = optables.extract()
    except Exception as e:  # the driver has recorded the broken translator already
        tables = None
        ctx.assume(f"operator tables could not be translated: {e}")

    rng = random.Random(ctx.rng.getrandbits(64))
    models: List[Tuple[str, mmg.MetaModel]] = [("probe", xg.probe_metamodel())]
    if ctx.thorough:
        models.append(("noenum", xg.noenum_metamodel()))  # corpus: known finding no-enums-package
    # random well-typed expressions over the probe class: every operator nested in every other,
    # so that a missing pair of parentheses changes the parsed operator tree of some invariant
    precedence = [(f"probe-precedence-{k}",
                   xg.precedence_metamodel(random.Random(rng.getrandbits(64)), ctx.n(45, 60)))
                  for k in range(ctx.n(1, 3))]
    models.append(precedence[0])
    n_random = ctx.n(4, 12)
    for k in range(n_random):
        prof = "small" if k % 3 else "tiny"
        models.append((f"{prof}-{k}", mmg.random_metamodel(random.Random(rng.getrandbits(64)), prof)))
    models += precedence[1:]
    t0 = time.time()
    gens = generate(models, workers=6)
    ctx.coverage["generation_s"] = round(time.time() - t0, 1)
    text_stream(ctx, tables, models, gens)
    ctx.sample({"model": "probe", "invariants": [i.description + " :: " + i.source
                                                  for _, i in xg.all_invariants(models[0][1])][:12]})
    if ctx.thorough:
        try:
            from harness.gen import xtarget_run  # compile-and-run tier
        except ImportError as e:
            raise lib.HarnessError(f"the compile-and-run tier is not installed: {e}")
        xtarget_run.run_stream(ctx, models, gens)
    else:
        ctx.assume("quick tier: the generated Java and C++ SDKs were not compiled or run "
                   "(thorough tier only); TypeScript is never run (no tsc)")
    ctx.coverage["exhaustive"] = False
