"""C09: cross-target inputs — a probe meta-model that exercises every comparator and
connective on every value kind, a neutral instance description with a seeded instance
generator for arbitrary mmgen meta-models, and renderers of the instances as Python,
Java and C++ construction code (driver programs).

Standard library + harness/gen/metamodel.py only; deterministic in the ``rng``.
"""
from __future__ import annotations

import json
import random
from typing import Any, Dict, Iterable, List, Optional, Sequence, Tuple

from harness.gen import metamodel as mmg
from harness.gen.metamodel import (TPrim, TOur, TList, TOpt, Name, Member, Const, Index, Cmp, IsIn,
                                   IsNone, IsNotNone, Not, And, Or, Implies, Call, ForEach,
                                   ForRange, All, AnyOf, Add, Sub)


# ----------------------------------------------------------------------------------------
# The probe meta-model
# ----------------------------------------------------------------------------------------
def _doc(text: str) -> mmg.Doc:
    return mmg.Doc(summary=text)


def probe_metamodel(invariants: Optional[Sequence[mmg.Invariant]] = None) -> mmg.MetaModel:
    """One class whose invariants use each comparator on ints (literal and property
    operands), floats, strings, booleans and enumeration literals, each connective,
    both quantifiers over both generators, ``len``, ``in`` and a pattern function."""
    S = Name("self")
    P = lambda n: Member(S, n)  # noqa: E731
    invs: List[mmg.Invariant] = []

    def inv(text: str, body) -> None:
        invs.append(mmg.Invariant(f"Constraint {len(invs) + 1}: {text}", body, "custom", {}))

    # comparators, int property against a literal (Java: boxed against primitive)
    for op, n in (("<", 10), ("<=", 10), (">", -1), (">=", 0), ("==", 1000), ("!=", 7)):
        inv(f"a shall be {op} {n}", Cmp(op, P("a"), Const(n)))
    # literal on the left
    inv("3 shall be <= b", Cmp("<=", Const(3), P("b")))
    # comparators, property against property (Java: boxed against boxed)
    for op in ("<", "<=", ">", ">=", "==", "!="):
        inv(f"a shall be {op} b", Cmp(op, P("a"), P("b")))
    # strings
    inv("s shall be abc", Cmp("==", P("s"), Const("abc")))
    inv("s shall not be N/A", Cmp("!=", P("s"), Const("N/A")))
    inv("s shall be t", Cmp("==", P("s"), P("t")))
    inv("s shall differ from t", Cmp("!=", P("s"), P("t")))
    # booleans
    inv("p shall be q", Cmp("==", P("p"), P("q")))
    inv("p shall differ from q", Cmp("!=", P("p"), P("q")))
    # floats
    inv("x shall be < 1.5", Cmp("<", P("x"), Const(1.5)))
    inv("x shall be >= -0.25", Cmp(">=", P("x"), Const(-0.25)))
    inv("x shall be <= y", Cmp("<=", P("x"), P("y")))
    inv("x shall be > y", Cmp(">", P("x"), P("y")))
    # enumeration literals
    inv("c shall be Red", Cmp("==", P("c"), Member(Name("Probe_color"), "Red")))
    inv("c shall not be Dark_blue", Cmp("!=", P("c"), Member(Name("Probe_color"), "Dark_blue")))
    inv("c shall be d", Cmp("==", P("c"), P("d")))
    inv("c shall differ from d", Cmp("!=", P("c"), P("d")))
    # connectives
    inv("p shall not hold", Not(P("p")))
    inv("p and q shall hold", And((P("p"), P("q"))))
    inv("p or q shall hold", Or((P("p"), P("q"))))
    inv("p and q shall not both hold", Not(And((P("p"), P("q")))))
    inv("p implies q", Implies(P("p"), P("q")))
    inv("a below 5 implies b below 5 or q", Implies(Cmp("<", P("a"), Const(5)),
                                                     Or((Cmp("<", P("b"), Const(5)), P("q")))))
    inv("three way conjunction", And((P("p"), Cmp(">=", P("a"), Const(1)), Not(P("q")))))
    inv("nested disjunction", Or((And((P("p"), P("q"))), Not(Cmp("==", P("a"), Const(2))))))
    # optionals
    inv("oa unset or above 3", Or((IsNone(P("oa")), Cmp(">", P("oa"), Const(3)))))
    inv("oa set implies oa <= b", Implies(IsNotNone(P("oa")), Cmp("<=", P("oa"), P("b"))))
    inv("os set implies os in Probe_words", Implies(IsNotNone(P("os")), IsIn(P("os"), Name("Probe_words"))))
    inv("oc unset or oc in Probe_warm", Or((IsNone(P("oc")), IsIn(P("oc"), Name("Probe_warm")))))
    inv("oa and os not both set", Not(And((IsNotNone(P("oa")), IsNotNone(P("os"))))))
    inv("oa set and equal to a, or unset", Or((IsNone(P("oa")), Cmp("==", P("oa"), P("a")))))
    inv("os set implies os equals s", Implies(IsNotNone(P("os")), Cmp("==", P("os"), P("s"))))
    # len, in, pattern
    inv("s shall have at most 8 characters", Cmp("<=", Call("len", (P("s"),)), Const(8)))
    inv("items shall have at least 1 element", Cmp(">=", Call("len", (P("items"),)), Const(1)))
    inv("number of items shall differ from a", Cmp("!=", Call("len", (P("items"),)), P("a")))
    inv("t shall match matches_probe_word", Call("matches_probe_word", (P("t"),)))
    inv("a shall be in Probe_numbers", IsIn(P("a"), Name("Probe_numbers")))
    # quantifiers
    inv("all items light", All(ForEach("item", P("items")), Cmp("<", Member(Name("item"), "weight"), Const(5))))
    inv("some item flagged", AnyOf(ForEach("item", P("items")), Member(Name("item"), "flag")))
    inv("all items by index non-negative",
        All(ForRange("i", Const(0), Call("len", (P("items"),))),
            Cmp(">=", Member(Index(P("items"), Name("i")), "weight"), Const(0))))
    inv("oitems unset or all labelled abc",
        Or((IsNone(P("oitems")),
            All(ForEach("item", P("oitems")), Cmp("==", Member(Name("item"), "label"), Const("abc"))))))
    # arithmetic
    inv("a + 1 shall be > b - 1", Cmp(">", Add(P("a"), Const(1)), Sub(P("b"), Const(1))))
    # ---- every operator pair whose relative precedence / associativity matters ----
    a, b, k, p_, q_ = P("a"), P("b"), P("k"), P("p"), P("q")
    inv("a - (b - k) shall be 0", Cmp("==", Sub(a, Sub(b, k)), Const(0)))
    inv("a - (b + k) shall be < 3", Cmp("<", Sub(a, Add(b, k)), Const(3)))
    inv("(a - b) - k shall be >= 0", Cmp(">=", Sub(Sub(a, b), k), Const(0)))
    inv("a + (b - k) shall not be 1", Cmp("!=", Add(a, Sub(b, k)), Const(1)))
    inv("(a + b) + k shall be > 2", Cmp(">", Add(Add(a, b), k), Const(2)))
    inv("a + (b + k) shall be <= 2000", Cmp("<=", Add(a, Add(b, k)), Const(2000)))
    inv("a - (b - (k - 1)) shall be > 0", Cmp(">", Sub(a, Sub(b, Sub(k, Const(1)))), Const(0)))
    inv("(a - (b + 1)) - (k - a) shall be < 9", Cmp("<", Sub(Sub(a, Add(b, Const(1))), Sub(k, a)), Const(9)))
    inv("a - b shall be < k - 1", Cmp("<", Sub(a, b), Sub(k, Const(1))))
    inv("3 - a shall be >= b - (k + 2)", Cmp(">=", Sub(Const(3), a), Sub(b, Add(k, Const(2)))))
    inv("length of s plus 1 shall be > length of t minus 1",
        Cmp(">", Add(Call("len", (P("s"),)), Const(1)), Sub(Call("len", (P("t"),)), Const(1))))
    inv("not a < b", Not(Cmp("<", a, b)))
    inv("not a >= 10", Not(Cmp(">=", a, Const(10))))
    inv("not s is abc", Not(Cmp("==", P("s"), Const("abc"))))
    inv("not not p", Not(Not(p_)))
    inv("not (a - k < b)", Not(Cmp("<", Sub(a, k), b)))
    inv("not a in Probe_numbers", Not(IsIn(a, Name("Probe_numbers"))))
    inv("os unset or not os in Probe_words", Or((IsNone(P("os")), Not(IsIn(P("os"), Name("Probe_words"))))))
    inv("not oa unset", Not(IsNone(P("oa"))))
    inv("not oa set", Not(IsNotNone(P("oa"))))
    inv("not t matches", Not(Call("matches_probe_word", (P("t"),))))
    inv("not all items light", Not(All(ForEach("item", P("items")), Cmp("<", Member(Name("item"), "weight"), Const(5)))))
    inv("not some item flagged or p", Or((Not(AnyOf(ForEach("item", P("items")), Member(Name("item"), "flag"))), p_)))
    inv("p implies (q implies a < 5)", Implies(p_, Implies(q_, Cmp("<", a, Const(5)))))
    inv("(p implies q) implies a < 5", Implies(Implies(p_, q_), Cmp("<", a, Const(5))))
    inv("p and q implies a < 5 or b < 5", Implies(And((p_, q_)), Or((Cmp("<", a, Const(5)), Cmp("<", b, Const(5))))))
    inv("p or q implies a < 5 and b < 5", Implies(Or((p_, q_)), And((Cmp("<", a, Const(5)), Cmp("<", b, Const(5))))))
    inv("not p implies not q", Implies(Not(p_), Not(q_)))
    inv("not (p implies q)", Not(Implies(p_, q_)))
    inv("p and (q or a < 3)", And((p_, Or((q_, Cmp("<", a, Const(3)))))))
    inv("p or (q and a < 3)", Or((p_, And((q_, Cmp("<", a, Const(3)))))))
    inv("(p or q) and (not p or a > 0)", And((Or((p_, q_)), Or((Not(p_), Cmp(">", a, Const(0)))))))
    inv("(p and q) or (not p and not q)", Or((And((p_, q_)), And((Not(p_), Not(q_))))))
    inv("not (p or (q and a < 3))", Not(Or((p_, And((q_, Cmp("<", a, Const(3))))))))
    inv("(p and q) and (a < 3 and b < 3)", And((And((p_, q_)), And((Cmp("<", a, Const(3)), Cmp("<", b, Const(3)))))))
    inv("p or (q or (a < 3 and b < 3))", Or((p_, Or((q_, And((Cmp("<", a, Const(3)), Cmp("<", b, Const(3)))))))))
    inv("(p implies q) and (q implies p)", And((Implies(p_, q_), Implies(q_, p_))))
    inv("(p implies q) or a < 3", Or((Implies(p_, q_), Cmp("<", a, Const(3)))))
    inv("all items: flag implies weight - 1 < a - (b - k)",
        All(ForEach("item", P("items")),
            Implies(Member(Name("item"), "flag"),
                    Cmp("<", Sub(Member(Name("item"), "weight"), Const(1)), Sub(a, Sub(b, k))))))
    # ---- quantifier kind (any / all) x iteration kind (for-each / for-range), nested, under not / implication
    items = P("items")
    rng_i = lambda v: ForRange(v, Const(0), Call("len", (items,)))  # noqa: E731
    at = lambda v: Index(items, Name(v))  # noqa: E731
    inv("some item by index flagged", AnyOf(rng_i("i"), Member(at("i"), "flag")))
    inv("some item by index heavy", AnyOf(rng_i("i"), Cmp(">=", Member(at("i"), "weight"), Const(5))))
    inv("all items by index flagged", All(rng_i("i"), Member(at("i"), "flag")))
    inv("all items flagged", All(ForEach("item", items), Member(Name("item"), "flag")))
    inv("some item light", AnyOf(ForEach("item", items), Cmp("<", Member(Name("item"), "weight"), Const(5))))
    inv("not some item by index flagged", Not(AnyOf(rng_i("i"), Member(at("i"), "flag"))))
    inv("not all items by index light", Not(All(rng_i("i"), Cmp("<", Member(at("i"), "weight"), Const(5)))))
    inv("p implies some item by index flagged", Implies(p_, AnyOf(rng_i("i"), Member(at("i"), "flag"))))
    inv("some item by index flagged implies q", Implies(AnyOf(rng_i("i"), Member(at("i"), "flag")), q_))
    inv("all items light implies some item by index flagged",
        Implies(All(ForEach("item", items), Cmp("<", Member(Name("item"), "weight"), Const(5))),
                AnyOf(rng_i("i"), Member(at("i"), "flag"))))
    inv("all by index light or some flagged and q",
        Or((All(rng_i("i"), Cmp("<", Member(at("i"), "weight"), Const(5))),
            And((AnyOf(ForEach("item", items), Member(Name("item"), "flag")), q_)))))
    inv("every item is matched by some item not lighter",
        All(ForEach("item", items),
            AnyOf(ForEach("other", items), Cmp(">=", Member(Name("other"), "weight"), Member(Name("item"), "weight")))))
    inv("some index holds a heaviest item",
        AnyOf(rng_i("i"), All(rng_i("j"), Cmp("<=", Member(at("j"), "weight"), Member(at("i"), "weight")))))
    inv("every item has a flagged index not lighter",
        All(ForEach("item", items),
            AnyOf(rng_i("i"), And((Member(at("i"), "flag"),
                                   Cmp(">=", Member(at("i"), "weight"), Member(Name("item"), "weight")))))))
    inv("some index below which all items are light",
        AnyOf(rng_i("i"), All(ForEach("item", items),
                              Or((Cmp("<", Member(Name("item"), "weight"), Const(5)), Member(at("i"), "flag"))))))
    inv("not every item has a lighter or equal flagged one",
        Not(All(ForEach("item", items),
                AnyOf(ForEach("other", items), And((Member(Name("other"), "flag"),
                                                    Cmp("<=", Member(Name("other"), "weight"), Member(Name("item"), "weight"))))))))
    inv("oitems unset or some oitem by index labelled abc",
        Or((IsNone(P("oitems")),
            AnyOf(ForRange("i", Const(0), Call("len", (P("oitems"),))),
                  Cmp(">", Member(Index(P("oitems"), Name("i")), "weight"), Const(3))))))
    inv("last item by index light",
        Or((Cmp("<", Call("len", (P("items"),)), Const(1)),
            Cmp("<", Member(Index(P("items"), Sub(Call("len", (P("items"),)), Const(1))), "weight"), Const(5)))))

    color = mmg.Enumeration("Probe_color", [
        mmg.EnumLiteral("Red", "RED"), mmg.EnumLiteral("Green", "green"),
        mmg.EnumLiteral("Dark_blue", "Dark Blue")], _doc("Enumerate the probe colors."))
    short = mmg.ConstrainedPrimitive(
        "Probe_short_text", "str", [],
        [mmg.Invariant("Constraint 900: The value shall have at most 5 character(s)",
                       Cmp("<=", Call("len", (S,)), Const(5)), "self_compare", {}),
         mmg.Invariant("Constraint 901: The value shall not be the text no",
                       Cmp("!=", S, Const("no")), "self_compare", {})],
        _doc("Constrain the probe text."))
    item = mmg.Class("Probe_item", False, [], [
        mmg.Property("weight", TPrim("int"), _doc("Hold the weight.")),
        mmg.Property("label", TPrim("str"), _doc("Hold the label.")),
        mmg.Property("flag", TPrim("bool"), _doc("Hold the flag.")),
    ], [mmg.Invariant("Constraint 800: weight shall be <= 100", Cmp("<=", Member(S, "weight"), Const(100)), "custom", {})],
        doc=_doc("Represent a probe item."))
    props = [("a", TPrim("int")), ("b", TPrim("int")), ("k", TPrim("int")), ("s", TPrim("str")), ("t", TPrim("str")),
             ("p", TPrim("bool")), ("q", TPrim("bool")), ("x", TPrim("float")), ("y", TPrim("float")),
             ("c", TOur("Probe_color")), ("d", TOur("Probe_color")),
             ("items", TList(TOur("Probe_item"))), ("short_text", TOur("Probe_short_text")),
             ("oa", TOpt(TPrim("int"))), ("os", TOpt(TPrim("str"))), ("oc", TOpt(TOur("Probe_color"))),
             ("oitems", TOpt(TList(TOur("Probe_item"))))]
    probe = mmg.Class("Probe", False, [], [mmg.Property(n, t, _doc(f"Hold the {n}.")) for n, t in props],
                      invs if invariants is None else list(invariants), doc=_doc("Represent the probe."))
    fn = mmg.VerificationFunction("matches_probe_word", "pattern", [("text", TPrim("str"))],
                                  pattern="^[a-z]+(-[a-z0-9]+)*$", pattern_style=0,
                                  doc=_doc("Check that the text is a probe word."))
    consts: List[mmg.Constant] = [
        mmg.ConstantPrimitive("Probe_text", "str", "Text with \"quotes\" and \\ backslash", _doc("Hold a text.")),
        mmg.ConstantPrimitive("Probe_flag", "bool", True, _doc("Hold a flag.")),
        mmg.ConstantPrimitive("Probe_number", "int", 4242, _doc("Hold a number.")),
        mmg.ConstantPrimitive("Probe_ratio", "float", 0.25, _doc("Hold a ratio.")),
        mmg.ConstantSet("Probe_words", "str", ["alpha", "beta", "x y"], [], _doc("List the words.")),
        mmg.ConstantSet("Probe_numbers", "int", [1, 2, 3, 1000], [], _doc("List the numbers.")),
        mmg.ConstantSet("Probe_warm", "Probe_color", ["Red"], [], _doc("List the warm colors.")),
    ]
    mm = mmg.MetaModel(doc=_doc("Provide a probe meta-model."), version="V0.1",
                       xml_namespace="https://example.com/probe",
                       enumerations=[color], constrained_primitives=[short], classes=[item, probe],
                       constants=consts, verification_functions=[fn],
                       decl_order=["Probe_color", "Probe_short_text", "Probe_item", "Probe"],
                       quote_our_types=True, profile="probe")
    return mm


# ----------------------------------------------------------------------------------------
# Random, well-typed expressions over the probe class: every operator nested in every other
# ----------------------------------------------------------------------------------------
class _ExprGen:
    def __init__(self, rng: random.Random):
        self.rng = rng
        self.S = Name("self")
        self.used_optionals = set()
        self.bound = False

    def P(self, n):
        return Member(self.S, n)

    def int_(self, d: int):
        r = self.rng
        if d <= 0 or r.random() < 0.3:
            c = r.random()
            if c < 0.6:
                return self.P(r.choice(["a", "b", "k"]))
            if c < 0.9:
                return Const(r.choice([0, 1, 2, 3, 5, 10, 1000]))
            return Call("len", (self.P(r.choice(["s", "t", "items"])),))
        op = r.choice([Add, Sub, Sub])
        l, rr = self.int_(d - 1), self.int_(d - 1)
        if isinstance(l, Call) and isinstance(rr, (Member,)):
            rr = Const(1)  # a length is only mixed with literals
        if isinstance(rr, Call) and isinstance(l, (Member,)):
            l = Const(1)
        return op(l, rr)

    def _no_len_mix(self, e) -> bool:
        """lengths may only be combined with literals (the type of len is not int)."""
        has_len = any(isinstance(x, Call) and x.name == "len" for x in mmg.walk_expr(e))
        has_prop = any(isinstance(x, Member) and x.name in ("a", "b", "k") for x in mmg.walk_expr(e))
        return not (has_len and has_prop)

    def bool_(self, d: int):
        r = self.rng
        if d <= 0 or r.random() < 0.15:
            c = r.random()
            if c < 0.45:
                return self.P(r.choice(["p", "q"]))
            if c < 0.55:
                return IsIn(self.P(r.choice(["a", "b", "k"])), Name("Probe_numbers"))
            if c < 0.62:
                # one nullness test per optional property and invariant (a second test on
                # an already narrowed value is a type error of the front end)
                free = [n for n in ("oa", "os", "oc", "oitems") if n not in self.used_optionals]
                if not free:
                    return self.P(r.choice(["p", "q"]))
                n = r.choice(free)
                self.used_optionals.add(n)
                return r.choice([IsNone, IsNotNone])(self.P(n))
            if c < 0.68:
                return Call("matches_probe_word", (self.P(r.choice(["s", "t"])),))
            if c < 0.84:
                return self.quantifier(1)
            return self.cmp(1)
        c = r.random()
        if c < 0.1 and not self.bound:
            return self.quantifier(d - 1)
        if c < 0.2:
            return self.cmp(d - 1)
        if c < 0.38:
            return Not(self.bool_(d - 1))
        if c < 0.58:
            return And(tuple(self.bool_(d - 1) for _ in range(r.choice([2, 2, 3]))))
        if c < 0.78:
            return Or(tuple(self.bool_(d - 1) for _ in range(r.choice([2, 2, 3]))))
        return Implies(self.bool_(d - 1), self.bool_(d - 1))

    def quantifier(self, d: int, level: int = 0):
        """any / all over for-each / for-range of the items, possibly one nested inside."""
        r = self.rng
        q = r.choice([All, AnyOf])
        items = self.P("items")
        if r.random() < 0.5:
            var = ["item", "other"][level]
            gen, elem = ForEach(var, items), Name(var)
        else:
            var = ["i", "j"][level]
            gen, elem = ForRange(var, Const(0), Call("len", (items,))), Index(items, Name(var))
        atoms = [Member(elem, "flag"), Cmp(r.choice(mmg.CMP_OPS), Member(elem, "weight"), Const(r.choice([0, 3, 5, 10]))),
                 Cmp(r.choice(["<", ">="]), Member(elem, "weight"), self.P(r.choice(["a", "b"])))]
        cond = r.choice(atoms)
        c = r.random()
        if c < 0.2:
            cond = Not(cond)
        elif c < 0.4:
            cond = r.choice([And, Or])((cond, self.P(r.choice(["p", "q"]))))
        elif c < 0.55:
            cond = Implies(self.P(r.choice(["p", "q"])), cond)
        elif c < 0.8 and level == 0:
            inner = self.quantifier(d - 1, 1)
            cond = r.choice([inner, And((cond, inner)), Implies(cond, inner), Not(inner)])
        return q(gen, cond)

    def cmp(self, d: int):
        for _ in range(20):
            e = Cmp(self.rng.choice(mmg.CMP_OPS), self.int_(d), self.int_(d))
            if self._no_len_mix(e) and not (isinstance(e.left, Const) and isinstance(e.right, Const)):
                return e
        return Cmp("<", self.P("a"), self.P("b"))


def precedence_metamodel(rng: random.Random, n: int = 40) -> mmg.MetaModel:
    """The probe class with ``n`` random invariants (depth <= 4) instead of the fixed ones."""
    g = _ExprGen(rng)
    invs = []
    seen = set()
    while len(invs) < n:
        g.used_optionals = set()
        body = g.bool_(rng.choice([2, 3, 3, 4]))
        text = mmg.render_expr(body)
        if text in seen or isinstance(body, (Member, Const)):
            continue
        seen.add(text)
        invs.append(mmg.Invariant(f"Constraint {len(invs) + 1}: random expression {len(invs) + 1}", body, "custom", {}))
    mm = probe_metamodel(invs)
    mm.profile = "probe-precedence"
    return mm


def noenum_metamodel() -> mmg.MetaModel:
    """A minimal meta-model without any enumeration (corpus: the Java SDK of such a model
    imports the never generated package ``types.enums``)."""
    S = Name("self")
    plain = mmg.Class("Plain_thing", False, [], [mmg.Property("label", TPrim("str"), _doc("Hold the label."))],
                      [mmg.Invariant("Constraint 1: label shall have at least 1 character(s)",
                                     Cmp(">=", Call("len", (Member(S, "label"),)), Const(1)), "custom", {})],
                      doc=_doc("Represent a plain thing."))
    return mmg.MetaModel(doc=_doc("Provide a meta-model without enumerations."), version="V0.1",
                         xml_namespace="https://example.com/noenum", classes=[plain],
                         decl_order=["Plain_thing"], quote_our_types=True, profile="noenum")


def all_invariants(mm: mmg.MetaModel) -> List[Tuple[str, mmg.Invariant]]:
    """(owner name, invariant) of every invariant declared in the meta-model."""
    out = []
    for cp in mm.constrained_primitives:
        out += [(cp.name, i) for i in cp.invariants]
    for c in mm.classes:
        out += [(c.name, i) for i in c.invariants]
    return out


# ----------------------------------------------------------------------------------------
# Naming (copies of aas_core_codegen.naming as used by python/java/cpp naming; if the
# generators rename, the drivers stop compiling, which the check reports)
# ----------------------------------------------------------------------------------------
def _parts(name: str) -> List[str]:
    return [p for p in name.split("_") if p != ""]


def cap_camel(name: str) -> str:
    return "".join(p.capitalize() for p in _parts(name))


def low_camel(name: str) -> str:
    ps = _parts(name)
    return ps[0].lower() + "".join(p.capitalize() for p in ps[1:])


def upper_snake(name: str) -> str:
    return "_".join(p.upper() for p in _parts(name))


def lower_snake(name: str) -> str:
    return "_".join(p.lower() for p in _parts(name))


# ----------------------------------------------------------------------------------------
# Neutral instance description
#   value ::= None | bool | int | {"float": x} | str | {"bytes": hex} | {"enum": E, "lit": L}
#           | [value, ...] | {"class": C, "fields": {prop: value}}
# ----------------------------------------------------------------------------------------
def _constants_in(mm: mmg.MetaModel) -> Tuple[List[int], List[float], List[str]]:
    ints, floats, strs = set(), set(), set()
    for _, inv in all_invariants(mm):
        for e in mmg.walk_expr(inv.body):
            if isinstance(e, Const):
                v = e.value
                if isinstance(v, bool):
                    continue
                if isinstance(v, int):
                    ints.add(v)
                elif isinstance(v, float):
                    floats.add(v)
                elif isinstance(v, str):
                    strs.add(v)
    for c in mm.constants:
        if isinstance(c, mmg.ConstantSet):
            for v in c.values:
                if c.items_type == "int":
                    ints.add(v)
                elif c.items_type == "str":
                    strs.add(v)
    return sorted(ints), sorted(floats), sorted(strs)


class InstanceGen:
    def __init__(self, mm: mmg.MetaModel, rng: random.Random):
        self.mm = mm
        self.rng = rng
        ints, floats, strs = _constants_in(mm)
        self.ints = sorted({0, 1, 2, 127, 128, 1000, 100000} | {c + d for c in ints for d in (-1, 0, 1)})
        # floats: multiples of 1/4 only (exact in binary32 and binary64 alike)
        self.floats = sorted({0.0, 0.25, 1.0, -1.5, 2.5} | {c + d for c in floats for d in (-0.25, 0.0, 0.25)
                                                              if (c * 4) == int(c * 4)})
        words = ["", "a", "ab", "abc", "abcdef", "abcdefghij", "x y", "N/A", "no", "alpha", "Zq-9",
                 "hello-world", "ABCD", "ab-cd12", "0123456789abcdef0123"]
        self.strs = sorted(set(words) | set(strs))
        self.concrete: Dict[str, List[mmg.Class]] = {}

    def concretes(self, name: str) -> List[mmg.Class]:
        if name not in self.concrete:
            c = self.mm.find_class(name)
            out = []
            if c is not None:
                cands = [c] + mmg.descendants(self.mm, c)
                out = [d for d in cands if not d.is_abstract and not d.is_implementation_specific]
            self.concrete[name] = out
        return self.concrete[name]

    def value(self, t, depth: int):
        rng = self.rng
        if isinstance(t, TOpt):
            if rng.random() < 0.35:
                return None
            return self.value(t.value, depth)
        if isinstance(t, TList):
            n = rng.choice([0, 1, 1, 2, 3]) if depth < 3 else rng.choice([0, 0, 1])
            return [self.value(t.items, depth + 1) for _ in range(n)]
        if isinstance(t, TPrim):
            return self.prim(t.name)
        if isinstance(t, TOur):
            en = self.mm.find_enum(t.name)
            if en is not None:
                return {"enum": en.name, "lit": rng.choice(en.literals).name}
            cp = self.mm.find_cprim(t.name)
            if cp is not None:
                return self.prim(mmg.cprim_constrainee(self.mm, t.name) or cp.constrainee)
            cands = self.concretes(t.name)
            if not cands:
                raise ValueError(f"no concrete class for {t.name}")
            return self.instance(rng.choice(cands), depth + 1)
        raise ValueError(f"unexpected type {t}")

    def prim(self, name: str):
        rng = self.rng
        if name == "bool":
            return rng.random() < 0.5
        if name == "int":
            return rng.choice(self.ints)
        if name == "float":
            return {"float": rng.choice(self.floats)}
        if name == "str":
            return rng.choice(self.strs)
        if name == "bytearray":
            return {"bytes": bytes(rng.randrange(256) for _ in range(rng.choice([0, 1, 3, 8]))).hex()}
        raise ValueError(name)

    def instance(self, cls: mmg.Class, depth: int = 0) -> Dict[str, Any]:
        if depth > 6:
            # only optional / list properties may recurse (mmgen guarantees it): cut them
            fields = {}
            for p, _ in mmg.stacked_properties(self.mm, cls):
                if isinstance(p.type, TOpt):
                    fields[p.name] = None
                elif isinstance(p.type, TList):
                    fields[p.name] = []
                else:
                    fields[p.name] = self.value(p.type, depth)
            return {"class": cls.name, "fields": fields}
        fields = {}
        for p, _ in mmg.stacked_properties(self.mm, cls):
            fields[p.name] = self.value(p.type, depth)
        # correlate equal-typed scalar fields now and then (a == b, s == t ... become true)
        names = list(fields)
        for _ in range(2):
            if len(names) >= 2 and self.rng.random() < 0.5:
                a, b = self.rng.sample(names, 2)
                pa = next(p for p, _ in mmg.stacked_properties(self.mm, cls) if p.name == a)
                pb = next(p for p, _ in mmg.stacked_properties(self.mm, cls) if p.name == b)
                if mmg.beneath_optional(pa.type) == mmg.beneath_optional(pb.type) and fields[a] is not None \
                        and not isinstance(fields[a], (list,)) and not (isinstance(fields[a], dict) and "class" in fields[a]):
                    if fields[b] is not None or not isinstance(pb.type, TOpt) or True:
                        fields[b] = json.loads(json.dumps(fields[a]))
        return {"class": cls.name, "fields": fields}


def gen_instances(mm: mmg.MetaModel, rng: random.Random, n: int) -> List[Dict[str, Any]]:
    g = InstanceGen(mm, rng)
    roots = [c for c in mm.classes if not c.is_abstract and not c.is_implementation_specific]
    if not roots:
        return []
    out = []
    for k in range(n):
        cls = roots[k % len(roots)] if k < len(roots) else rng.choice(roots)
        out.append(g.instance(cls))
    return out


def curated_quantifier_instances(mm: mmg.MetaModel, rng: random.Random, limit: int = 8) -> List[Dict[str, Any]]:
    """Instances whose lists of class instances have three elements of which all / none /
    only the first / only the last carry a given boolean and a small integer value — so that
    `any` and `all`, over elements and over indices, see lists where only SOME elements satisfy
    the condition."""
    g = InstanceGen(mm, rng)
    out: List[Dict[str, Any]] = []
    patterns = [(True, True, True), (False, False, False), (True, False, False), (False, False, True)]
    for cls in mm.classes:
        if cls.is_abstract or cls.is_implementation_specific:
            continue
        props = mmg.stacked_properties(mm, cls)
        lists = [p for p, _ in props if isinstance(mmg.beneath_optional(p.type), TList)
                 and isinstance(mmg.beneath_optional(p.type).items, TOur)
                 and g.concretes(mmg.beneath_optional(p.type).items.name)]
        if not lists:
            continue
        for pat in patterns:
            if len(out) >= limit:
                return out
            inst = g.instance(cls)
            for p in lists:
                ecls = g.concretes(mmg.beneath_optional(p.type).items.name)[0]
                elems = []
                for on in pat:
                    e = g.instance(ecls, 1)
                    for ep, _ in mmg.stacked_properties(mm, ecls):
                        if ep.type == TPrim("bool"):
                            e["fields"][ep.name] = on
                        elif ep.type == TPrim("int"):
                            e["fields"][ep.name] = 1 if on else 7
                    elems.append(e)
                inst["fields"][p.name] = elems
            out.append(inst)
    return out


def ctor_order(mm: mmg.MetaModel, cls: mmg.Class) -> List[mmg.CtorArg]:
    ctor = mmg.ctor_of(mm, cls)
    return list(ctor.args) if ctor is not None else []


# ----------------------------------------------------------------------------------------
# Java driver
# ----------------------------------------------------------------------------------------
def java_string(s: str) -> str:
    out = ['"']
    for ch in s:
        o = ord(ch)
        if ch == '"':
            out.append('\\"')
        elif ch == "\\":
            out.append("\\\\")
        elif 32 <= o < 127:
            out.append(ch)
        elif o > 0xFFFF:
            o -= 0x10000
            out.append("\\u%04x\\u%04x" % (0xD800 + (o >> 10), 0xDC00 + (o & 0x3FF)))
        else:
            out.append("\\u%04x" % o)
    out.append('"')
    return "".join(out)


class JavaRender:
    def __init__(self, mm: mmg.MetaModel, pkg: str):
        self.mm = mm
        self.pkg = pkg

    def jtype(self, t) -> str:
        if isinstance(t, TOpt):
            return self.jtype(t.value)
        if isinstance(t, TList):
            return f"List<{self.jtype(t.items)}>"
        if isinstance(t, TPrim):
            return {"bool": "Boolean", "int": "Long", "float": "Float", "str": "String", "bytearray": "byte[]"}[t.name]
        if self.mm.find_enum(t.name):
            return cap_camel(t.name)
        if self.mm.find_cprim(t.name):
            return self.jtype(TPrim(mmg.cprim_constrainee(self.mm, t.name)))
        return "I" + cap_camel(t.name)

    def value(self, t, v) -> str:
        if v is None:
            return "null"
        if isinstance(t, TOpt):
            return self.value(t.value, v)
        if isinstance(t, TList):
            items = ", ".join(self.value(t.items, x) for x in v)
            return f"new ArrayList<{self.jtype(t.items)}>(Arrays.asList(new {self._array_type(t.items)}[]{{{items}}}))"
        if isinstance(t, TOur) and self.mm.find_cprim(t.name):
            return self.value(TPrim(mmg.cprim_constrainee(self.mm, t.name)), v)
        if isinstance(t, TPrim):
            if t.name == "bool":
                return "Boolean.valueOf(%s)" % ("true" if v else "false")
            if t.name == "int":
                return f"Long.valueOf({v}L)"
            if t.name == "float":
                return f"Float.valueOf({v['float']!r}f)"
            if t.name == "str":
                # a fresh object, as after reading the text from a document
                return f"new String({java_string(v)})"
            if t.name == "bytearray":
                bs = bytes.fromhex(v["bytes"])
                return "new byte[]{" + ", ".join(f"(byte) {b}" for b in bs) + "}"
        if isinstance(v, dict) and "enum" in v:
            return f"{cap_camel(v['enum'])}.{upper_snake(v['lit'])}"
        if isinstance(v, dict) and "class" in v:
            return self.instance(v)
        raise ValueError(f"cannot render {v!r} as {t}")

    def _array_type(self, t) -> str:
        # generic array creation is illegal: use the raw element type
        jt = self.jtype(t)
        return jt.split("<")[0]

    def instance(self, inst) -> str:
        cls = self.mm.find_class(inst["class"])
        args = []
        props = {p.name: p for p, _ in mmg.stacked_properties(self.mm, cls)}
        for a in ctor_order(self.mm, cls):
            args.append(self.value(props[a.name].type, inst["fields"].get(a.name)))
        return f"new {cap_camel(cls.name)}({', '.join(args)})"


def render_java_main(mm: mmg.MetaModel, instances, pkg: str, with_json: bool) -> str:
    r = JavaRender(mm, pkg)
    L: List[str] = []
    L.append("import java.util.*;")
    L.append(f"import {pkg}.types.impl.*;")
    L.append(f"import {pkg}.types.model.*;")
    if mm.enumerations:
        L.append(f"import {pkg}.types.enums.*;")
    L.append(f"import {pkg}.reporting.Reporting;")
    L.append(f"import {pkg}.verification.Verification;")
    L.append(f"import {pkg}.stringification.Stringification;")
    if with_json:
        L.append(f"import {pkg}.jsonization.Jsonization;")
    L.append("public class Main {")
    L.append("  static String esc(String s) { StringBuilder b = new StringBuilder(); for (int i = 0; i < s.length(); i++) {"
             " char c = s.charAt(i); if (c == '\\\\') b.append(\"\\\\\\\\\"); else if (c == '\\n') b.append(\"\\\\n\");"
             " else if (c == '\\t') b.append(\"\\\\t\"); else if (c == '\\r') b.append(\"\\\\r\"); else b.append(c); } return b.toString(); }")
    for i, inst in enumerate(instances):
        L.append(f"  static IClass make{i}() {{ return {r.instance(inst)}; }}")
    L.append("  static void run(int i, IClass that) {")
    L.append("    try {")
    L.append("      for (Reporting.Error e : Verification.verify(that)) {")
    L.append("        System.out.println(\"E\\t\" + i + \"\\t\" + esc(e.getCause()) + \"\\t\" + esc(Reporting.generateJsonPath(e.getPathSegments())));")
    L.append("      }")
    if with_json:
        L.append("      System.out.println(\"J\\t\" + i + \"\\t\" + esc(Jsonization.Serialize.toJsonObject(that).toString()));")
    L.append("    } catch (RuntimeException ex) {")
    L.append("      System.out.println(\"X\\t\" + i + \"\\t\" + esc(ex.getClass().getName() + \": \" + ex.getMessage()));")
    L.append("    }")
    L.append("    System.out.println(\"D\\t\" + i);")
    L.append("  }")
    L.append("  public static void main(String[] args) throws Exception {")
    L.append("    java.io.PrintStream out = new java.io.PrintStream(new java.io.FileOutputStream(java.io.FileDescriptor.out), true, \"UTF-8\");")
    L.append("    System.setOut(out);")
    for en in mm.enumerations:
        for lit in en.literals:
            L.append(f"    System.out.println(\"L\\t{en.name}\\t{lit.name}\\t\" + esc(Stringification.toString("
                     f"{cap_camel(en.name)}.{upper_snake(lit.name)}).orElse(\"<none>\")));")
    for i in range(len(instances)):
        L.append(f"    run({i}, make{i}());")
    L.append("  }")
    L.append("}")
    return "\n".join(L) + "\n"


def render_java_constants_main(mm: mmg.MetaModel, pkg: str) -> str:
    """Separate program: the constants class may not compile (then only this one fails)."""
    L = ["import java.util.*;", f"import {pkg}.constants.Constants;"]
    if mm.enumerations:
        L.append(f"import {pkg}.types.enums.*;")
        L.append(f"import {pkg}.stringification.Stringification;")
    L.append("public class MainConstants {")
    L.append("  static String esc(String s) { StringBuilder b = new StringBuilder(); for (int i = 0; i < s.length(); i++) {"
             " char c = s.charAt(i); if (c == '\\\\') b.append(\"\\\\\\\\\"); else if (c == '\\n') b.append(\"\\\\n\");"
             " else if (c == '\\t') b.append(\"\\\\t\"); else if (c == '\\r') b.append(\"\\\\r\"); else b.append(c); } return b.toString(); }")
    L.append("  public static void main(String[] args) throws Exception {")
    L.append("    java.io.PrintStream out = new java.io.PrintStream(new java.io.FileOutputStream(java.io.FileDescriptor.out), true, \"UTF-8\");")
    for c in mm.constants:
        jname = low_camel(c.name)
        if isinstance(c, mmg.ConstantPrimitive):
            if c.kind == "bytearray":
                continue
            L.append(f"    out.println(\"C\\t{c.name}\\t\" + esc(String.valueOf(Constants.{jname})));")
        else:
            if mm.find_enum(c.items_type):
                L.append(f"    {{ List<String> xs = new ArrayList<>(); for ({cap_camel(c.items_type)} x : Constants.{jname}) "
                         f"xs.add(Stringification.toString(x).orElse(\"<none>\")); Collections.sort(xs); "
                         f"out.println(\"S\\t{c.name}\\t\" + esc(String.valueOf(xs))); }}")
            else:
                L.append(f"    {{ List<String> xs = new ArrayList<>(); for (Object x : Constants.{jname}) "
                         f"xs.add(String.valueOf(x)); Collections.sort(xs); out.println(\"S\\t{c.name}\\t\" + esc(String.valueOf(xs))); }}")
    L.append("  }")
    L.append("}")
    return "\n".join(L) + "\n"


# ----------------------------------------------------------------------------------------
# C++ driver
# ----------------------------------------------------------------------------------------
def cpp_wstring(s: str) -> str:
    out = ['L"']
    prev_hex = False
    for ch in s:
        o = ord(ch)
        if ch == '"':
            out.append('\\"'); prev_hex = False
        elif ch == "\\":
            out.append("\\\\"); prev_hex = False
        elif 32 <= o < 127 and ch != "?":
            if prev_hex and ch in "0123456789abcdefABCDEF":
                out.append('" L"')
            out.append(ch); prev_hex = False
        else:
            out.append("\\x%x" % o); prev_hex = True
    out.append('"')
    return "".join(out)


class CppRender:
    def __init__(self, mm: mmg.MetaModel, ns: str):
        self.mm = mm
        self.ns = ns

    def ctype(self, t) -> str:
        if isinstance(t, TOpt):
            return f"common::optional<{self.ctype(t.value)}>"
        if isinstance(t, TList):
            return f"std::vector<{self.ctype(t.items)}>"
        if isinstance(t, TPrim):
            return {"bool": "bool", "int": "int64_t", "float": "double", "str": "std::wstring",
                    "bytearray": "std::vector<std::uint8_t>"}[t.name]
        if self.mm.find_enum(t.name):
            return f"types::{cap_camel(t.name)}"
        if self.mm.find_cprim(t.name):
            return self.ctype(TPrim(mmg.cprim_constrainee(self.mm, t.name)))
        return f"std::shared_ptr<types::I{cap_camel(t.name)}>"

    def value(self, t, v) -> str:
        if isinstance(t, TOpt):
            if v is None:
                return "common::nullopt"
            return f"common::optional<{self.ctype(t.value)}>({self.value(t.value, v)})"
        if isinstance(t, TList):
            items = ", ".join(self.value(t.items, x) for x in v)
            return f"{self.ctype(t)}{{{items}}}"
        if isinstance(t, TOur) and self.mm.find_cprim(t.name):
            return self.value(TPrim(mmg.cprim_constrainee(self.mm, t.name)), v)
        if isinstance(t, TPrim):
            if t.name == "bool":
                return "true" if v else "false"
            if t.name == "int":
                return f"static_cast<int64_t>({v}LL)"
            if t.name == "float":
                return repr(float(v["float"]))
            if t.name == "str":
                return f"std::wstring({cpp_wstring(v)})"
            if t.name == "bytearray":
                bs = bytes.fromhex(v["bytes"])
                return "std::vector<std::uint8_t>{" + ", ".join(str(b) for b in bs) + "}"
        if isinstance(v, dict) and "enum" in v:
            return f"types::{cap_camel(v['enum'])}::k{cap_camel(v['lit'])}"
        if isinstance(v, dict) and "class" in v:
            want = self.ctype(t)
            return f"{want}({self.instance(v)})"
        raise ValueError(f"cannot render {v!r} as {t}")

    def instance(self, inst) -> str:
        cls = self.mm.find_class(inst["class"])
        props = {p.name: p for p, _ in mmg.stacked_properties(self.mm, cls)}
        args = [self.value(props[a.name].type, inst["fields"].get(a.name)) for a in ctor_order(self.mm, cls)]
        return f"std::make_shared<types::{cap_camel(cls.name)}>({', '.join(args)})"


def render_cpp_main(mm: mmg.MetaModel, instances, ns_path: str, with_json: bool) -> str:
    ns = "::".join(ns_path.split("/"))
    r = CppRender(mm, ns)
    L: List[str] = []
    for h in ("types", "common", "constants", "stringification", "verification", "iteration"):
        L.append(f"#include <{ns_path}/{h}.hpp>")
    if with_json:
        L.append(f"#include <{ns_path}/jsonization.hpp>")
    L += ["#include <iostream>", "#include <algorithm>", "#include <string>", "#include <vector>", "#include <cstdint>",
          f"using namespace {ns};",
          "static std::string esc(const std::string& s) { std::string b; for (char c : s) { if (c == '\\\\') b += \"\\\\\\\\\";"
          " else if (c == '\\n') b += \"\\\\n\"; else if (c == '\\t') b += \"\\\\t\"; else if (c == '\\r') b += \"\\\\r\"; else b += c; } return b; }",
          "static std::string u8(const std::wstring& w) { return esc(common::WstringToUtf8(w)); }"]
    for i, inst in enumerate(instances):
        L.append(f"static std::shared_ptr<types::IClass> make{i}() {{ return {r.instance(inst)}; }}")
    L.append("static void run(int i, std::shared_ptr<types::IClass> that) {")
    L.append("  try {")
    L.append("    for (const verification::Error& e : verification::RecursiveVerification(that)) {")
    L.append("      std::cout << \"E\\t\" << i << \"\\t\" << u8(e.cause) << \"\\t\" << u8(e.path.ToWstring()) << \"\\n\";")
    L.append("    }")
    if with_json:
        L.append("    std::cout << \"J\\t\" << i << \"\\t\" << esc(jsonization::Serialize(*that).dump()) << \"\\n\";")
    L.append("  } catch (const std::exception& ex) {")
    L.append("    std::cout << \"X\\t\" << i << \"\\t\" << esc(ex.what()) << \"\\n\";")
    L.append("  }")
    L.append("  std::cout << \"D\\t\" << i << \"\\n\";")
    L.append("}")
    L.append("template <typename T> static std::string show(const T& x) { return std::to_string(x); }")
    L.append("static std::string show(const std::wstring& x) { return u8(x); }")
    L.append("static std::string show(const bool& x) { return x ? \"true\" : \"false\"; }")
    L.append("int main() {")
    for en in mm.enumerations:
        for lit in en.literals:
            L.append(f"  std::cout << \"L\\t{en.name}\\t{lit.name}\\t\" << esc(stringification::to_string("
                     f"types::{cap_camel(en.name)}::k{cap_camel(lit.name)})) << \"\\n\";")
    for c in mm.constants:
        cname = "constants::k" + cap_camel(c.name)
        if isinstance(c, mmg.ConstantPrimitive):
            if c.kind == "bytearray":
                continue
            if c.kind == "float":
                L.append(f"  std::cout << \"C\\t{c.name}\\t\" << (double)({cname}) << \"\\n\";")
            else:
                L.append(f"  std::cout << \"C\\t{c.name}\\t\" << show({cname}) << \"\\n\";")
        else:
            if mm.find_enum(c.items_type):
                conv = "esc(stringification::to_string(x))"
            elif c.items_type == "float":
                conv = "std::to_string(x)"
            elif c.items_type == "bytearray":
                continue
            else:
                conv = "show(x)"
            L.append(f"  {{ std::vector<std::string> xs; for (const auto& x : {cname}) xs.push_back({conv}); "
                     f"std::sort(xs.begin(), xs.end()); std::cout << \"S\\t{c.name}\\t\"; "
                     f"for (size_t k = 0; k < xs.size(); ++k) std::cout << (k ? \"|\" : \"\") << xs[k]; std::cout << \"\\n\"; }}")
    for i in range(len(instances)):
        L.append(f"  run({i}, make{i}());")
    L.append("  return 0;")
    L.append("}")
    return "\n".join(L) + "\n"
