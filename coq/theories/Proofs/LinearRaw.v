(** Stage 1 of C26: the raw linearisation ([_linearize_control_flow]) executed as flat
    labelled code emits exactly the events of the structured flow.

    In the raw code of a well-formed flow every statement carries its own position as
    label ([labels_from code 0]). The simulation relation [matches code W p] says that
    running [code] from position [p] behaves like the work list [W]. *)
From Coq Require Import List NArith Bool Arith Lia.
From Acg Require Import Base.Outcome Base.Str Model.Flow Model.Linear Proofs.LinearSem.
Import ListNotations.
Open Scope nat_scope.

(* ------------------------------------------------------------------------- *)
(** * Induction principle for the nested type [node] *)
Section NodeInd.
  Variables (P : node -> Prop) (Q : list node -> Prop).
  Hypothesis Hc : forall c, P (NCommand c).
  Hypothesis Hy : P NYield.
  Hypothesis Hit : forall c b oe, Q b -> Q (or_nil oe) -> P (NIfTrue c b oe).
  Hypothesis Hif : forall c b oe, Q b -> Q (or_nil oe) -> P (NIfFalse c b oe).
  Hypothesis Hfor : forall ini c it b, Q b -> P (NFor ini c it b).
  Hypothesis Hwh : forall c b, Q b -> P (NWhile c b).
  Hypothesis Hnil : Q [].
  Hypothesis Hcons : forall x r, P x -> Q r -> Q (x :: r).

  Fixpoint node_ind2 (n : node) : P n :=
    let fix seq_ind (l : list node) : Q l :=
      match l with
      | [] => Hnil
      | x :: r => Hcons x r (node_ind2 x) (seq_ind r)
      end in
    match n with
    | NCommand c => Hc c
    | NYield => Hy
    | NIfTrue c b oe =>
        Hit c b oe (seq_ind b)
            (match oe return Q (or_nil oe) with Some e => seq_ind e | None => Hnil end)
    | NIfFalse c b oe =>
        Hif c b oe (seq_ind b)
            (match oe return Q (or_nil oe) with Some e => seq_ind e | None => Hnil end)
    | NFor ini c it b => Hfor ini c it b (seq_ind b)
    | NWhile c b => Hwh c b (seq_ind b)
    end.

  Fixpoint seq_ind2 (l : list node) : Q l :=
    match l with
    | [] => Hnil
    | x :: r => Hcons x r (node_ind2 x) (seq_ind2 r)
    end.
End NodeInd.

(* ------------------------------------------------------------------------- *)
(** * Unfolding equations of [lin_node] *)

Definition ifnoop (b : list stmt) (l1 : nat) : list stmt :=
  if is_nil b then [mk_stmt (Some l1) KNoop] else [].

Lemma lin_node_command : forall c l,
  lin_node (NCommand c) l = ([mk_stmt (Some l) (KCommand c)], S l).
Proof. reflexivity. Qed.
Lemma lin_node_yield : forall l, lin_node NYield l = ([mk_stmt (Some l) KYield], S l).
Proof. reflexivity. Qed.
Lemma lin_node_iftrue_else : forall c body oe l,
  lin_node (NIfTrue c body (Some oe)) l =
  let '(b, l1) := lin_seq body (S l) in
  let '(e, l2) := lin_seq oe (S l1) in
  (mk_stmt (Some l) (KIf c None (Some (S l1)))
     :: b ++ mk_stmt (Some l1) (KJump l2) :: e ++ [mk_stmt (Some l2) KNoop], S l2).
Proof. reflexivity. Qed.
Lemma lin_node_iftrue : forall c body l,
  lin_node (NIfTrue c body None) l =
  let '(b, l1) := lin_seq body (S l) in
  (mk_stmt (Some l) (KIf c None (Some l1)) :: ifnoop b l1 ++ b ++ [mk_stmt (Some l1) KNoop], S l1).
Proof. reflexivity. Qed.
Lemma lin_node_iffalse_else : forall c body oe l,
  lin_node (NIfFalse c body (Some oe)) l =
  let '(b, l1) := lin_seq body (S l) in
  let '(e, l2) := lin_seq oe (S l1) in
  (mk_stmt (Some l) (KIf c (Some (S l1)) None)
     :: b ++ mk_stmt (Some l1) (KJump l2) :: e ++ [mk_stmt (Some l2) KNoop], S l2).
Proof. reflexivity. Qed.
Lemma lin_node_iffalse : forall c body l,
  lin_node (NIfFalse c body None) l =
  let '(b, l1) := lin_seq body (S l) in
  (mk_stmt (Some l) (KIf c (Some l1) None) :: ifnoop b l1 ++ b ++ [mk_stmt (Some l1) KNoop], S l1).
Proof. reflexivity. Qed.
Lemma lin_node_for_none : forall c it body l,
  lin_node (NFor None c it body) l =
  let '(b, l1) := lin_seq body (S l) in
  (mk_stmt (Some l) (KIf c None (Some (S (S l1))))
     :: b ++ [mk_stmt (Some l1) (KCommand it);
              mk_stmt (Some (S l1)) (KJump l);
              mk_stmt (Some (S (S l1))) KNoop], S (S (S l1))).
Proof. reflexivity. Qed.
Lemma lin_node_for_some : forall ini c it body l,
  lin_node (NFor (Some ini) c it body) l =
  (mk_stmt (Some l) (KCommand ini) :: fst (lin_node (NFor None c it body) (S l)),
   snd (lin_node (NFor None c it body) (S l))).
Proof.
  intros. rewrite lin_node_for_none. cbn [lin_node].
  change ((fix lin_seq (ns : list node) (l0 : nat) {struct ns} : list stmt * nat :=
            match ns with
            | [] => ([], l0)
            | x :: r => let '(a, l1) := lin_node x l0 in
                        let '(b, l2) := lin_seq r l1 in (a ++ b, l2)
            end) body (S (S l))) with (lin_seq body (S (S l))).
  destruct (lin_seq body (S (S l))) as [b l1]. reflexivity.
Qed.
Lemma lin_node_while : forall c body l,
  lin_node (NWhile c body) l =
  let '(b, l1) := lin_seq body (S l) in
  (mk_stmt (Some l) (KIf c None (Some (S l1)))
     :: b ++ [mk_stmt (Some l1) (KJump l); mk_stmt (Some (S l1)) KNoop], S (S l1)).
Proof. reflexivity. Qed.
Lemma lin_seq_cons : forall x r l,
  lin_seq (x :: r) l =
  let '(a, l1) := lin_node x l in
  let '(b, l2) := lin_seq r l1 in (a ++ b, l2).
Proof. reflexivity. Qed.

(* ------------------------------------------------------------------------- *)
(** * Labels of the raw code are positions *)

Fixpoint labels_from (c : list stmt) (l : nat) : Prop :=
  match c with
  | [] => True
  | x :: r => s_label x = Some l /\ labels_from r (S l)
  end.

Lemma labels_from_app : forall a b l,
  labels_from (a ++ b) l <-> labels_from a l /\ labels_from b (l + length a).
Proof.
  induction a as [|x a IH]; intros b l; cbn [labels_from app length].
  - rewrite Nat.add_0_r. tauto.
  - rewrite IH. replace (S l + length a) with (l + S (length a)) by lia. tauto.
Qed.

Lemma labels_from_nth : forall c l j s,
  labels_from c l -> nth_error c j = Some s -> s_label s = Some (l + j).
Proof.
  induction c as [|x c IH]; intros l j s H Hn; destruct j as [|j]; cbn in *; try discriminate.
  - inversion Hn; subst. rewrite Nat.add_0_r. tauto.
  - destruct H as [_ H]. rewrite (IH _ _ _ H Hn). f_equal. lia.
Qed.

Lemma find_label_from : forall c l t,
  labels_from c l -> l <= t -> t < l + length c -> find_label c t = Some (t - l).
Proof.
  induction c as [|x c IH]; intros l t H Hle Hlt; cbn [length] in Hlt; [lia|].
  cbn [labels_from] in H. destruct H as [Hx H].
  cbn [find_label]. rewrite Hx. cbn [option_eqb].
  destruct (Nat.eqb l t) eqn:E.
  - apply Nat.eqb_eq in E. subst. rewrite Nat.sub_diag. reflexivity.
  - apply Nat.eqb_neq in E. rewrite (IH (S l) t H); [|lia|lia].
    cbn [option_map]. f_equal. lia.
Qed.

Lemma ifnoop_wf : forall b l1, b <> [] -> ifnoop b l1 = [].
Proof. intros [|x b] l1 H; [congruence|reflexivity]. Qed.

Definition raw_facts (c : list stmt) (l l' : nat) : Prop :=
  labels_from c l /\ l' = l + length c.

Lemma lin_facts :
  forall n, wf_node n = true ->
  forall l, raw_facts (fst (lin_node n l)) l (snd (lin_node n l))
            /\ fst (lin_node n l) <> [].
Proof.
  apply (node_ind2
    (fun n => wf_node n = true -> forall l,
       raw_facts (fst (lin_node n l)) l (snd (lin_node n l)) /\ fst (lin_node n l) <> [])
    (fun ns => forallb wf_node ns = true -> forall l,
       raw_facts (fst (lin_seq ns l)) l (snd (lin_seq ns l))
       /\ (ns <> [] -> fst (lin_seq ns l) <> []))).
  - intros c _ l. cbn. unfold raw_facts. cbn. repeat split; try lia. discriminate.
  - intros _ l. cbn. unfold raw_facts. cbn. repeat split; try lia. discriminate.
  - (* IfTrue *)
    intros c b oe IHb IHe Hwf l. cbn [wf_node] in Hwf.
    apply andb_prop in Hwf. destruct Hwf as [Hwf He]. apply andb_prop in Hwf.
    destruct Hwf as [Hne Hb].
    assert (Hbne : b <> []) by (destruct b; [discriminate|discriminate]).
    destruct oe as [e|].
    + rewrite lin_node_iftrue_else.
      destruct (IHb Hb (S l)) as [[Lb Nb] Eb].
      destruct (lin_seq b (S l)) as [cb l1]. cbn [fst snd] in *.
      destruct (IHe He (S l1)) as [[Le Ne] _]. cbn [or_nil] in *.
      destruct (lin_seq e (S l1)) as [ce l2]. cbn [fst snd] in *.
      split; [|discriminate]. unfold raw_facts. split.
      * cbn [labels_from s_label]. split; [reflexivity|].
        apply labels_from_app. split; [exact Lb|].
        cbn [labels_from s_label]. split; [f_equal; lia|].
        apply labels_from_app. split.
        -- replace (S (S l + length cb)) with (S l1) by lia. exact Le.
        -- cbn [labels_from s_label]. split; [f_equal; lia|exact I].
      * cbn [length]. rewrite !app_length. cbn [length]. rewrite app_length. cbn [length]. lia.
    + rewrite lin_node_iftrue.
      destruct (IHb Hb (S l)) as [[Lb Nb] Eb].
      destruct (lin_seq b (S l)) as [cb l1]. cbn [fst snd] in *.
      rewrite (ifnoop_wf cb l1 (Eb Hbne)). cbn [app].
      split; [|discriminate]. unfold raw_facts. split.
      * cbn [labels_from s_label]. split; [reflexivity|].
        apply labels_from_app. split; [exact Lb|].
        cbn [labels_from s_label]. split; [f_equal; lia|exact I].
      * cbn [length]. rewrite !app_length. cbn [length]. lia.
  - (* IfFalse *)
    intros c b oe IHb IHe Hwf l. cbn [wf_node] in Hwf.
    apply andb_prop in Hwf. destruct Hwf as [Hwf He]. apply andb_prop in Hwf.
    destruct Hwf as [Hne Hb].
    assert (Hbne : b <> []) by (destruct b; [discriminate|discriminate]).
    destruct oe as [e|].
    + rewrite lin_node_iffalse_else.
      destruct (IHb Hb (S l)) as [[Lb Nb] Eb].
      destruct (lin_seq b (S l)) as [cb l1]. cbn [fst snd] in *.
      destruct (IHe He (S l1)) as [[Le Ne] _]. cbn [or_nil] in *.
      destruct (lin_seq e (S l1)) as [ce l2]. cbn [fst snd] in *.
      split; [|discriminate]. unfold raw_facts. split.
      * cbn [labels_from s_label]. split; [reflexivity|].
        apply labels_from_app. split; [exact Lb|].
        cbn [labels_from s_label]. split; [f_equal; lia|].
        apply labels_from_app. split.
        -- replace (S (S l + length cb)) with (S l1) by lia. exact Le.
        -- cbn [labels_from s_label]. split; [f_equal; lia|exact I].
      * cbn [length]. rewrite !app_length. cbn [length]. rewrite app_length. cbn [length]. lia.
    + rewrite lin_node_iffalse.
      destruct (IHb Hb (S l)) as [[Lb Nb] Eb].
      destruct (lin_seq b (S l)) as [cb l1]. cbn [fst snd] in *.
      rewrite (ifnoop_wf cb l1 (Eb Hbne)). cbn [app].
      split; [|discriminate]. unfold raw_facts. split.
      * cbn [labels_from s_label]. split; [reflexivity|].
        apply labels_from_app. split; [exact Lb|].
        cbn [labels_from s_label]. split; [f_equal; lia|exact I].
      * cbn [length]. rewrite !app_length. cbn [length]. lia.
  - (* For *)
    intros ini c it b IHb Hwf l. cbn [wf_node] in Hwf.
    assert (HN : forall l, raw_facts (fst (lin_node (NFor None c it b) l)) l
                                     (snd (lin_node (NFor None c it b) l))
                           /\ fst (lin_node (NFor None c it b) l) <> []).
    { intros l0. rewrite lin_node_for_none.
      destruct (IHb Hwf (S l0)) as [[Lb Nb] _].
      destruct (lin_seq b (S l0)) as [cb l1]. cbn [fst snd] in *.
      split; [|discriminate]. unfold raw_facts. split.
      * cbn [labels_from s_label]. split; [reflexivity|].
        apply labels_from_app. split; [exact Lb|].
        cbn [labels_from s_label]. repeat split; f_equal; lia.
      * cbn [length]. rewrite !app_length. cbn [length]. lia. }
    destruct ini as [ini|]; [|apply HN].
    rewrite lin_node_for_some. cbn [fst snd].
    destruct (HN (S l)) as [[L N] _].
    split; [|discriminate]. unfold raw_facts. split.
    * cbn [labels_from s_label]. split; [reflexivity|exact L].
    * cbn [length]. lia.
  - (* While *)
    intros c b IHb Hwf l. cbn [wf_node] in Hwf. rewrite lin_node_while.
    destruct (IHb Hwf (S l)) as [[Lb Nb] _].
    destruct (lin_seq b (S l)) as [cb l1]. cbn [fst snd] in *.
    split; [|discriminate]. unfold raw_facts. split.
    * cbn [labels_from s_label]. split; [reflexivity|].
      apply labels_from_app. split; [exact Lb|].
      cbn [labels_from s_label]. repeat split; f_equal; lia.
    * cbn [length]. rewrite !app_length. cbn [length]. lia.
  - intros _ l. cbn. unfold raw_facts. cbn. repeat split; try lia. congruence.
  - intros x r IHx IHr Hwf l. cbn [forallb] in Hwf. apply andb_prop in Hwf.
    destruct Hwf as [Hx Hr]. rewrite lin_seq_cons.
    destruct (IHx Hx l) as [[Lx Nx] Ex].
    destruct (lin_node x l) as [a l1]. cbn [fst snd] in *.
    destruct (IHr Hr l1) as [[Lr Nr] _].
    destruct (lin_seq r l1) as [b l2]. cbn [fst snd] in *.
    split.
    + unfold raw_facts. split.
      * apply labels_from_app. split; [exact Lx|]. rewrite <- Nx. exact Lr.
      * rewrite app_length. lia.
    + intros _ H. apply app_eq_nil in H. tauto.
Qed.

Lemma lin_seq_facts : forall ns, forallb wf_node ns = true ->
  forall l, raw_facts (fst (lin_seq ns l)) l (snd (lin_seq ns l))
            /\ (ns <> [] -> fst (lin_seq ns l) <> []).
Proof.
  induction ns as [|x r IH]; intros Hwf l.
  - cbn. unfold raw_facts. cbn. repeat split; try lia. congruence.
  - cbn [forallb] in Hwf. apply andb_prop in Hwf. destruct Hwf as [Hx Hr].
    rewrite lin_seq_cons.
    destruct (lin_facts x Hx l) as [[Lx Nx] Ex].
    destruct (lin_node x l) as [a l1]. cbn [fst snd] in *.
    destruct (IH Hr l1) as [[Lr Nr] _].
    destruct (lin_seq r l1) as [b l2]. cbn [fst snd] in *.
    split.
    + unfold raw_facts. split.
      * apply labels_from_app. split; [exact Lx|]. rewrite <- Nx. exact Lr.
      * rewrite app_length. lia.
    + intros _ H. apply app_eq_nil in H. tauto.
Qed.

(* ------------------------------------------------------------------------- *)
(** * Segments *)

Definition seg (code : list stmt) (p : nat) (s : list stmt) : Prop :=
  exists a b, code = a ++ s ++ b /\ length a = p.

Lemma seg_app : forall code p s1 s2,
  seg code p (s1 ++ s2) -> seg code p s1 /\ seg code (p + length s1) s2.
Proof.
  intros code p s1 s2 [a [b [E L]]]. split.
  - exists a, (s2 ++ b). rewrite E, <- app_assoc. auto.
  - exists (a ++ s1), b. rewrite E, app_length, <- !app_assoc. split; [reflexivity|lia].
Qed.

Lemma seg_cons : forall code p x s,
  seg code p (x :: s) -> nth_error code p = Some x /\ seg code (S p) s.
Proof.
  intros code p x s H. change (x :: s) with ([x] ++ s) in H.
  apply seg_app in H. destruct H as [[a [b [E L]]] H2]. split.
  - rewrite E, nth_error_app2 by lia. replace (p - length a) with 0 by lia. reflexivity.
  - cbn [length] in H2. replace (S p) with (p + 1) by lia. exact H2.
Qed.

Lemma nth_seg : forall code p x, nth_error code p = Some x -> seg code p [x].
Proof.
  intros code p x H. apply nth_error_split in H. destruct H as [l1 [l2 [E L]]].
  exists l1, l2. split; [exact E|exact L].
Qed.

Lemma seg_whole : forall code, seg code 0 code.
Proof. intros code. exists [], []. rewrite app_nil_r. auto. Qed.

(* ------------------------------------------------------------------------- *)
(** * The simulation relation *)

Inductive matches (code : list stmt) : list node -> nat -> Prop :=
| M_nil : forall p, p = length code -> matches code [] p
| M_skip : forall W p s, nth_error code p = Some s -> s_kind s = KNoop ->
    matches code W (S p) -> matches code W p
| M_jump : forall W p s t, nth_error code p = Some s -> s_kind s = KJump t ->
    t < length code -> matches code W t -> matches code W p
| M_node : forall n W p, wf_node n = true ->
    seg code p (fst (lin_node n p)) ->
    matches code W (snd (lin_node n p)) -> matches code (n :: W) p.

Lemma matches_seq : forall code ns, forallb wf_node ns = true ->
  forall W p, seg code p (fst (lin_seq ns p)) ->
  matches code W (snd (lin_seq ns p)) -> matches code (ns ++ W) p.
Proof.
  intros code ns; induction ns as [|x r IH]; intros Hwf W p Hseg Hm.
  - cbn in *. exact Hm.
  - cbn [forallb] in Hwf. apply andb_prop in Hwf. destruct Hwf as [Hx Hr].
    rewrite lin_seq_cons in Hseg, Hm.
    destruct (lin_facts x Hx p) as [[Lx Nx] _].
    destruct (lin_node x p) as [a l1] eqn:Ex. cbn [fst snd] in *.
    destruct (lin_seq r l1) as [b l2] eqn:Er. cbn [fst snd] in *.
    apply seg_app in Hseg. destruct Hseg as [Sa Sb].
    cbn [app]. apply M_node; [exact Hx| rewrite Ex; exact Sa|].
    rewrite Ex. cbn [snd]. apply IH; [exact Hr| |].
    + rewrite Er. cbn [fst]. rewrite Nx. exact Sb.
    + rewrite Er. exact Hm.
Qed.

Definition match_conf (code : list stmt) (sc : sconf) (c : lconf) : Prop :=
  match sc, c with
  | SRun W, LRun p => matches code W p
  | SHalt, LHalt => True
  | _, _ => False
  end.

Section Raw.
  Variable code : list stmt.
  Variable orc : oracle.
  Hypothesis Hlab : labels_from code 0.

  Let M := flat_machine code.

  Lemma resolve_pos : forall t, t < length code -> m_resolve M t = Some t.
  Proof.
    intros t Ht. cbn. rewrite (find_label_from code 0 t Hlab); [f_equal; lia|lia|lia].
  Qed.

  Lemma run_goto : forall t i, t < length code ->
    lin_run M orc 1 (LGoto t) i = ([], LRun t, i).
  Proof.
    intros t i Ht. rewrite lin_run_1. cbn [lin_step]. rewrite resolve_pos by exact Ht. reflexivity.
  Qed.

  Lemma run_at : forall p s i, nth_error code p = Some s ->
    lin_run M orc 1 (LRun p) i =
    match s_kind s with
    | KCommand c => ([ECmd c], LRun (S p), i)
    | KNoop => ([], LRun (S p), i)
    | KYield => ([EYield], LRun (S p), i)
    | KJump t => ([], LGoto t, i)
    | KIf c a b => ([ECond c (orc i)], branch p (if orc i then a else b), S i)
    end.
  Proof.
    intros p s i H. rewrite lin_run_1. cbn [lin_step M flat_machine m_code m_yield].
    rewrite H. destruct (s_kind s); reflexivity.
  Qed.

  Lemma prefix_silent : forall n1 c0 c1 i (P : lconf -> Prop) e i',
    lin_run M orc n1 c0 i = ([], c1, i) ->
    (exists n c, lin_run M orc n c1 i = (e, c, i') /\ P c) ->
    exists n c, lin_run M orc n c0 i = (e, c, i') /\ P c.
  Proof.
    intros n1 c0 c1 i P e i' H1 [n [c [H2 HP]]].
    exists (n1 + n), c. split; [|exact HP].
    apply (lin_run_compose M orc n1 n c0 i [] c1 i e c i' H1 H2).
  Qed.

  Lemma seg_lt : forall p x, nth_error code p = Some x -> p < length code.
  Proof. intros p x H. apply nth_error_Some. congruence. Qed.

  Lemma raw_sim_step : forall W p, matches code W p ->
    forall i e sc i', struct_step orc W i = (e, sc, i') ->
    exists n c, lin_run M orc n (LRun p) i = ([e], c, i') /\ match_conf code sc c.
  Proof.
    intros W p Hm. induction Hm as [p Hp | W p s Hs Hk Hm IH | W p s t Hs Hk Ht Hm IH
                                   | n W p Hwf Hseg Hm _]; intros i e sc i' Hst.
    - (* end of code *)
      cbn in Hst. inversion Hst; subst. exists 1, LHalt. split; [|exact I].
      rewrite lin_run_1. cbn [lin_step M flat_machine m_code].
      replace (nth_error code (length code)) with (@None stmt); [reflexivity|].
      symmetry. apply nth_error_None. lia.
    - (* no-op *)
      eapply prefix_silent; [|exact (IH _ _ _ _ Hst)].
      rewrite (run_at _ _ _ Hs), Hk. reflexivity.
    - (* jump *)
      eapply prefix_silent; [|exact (IH _ _ _ _ Hst)].
      apply (lin_run_compose M orc 1 1 _ _ [] (LGoto t) i [] (LRun t) i).
      + rewrite (run_at _ _ _ Hs), Hk. reflexivity.
      + apply run_goto. exact Ht.
    - (* a node *)
      destruct n as [c|c body oe|c body oe|ini c it body|c body|].
      + (* Command *)
        rewrite lin_node_command in Hseg, Hm. cbn [fst snd] in *.
        apply seg_cons in Hseg. destruct Hseg as [H0 _].
        cbn in Hst. inversion Hst; subst.
        exists 1, (LRun (S p)). split; [|exact Hm].
        rewrite (run_at _ _ _ H0). reflexivity.
      + (* IfTrue *)
        cbn [wf_node] in Hwf. apply andb_prop in Hwf. destruct Hwf as [Hwf He].
        apply andb_prop in Hwf. destruct Hwf as [Hne Hb].
        assert (Hbne : body <> []) by (destruct body; discriminate).
        cbn [struct_step] in Hst. inversion Hst; subst e sc i'. clear Hst.
        destruct oe as [oe|].
        * rewrite lin_node_iftrue_else in Hseg, Hm.
          destruct (lin_seq_facts body Hb (S p)) as [[_ Nb] _].
          destruct (lin_seq body (S p)) as [cb l1] eqn:Eb. cbn [fst snd] in *.
          destruct (lin_seq_facts oe He (S l1)) as [[_ Ne] _].
          destruct (lin_seq oe (S l1)) as [ce l2] eqn:Ee. cbn [fst snd] in *.
          apply seg_cons in Hseg. destruct Hseg as [H0 Hseg].
          apply seg_app in Hseg. destruct Hseg as [Sb Hseg].
          apply seg_cons in Hseg. destruct Hseg as [HJ Hseg].
          apply seg_app in Hseg. destruct Hseg as [Se Hseg].
          apply seg_cons in Hseg. destruct Hseg as [HN _].
          assert (Hle12 : S l1 <= l2) by lia.
          replace (S p + length cb) with l1 in * by lia.
          replace (S l1 + length ce) with l2 in * by lia.
          assert (HW : matches code W l2) by (eapply M_skip; [exact HN|reflexivity|exact Hm]).
          pose proof (seg_lt _ _ HN) as Hl2.
          destruct (orc i) eqn:Ev.
          -- exists 1, (LRun (S p)). split.
             ++ rewrite (run_at _ _ _ H0). cbn [s_kind]. rewrite Ev. reflexivity.
             ++ cbn [match_conf]. apply matches_seq; [exact Hb|rewrite Eb; exact Sb|].
                rewrite Eb. cbn [snd]. eapply M_jump; [exact HJ|reflexivity|exact Hl2|exact HW].
          -- exists 2, (LRun (S l1)). split.
             ++ apply (lin_run_compose M orc 1 1 _ _ [ECond c false] (LGoto (S l1)) (S i) []).
                ** rewrite (run_at _ _ _ H0). cbn [s_kind]. rewrite Ev. reflexivity.
                ** apply run_goto. lia.
             ++ cbn [match_conf or_nil]. apply matches_seq; [exact He|rewrite Ee; exact Se|].
                rewrite Ee. exact HW.
        * rewrite lin_node_iftrue in Hseg, Hm.
          destruct (lin_seq_facts body Hb (S p)) as [[_ Nb] Enb].
          destruct (lin_seq body (S p)) as [cb l1] eqn:Eb. cbn [fst snd] in *.
          rewrite (ifnoop_wf cb l1 (Enb Hbne)) in Hseg. cbn [app] in Hseg.
          apply seg_cons in Hseg. destruct Hseg as [H0 Hseg].
          apply seg_app in Hseg. destruct Hseg as [Sb Hseg].
          apply seg_cons in Hseg. destruct Hseg as [HN _].
          replace (S p + length cb) with l1 in * by lia.
          assert (HW : matches code W l1) by (eapply M_skip; [exact HN|reflexivity|exact Hm]).
          pose proof (seg_lt _ _ HN) as Hl1.
          destruct (orc i) eqn:Ev.
          -- exists 1, (LRun (S p)). split.
             ++ rewrite (run_at _ _ _ H0). cbn [s_kind]. rewrite Ev. reflexivity.
             ++ cbn [match_conf]. apply matches_seq; [exact Hb|rewrite Eb; exact Sb|].
                rewrite Eb. exact HW.
          -- exists 2, (LRun l1). split.
             ++ apply (lin_run_compose M orc 1 1 _ _ [ECond c false] (LGoto l1) (S i) []).
                ** rewrite (run_at _ _ _ H0). cbn [s_kind]. rewrite Ev. reflexivity.
                ** apply run_goto. exact Hl1.
             ++ cbn [match_conf or_nil app]. exact HW.
      + (* IfFalse *)
        cbn [wf_node] in Hwf. apply andb_prop in Hwf. destruct Hwf as [Hwf He].
        apply andb_prop in Hwf. destruct Hwf as [Hne Hb].
        assert (Hbne : body <> []) by (destruct body; discriminate).
        cbn [struct_step] in Hst. inversion Hst; subst e sc i'. clear Hst.
        destruct oe as [oe|].
        * rewrite lin_node_iffalse_else in Hseg, Hm.
          destruct (lin_seq_facts body Hb (S p)) as [[_ Nb] _].
          destruct (lin_seq body (S p)) as [cb l1] eqn:Eb. cbn [fst snd] in *.
          destruct (lin_seq_facts oe He (S l1)) as [[_ Ne] _].
          destruct (lin_seq oe (S l1)) as [ce l2] eqn:Ee. cbn [fst snd] in *.
          apply seg_cons in Hseg. destruct Hseg as [H0 Hseg].
          apply seg_app in Hseg. destruct Hseg as [Sb Hseg].
          apply seg_cons in Hseg. destruct Hseg as [HJ Hseg].
          apply seg_app in Hseg. destruct Hseg as [Se Hseg].
          apply seg_cons in Hseg. destruct Hseg as [HN _].
          assert (Hle12 : S l1 <= l2) by lia.
          replace (S p + length cb) with l1 in * by lia.
          replace (S l1 + length ce) with l2 in * by lia.
          assert (HW : matches code W l2) by (eapply M_skip; [exact HN|reflexivity|exact Hm]).
          pose proof (seg_lt _ _ HN) as Hl2.
          destruct (orc i) eqn:Ev.
          -- exists 2, (LRun (S l1)). split.
             ++ apply (lin_run_compose M orc 1 1 _ _ [ECond c true] (LGoto (S l1)) (S i) []).
                ** rewrite (run_at _ _ _ H0). cbn [s_kind]. rewrite Ev. reflexivity.
                ** apply run_goto. lia.
             ++ cbn [match_conf or_nil]. apply matches_seq; [exact He|rewrite Ee; exact Se|].
                rewrite Ee. exact HW.
          -- exists 1, (LRun (S p)). split.
             ++ rewrite (run_at _ _ _ H0). cbn [s_kind]. rewrite Ev. reflexivity.
             ++ cbn [match_conf]. apply matches_seq; [exact Hb|rewrite Eb; exact Sb|].
                rewrite Eb. cbn [snd]. eapply M_jump; [exact HJ|reflexivity|exact Hl2|exact HW].
        * rewrite lin_node_iffalse in Hseg, Hm.
          destruct (lin_seq_facts body Hb (S p)) as [[_ Nb] Enb].
          destruct (lin_seq body (S p)) as [cb l1] eqn:Eb. cbn [fst snd] in *.
          rewrite (ifnoop_wf cb l1 (Enb Hbne)) in Hseg. cbn [app] in Hseg.
          apply seg_cons in Hseg. destruct Hseg as [H0 Hseg].
          apply seg_app in Hseg. destruct Hseg as [Sb Hseg].
          apply seg_cons in Hseg. destruct Hseg as [HN _].
          replace (S p + length cb) with l1 in * by lia.
          assert (HW : matches code W l1) by (eapply M_skip; [exact HN|reflexivity|exact Hm]).
          pose proof (seg_lt _ _ HN) as Hl1.
          destruct (orc i) eqn:Ev.
          -- exists 2, (LRun l1). split.
             ++ apply (lin_run_compose M orc 1 1 _ _ [ECond c true] (LGoto l1) (S i) []).
                ** rewrite (run_at _ _ _ H0). cbn [s_kind]. rewrite Ev. reflexivity.
                ** apply run_goto. exact Hl1.
             ++ cbn [match_conf or_nil app]. exact HW.
          -- exists 1, (LRun (S p)). split.
             ++ rewrite (run_at _ _ _ H0). cbn [s_kind]. rewrite Ev. reflexivity.
             ++ cbn [match_conf]. apply matches_seq; [exact Hb|rewrite Eb; exact Sb|].
                rewrite Eb. exact HW.
      + (* For *)
        destruct ini as [ini|].
        * rewrite lin_node_for_some in Hseg, Hm. cbn [fst snd] in *.
          apply seg_cons in Hseg. destruct Hseg as [H0 Hseg].
          cbn [struct_step] in Hst. inversion Hst; subst e sc i'. clear Hst.
          exists 1, (LRun (S p)). split.
          -- rewrite (run_at _ _ _ H0). reflexivity.
          -- cbn [match_conf]. apply M_node; [exact Hwf|exact Hseg|exact Hm].
        * pose proof Hseg as Hseg0. pose proof Hm as Hm0.
          rewrite lin_node_for_none in Hseg, Hm.
          cbn [wf_node] in Hwf.
          destruct (lin_seq_facts body Hwf (S p)) as [[_ Nb] _].
          destruct (lin_seq body (S p)) as [cb l1] eqn:Eb. cbn [fst snd] in *.
          apply seg_cons in Hseg. destruct Hseg as [H0 Hseg].
          apply seg_app in Hseg. destruct Hseg as [Sb Hseg].
          apply seg_cons in Hseg. destruct Hseg as [HC Hseg].
          pose proof Hseg as HsegJ.
          apply seg_cons in Hseg. destruct Hseg as [HJ Hseg].
          apply seg_cons in Hseg. destruct Hseg as [HN _].
          replace (S p + length cb) with l1 in * by lia.
          assert (HW : matches code W (S (S l1)))
            by (eapply M_skip; [exact HN|reflexivity|exact Hm]).
          pose proof (seg_lt _ _ HN) as Hl. pose proof (seg_lt _ _ H0) as Hp0.
          cbn [struct_step] in Hst. inversion Hst; subst e sc i'. clear Hst.
          destruct (orc i) eqn:Ev.
          -- exists 1, (LRun (S p)). split.
             ++ rewrite (run_at _ _ _ H0). cbn [s_kind]. rewrite Ev. reflexivity.
             ++ cbn [match_conf]. apply matches_seq; [exact Hwf|rewrite Eb; exact Sb|].
                rewrite Eb. cbn [snd].
                apply M_node; [reflexivity| |].
                ** rewrite lin_node_command. cbn [fst].
                   apply nth_seg. exact HC.
                ** rewrite lin_node_command. cbn [snd].
                   eapply M_jump; [exact HJ|reflexivity|lia|].
                   apply M_node; [exact Hwf|exact Hseg0|exact Hm0].
          -- exists 2, (LRun (S (S l1))). split.
             ++ apply (lin_run_compose M orc 1 1 _ _ [ECond c false] (LGoto (S (S l1))) (S i) []).
                ** rewrite (run_at _ _ _ H0). cbn [s_kind]. rewrite Ev. reflexivity.
                ** apply run_goto. exact Hl.
             ++ cbn [match_conf]. exact HW.
      + (* While *)
        pose proof Hseg as Hseg0. pose proof Hm as Hm0.
        rewrite lin_node_while in Hseg, Hm.
        cbn [wf_node] in Hwf.
        destruct (lin_seq_facts body Hwf (S p)) as [[_ Nb] _].
        destruct (lin_seq body (S p)) as [cb l1] eqn:Eb. cbn [fst snd] in *.
        apply seg_cons in Hseg. destruct Hseg as [H0 Hseg].
        apply seg_app in Hseg. destruct Hseg as [Sb Hseg].
        apply seg_cons in Hseg. destruct Hseg as [HJ Hseg].
        apply seg_cons in Hseg. destruct Hseg as [HN _].
        replace (S p + length cb) with l1 in * by lia.
        assert (HW : matches code W (S l1))
          by (eapply M_skip; [exact HN|reflexivity|exact Hm]).
        pose proof (seg_lt _ _ HN) as Hl. pose proof (seg_lt _ _ H0) as Hp0.
        cbn [struct_step] in Hst. inversion Hst; subst e sc i'. clear Hst.
        destruct (orc i) eqn:Ev.
        * exists 1, (LRun (S p)). split.
          -- rewrite (run_at _ _ _ H0). cbn [s_kind]. rewrite Ev. reflexivity.
          -- cbn [match_conf]. apply matches_seq; [exact Hwf|rewrite Eb; exact Sb|].
             rewrite Eb. cbn [snd].
             eapply M_jump; [exact HJ|reflexivity|lia|].
             apply M_node; [exact Hwf|exact Hseg0|exact Hm0].
        * exists 2, (LRun (S l1)). split.
          -- apply (lin_run_compose M orc 1 1 _ _ [ECond c false] (LGoto (S l1)) (S i) []).
             ++ rewrite (run_at _ _ _ H0). cbn [s_kind]. rewrite Ev. reflexivity.
             ++ apply run_goto. exact Hl.
          -- cbn [match_conf]. exact HW.
      + (* Yield *)
        rewrite lin_node_yield in Hseg, Hm. cbn [fst snd] in *.
        apply seg_cons in Hseg. destruct Hseg as [H0 _].
        cbn in Hst. inversion Hst; subst.
        exists 1, (LRun (S p)). split; [|exact Hm].
        rewrite (run_at _ _ _ H0). reflexivity.
  Qed.

  Lemma raw_sim_run : forall k sc c i t sc' i',
    match_conf code sc c -> struct_run orc k sc i = (t, sc', i') ->
    exists n c', lin_run M orc n c i = (t, c', i') /\ match_conf code sc' c'.
  Proof.
    induction k as [|k IH]; intros sc c i t sc' i' HR Hrun.
    - cbn in Hrun. inversion Hrun; subst. exists 0, c. split; [reflexivity|exact HR].
    - cbn [struct_run] in Hrun. destruct sc as [W|].
      + destruct c as [p|?| |]; cbn [match_conf] in HR; try contradiction.
        destruct (struct_step orc W i) as [[e sc1] i1] eqn:Es.
        destruct (struct_run orc k sc1 i1) as [[t' sc2] i2] eqn:Er.
        inversion Hrun; subst t sc' i'.
        destruct (raw_sim_step W p HR i e sc1 i1 Es) as [n1 [c1 [H1 HR1]]].
        destruct (IH sc1 c1 i1 t' sc2 i2 HR1 Er) as [n2 [c2 [H2 HR2]]].
        exists (n1 + n2), c2. split; [|exact HR2].
        apply (lin_run_compose M orc n1 n2 _ _ [e] c1 i1 t' c2 i2 H1 H2).
      + inversion Hrun; subst. exists 0, c. split; [reflexivity|exact HR].
  Qed.
End Raw.

(** Stage-1 theorem: the raw linearisation, run as flat labelled code from position 0,
    reaches — emitting exactly the events of [k] structured steps — a configuration
    that matches the structured one. *)
Theorem raw_correct : forall f orc k, wf_flow f = true ->
  forall t sc i, struct_run orc k (SRun f) 0 = (t, sc, i) ->
  exists n c, lin_run (flat_machine (linearize_control_flow f)) orc n (LRun 0) 0 = (t, c, i)
              /\ match_conf (linearize_control_flow f) sc c.
Proof.
  intros f orc k Hwf t sc i Hrun. unfold linearize_control_flow.
  destruct (lin_seq_facts f Hwf 0) as [[Hlab Hlen] _].
  assert (Hm : matches (fst (lin_seq f 0)) (f ++ []) 0).
  { apply matches_seq; [exact Hwf|apply seg_whole|]. apply M_nil. exact Hlen. }
  rewrite app_nil_r in Hm.
  eapply raw_sim_run; [exact Hlab| |exact Hrun].
  cbn [match_conf]. exact Hm.
Qed.
