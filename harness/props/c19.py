"""C19 — Emitted literals denote exactly the original values."""
from __future__ import annotations

import json
import pathlib
import re
from typing import Dict, List, Optional, Tuple

from harness import lib
from harness.gen import literals as G
from harness.lib import coq_list, coq_nat, coq_option, coq_pair

META = {
    "title": "Emitted literals denote exactly the original values",
    "design_ref": "§4 C19",
    "level_text": (
        "Coq theorems for all strings: per target, the escaper (an interpreter of the branch "
        "tables re-translated from <target>/common.py on every run) followed by a lexer of the "
        "target language written from its specification gives back the original value, and "
        "unrepresentable values are refused. The escaper model is tied to the code by an "
        "in-Coq correspondence over every single code point, all pairs of an interesting "
        "alphabet and random strings; the property is also run directly on the implementation "
        "against python eval, node, javac+java and g++ (C# and Go: specification-derived "
        "lexers only), which at the same time validates the lexer models."
    ),
    "level_note": (
        "Trusted: the lexer models outside the literals compared with the real front ends; the "
        "C# and Go lexers entirely (no tool chain installed); 32-bit wchar_t (g++/Linux)."
    ),
    "technique": "Coq proof (per-character sweep by reflection + induction over the string) + "
                 "in-Coq correspondence + differential oracle against real compilers",
}
COQCHK_SKIP_REASON = ("coqchk re-evaluates the vm_compute casts of the twelve full-code-point sweep files "
                      "without the VM: measured 15 min 32 s for ONE sweep file (74 s with coqc), i.e. 3-4 h "
                      "for the cone of Props/C19; the theorems are checked by coqc (full .vo build) only")
GEN = ["GenLiteralTables"]
MODEL = ["Model/LitCore", "Gen/GenLiteralTables", "Model/Lit", "Model/LexCore", "Model/LexPython",
         "Model/LexJs", "Model/LexJava", "Model/LexCpp", "Model/LexCsharp", "Model/LexGo"]
TRUSTED = [
    "harness/translate/literals.py (escape dicts and if/elif chains -> rule tables) via Python's ast",
    "Model/Lit.v: hand-written quoting/enclosing skeletons and bytes_literal (correspondence-checked)",
    "Model/Lex{Python,Js,Java,Cpp}.v: lexers written from the language specifications, compared "
    "with python eval / node / javac+java / g++ on every run",
    "Model/LexCsharp.v, Model/LexGo.v: specification-derived only (no C# or Go tool chain available)",
    "C++ wide strings: wchar_t is 32 bit (g++ on Linux); a 16-bit wchar_t would see UTF-16",
]
RULE = ("case = (escaper mode, string); every single code point 0..0x10FFFF as run-length "
        "descriptions (quick: windows), all ordered pairs over a 59-character alphabet (quotes, "
        "backslash, $ { } `, controls, hex digits, U+0085/2028/2029/FEFF, surrogates, astral), "
        "random strings; non-trivial = the literal contains at least one escape; distinct by "
        "(mode, string)")

# mode ids shared with the Coq header
LIT_MODES = ["py_n", "py_s", "py_d", "py_nc", "py_sc", "py_dc", "py_sw", "py_dw", "py_nw",
             "ts_q", "ts_t", "ts_qw", "ts_tw", "cpp_w", "cpp_s", "cpp_c", "cs", "java", "go"]
NEEDS_MODES = ["py_needs", "py_needs_curly", "cpp_needs", "cs_needs", "java_needs", "go_needs"]
ALL_MODES = LIT_MODES + NEEDS_MODES + ["py_bytes"]
MODE_ID = {m: i for i, m in enumerate(ALL_MODES)}
SWEEP_MODES = ["py_n", "py_s", "py_d", "py_nc", "py_sc", "py_dc", "ts_q", "ts_t", "cpp_w", "cpp_s",
               "cpp_c", "cs", "java", "go"]

HEADER = """From Coq Require Import List NArith Bool.
From Acg Require Import Base.Str Base.Outcome Model.LitCore Model.Lit Model.LexCore
  Model.LexPython Model.LexJs Model.LexJava Model.LexCpp Model.LexCsharp Model.LexGo
  Gen.GenLiteralTables.
Import ListNotations.
Open Scope N_scope.
Definition code (o : lit_outcome) : nat * text :=
  match o with
  | Ok t => (0%nat, t)
  | Err RViolation => (1%nat, [])
  | Err RValueError => (2%nat, [])
  | Err RAssertionError => (3%nat, [])
  | Crash AssertionError => (3%nat, [])
  | Crash _ => (8%nat, [])
  end.
Definition codeb (o : outcome bool raise_kind) : nat * text :=
  match o with
  | Ok b => (0%nat, [if b then 1 else 0])
  | Err RViolation => (1%nat, [])
  | Err RValueError => (2%nat, [])
  | Err RAssertionError => (3%nat, [])
  | Crash AssertionError => (3%nat, [])
  | Crash _ => (8%nat, [])
  end.
Definition model_lit (m : nat) (s : text) : nat * text :=
  match m with
  | 0%nat => code (py_string_literal None false false s)
  | 1%nat => code (py_string_literal (Some QSingle) false false s)
  | 2%nat => code (py_string_literal (Some QDouble) false false s)
  | 3%nat => code (py_string_literal None false true s)
  | 4%nat => code (py_string_literal (Some QSingle) false true s)
  | 5%nat => code (py_string_literal (Some QDouble) false true s)
  | 6%nat => code (py_string_literal (Some QSingle) true false s)
  | 7%nat => code (py_string_literal (Some QDouble) true false s)
  | 8%nat => code (py_string_literal None true false s)
  | 9%nat => code (ts_string_literal false false s)
  | 10%nat => code (ts_string_literal false true s)
  | 11%nat => code (ts_string_literal true false s)
  | 12%nat => code (ts_string_literal true true s)
  | 13%nat => code (cpp_wstring_literal s)
  | 14%nat => code (cpp_string_literal s)
  | 15%nat => code (cpp_wchar_literal s)
  | 16%nat => code (cs_string_literal s)
  | 17%nat => code (java_string_literal s)
  | 18%nat => code (go_string_literal s)
  | 19%nat => codeb (py_needs_escaping s false)
  | 20%nat => codeb (py_needs_escaping s true)
  | 21%nat => codeb (cpp_needs_escaping s)
  | 22%nat => codeb (cs_needs_escaping s)
  | 23%nat => codeb (java_needs_escaping s)
  | 24%nat => codeb (go_needs_escaping s)
  | 25%nat => let '(l, multi) := py_bytes_literal s in (0%nat, (if multi then 1 else 0) :: l)
  | _ => (9%nat, [])
  end.
Definition res_eqb (a b : nat * text) : bool := Nat.eqb (fst a) (fst b) && text_eqb (snd a) (snd b).
Fixpoint bad_from {A} (ok : A -> bool) (i : nat) (cs : list A) : list nat :=
  match cs with
  | [] => []
  | c :: r => if ok c then bad_from ok (S i) r else i :: bad_from ok (S i) r
  end.

(* explicit cases *)
Definition case_ok (c : nat * text * (nat * text)) : bool :=
  match c with (m, s, r) => res_eqb (model_lit m s) r end.
Definition bad := bad_from case_ok 0.

(* run-length descriptions of f(chr c) over [lo, hi]; the number rendering here is
   written independently of the model's *)
Inductive sig : Type :=
| SExc (k : nat) | SConst (o : text) | SChar (pre suf : text)
| SNum (pre : text) (base : N) (width : nat) (suf : text).
Fixpoint digs (k : nat) (base n : N) : text :=
  match k with
  | O => []
  | S k' => digs k' base (n / base) ++ [let d := n mod base in if d <? 10 then 48 + d else 87 + d]
  end.
Fixpoint strip0 (t : text) : text :=
  match t with
  | 48 :: r => match r with [] => t | _ => strip0 r end
  | _ => t
  end.
Definition rnum (base : N) (width : nat) (n : N) : text :=
  let full := strip0 (digs 8 base n) in
  if Nat.leb width (length full) then full else digs width base n.
Definition expected (s : sig) (c : N) : nat * text :=
  match s with
  | SExc k => (k, [])
  | SConst o => (0%nat, o)
  | SChar pre suf => (0%nat, pre ++ [c] ++ suf)
  | SNum pre base width suf => (0%nat, pre ++ rnum base width c ++ suf)
  end.
Definition run_ok (r : nat * N * N * sig) : bool :=
  match r with
  | (m, lo, hi, s) =>
      match hi + 1 - lo with
      | 0 => true
      | Npos p => all_from p lo (fun c => res_eqb (model_lit m [c]) (expected s c))
      end
  end.
Definition bad_runs := bad_from run_ok 0.

(* lexers: 0 python str, 1 python bytes, 2 js quoted, 3 js template, 4 java, 5 c++11 wide,
   6 c++11 narrow (both with trigraph replacement, as g++ -std=c++11), 7 c++ wchar, 8 c#, 9 go, 10 python str then str.format *)
Definition model_lex (k : nat) (l : text) : option text :=
  match k with
  | 0%nat => lex_py l
  | 1%nat => lex_py_bytes l
  | 2%nat => lex_js false l
  | 3%nat => lex_js true l
  | 4%nat => lex_java l
  | 5%nat => lex_cpp11_string true l
  | 6%nat => lex_cpp11_string false l
  | 7%nat => option_map (fun v => [v]) (lex_cpp_wchar l)
  | 8%nat => lex_cs l
  | 9%nat => lex_go l
  | 10%nat => match lex_py l with Some v => fmt_unescape v | None => None end
  | _ => None
  end.
(* (lexer, literal, what the real front end / the specification says, tolerate a model None) *)
Definition lex_ok (c : nat * text * option text * bool) : bool :=
  match c with
  | (k, l, tool, tolerate) =>
      match model_lex k l, tool with
      | Some v, Some w => text_eqb v w
      | None, None => true
      | None, Some _ => tolerate
      | Some _, None => false
      end
  end.
Definition bad_lex := bad_from lex_ok 0.
"""

EXC_CODE = {"ViolationError": 1, "ValueError": 2, "AssertionError": 3}


def coq_cps(xs) -> str:
    return "[" + ";".join(str(x) for x in xs) + "]"


def res_term(res: dict) -> str:
    if "ok" in res:
        return f"(0%nat, {coq_cps(res['ok'])})"
    if "okb" in res:
        return f"(0%nat, [{1 if res['okb'] else 0}])"
    if "okm" in res:
        lit, multi = res["okm"]
        return f"(0%nat, {coq_cps([1 if multi else 0] + lit)})"
    return f"({EXC_CODE.get(res['exc'], 7)}%nat, [])"


def sig_term(sig) -> str:
    k = sig[0]
    if k == "exc":
        return f"SExc {EXC_CODE.get(sig[1], 7)}%nat"
    if k == "const":
        return f"SConst {coq_cps(sig[1])}"
    if k == "char":
        return f"SChar {coq_cps(sig[1])} {coq_cps(sig[2])}"
    if k == "num":
        return f"SNum {coq_cps(sig[1])} {sig[2]} {sig[3]}%nat {coq_cps(sig[4])}"
    raise lib.HarnessError(f"signature {sig}")


# --------------------------------------------------------------------------------------
# What the property demands, per mode
# --------------------------------------------------------------------------------------
# mode -> (lexer id, tool, value kind)
LANG = {
    "py_n": (0, "python", "cp"), "py_s": (0, "python", "cp"), "py_d": (0, "python", "cp"),
    "py_nc": (10, "python_fmt", "cp"), "py_sc": (10, "python_fmt", "cp"), "py_dc": (10, "python_fmt", "cp"),
    "ts_q": (2, "node", "u16"), "ts_t": (3, "node", "u16"),
    "java": (4, "java", "u16"),
    "cpp_w": (5, "gxx_wide", "cp"), "cpp_s": (6, "gxx_narrow", "cp"), "cpp_c": (7, "gxx_wchar", "cp"),
    "cs": (8, None, "u16"), "go": (9, None, "cp"),
}


def representable(mode: str, s: str) -> bool:
    if mode == "cpp_s":
        return all(ord(c) <= 127 for c in s)
    if mode == "cpp_c":
        return len(s) == 1
    if mode == "go":
        return not any(0xD800 <= ord(c) <= 0xDFFF for c in s)
    return True


def value_of(mode: str, s: str) -> List[int]:
    return G.utf16_units(s) if LANG[mode][2] == "u16" else G.cps(s)


def run_tool(tool: str, lits: List[str]):
    if tool == "python":
        return G.python_eval(lits)
    if tool == "python_fmt":
        res = G.python_eval(lits)
        out = []
        for r in res:
            if r[0] == "ok":
                try:
                    out.append(["ok", G.cps(G.from_cps(r[1]).format())])
                except Exception as e:  # noqa
                    out.append(["rej", "format: " + type(e).__name__])
            else:
                out.append(r)
        return out
    if tool == "python_bytes":
        return G.python_eval(lits, "bytes")
    if tool == "node":
        return G.node_eval(lits)
    if tool == "java":
        return G.java_eval(lits)
    if tool == "gxx_wide":
        return G.gxx_eval(lits, "wide")
    if tool == "gxx_narrow":
        return G.gxx_eval(lits, "narrow")
    if tool == "gxx_wchar":
        return G.gxx_eval(lits, "wchar")
    raise lib.HarnessError(tool)


# features the lexer models deliberately do not cover (model None, front end accepts)
PYTOL = r"^[rRfFbBuU]{1,2}['\"]|\\N|^('''|\"\"\")|\r|^\s|\s$|['\"]\s*b?['\"].*['\"]|\\[4-7][0-7][0-7]"
EDGE = r"^\s|\s$"
TOLERATE = {
    0: PYTOL, 10: PYTOL, 1: PYTOL,
    2: EDGE + r"|^'", 3: EDGE, 4: EDGE + r"|\\u+005[cC]|\\u+000[aAdD]|\\u+0022",
    5: EDGE + r"|^[^L]|\r|\x00|\?\?|\"\s*\"|\\U(?!000|0010)",
    6: EDGE + r"|[^\x00-\x7f]|\\[uU]|\r|\x00|\?\?", 7: EDGE + r"|\r|\x00|\?\?|\\U(?!000|0010)",
}

# value level: lone surrogate, backslashes, then `u` or another lone surrogate
JAVAC_CLASS_VALUE = re.compile("[\ud800-\udfff]\\\\+(u|[\ud800-\udfff])")
# literal level: a Unicode escape, a backslash run, `u`
JAVAC_CLASS_LITERAL = re.compile(r"\\u+[0-9a-fA-F]{4}\\+u")

HAND_LITERALS = {
    0: ["'\\x41'", "'\\x4'", "'\\101'", "'\\1011'", "'\\18'", "'\\u00e9\\U0001f600'", "'\\ud800'",
        "'\\q'", "'a\\\nb'", "'\\U00110000'", "\"'\"", "'\"'", "'''x'''", "'\\N{DASH}'",
        "'a", "a'", "''", "'\\'", "'\\\\'", "'\\0'", "'\\08'", "'\\777'", "'\\x'", "'\\U0001F60'"],
    1: ['b"\\x00\\xff"', 'b"\\x0"', 'b"a" b"b"', 'b"a"\nb"b"', 'b"\\101\\1"', 'b"\\u0041"', 'b"\xe9"',
        'b"\\400"', "b'\\''", 'b"', 'b""', '"a"'],
    2: ['"\\x41"', '"\\x4"', '"\\u0041"', '"\\u{1F600}"', '"\\u{110000}"', '"\\u{}"', '"\\0"', '"\\01"',
        '"\\1"', '"\\08"', '"\\8"', '"a\\\nb"', '"a\\\r\nb"', '"\\q"', '"\\\'"', '"\u2028"', '"a\nb"',
        '"\\ud83d\\ude00"', '"\\ud800"', '"`${x}"', "'a'", '"\\u004"', '"\\xg1"', '"', '""'],
    3: ['`a${b`', '`a$b`', '`$`', '`$$`', '`$${`', '`\\${`', '`$\\{`', '`a\rb`', '`a\r\nb`', '`a\nb`',
        '`\\0`', '`\\01`', '`\\1`', '`\\u{41}`', '`\\x41`', '`\\``', '`a`b`', '`\\q`', '`${1}`',
        '`\\u00`', '`\\\r\nx`', '`\u2028`', '``', '`'],
    4: ['"\\u0041"', '"\\\\u0041"', '"\\\\\\u0041"', '"\\uuu0041"', '"\\u004"', '"\\101"', '"\\1011"',
        '"\\377"', '"\\477"', '"\\8"', '"\\s"', '"\\a"', '"\\v"', '"\\\'"', '"\\u0022"', '"\\u000a"',
        '"\\ud83d\\ude00"', '"\\ud800"', '"\\x41"', '"a\tb"', '"\x00"', '"\x1a"', '"', '""', '"\\0"',
        '"\\u005cn"', '"\\u005c\\u005c"'],
    5: ['L"\\x1f"', 'L"\\x1" L"f"', 'L"\\x1""f"', 'L"\\001f"', 'L"\\1f"', 'L"\\18"', 'L"\\777"',
        'L"\\xd800"', 'L"\\ud800"', 'L"\\u00e9"', 'L"\\U0001f600"', 'L"\\U00110000"', 'L"\\x110000"',
        'L"\\xffffffff"', 'L"\\x100000000"', 'L"\\q"', 'L"\\?"', 'L"a\\\nb"', 'L"\\x"', 'L"\\u004"',
        'L"a"\nL"b"', 'L"a" "b"', '"a"', 'L"', 'L""', 'L"\\e"', 'L"\u00e9"', 'L"\U0001f600"',
        'L"\\xd800" L""', 'L"\\0"', 'L"\\08"', 'L"\\u0041"', 'L"\\u0024"'],
    6: ['"\\x1f"', '"\\x1" "f"', '"\\001f"', '"\\377"', '"\\400"', '"\\x100"', '"\\xff"', '"\\u0041"',
        '"\\?"', '"a" "b"', '"a"\n"b"', '"', '""', '"\\q"', '"\x7f"', '"\\0"', '"\\x41g"'],
    7: ["L'a'", "L'\\''", "L'\\x1f'", "L'\\xd800'", "L'\\ud800'", "L'\\u00e9'", "L'\\U0001f600'",
        "L'ab'", "L''", "L'\\0'", "L'\\101'", "static_cast<wchar_t>(0xd800)", "static_cast<wchar_t>(0x)",
        "L'\"'", "L'\\q'", "static_cast<wchar_t>(0xdfff)", "L'\\1'"],
}


def mutate_literal(rng, lit: str) -> str:
    if not lit:
        return lit
    k = rng.randrange(4)
    i = rng.randrange(len(lit))
    pool = "\\\"'`${}xuU01789afnLb \n"
    if k == 0:
        return lit[:i] + lit[i + 1:]
    if k == 1:
        return lit[:i] + rng.choice(pool) + lit[i:]
    if k == 2:
        return lit[:i] + rng.choice(pool) + lit[i + 1:]
    j = rng.randrange(len(lit))
    return lit[:i] + lit[j] + lit[i:]


# --------------------------------------------------------------------------------------
def corpus() -> List[str]:
    """minimised witnesses of past failures, always run first"""
    return ["\x01f", "\x011", "\x1fA", "\x7f0", "\x80a", "\xfeF", "\x00", "a\x00b", "\ud800", "\udfffa",
            "\ud83d\ude00", "\u0085", "\u2028", "\u2029", "${", "$${", "$", "$$", "`${a}`", "\\${", "$\\{",
            "\\u0041", "\\\\u0041", "\\", "\\\\", "a\\", "'", "\"", "'\"", "''\"", "{}", "{{", "}",
            "\U0001f600", "\xff", "\u0100", "\uffff", "\U00010000", "\U0010ffff", " a", "a ", "\ta",
            "\x0b", "\x1b[0m", "\x1a", "??/", "%s", "é", "\x01\x02g", "\ufeff", "", "\ud800\\\udc00", "\udfff\\u0041", "\ud800x\\\udc00"]


def streams(ctx: lib.Ctx) -> None:
    rng = ctx.rng
    have_gen = (lib.THEORIES / "Gen" / "GenLiteralTables.v").exists()
    model_ok = have_gen and not any(b["theorem_or_item"] == "model-build" for b in ctx.proof_breaks)

    # ------------------------------------------------------------------ inputs
    alpha = G.INTERESTING
    singles = list(alpha)
    all_pairs = [a + b for a in alpha for b in alpha]
    pairs = all_pairs if ctx.thorough else rng.sample(all_pairs, 450)
    pairs_tool = all_pairs if ctx.thorough else pairs[:250]
    randoms = [G.random_string(rng) for _ in range(ctx.n(300, 4000))]
    base_inputs = corpus() + singles + pairs + randoms
    tool_inputs = corpus() + singles + pairs_tool + randoms[: ctx.n(150, 1000)]
    import time as _time
    t_last = [_time.time()]
    timing = ctx.coverage.setdefault("stage_seconds", {})

    def stage(name):
        now = _time.time()
        timing[name] = round(now - t_last[0], 1)
        t_last[0] = now

    # ------------------------------------------------------------------ implementation
    cases: List[Tuple[str, str]] = []
    for m in LIT_MODES:
        src = base_inputs
        if m == "cpp_c":
            src = corpus() + singles + [chr(rng.randrange(0x110000)) for _ in range(200)] + pairs[:50]
        for s in src:
            cases.append((m, s))
    for m in NEEDS_MODES:
        for s in corpus() + singles + pairs[::5] + randoms[:200]:
            cases.append((m, s))
    byte_inputs = [bytes(rng.randrange(256) for _ in range(n))
                   for n in [0, 1, 2, 7, 8, 9, 15, 16, 17, 24, 25, 40] for _ in range(ctx.n(6, 40))]
    byte_inputs += [bytes([b]) for b in range(256)] + [bytes(range(256))]
    results: List[dict] = []
    payload = [[m, G.cps(s)] for m, s in cases] + [["py_bytes", list(b)] for b in byte_inputs]
    B = 40000
    for k in range(0, len(payload), B):
        results += lib.impl_call("literals.py", {"op": "batch", "cases": payload[k:k + B]}, timeout=1800)
    impl = {(m, s): r for (m, s), r in zip(cases, results)}
    bytes_res = results[len(cases):]

    stage('implementation-batch')
    # ------------------------------------------------------------------ correspondence (explicit)
    if model_ok:
        coq_cases = [coq_pair(coq_nat(MODE_ID[m]), coq_cps(G.cps(s)), res_term(r))
                     for (m, s), r in zip(cases, results)]
        coq_cases += [coq_pair(coq_nat(MODE_ID["py_bytes"]), coq_cps(list(b)), res_term(r))
                      for b, r in zip(byte_inputs, bytes_res)]
        bad, _ = lib.run_cases(ctx.work, "corr", HEADER, "nat * text * (nat * text)", "bad", coq_cases,
                               shard=3000)
        all_in = cases + [("py_bytes", b) for b in byte_inputs]
        for i in bad[:12]:
            m, s = all_in[i]
            xs = list(s) if isinstance(s, bytes) else G.cps(s)
            mo = lib.coq_eval(ctx.work, "show", HEADER, f"model_lit {MODE_ID[m]}%nat {coq_cps(xs)}")
            ctx.corr_break("escaper", {"mode": m, "input": xs}, mo[-600:], results[i])
        escaped = [(m, s) for (m, s), r in zip(cases, results)
                   if "ok" in r and m in LANG and len(r["ok"]) > len(s) + 3]
        ctx.count("escaper-explicit", len(coq_cases), nontrivial_keys=escaped[:200000],
                  validated=len(coq_cases), modes=len(ALL_MODES), pairs=len(pairs), all_pairs=bool(ctx.thorough), random=len(randoms),
                  exceptions=sum(1 for r in results if "exc" in r))

    stage('correspondence-explicit')
    # ------------------------------------------------------------------ correspondence (every code point)
    if ctx.thorough:
        full = [[0, 0x10FFFF]]
    else:
        full = [[0, 0x8FF], [0x2000, 0x20FF], [0xD780, 0xE07F], [0xFF80, 0x1007F], [0x10FF80, 0x10FFFF]]
        for _ in range(10):
            a = rng.randrange(0, 0x10FF00) & ~0xFF
            full.append([a, a + 0xFF])
        full.sort()
    ranges = {m: full for m in SWEEP_MODES}
    if not ctx.thorough:
        ranges["cpp_s"] = [[0, 0x400], [0xD7F0, 0xD810], [0xFFF0, 0x10010]]
    sweep = lib.impl_call("literals.py", {"op": "single_all", "modes": SWEEP_MODES, "ranges": ranges,
                                          "procs": lib.NCPU}, timeout=3000)
    n_points = 0
    run_cases_: List[str] = []
    run_meta = []
    for m in SWEEP_MODES:
        for lo, hi, sig in sweep[m]:
            # split long runs so that shards are balanced
            step = 70000
            for a in range(lo, hi + 1, step):
                b = min(hi, a + step - 1)
                run_cases_.append(coq_pair(coq_nat(MODE_ID[m]), str(a), str(b), sig_term(sig)))
                run_meta.append((m, a, b, sig))
                n_points += b - a + 1
    if model_ok:
        bad, _ = lib.run_cases(ctx.work, "sweep", HEADER, "nat * N * N * sig", "bad_runs", run_cases_,
                               shard=max(8, len(run_cases_) // (lib.NCPU * 2) + 1))
        for i in bad[:12]:
            m, a, b, sig = run_meta[i]
            mo = lib.coq_eval(ctx.work, "show", HEADER, f"model_lit {MODE_ID[m]}%nat [{a}]")
            ctx.corr_break("escaper-single-code-points", {"mode": m, "range": [a, b]}, mo[-400:],
                           {"implementation_signature": sig})
        ctx.count("escaper-single-code-points", n_points, validated=n_points,
                  exhaustive=bool(ctx.thorough), runs=len(run_cases_))

    stage('correspondence-sweep')
    # ------------------------------------------------------------------ property oracle on the implementation
    failures: Dict[str, List[Tuple[str, str, str]]] = {}
    lexval: List[Tuple[int, str, Optional[List[int]], bool]] = []   # (lexer, literal, tool value, tolerate)
    spec_cases: List[Tuple[str, str, str]] = []   # C#, Go: checked with the specification lexer

    def note(mode, s, lit, why):
        failures.setdefault(mode, []).append((s, lit, why))

    per_tool: Dict[str, List[Tuple[str, str, str]]] = {}
    for m in LANG:
        src = tool_inputs if m != "cpp_c" else corpus() + singles + randoms[:100]
        for s in src:
            r = impl.get((m, s))
            if r is None:
                continue
            rep = representable(m, s)
            if "exc" in r:
                if rep:
                    note(m, s, None, f"refused a representable value ({r['exc']})")
                continue
            lit = G.from_cps(r["ok"])
            if LANG[m][1] is None:
                spec_cases.append((m, s, lit))
            else:
                per_tool.setdefault(LANG[m][1], []).append((m, s, lit))
    n_tool = 0
    for tool, items in per_tool.items():
        res = run_tool(tool, [lit for _, _, lit in items])
        n_tool += len(items)
        for (m, s, lit), r in zip(items, res):
            rep = representable(m, s)
            if r[0] == "ok":
                if not rep:
                    note(m, s, lit, "emitted a literal for a value that cannot be represented")
                elif r[1] != value_of(m, s):
                    note(m, s, lit, f"literal denotes {r[1][:12]} instead of the original value")
            else:
                note(m, s, lit, f"the front end rejects the literal ({r[1]})")
            if LANG[m][0] == 7 and "??" in lit:
                continue
            if LANG[m][0] == 4 and JAVAC_CLASS_LITERAL.search(lit):
                continue   # javac deviates from JLS 3.3 here (see docs); not a lexer-model question
            lexval.append((LANG[m][0], lit, r[1] if r[0] == "ok" else None, False))
    # bytes
    bl = [(b, G.from_cps(r["okm"][0])) for b, r in zip(byte_inputs, bytes_res) if "okm" in r]
    for (b, lit), r in zip(bl, run_tool("python_bytes", [lit for _, lit in bl])):
        if r[0] != "ok" or r[1] != list(b):
            note("py_bytes", G.from_cps(list(b)), lit, f"bytes literal denotes {r}")
        lexval.append((1, lit, r[1] if r[0] == "ok" else None, False))
    n_tool += len(bl)
    # C#, Go through the specification lexers (inside Coq)
    if model_ok and spec_cases:
        sc = [coq_pair(coq_nat(LANG[m][0]), coq_cps(G.cps(lit)),
                       coq_option(coq_cps(value_of(m, s))) if representable(m, s) else "None", "false")
              for m, s, lit in spec_cases]
        bad, _ = lib.run_cases(ctx.work, "spec", HEADER, "nat * text * option text * bool", "bad_lex", sc,
                               shard=3000)
        for i in bad:
            m, s, lit = spec_cases[i]
            note(m, s, lit, "the specification lexer does not read the original value back")

    stage('property-oracle')
    # ------------------------------------------------------------------ lexer models vs real front ends
    import os as _os
    extra: Dict[int, List[str]] = ({} if _os.environ.get('VERIF_C19_SKIP_LEXVAL') == '1'
                                    else {k: list(v) for k, v in HAND_LITERALS.items()})
    by_lexer: Dict[int, List[str]] = {}
    for k, lit, _v, _t in lexval:
        by_lexer.setdefault(k, []).append(lit)
    for k, lits in by_lexer.items():
        if k in extra:
            for _ in range(ctx.n(60, 500) if k in (0, 1, 2, 3) else ctx.n(16, 80)):
                extra[k].append(mutate_literal(rng, rng.choice(lits)))
    tool_of = {0: "python", 1: "python_bytes", 2: "node", 3: "node", 4: "java", 5: "gxx_wide",
               6: "gxx_narrow", 7: "gxx_wchar"}
    for k, lits in extra.items():
        lits = sorted(set(lits))
        res = run_tool(tool_of[k], lits)
        for lit, r in zip(lits, res):
            tol = bool(re.search(TOLERATE.get(k, r"$^"), lit))
            if k == 7 and "??" in lit:
                continue
            if k == 4 and JAVAC_CLASS_LITERAL.search(lit):
                continue
            if k == 7 and not re.fullmatch(
                    r"L'(\\([abfnrtv'\"?\\]|[0-7]{1,3}|x[0-9a-fA-F]+|u[0-9a-fA-F]{4}|U[0-9a-fA-F]{8})|[^\\'\n])'"
                    r"|static_cast<wchar_t>\(0x[0-9a-fA-F]+\)", lit):
                tol = True   # multi-character / unprefixed constants: accepted by g++ with a warning
            lexval.append((k, lit, r[1] if r[0] == "ok" else None, tol))
    if model_ok:
        lc = [coq_pair(coq_nat(k), coq_cps(G.cps(lit)), coq_option(None if v is None else coq_cps(v)),
                       "true" if tol else "false") for k, lit, v, tol in lexval]
        bad, _ = lib.run_cases(ctx.work, "lexval", HEADER, "nat * text * option text * bool", "bad_lex", lc,
                               shard=3000)
        for i in bad[:12]:
            k, lit, v, tol = lexval[i]
            mo = lib.coq_eval(ctx.work, "show", HEADER, f"model_lex {k}%nat {coq_cps(G.cps(lit))}")
            ctx.corr_break(f"lexer-model-{k}", {"lexer": k, "literal": G.cps(lit), "literal_repr": repr(lit)},
                           mo[-400:], {"front_end_value": v})
        ctx.count("lexer-models-vs-front-ends", len(lexval), validated=len(lexval),
                  accepted=sum(1 for x in lexval if x[2] is not None))

    stage('lexer-validation')
    # ------------------------------------------------------------------ report property failures (shrunk)
    order = ['cpp_w', 'go', 'cs', 'py_n', 'java', 'ts_t', 'cpp_s', 'ts_q', 'cpp_c']
    # known causes are reported under one key per CLASS of inputs, and separately from the
    # other failures of the same mode (so that a new defect is not hidden behind a known one)
    grouped: Dict[Tuple[str, str], List[Tuple[str, str, str]]] = {}
    for mode, items in failures.items():
        for it in items:
            grouped.setdefault((mode, known_class(mode, it[0])), []).append(it)
    for (mode, cls), items in sorted(grouped.items(), key=lambda kv: (
            order.index(kv[0][0]) if kv[0][0] in order else 99, kv[0])):
        s, lit, why = min(items, key=lambda it: (len(it[0]), it[0]))
        s2, lit2, why2 = shrink(mode, s, lit, why, cls)
        cls2 = known_class(mode, s2)
        key = f"{mode}:{cls2}" if cls2 else f"{mode}:{'-'.join('%x' % ord(c) for c in s2)}"
        ctx.impl_failure(
            key, f"{mode}: {why2}", {"mode": mode, "string_code_points": G.cps(s2), "string_repr": repr(s2)},
            {"literal": lit2, "failing_inputs_this_run": len(items)}, "property-oracle",
            f"PYTHONPATH={lib.REPO} {lib.PY} harness/impl/literals.py  <<< "
            + json.dumps({"op": "batch", "cases": [[mode, G.cps(s2)]]}))
    ctx.count("property-oracle", n_tool + len(spec_cases), validated=n_tool + len(spec_cases),
              front_end_checked=n_tool, specification_lexer_checked=len(spec_cases),
              failing_modes=sorted(failures))
    for s in ["\x01f", "$${", "\ud800", "a\"b\\"]:
        ctx.sample({"string": G.cps(s), "literals": {m: impl[(m, s)] for m in ("py_n", "ts_t", "cpp_w", "go")
                                                     if (m, s) in impl}})


def check_one(mode: str, s: str) -> Optional[Tuple[Optional[str], str]]:
    """Property on the implementation for one input: None if it holds, else (literal, why)."""
    r = lib.impl_call("literals.py", {"op": "batch", "cases": [[mode, G.cps(s)]]})[0]
    rep = representable(mode, s)
    if "exc" in r:
        return (None, f"refused a representable value ({r['exc']})") if rep else None
    lit = G.from_cps(r["ok"])
    tool = LANG[mode][1]
    if tool is None:
        out = lib.coq_eval(lib.WORK / "C19", "one", HEADER,
                           f"lex_ok ({LANG[mode][0]}%nat, {coq_cps(G.cps(lit))}, "
                           + (f"Some {coq_cps(value_of(mode, s))}" if rep else "None") + ", false)")
        return None if "= true" in out else (lit, "the specification lexer does not read the original value back")
    t = run_tool(tool, [lit])[0]
    if t[0] == "ok":
        if not rep:
            return (lit, "emitted a literal for a value that cannot be represented")
        if t[1] != value_of(mode, s):
            return (lit, f"literal denotes {t[1][:12]} instead of the original value")
        return None
    return (lit, f"the front end rejects the literal ({t[1]})") if rep or True else None


TRIGRAPH = re.compile(r"\?\?[=/'()!<>-]")


def known_class(mode: str, s: str) -> str:
    """'' or the name of the known cause that explains a failure on s."""
    if mode == "java" and JAVAC_CLASS_VALUE.search(s):
        # javac (17) rejects, against JLS 3.3, a backslash run followed by `u` right after a
        # Unicode escape; only lone surrogates are emitted as Unicode escapes
        return "unicode-escape-then-backslash-u"
    if mode in ("cpp_w", "cpp_s") and TRIGRAPH.search(s):
        return "trigraph"
    return ""


def shrink(mode: str, s: str, lit, why, cls: str = ""):
    if mode not in LANG:
        return s, lit, why
    cur = (s, lit, why)
    budget = 12
    changed = True
    while changed and len(cur[0]) > 1 and budget > 0:
        changed = False
        for i in range(len(cur[0])):
            cand = cur[0][:i] + cur[0][i + 1:]
            budget -= 1
            if known_class(mode, cand) != cls:
                continue
            r = check_one(mode, cand)
            if r is not None:
                cur = (cand, r[0], r[1])
                changed = True
                break
            if budget <= 0:
                break
    return cur
