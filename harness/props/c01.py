"""C01 — Meta-model front end never crashes (partial; see docs/C01.md)."""
from __future__ import annotations

import collections
import concurrent.futures as cf
import glob
import json
import pathlib
import random
from typing import Any, Dict, List, Optional, Sequence, Tuple, Union

from harness import lib
from harness.gen import crashhunt as ch
from harness.gen import metamodel as mmg
from harness.lib import coq_bool, coq_list, coq_nat, coq_option, coq_pair, coq_text

META = {
    "title": "Meta-model front end never crashes",
    "design_ref": "§4 C01",
    "level_text": (
        "Partial. Coq totality theorems (never Crash, all inputs) for the crash-bearing cores that "
        "are modelled: positional/keyword unpacking of constant_set / constant_<primitive> (all "
        "argument counts, all keyword lists), the string-constant type annotation, and the "
        "control-flow skeletons of run.load_model ((result, error) exclusive-or on every path) and "
        "main.execute — all stated over definitions re-translated from the sources on every run; "
        "the unpacking model is run against the real functions inside Coq. The rest of the front "
        "end is searched, not proved: grammar-based mutants of generated meta-models plus a "
        "malformed stream through the real CLI entry point, oracle = returns 0/1, never raises, "
        "non-empty stderr on 1."
    ),
    "level_note": (
        "Not proved: that the ~15 kLOC of unmodelled rule code raises nothing (searched only). "
        "Trusted: icontract post-conditions of the callees of load_model (checked to be present), "
        "truthiness of returned error objects, Python's recursion limit (known finding)."
    ),
    "technique": "Coq proof (totality of modelled cores, sound path exploration of translated "
                 "skeletons) + in-Coq correspondence + grammar-based crash search on the real CLI",
}
GEN = ["GenLoadModel", "GenRetreeTables"]
MODEL = ["Model/ArgUnpack", "Model/LoadSkel", "Gen/GenLoadModel"]
TRUSTED = [
    "harness/translate/loadmodel.py (Python ast -> skeleton / guard tables), fail closed",
    "Model/ArgUnpack.v semantics of the translated guard table (correspondence-checked against "
    "_parse_constant_set / _parse_constant_primitive for n_pos <= 6 x keyword lists)",
    "xor post-conditions of source_to_atok, atok_to_symbol_table, translate, read_from_directory "
    "(presence checked by the translator; icontract enforces them at run time)",
    "harness/gen/crashhunt*.py mutation engine, harness/impl/crashhunt.py + cli.py runner",
]
RULE = ("unit: case = (function, n_pos in 0..6, keyword list up to length 2 over {values, description, "
        "superset_of, value, other, **}); system: case = meta-model text = generated valid model (or a "
        "test-data model of the repository) with 1-3 syntactic mutations, or a malformed text; "
        "non-trivial = rejected with a report at parse/translate stage or accepted; distinct by text")

# ---------------------------------------------------------------------------------------
# Unit correspondence: ArgUnpack
# ---------------------------------------------------------------------------------------
HEADER = """From Coq Require Import List NArith Arith Bool.
From Acg Require Import Base.Outcome Base.Str Model.ArgUnpack Gen.GenLoadModel.
Import ListNotations.
Open Scope nat_scope.
Definition slots_eqb (a b : list (option nat)) : bool :=
  list_eqb (option_eqb Nat.eqb) a b.
(* case: (is_set, args, kws, impl class 0 ok / 1 err / 2 crash, impl slots) *)
Definition case_ok (c : bool * list nat * list (option text * nat) * nat * list (option nat)) : bool :=
  match c with
  | (is_set, args, kws, cls, slots) =>
      match unpack (if is_set then constant_set_spec else constant_primitive_spec) args kws with
      | Ok s => Nat.eqb cls 0 && slots_eqb s slots
      | Err _ => Nat.eqb cls 1
      | Crash _ => Nat.eqb cls 2
      end
  end.
Fixpoint bad_from (i : nat) (cs : list (bool * list nat * list (option text * nat) * nat * list (option nat)))
  : list nat :=
  match cs with
  | [] => []
  | c :: r => if case_ok c then bad_from (S i) r else i :: bad_from (S i) r
  end.
Definition bad := bad_from 0.
"""
CASE_TYPE = "bool * list nat * list (option text * nat) * nat * list (option nat)"
KW_NAMES = ["values", "description", "superset_of", "value", "other", None]


def unit_cases() -> List[Dict[str, Any]]:
    kw_lists: List[List[Optional[str]]] = [[]]
    kw_lists += [[a] for a in KW_NAMES]
    kw_lists += [[a, b] for a in KW_NAMES for b in KW_NAMES if a != b or a is None]
    kw_lists += [["values", "description", "superset_of"], ["superset_of", "description", "values"],
                 ["value", "description", None]]
    out = []
    for fn in ("set", "primitive"):
        for n in range(0, 7):
            for kws in kw_lists:
                out.append({"fn": fn, "n_pos": n, "kws": kws})
    return out


def coq_unit_case(c, r) -> str:
    cls = {"ok": 0, "err": 1, "crash": 2}[r["cls"]]
    kws = coq_list(coq_pair(coq_option(None if k is None else coq_text(k) + "%N"), str(100 + j))
                   for j, k in enumerate(c["kws"]))
    return coq_pair(coq_bool(c["fn"] == "set"), coq_list(str(i) for i in range(c["n_pos"])), kws,
                    str(cls), coq_list(coq_option(None if s is None else str(s)) for s in r["slots"]))


def unit_stream(ctx: lib.Ctx) -> None:
    cases = unit_cases()
    results = lib.impl_call("argunpack.py", cases, timeout=600)
    classes = collections.Counter(r["cls"] for r in results)
    for c, r in zip(cases, results):
        if r["cls"] == "crash":
            ctx.impl_failure(
                f"{r['exc']}@parse/_translate.py:"
                f"{'_parse_constant_set' if c['fn'] == 'set' else '_parse_constant_primitive'}",
                f"{r['exc']} while unpacking the arguments: {r['message']}",
                {"source": r["source"], **c}, r, "argunpack",
                f"PYTHONPATH={lib.REPO} {lib.PY} {lib.VERIF}/harness/impl/argunpack.py <<< "
                f"'{json.dumps([c])}'")
    try:
        bad, _log = lib.run_cases(ctx.work, "unit", HEADER, CASE_TYPE, "bad",
                                  [coq_unit_case(c, r) for c, r in zip(cases, results)])
    except lib.HarnessError as e:
        # the generated guard table is missing (translator failed closed): already a
        # broken tie, reported by the driver
        ctx.proof_break("argunpack-cases", str(e))
        bad = []
    for i in bad[:10]:
        ctx.corr_break("argunpack", cases[i], "see Model/ArgUnpack.v unpack on this case", results[i])
    ctx.count("argunpack", len(cases),
              nontrivial_keys=[(c["fn"], c["n_pos"], tuple(str(k) for k in c["kws"]))
                               for c, r in zip(cases, results) if r["cls"] != "err" or c["n_pos"] > 3],
              validated=len(cases), outcome_classes=dict(classes),
              scope="n_pos 0..6 x keyword lists (all of length <= 2 without repeated names, 3 of length 3)")
    ctx.sample({"unit_case": cases[40], "impl": results[40]})


# ---------------------------------------------------------------------------------------
# System level: texts through the CLI
# ---------------------------------------------------------------------------------------
def job_of(text: Union[str, bytes], target: str = "python", snippets=None) -> Dict[str, Any]:
    job: Dict[str, Any] = {"target": target, "snippets": snippets or {}, "files": "none"}
    if isinstance(text, bytes):
        job["model_hex"] = text.hex()
        return job
    try:
        text.encode("utf-8")
        job["model_text"] = text
    except UnicodeEncodeError:
        job["model_hex"] = text.encode("utf-8", "surrogatepass").hex()
    return job


def run_jobs(jobs: Sequence[Dict[str, Any]], batch: int = 25, workers: int = 8,
             timeout: int = 1500) -> List[Dict[str, Any]]:
    chunks = [list(jobs[i:i + batch]) for i in range(0, len(jobs), batch)]
    if not chunks:
        return []
    with cf.ThreadPoolExecutor(max_workers=min(workers, len(chunks))) as ex:
        res = list(ex.map(lambda c: lib.impl_call("crashhunt.py", {"jobs": c}, timeout=timeout), chunks))
    return [r for chunk in res for r in chunk]


def failure_key(r: Dict[str, Any]) -> Optional[str]:
    """The oracle: returns 0 or (non-zero and stderr non-empty); never raises."""
    if r.get("timeout"):
        return None      # running time is outside the property; counted by the streams
    if r["exc"] is not None:
        site = "recursion" if r["exc"]["class"] == "RecursionError" else r["exc"]["site"]
        return f'{r["exc"]["class"]}@{site}'
    if r["rc"] == 0:
        return None
    if isinstance(r["rc"], int) and r["rc"] != 0 and r["stderr_len"] > 0:
        return None
    return f'contract:rc={r["rc"]},stderr_empty={r["stderr_len"] == 0}'


def stage_of(r: Dict[str, Any]) -> str:
    if r.get("timeout"):
        return "timeout"
    if r["exc"] is not None:
        return "crash"
    if r["rc"] == 0:
        return "generated"
    st = r["stderr"]
    if st.startswith("Failed to parse the meta-model") or st.startswith("Failed to read"):
        return "rejected:syntax"
    if "unexpected imports" in st:
        return "rejected:imports"
    if st.startswith("Failed to construct the symbol table"):
        return "rejected:parse"
    if st.startswith("Failed to translate"):
        return "rejected:translate"
    return "accepted:generator-stopped"


def repo_seed_texts(limit: int = 6000) -> List[str]:
    out = []
    root = lib.REPO / "dev" / "test_data"
    for p in sorted(glob.glob(str(root / "**" / "meta_model.py"), recursive=True)):
        try:
            t = pathlib.Path(p).read_text(encoding="utf-8")
        except (OSError, UnicodeDecodeError):
            continue
        if len(t) < limit:
            out.append(t)
    return out


def corpus() -> List[Dict[str, Any]]:
    path = lib.VERIF / "harness" / "corpus" / "c01_texts.json"
    if not path.exists():
        return []
    return json.loads(path.read_text(encoding="utf-8"))


def gen_texts(rng: random.Random, n_mut: int, n_mal: int) -> List[Tuple[Union[str, bytes], List[str]]]:
    gen = []
    for _ in range(max(8, n_mut // 25)):
        prof = rng.choice(["tiny", "tiny", "small"])
        gen.append(mmg.render_source(mmg.random_metamodel(random.Random(rng.random()), prof)))
    extra = repo_seed_texts()
    texts: List[Tuple[Union[str, bytes], List[str]]] = []
    for _ in range(n_mut):
        seed = rng.choice(gen) if (not extra or rng.random() < 0.6) else rng.choice(extra)
        t, ops = ch.mutate(rng, seed, rng.choice([1, 1, 2, 3]))
        texts.append((t, ops or ["unchanged"]))
    for _ in range(n_mal):
        seed = rng.choice(gen)
        t, kind = ch.malformed(rng, seed)
        texts.append((t, ["malformed:" + kind]))
    return texts


def shrink_failures(found: Dict[str, Dict[str, Any]], target: str = "python") -> None:
    """Shrink one witness per key in-process (one subprocess per key, in parallel)."""
    items = [(k, v) for k, v in found.items() if isinstance(v["text"], str)]

    def one(kv):
        k, v = kv
        raw_key = v["raw_key"]
        try:
            r = lib.impl_call("crashhunt.py", {"shrink": [{
                "job": {"model_text": v["text"], "target": v.get("target", target),
                        "snippets": v.get("snippets") or {}, "files": "none"},
                "key": raw_key, "max_tests": 60}]}, timeout=900)[0]
            if r["text"]:
                v["text"] = r["text"]
                v["shrink_tests"] = r["tests"]
        except Exception as e:  # shrinking is best effort
            v["shrink_error"] = str(e)[:200]

    if items:
        with cf.ThreadPoolExecutor(max_workers=min(8, len(items))) as ex:
            list(ex.map(one, items[:6]))


def report(ctx: lib.Ctx, stream: str, found: Dict[str, Dict[str, Any]]) -> None:
    for key, v in found.items():
        t = v["text"]
        shown = t if isinstance(t, str) else {"hex": t.hex()}
        ctx.impl_failure(
            key,
            (v["exc"]["class"] + ": " + v["exc"]["message"][:300]) if v.get("exc") else
            f"exit-status contract broken: {v['raw_key']}",
            {"model_text": shown, "target": v.get("target", "python"), "mutations": v["ops"],
             "occurrences_in_this_run": v["count"], "snippets": v.get("snippets") or {}},
            {"frames": (v.get("exc") or {}).get("frames"), "contract": (v.get("exc") or {}).get("contract"),
             "traceback": (v.get("exc") or {}).get("traceback", "")[-1500:]},
            stream,
            "write model_text to meta_model.py (an empty snippets dir suffices) and run: "
            f"PYTHONPATH={lib.REPO} TMPDIR=$(mktemp -d) {lib.PY} -m aas_core_codegen --model_path meta_model.py "
            f"--snippets_dir snippets --output_dir out --target {v.get('target', 'python')}")


def system_stream(ctx: lib.Ctx) -> None:
    items: List[Tuple[Union[str, bytes], List[str]]] = []
    for c in corpus():
        t = bytes.fromhex(c["hex"]) if "hex" in c else c["text"]
        items.append((t, ["corpus:" + c.get("note", "")]))
    n_corpus = len(items)
    # systematic sweep: one minimal module per entry of every construct pool
    sweep = ch.sweep_texts()
    if not ctx.thorough:
        # quick: the representatives of the distinct outcomes (one text per distinct
        # report of the front end, computed offline over the whole sweep) + a sample
        core_path = lib.VERIF / "harness" / "corpus" / "c01_sweep_core.json"
        core = set(json.loads(core_path.read_text())) if core_path.exists() else set()
        chosen = [x for x in sweep if x[1] in core]
        others = [x for x in sweep if x[1] not in core]
        sweep = chosen + ctx.rng.sample(others, min(len(others), 30 if chosen else 200))
    items += [(t, ["sweep:" + label.split(":")[0]]) for t, label in sweep]
    # characters on which the tokenizer, splitlines() and split("\n") disagree, placed
    # before constructs that produce located errors (also inside f-strings)
    boundary = ch.boundary_texts()
    if not ctx.thorough:
        boundary = ch.boundary_core(boundary)
    items += [(t, ["boundary:" + label.split(":")[1]]) for t, label in boundary]
    items += gen_texts(ctx.rng, ctx.n(60, 12000), ctx.n(25, 3000))
    results = run_jobs([job_of(t) for t, _ in items], batch=25 if not ctx.thorough else 60,
                       workers=10)
    stages = collections.Counter()
    op_hist = collections.Counter()
    found: Dict[str, Dict[str, Any]] = {}
    generator_crashes = collections.Counter()
    nontrivial = []
    for (t, ops), r in zip(items, results):
        stage = stage_of(r)
        stages[stage] += 1
        for o in ops:
            op_hist[o.split(":")[0] if o.startswith("corpus") else o] += 1
        if stage in ("rejected:parse", "rejected:translate", "accepted:generator-stopped", "generated"):
            nontrivial.append(lib.stable_key(t if isinstance(t, str) else t.hex()))
        key = failure_key(r)
        if key is None:
            continue
        if r["exc"] is not None and not r["exc"]["in_front_end"] and r["exc"]["class"] != "RecursionError":
            # the model was accepted and a generator crashed: that is C02's statement;
            # counted here, reported by ./check C02 (stream "mutants")
            generator_crashes[key] += 1
            continue
        cur = found.get(key)
        size = len(t)
        if cur is None:
            found[key] = {"text": t, "ops": ops, "exc": r["exc"], "count": 1, "raw_key": r["key"],
                          "size": size}
        else:
            cur["count"] += 1
            if size < cur["size"] and isinstance(t, str):
                cur.update(text=t, ops=ops, exc=r["exc"], size=size, raw_key=r["key"])
    known = {k["key"] for k in lib.load_known_findings() if k["kind"] == "finding" and k["property"] == "C01"}
    new = {k: v for k, v in found.items() if k not in known}
    shrink_failures(new)
    report(ctx, "texts", found)
    ctx.count("texts", len(items), nontrivial_keys=nontrivial, validated=len(items),
              corpus=n_corpus, outcome_stages=dict(stages), mutation_operators=dict(op_hist),
              distinct_failure_keys=sorted(found), generator_crashes_seen_for_C02=dict(generator_crashes))
    for (t, ops), r in list(zip(items, results))[n_corpus:n_corpus + 3]:
        ctx.sample({"mutations": ops, "stage": stage_of(r),
                    "text_head": (t if isinstance(t, str) else t.hex())[:300]})


def streams(ctx: lib.Ctx) -> None:
    unit_stream(ctx)
    system_stream(ctx)
    ctx.coverage["exhaustive"] = False
