(** C08 — node kinds of the restricted tree and the tables of [python/transpilation.py] that
    are data ([_PYTHON_COMPARISON_MAP], the [no_parentheses_types...] tuples). The tables
    themselves are re-translated from the source on every run ([Gen/GenPyTranspile.v]); this
    file only fixes their types. Executable definitions only. *)
From Coq Require Import List NArith ZArith Bool.
From Acg Require Import Base.Str Model.Tree.
Import ListNotations.

Inductive nk : Type :=
| NkMember | NkName | NkConstant | NkIndex | NkComparison | NkIsIn | NkIsNone | NkIsNotNone
| NkNot | NkAnd | NkOr | NkImplication | NkFunctionCall | NkMethodCall | NkAdd | NkSub
| NkAny | NkAll | NkJoinedStr.

Definition nk_eqb (a b : nk) : bool :=
  match a, b with
  | NkMember, NkMember | NkName, NkName | NkConstant, NkConstant | NkIndex, NkIndex
  | NkComparison, NkComparison | NkIsIn, NkIsIn | NkIsNone, NkIsNone | NkIsNotNone, NkIsNotNone
  | NkNot, NkNot | NkAnd, NkAnd | NkOr, NkOr | NkImplication, NkImplication
  | NkFunctionCall, NkFunctionCall | NkMethodCall, NkMethodCall | NkAdd, NkAdd | NkSub, NkSub
  | NkAny, NkAny | NkAll, NkAll | NkJoinedStr, NkJoinedStr => true
  | _, _ => false
  end.

Definition nk_of (e : expr) : nk :=
  match e with
  | Member _ _ => NkMember | Name _ => NkName | Constant _ => NkConstant | Index _ _ => NkIndex
  | Comparison _ _ _ => NkComparison | IsIn _ _ => NkIsIn | IsNone _ => NkIsNone
  | IsNotNone _ => NkIsNotNone | Not _ => NkNot | And _ => NkAnd | Or _ => NkOr
  | Implication _ _ => NkImplication | FunctionCall _ _ => NkFunctionCall
  | MethodCall _ _ _ => NkMethodCall | Add _ _ => NkAdd | Sub _ _ => NkSub
  | Any _ _ _ => NkAny | All _ _ _ => NkAll | JoinedStr _ => NkJoinedStr
  end.

Definition nk_in (k : nk) (l : list nk) : bool := existsb (nk_eqb k) l.

(** The data of the transpiler. [np_x] = the kinds that are written *without* parentheses in
    context x. [np_top] is the tuple of [_transpile_invariant] ([if not <expr>:]). *)
Record ptables : Type := mkPtables {
  cmp_map : list (cmpop * text);
  np_index : list nk;
  np_comparison : list nk;
  np_is_in : list nk;
  np_implication : list nk;
  np_method_call : list nk;
  np_is_none : list nk;
  np_is_not_none : list nk;
  np_not : list nk;
  np_and_or : list nk;
  np_add_sub : list nk;
  np_any_all : list nk;
  np_top : list nk
}.
