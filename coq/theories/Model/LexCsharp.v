(** C19 — C# regular string literal lexer (C# language specification §6.4.5.6 String
    literals, §6.4.5.5 character escapes, §6.3.2 New_Line_Character = CR, LF, U+0085,
    U+2028, U+2029 which may not occur verbatim in a regular string literal).
    [\x] takes one to four hexadecimal digits. The value is a sequence of UTF-16 code
    units. No C# tool chain is installed: this lexer is derived from the
    specification only. Executable definitions only. *)
From Coq Require Import List NArith Bool.
From Acg Require Import Base.Str Model.LexCore.
Import ListNotations.
Open Scope N_scope.

Definition cs_new_line_char (c : N) : bool :=
  (c =? 13) || (c =? 10) || (c =? 133) || (c =? 8232) || (c =? 8233).

Inductive cs_state : Type :=
| SStart | SBody | SEsc
| SHexX (seen : nat) (acc : N)              (* \x : 1..4 digits *)
| SHexU (big : bool) (remaining : nat) (acc : N)  (* \uHHHH, \UHHHHHHHH *)
| SDone.

Definition cs_simple_escape (c : N) : option N :=
  if c =? 39 then Some 39 else if c =? 34 then Some 34 else if c =? 92 then Some 92
  else if c =? 48 then Some 0 else if c =? 97 then Some 7 else if c =? 98 then Some 8
  else if c =? 102 then Some 12 else if c =? 110 then Some 10 else if c =? 114 then Some 13
  else if c =? 116 then Some 9 else if c =? 118 then Some 11 else None.

Definition cs_body_char (c : N) : option (cs_state * text) :=
  if c =? 34 then Some (SDone, [])
  else if c =? 92 then Some (SEsc, [])
  else if cs_new_line_char c then None
  else if negb (source_char c) then None
  else Some (SBody, utf16_cp c).

Definition cs_step (st : cs_state) (c : N) : option (cs_state * text) :=
  match st with
  | SStart => if c =? 34 then Some (SBody, []) else None
  | SBody => cs_body_char c
  | SEsc =>
      match cs_simple_escape c with
      | Some v => Some (SBody, [v])
      | None =>
          if c =? 120 then Some (SHexX 0 0, [])
          else if c =? 117 then Some (SHexU false 4 0, [])
          else if c =? 85 then Some (SHexU true 8 0, [])
          else None
      end
  | SHexX seen acc =>
      match hex_val c, seen with
      | Some d, 3%nat => Some (SBody, [acc * 16 + d])
      | Some d, _ => Some (SHexX (S seen) (acc * 16 + d), [])
      | None, O => None
      | None, _ => match cs_body_char c with
                   | Some (st', out) => Some (st', acc :: out)
                   | None => None
                   end
      end
  | SHexU big remaining acc =>
      match hex_val c, remaining with
      | Some d, S O =>
          let v := acc * 16 + d in
          if big then (if (v <=? 1114111) && negb (surrogate v) then Some (SBody, utf16_cp v) else None)
          else Some (SBody, [v])
      | Some d, S k => Some (SHexU big k (acc * 16 + d), [])
      | _, _ => None
      end
  | SDone => None
  end.

Definition lex_cs (l : text) : option text :=
  match run cs_step SStart l with
  | Some (SDone, v) => Some v
  | _ => None
  end.
