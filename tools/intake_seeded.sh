#!/bin/bash
# usage: intake_seeded.sh Cnn "<pytest targets>"  -- verifies /tmp/mut-out/Cnn/{1,2} in /tmp/wt-Cnn, installs into /verif/seeded/Cnn-k
p=$1; tests=$2
for n in 1 2 3; do
  d=/tmp/mut-out/$p/$n; [ -f $d/patch.diff ] || continue
  cd /tmp/wt-$p && git checkout -q -- . 
  PYTHONPATH=/tmp/wt-$p /venv/bin/python $d/demo.py /tmp/wt-$p >/dev/null 2>&1; c=$?
  git apply $d/patch.diff 2>/dev/null || { echo "$p-$n: PATCH FAILS"; continue; }
  t=$(PYTHONPATH=/tmp/wt-$p timeout 1500 /venv/bin/python -m pytest -q -p no:cacheprovider -n 4 $tests 2>&1 | tail -1)
  PYTHONPATH=/tmp/wt-$p /venv/bin/python $d/demo.py /tmp/wt-$p >/dev/null 2>&1; m=$?
  git checkout -q -- .
  echo "$p-$n: demo clean rc=$c, patched rc=$m, tests: $t"
  if [ $c -eq 0 ] && [ $m -ne 0 ] && echo "$t" | grep -q passed && ! echo "$t" | grep -q failed; then
    mkdir -p /verif/seeded/$p-$n && cp $d/patch.diff $d/demo.py $d/meta.json /verif/seeded/$p-$n/
    python3 - <<PY
import json
f='/verif/seeded/$p-$n/meta.json'
m=json.load(open(f)); m['confirmed_by_coordinator']="demo rc 0 on clean HEAD, rc $m with patch; pytest $tests with patch: $t"
json.dump(m,open(f,'w'),indent=1)
PY
    echo "  installed seeded/$p-$n"
  else
    echo "  NOT installed"
  fi
done
if [ -d /verif/seeded/$p-1 ] || [ "$KEEP" != "" ]; then git -C /repo worktree remove --force /tmp/wt-$p 2>/dev/null; rm -rf /tmp/mut-out/$p; else echo "  (kept /tmp/wt-$p and /tmp/mut-out/$p)"; fi
