(** C19 — core of the literal escapers: the (guard, output template) tables that
    [harness/translate/literals.py] regenerates from the [common.py] of every target,
    and their interpreter. Executable definitions only (no proofs in Model/).

    A table is an ordered list of rules; the first rule whose guard holds for the
    current character (and, for the TypeScript template look-ahead, the next one)
    decides. This is exactly the [if ... elif ... else] chain (preceded by the
    dictionary lookup where there is one) of the loop body of each escaper. *)
From Coq Require Import List NArith Bool.
From Acg Require Import Base.Str Base.Outcome.
Import ListNotations.
Open Scope N_scope.

Inductive cmp : Type := CEq | CNe | CLt | CLe | CGt | CGe.

Inductive atom : Type :=
| ACp (op : cmp) (n : N)      (* ord(character) op n *)
| ANextSome                   (* next_char is not None *)
| ANextEq (n : N).            (* next_char == chr n   (false when there is none) *)

Inductive piece : Type :=
| PLit (t : text)             (* constant text *)
| PChar                       (* the character itself *)
| PNum (base : N) (width : nat).  (* f"{ord(c):0<width><x|o>}": lower case, zero padded *)

Inductive raise_kind : Type := RValueError | RAssertionError | RViolation.

Inductive action : Type :=
| AEmit (ps : list piece)
| ARaise (k : raise_kind)
| ATrue                       (* needs_escaping: return True *)
| ANone.                      (* no statement with an effect (pass / continue / fall through) *)

Definition rule : Type := (list atom * action)%type.
Definition table : Type := list rule.

Definition cmp_holds (op : cmp) (a b : N) : bool :=
  match op with
  | CEq => N.eqb a b | CNe => negb (N.eqb a b)
  | CLt => N.ltb a b | CLe => N.leb a b
  | CGt => N.ltb b a | CGe => N.leb b a
  end.

Definition atom_holds (c : N) (nxt : option N) (a : atom) : bool :=
  match a with
  | ACp op n => cmp_holds op c n
  | ANextSome => match nxt with Some _ => true | None => false end
  | ANextEq n => match nxt with Some x => N.eqb x n | None => false end
  end.

Definition guard_holds (c : N) (nxt : option N) (g : list atom) : bool :=
  forallb (atom_holds c nxt) g.

Fixpoint first_match (t : table) (c : N) (nxt : option N) : option action :=
  match t with
  | [] => None
  | (g, a) :: r => if guard_holds c nxt g then Some a else first_match r c nxt
  end.

(** Digits of a number, most significant first, lower case; at most [fuel] digits
    are produced ([fuel] = 22 covers every code point in base 8 and 16). *)
Definition digit_char (d : N) : N := if d <? 10 then 48 + d else 87 + d.

Fixpoint digits_rev (fuel : nat) (base n : N) : text :=
  match fuel with
  | O => []
  | S f => if n <? base then [digit_char n]
           else digit_char (n mod base) :: digits_rev f base (n / base)
  end.

Fixpoint pad_zero (k : nat) (t : text) : text :=
  match k with O => t | S k' => 48 :: pad_zero k' t end.

Definition render_num (base : N) (width : nat) (n : N) : text :=
  let ds := rev (digits_rev 22 base n) in
  pad_zero (width - length ds) ds.

Definition render_piece (c : N) (p : piece) : text :=
  match p with
  | PLit t => t
  | PChar => [c]
  | PNum base width => render_num base width c
  end.

Definition render (c : N) (ps : list piece) : text :=
  flat_map (render_piece c) ps.

(** Outcome of an escaper: [Ok literal]; [Err k] when the escaper refuses the input by
    raising before anything is emitted (ValueError, icontract ViolationError of a
    [@require]); [Crash] for an exception on a path that is meant to be unreachable. *)
Definition lit_outcome : Type := outcome text raise_kind.

Definition raise_outcome (k : raise_kind) : lit_outcome :=
  match k with
  | RAssertionError => Crash AssertionError
  | k => Err k
  end.

(** One character. A table without a matching rule, or a rule that is not an
    emission, means the loop body does nothing for this character. *)
Definition esc1 (t : table) (c : N) (nxt : option N) : lit_outcome :=
  match first_match t c nxt with
  | Some (AEmit ps) => Ok (render c ps)
  | Some (ARaise k) => raise_outcome k
  | Some ATrue | Some ANone | None => Ok []
  end.

Fixpoint escape (t : table) (s : text) : lit_outcome :=
  match s with
  | [] => Ok []
  | c :: r =>
      match esc1 t c (hd_error r) with
      | Ok o => match escape t r with
                | Ok o' => Ok (o ++ o')
                | e => e
                end
      | Err k => Err k
      | Crash k => Crash k
      end
  end.

(** [needs_escaping] loops: [return True] at the first character with an [ATrue]
    rule; a raise aborts. *)
Fixpoint needs_loop (t : table) (s : text) : outcome bool raise_kind :=
  match s with
  | [] => Ok false
  | c :: r =>
      match first_match t c (hd_error r) with
      | Some ATrue => Ok true
      | Some (ARaise RAssertionError) => Crash AssertionError
      | Some (ARaise k) => Err k
      | _ => needs_loop t r
      end
  end.

Definition all_chars (g : list atom) (s : text) : bool :=
  forallb (fun c => guard_holds c None g) s.

(** Well-formed Python text: code points up to U+10FFFF. *)
Definition max_cp : N := 1114111.
Definition wf_text (s : text) : Prop := Forall (fun c => c <= max_cp) s.
Definition wf_textb (s : text) : bool := forallb (fun c => c <=? max_cp) s.
Definition is_surrogate (c : N) : bool := (55296 <=? c) && (c <=? 57343).

(** Bounded universal quantification over code points without big [nat]s:
    [all_from p lo P] checks [P] on [lo, lo + p). *)
Fixpoint all_from (p : positive) (lo : N) (P : N -> bool) : bool :=
  match p with
  | xH => P lo
  | xO q => all_from q lo P && all_from q (lo + Npos q) P
  | xI q => P lo && all_from q (lo + 1) P && all_from q (lo + 1 + Npos q) P
  end.

Definition all_below (n : N) (P : N -> bool) : bool :=
  match n with
  | 0 => true
  | Npos p => all_from p 0 P
  end.

Definition all_cp (P : N -> bool) : bool := all_below (max_cp + 1) P.
