"""C03: meta-models with several independent injected rule violations.

``combine(mm0, rng, rules)`` applies the mutation operators of harness/gen/metamodel.py one
after the other so that their *footprints* (the declarations they changed) are disjoint and
not related by inheritance, and returns the combined model together with, for every rule,
the single-violation model that carries exactly that rule's footprint on top of ``mm0`` —
so each violation sits at the same place in the single and in the combined model."""
from __future__ import annotations

import copy
import random
from typing import Dict, List, Optional, Sequence, Set, Tuple

from harness.gen import metamodel as mmg

ATTRS = ("enumerations", "constrained_primitives", "classes", "constants", "verification_functions")
Key = Tuple[str, str, int]          # (attribute, name, occurrence among equal names)


def _index(mm) -> Dict[Key, object]:
    out: Dict[Key, object] = {}
    for attr in ATTRS:
        seen: Dict[str, int] = {}
        for item in getattr(mm, attr):
            k = seen.get(item.name, 0)
            seen[item.name] = k + 1
            out[(attr, item.name, k)] = item
    return out


def footprint(before, after) -> Set[Key]:
    a, b = _index(before), _index(after)
    keys = set()
    for k in set(a) | set(b):
        if k not in a or k not in b or mmg.to_json(a[k]) != mmg.to_json(b[k]):
            keys.add(k)
    return keys


def _lineage(mm, name: str) -> Set[str]:
    """The class, its ancestors and its descendants (by name; cycles tolerated)."""
    bases = {c.name: list(c.bases) for c in mm.classes}
    up, todo = set(), [name]
    while todo:
        n = todo.pop()
        for b in bases.get(n, []):
            if b not in up:
                up.add(b)
                todo.append(b)
    down, todo = set(), [name]
    while todo:
        n = todo.pop()
        for c, bs in bases.items():
            if n in bs and c not in down:
                down.add(c)
                todo.append(c)
    return up | down | {name}


def _mentions(item, names: Set[str]) -> bool:
    text = repr(mmg.to_json(item))
    return any(f"'{n}'" in text for n in names)


def independent(mm, fp1: Set[Key], fp2: Set[Key]) -> bool:
    if fp1 & fp2:
        return False
    n1 = {k[1] for k in fp1}
    n2 = {k[1] for k in fp2}
    if n1 & n2:
        return False
    for n in n1:
        if _lineage(mm, n) & n2:
            return False
    idx = _index(mm)
    # neither side mentions a declaration of the other side (types of properties, calls)
    for k in fp1:
        if k in idx and _mentions(idx[k], n2):
            return False
    for k in fp2:
        if k in idx and _mentions(idx[k], n1):
            return False
    return True


def _overlay(mm0, donor, fp: Set[Key]):
    """mm0 with the declarations of ``fp`` taken from ``donor`` (added / replaced / removed)."""
    mm = copy.deepcopy(mm0)
    d = _index(donor)
    for attr in ATTRS:
        items = getattr(mm, attr)
        out = []
        seen: Dict[str, int] = {}
        for item in items:
            k = seen.get(item.name, 0)
            seen[item.name] = k + 1
            key = (attr, item.name, k)
            if key in fp:
                if key in d:
                    out.append(copy.deepcopy(d[key]))
            else:
                out.append(item)
        present = {(attr, i.name) for i in items}
        for key in sorted(fp):
            if key[0] == attr and key in d and (attr, key[1]) not in present:
                out.append(copy.deepcopy(d[key]))
            elif key[0] == attr and key in d and key[2] > 0 and key not in _index(mm0):
                out.append(copy.deepcopy(d[key]))
        setattr(mm, attr, out)
    mm.decl_order = list(donor.decl_order)
    return mm


def combine(mm0, rng: random.Random, rules: Sequence[str], tries: int = 6):
    """-> (combined text, {rule: single text}, notes) or None."""
    cur = mm0
    fps: List[Set[Key]] = []
    notes = []
    for rule in rules:
        done = False
        for attempt in range(tries):
            # first try: the site depends on the rule only, so that the same violation at
            # the same place takes part in many combinations
            sub = random.Random(f"site:{rule}") if attempt == 0 else random.Random(rng.random())
            m = mmg.mutate(cur, sub, rule)
            if m is None:
                break
            fp = footprint(cur, m.mm)
            if fp and all(independent(m.mm, old, fp) for old in fps):
                fps.append(fp)
                notes.append(m.note)
                cur = m.mm
                done = True
                break
        if not done:
            return None
    singles = {}
    for rule, fp in zip(rules, fps):
        singles[rule] = mmg.render_source(_overlay(mm0, cur, fp))
    return mmg.render_source(cur), singles, notes
