(** C23 — Model caching is opt-in and transparent.

    Theorems over the model [Model/Cache.v] of [run.load_model], for ALL front ends
    [parse], hash functions [sha], picklers and uuid sources (universally quantified,
    with their hypotheses stated in each theorem), composed with the data flow of the
    cache flag from the command line to [load_model], which is re-translated from
    main.py / run.py on every run ([Gen/GenCacheFlag.v]). Only statements, [exact]s,
    [vm_compute]s and [Print Assumptions] here. *)
From Coq Require Import List NArith Bool Arith.
From Acg Require Import Base.Str Model.Cache Proofs.CacheFmap Proofs.CacheFacts Gen.GenCacheFlag.
Import ListNotations.

(** * The flag reaches [load_model] unchanged (generated obligations) *)

(** [plumb b] is the value of [cache_model] that [run.load_model] receives when the
    command line has ([b = true]) or has not ([b = false]) the option --cache_model. *)
Theorem C23_plumb_id : forall b : bool, plumb b = b.
Proof. intros [|]; vm_compute; reflexivity. Qed.
Print Assumptions C23_plumb_id.

(** every [if] of [load_model] that looks at the flag tests the flag itself, and there
    is at least one; both defaults are "off" *)
Theorem C23_guards_id :
  forallb (fun g : bool -> bool => eqb (g true) true && eqb (g false) false) guards = true
  /\ negb (Nat.eqb (length guards) 0) = true.
Proof. vm_compute. split; reflexivity. Qed.
Print Assumptions C23_guards_id.

Theorem C23_defaults_off : init_default = false /\ load_model_default = false.
Proof. vm_compute. split; reflexivity. Qed.
Print Assumptions C23_defaults_off.

(** The loader as reached from the command line. *)
Definition cli_load M E parse sha pickle unpickle uuid (option_given : bool) :=
  load_model M E parse sha pickle unpickle uuid (plumb option_given).

Definition cli_history M E parse sha pickle unpickle uuid (hist : list (bool * text)) :=
  run_history M E parse sha pickle unpickle uuid (map (fun ft => (plumb (fst ft), snd ft)) hist).

Lemma plumb_map : forall hist : list (bool * text),
  map (fun ft => (plumb (fst ft), snd ft)) hist = hist.
Proof.
  induction hist as [|[f t] r IH]; [reflexivity|].
  cbn [map fst snd]. rewrite C23_plumb_id, IH. reflexivity.
Qed.

(** * Opt-in: without --cache_model nothing in the temp directory is read or written,
    no file-system event on it happens, and the result is the front end's. *)
Theorem C23_no_flag_no_touch :
  forall M E parse sha pickle unpickle uuid t w r w' tr,
    cli_load M E parse sha pickle unpickle uuid false t w = (r, w', tr) ->
    w' = w /\ tr = [] /\ r = parse t.
Proof.
  intros M E parse sha pickle unpickle uuid t w r w' tr.
  unfold cli_load. rewrite C23_plumb_id. apply no_flag_no_touch.
Qed.
Print Assumptions C23_no_flag_no_touch.

(** * Transparency: over every history of runs with and without the option, with edits
    of the model between runs, every run returns exactly what an uncached run of its
    text returns; the cache invariant is kept. Hypotheses: pickle/unpickle are an
    inverse pair; sha256 is injective on the texts of the history. *)
Theorem C23_cache_transparent :
  forall M E parse sha pickle unpickle uuid,
    (forall m : M, unpickle (pickle m) = Some m) ->
    forall (hist : list (bool * text)) (w : world),
      inj_on sha (map snd hist) ->
      Inv M E parse sha pickle (map snd hist) w ->
      map fst (fst (cli_history M E parse sha pickle unpickle uuid hist w))
      = map (fun ft : bool * text => parse (snd ft)) hist
      /\ Inv M E parse sha pickle (map snd hist)
             (snd (cli_history M E parse sha pickle unpickle uuid hist w)).
Proof.
  intros M E parse sha pickle unpickle uuid Hup hist w.
  unfold cli_history. rewrite plumb_map.
  exact (cache_transparent M E parse sha pickle unpickle uuid Hup hist w).
Qed.
Print Assumptions C23_cache_transparent.

(** the invariant holds for the empty cache, so the theorem applies to every history
    that starts with a fresh temp directory *)
Theorem C23_inv_empty : forall M E parse sha pickle T,
  Inv M E parse sha pickle T empty_world.
Proof. exact Inv_empty. Qed.
Print Assumptions C23_inv_empty.

(** * Errors are never cached: a run whose front end does not produce a model leaves
    the cache exactly as it was, with or without the option. *)
Theorem C23_errors_never_cached :
  forall M E parse sha pickle unpickle uuid option_given t w,
    (forall m : M, parse t <> ROk m) ->
    snd (fst (cli_load M E parse sha pickle unpickle uuid option_given t w)) = w.
Proof.
  intros M E parse sha pickle unpickle uuid b t w. unfold cli_load.
  apply errors_never_cached.
Qed.
Print Assumptions C23_errors_never_cached.

(** * A cache entry is only reused for a model text identical to the one that produced
    it: starting from an empty cache, a run that reads an entry was preceded by a run
    with the option and exactly the same text. *)
Theorem C23_reuse_only_identical :
  forall M E parse sha pickle unpickle uuid (pre : list (bool * text)) t option_given,
    inj_on sha (t :: map snd pre) ->
    is_hit (snd (cli_load M E parse sha pickle unpickle uuid option_given t
                   (snd (cli_history M E parse sha pickle unpickle uuid pre empty_world)))) = true ->
    option_given = true /\ In t (flagged pre).
Proof.
  intros M E parse sha pickle unpickle uuid pre t b. unfold cli_load, cli_history.
  rewrite plumb_map, C23_plumb_id.
  apply reuse_only_identical.
Qed.
Print Assumptions C23_reuse_only_identical.

(** * Non-vacuity: a concrete history over a toy front end with three texts (one of
    them erroneous): cold run, warm run (a real cache hit), an edit, a run without the
    option, an error; all results are the uncached ones, the final cache holds exactly
    the two good entries and the erroneous text left nothing. *)
Definition toy_parse (t : text) : result N N :=
  match t with
  | [n] => if N.eqb n 9 then RErr 1%N else ROk n
  | _ => RCrash ParseCrash
  end.
Definition toy_sha (t : text) : text := 104%N :: t.
Definition toy_pickle (m : N) : bytes := [m; m].
Definition toy_unpickle (c : bytes) : option N :=
  match c with [a; b] => if N.eqb a b then Some a else None | _ => None end.
Definition toy_uuid (i : nat) : text := [N.of_nat i].
Definition toy_hist : list (bool * text) :=
  [(true, [1%N]); (true, [1%N]); (true, [2%N]); (false, [1%N]); (true, [9%N]); (true, [2%N])].

Example C23_nonvacuous :
  let out := cli_history N N toy_parse toy_sha toy_pickle toy_unpickle toy_uuid toy_hist empty_world in
  map fst (fst out) = [ROk 1%N; ROk 1%N; ROk 2%N; ROk 1%N; RErr 1%N; ROk 2%N]
  /\ map (fun rt => is_hit (snd rt)) (fst out) = [false; true; false; false; false; true]
  /\ map fst (files (snd out)) = [PCache (toy_sha [2%N]); PCache (toy_sha [1%N])]
  /\ next (snd out) = 2%nat.
Proof. vm_compute. repeat split; reflexivity. Qed.
Print Assumptions C23_nonvacuous.

(** the hypotheses of [C23_cache_transparent] are satisfiable by that instance *)
Example C23_hypotheses_satisfiable :
  (forall m, toy_unpickle (toy_pickle m) = Some m)
  /\ inj_on toy_sha (map snd toy_hist).
Proof.
  split.
  - intros m. unfold toy_unpickle, toy_pickle. rewrite N.eqb_refl. reflexivity.
  - intros t1 t2 _ _ H. injection H as H. exact H.
Qed.
Print Assumptions C23_hypotheses_satisfiable.
