(** Proofs about [Model/Lineno.v] (C04). *)
From Coq Require Import List NArith ZArith Bool Lia.
From Acg Require Import Base.Str Base.Outcome Model.Lineno.
Import ListNotations.
Open Scope Z_scope.

Lemma loop_length t : forall ln col, length (positions_loop t ln col) = length t.
Proof.
  induction t as [|c r IH]; intros ln col; [reflexivity|].
  cbn [positions_loop]. destruct (N.eqb c NL); cbn [length]; now rewrite IH.
Qed.

Lemma positions_length t : length (positions t) = length t.
Proof. apply loop_length. Qed.

(** Inside one line: [b] has no line break, [c] is not a line break. *)
Lemma loop_in_line b : forall c rest ln col,
  ~ In NL b -> c <> NL ->
  nth_error (positions_loop (b ++ c :: rest) ln col) (length b)
  = Some (ln, col + zlen b + 1).
Proof.
  induction b as [|x b IH]; intros c rest ln col Hb Hc.
  - cbn. destruct (N.eqb_spec c NL) as [E|_]; [contradiction|].
    unfold zlen. cbn. f_equal. f_equal. lia.
  - cbn [app positions_loop length nth_error].
    destruct (N.eqb_spec x NL) as [E|_].
    + exfalso. apply Hb. left. exact E.
    + rewrite IH; [|intros H; apply Hb; now right|exact Hc].
      f_equal. f_equal. unfold zlen. cbn [length]. lia.
Qed.

(** Skipping a prefix that ends with a line break. *)
Lemma loop_skip a : forall t ln col k,
  nth_error (positions_loop (a ++ NL :: t) ln col) (length a + 1 + k)
  = nth_error (positions_loop t (ln + count_nl a + 1) column_after_newline) k.
Proof.
  induction a as [|x a IH]; intros t ln col k.
  - cbn [app length count_nl positions_loop Nat.add nth_error].
    rewrite N.eqb_refl. cbn [nth_error]. now rewrite Z.add_0_r.
  - cbn [app length count_nl positions_loop Nat.add nth_error].
    destruct (N.eqb x NL).
    + rewrite IH. do 2 (f_equal; try lia).
    + rewrite IH. do 2 (f_equal; try lia).
Qed.

Lemma count_nl_app a b : count_nl (a ++ b) = count_nl a + count_nl b.
Proof. induction a as [|x a IH]; cbn [app count_nl]; [reflexivity|]. rewrite IH. lia. Qed.

Lemma count_nl_snoc a : count_nl (a ++ [NL]) = count_nl a + 1.
Proof. rewrite count_nl_app. cbn. reflexivity. Qed.

(** Main statement. The text is cut as [a ++ b ++ c :: rest] where [a] is empty or
    ends with a line break (everything before the line of [c]), [b] is the part of
    the line before [c]. *)
Lemma positions_spec : forall a b c rest,
  (a = [] \/ exists a', a = a' ++ [NL]) -> ~ In NL b -> c <> NL ->
  nth_error (positions (a ++ b ++ c :: rest)) (length a + length b)
  = Some (1 + count_nl a, zlen b + 1).
Proof.
  intros a b c rest [->|[a' ->]] Hb Hc.
  - cbn [app length Nat.add count_nl]. unfold positions.
    rewrite loop_in_line by assumption. f_equal.
  - rewrite <- app_assoc. cbn [app]. rewrite app_length. cbn [length].
    unfold positions.
    replace (length a' + 1 + length b)%nat with (length a' + 1 + length b)%nat by reflexivity.
    rewrite loop_skip. rewrite loop_in_line by assumption.
    rewrite count_nl_snoc. unfold column_after_newline. f_equal. f_equal; lia.
Qed.

(** What the table holds at a line break itself (no construct starts there): the
    *next* line and column 0. *)
Lemma positions_at_newline : forall a rest,
  nth_error (positions (a ++ NL :: rest)) (length a) = Some (2 + count_nl a, 0).
Proof.
  intros a rest. unfold positions.
  assert (G : forall a ln col,
    nth_error (positions_loop (a ++ NL :: rest) ln col) (length a)
    = Some (ln + count_nl a + 1, 0)).
  { clear a. induction a as [|x a IH]; intros ln col.
    - cbn. f_equal. f_equal. lia.
    - cbn [app length count_nl positions_loop nth_error].
      destruct (N.eqb x NL); rewrite IH; f_equal; f_equal; lia. }
  rewrite G. f_equal. f_equal. lia.
Qed.

Lemma nth_z_nth_error {A} (l : list A) : forall n,
  nth_z l (Z.of_nat n) = nth_error l n.
Proof.
  induction l as [|x l IH]; intros n.
  - destruct n; reflexivity.
  - destruct n as [|n].
    + reflexivity.
    + cbn [nth_z nth_error]. destruct (Z.eqb_spec (Z.of_nat (S n)) 0) as [E|_]; [lia|].
      replace (Z.of_nat (S n) - 1) with (Z.of_nat n) by lia. apply IH.
Qed.

(** The look-up of [error_message] at the offset of a construct's first character. *)
Lemma locate_spec : forall a b c rest,
  (a = [] \/ exists a', a = a' ++ [NL]) -> ~ In NL b -> c <> NL ->
  locate (a ++ b ++ c :: rest) (zlen a + zlen b) = Ok (1 + count_nl a, zlen b + 1).
Proof.
  intros a b c rest Ha Hb Hc. unfold locate.
  destruct (Z.ltb_spec (zlen a + zlen b) 0) as [H|_]; [unfold zlen in H; lia|].
  unfold zlen. rewrite <- Nat2Z.inj_add. rewrite nth_z_nth_error.
  rewrite positions_spec by assumption. reflexivity.
Qed.

(** The look-up never fails for an offset inside the text ... *)
Lemma locate_total : forall t start,
  0 <= start < zlen t -> exists p, locate t start = Ok p.
Proof.
  intros t start [H0 H1]. unfold locate.
  destruct (Z.ltb_spec start 0) as [H|_]; [lia|].
  replace start with (Z.of_nat (Z.to_nat start)) by lia.
  rewrite nth_z_nth_error.
  destruct (nth_error (positions t) (Z.to_nat start)) as [p|] eqn:E; [now exists p|].
  apply nth_error_None in E. rewrite positions_length in E. unfold zlen in H1. lia.
Qed.

(** ... and is an IndexError at or beyond the end (e.g. the module node of an empty
    meta-model). *)
Lemma locate_beyond : forall t start,
  zlen t <= start -> locate t start = Crash IndexError.
Proof.
  intros t start H. unfold locate. unfold zlen in H.
  destruct (Z.ltb_spec start 0) as [_|_]; [reflexivity|].
  replace start with (Z.of_nat (Z.to_nat start)) by lia.
  rewrite nth_z_nth_error.
  destruct (nth_error (positions t) (Z.to_nat start)) as [p|] eqn:E; [|reflexivity].
  assert (Hn : nth_error (positions t) (Z.to_nat start) <> None) by (rewrite E; discriminate).
  apply nth_error_Some in Hn. rewrite positions_length in Hn. lia.
Qed.

(* ---------------------------------------------------------------------------- *)
(** * The fall-back for unmarked nodes *)

Lemma utf8_len_pos c : 1 <= utf8_len c.
Proof. unfold utf8_len. repeat destruct (_ <? _)%N; lia. Qed.

Lemma utf8_size_nonneg t : 0 <= utf8_size t.
Proof. induction t as [|c r IH]; cbn [utf8_size]; [lia|]. pose proof (utf8_len_pos c). lia. Qed.

Lemma chars_in_bytes_prefix b : forall rest,
  chars_in_bytes (b ++ rest) (utf8_size b) = Some (zlen b).
Proof.
  induction b as [|c b IH]; intros rest.
  - cbn [app utf8_size]. destruct rest; reflexivity.
  - cbn [app utf8_size chars_in_bytes].
    pose proof (utf8_len_pos c) as Hc. pose proof (utf8_size_nonneg b) as Hb.
    destruct (Z.eqb_spec (utf8_len c + utf8_size b) 0) as [E|_]; [lia|].
    destruct (Z.ltb_spec (utf8_len c + utf8_size b) 0) as [E|_]; [lia|].
    replace (utf8_len c + utf8_size b - utf8_len c) with (utf8_size b) by lia.
    rewrite IH. unfold zlen. cbn [length]. f_equal. lia.
Qed.

Lemma split_on_nth a : forall b rest,
  (a = [] \/ exists a', a = a' ++ [NL]) -> ~ In NL b ->
  nth_z (split_on NL (a ++ b ++ NL :: rest)) (count_nl a) = Some b
  /\ nth_z (split_on NL (a ++ b)) (count_nl a) = Some b.
Proof.
  assert (Hline : forall b tl, ~ In NL b ->
            exists tl', split_on NL (b ++ NL :: tl) = b :: tl').
  { induction b as [|x b IH]; intros tl Hb.
    - cbn. eexists. reflexivity.
    - cbn [app split_on]. destruct (N.eqb_spec x NL) as [E|_]; [exfalso; apply Hb; now left|].
      destruct (IH tl) as [tl' ->]; [intros H; apply Hb; now right|]. eexists. reflexivity. }
  assert (Hlast : forall b, ~ In NL b -> split_on NL b = [b]).
  { induction b as [|x b IH]; intros Hb; [reflexivity|].
    cbn [split_on]. destruct (N.eqb_spec x NL) as [E|_]; [exfalso; apply Hb; now left|].
    rewrite IH; [reflexivity|intros H; apply Hb; now right]. }
  (* generalise over the prefix: every NL of [a] starts a new element *)
  assert (G : forall a t, (a = [] \/ exists a', a = a' ++ [NL]) ->
            nth_z (split_on NL (a ++ t)) (count_nl a) = nth_z (split_on NL t) 0).
  { intros a0. induction a0 as [|x a0 IH] using rev_ind.
    - intros t _. reflexivity.
    - intros t [E|[a' E]]; [destruct a0; discriminate|].
      apply app_inj_tail in E as [-> ->].
      rewrite <- app_assoc. cbn [app]. rewrite count_nl_snoc.
      clear IH. revert t. induction a' as [|y a' IH]; intros t.
      + cbn [app split_on count_nl]. rewrite N.eqb_refl. cbn [nth_z].
        destruct (split_on NL t); reflexivity.
      + cbn [app split_on count_nl].
        destruct (N.eqb y NL) eqn:Ey.
        * cbn [nth_z]. destruct (Z.eqb_spec (1 + count_nl a' + 1) 0) as [E|_].
          { pose proof (count_nl_app a' []) as _. assert (0 <= count_nl a').
            { clear. induction a' as [|z a' IH]; cbn [count_nl]; [lia|]. destruct (N.eqb z NL); lia. }
            lia. }
          replace (1 + count_nl a' + 1 - 1) with (count_nl a' + 1) by lia. apply IH.
        * specialize (IH t).
          destruct (split_on NL (a' ++ NL :: t)) as [|h tl] eqn:Es.
          { exfalso. revert Es. clear. destruct a'; cbn.
            - discriminate.
            - destruct (N.eqb n NL); [discriminate|]. destruct (split_on NL (a' ++ NL :: t)); discriminate. }
          cbn [nth_z] in *.
          assert (H0 : 0 <= count_nl a').
          { clear. induction a' as [|z a' IH]; cbn [count_nl]; [lia|]. destruct (N.eqb z NL); lia. }
          destruct (Z.eqb_spec (0 + count_nl a' + 1) 0) as [E|_]; [lia|].
          destruct (Z.eqb_spec (count_nl a' + 1) 0) as [E|_]; [lia|].
          replace (0 + count_nl a' + 1 - 1) with (count_nl a' + 1 - 1) by lia. exact IH. }
  intros b rest Ha Hb. split.
  - rewrite G by exact Ha. destruct (Hline b rest Hb) as [tl' ->]. reflexivity.
  - rewrite G by exact Ha. rewrite Hlast by exact Hb. reflexivity.
Qed.

(** For a node whose first character is [c], with Python's
    [lineno = 1 + line breaks before] and [col_offset = UTF-8 size of the part of the
    line before c], the fall-back reports the same position as the table would. *)
Lemma locate_unmarked_spec : forall a b c rest,
  (a = [] \/ exists a', a = a' ++ [NL]) -> ~ In NL b -> c <> NL ->
  locate_unmarked (a ++ b ++ c :: rest) (1 + count_nl a) (utf8_size b)
  = Ok (1 + count_nl a, zlen b + 1).
Proof.
  intros a b c rest Ha Hb Hc. unfold locate_unmarked.
  assert (H0 : 0 <= count_nl a).
  { clear. induction a as [|z a IH]; cbn [count_nl]; [lia|]. destruct (N.eqb z NL); lia. }
  destruct (Z.ltb_spec (1 + count_nl a) 1) as [E|_]; [lia|].
  replace (1 + count_nl a - 1) with (count_nl a) by lia.
  (* the line of [c] is [b ++ c :: line_rest] *)
  assert (Hcut : exists l1 l2, c :: rest = l1 ++ l2 /\ ~ In NL (b ++ l1)
                 /\ (l2 = [] \/ exists r, l2 = NL :: r)).
  { clear Ha H0. assert (Hr : forall r, exists l1 l2, r = l1 ++ l2 /\ ~ In NL l1
                                   /\ (l2 = [] \/ exists r', l2 = NL :: r')).
    { induction r as [|x r [l1 [l2 [E [Hn Hl]]]]].
      - exists [], []. repeat split; auto.
      - destruct (N.eqb_spec x NL) as [->|Hx].
        + exists [], (NL :: r). repeat split; auto. right. eexists. reflexivity.
        + exists (x :: l1), l2. rewrite E. repeat split; auto.
          intros [H|H]; [now apply Hx|now apply Hn]. }
    destruct (Hr (c :: rest)) as [l1 [l2 [E [Hn Hl]]]].
    exists l1, l2. repeat split; auto.
    intros H. apply in_app_or in H as [H|H]; [now apply Hb|now apply Hn]. }
  destruct Hcut as [l1 [l2 [E [Hn Hl]]]].
  assert (Hl1 : exists l1', l1 = c :: l1').
  { destruct l1 as [|y l1'].
    - cbn in E. destruct Hl as [->|[r ->]]; [discriminate|]. injection E as E _. contradiction.
    - cbn in E. injection E as -> _. eexists. reflexivity. }
  destruct Hl1 as [l1' ->].
  rewrite E.
  replace (a ++ b ++ (c :: l1') ++ l2) with (a ++ (b ++ c :: l1') ++ l2)
    by (now rewrite <- !app_assoc).
  destruct Hl as [->|[r ->]].
  - rewrite app_nil_r.
    destruct (split_on_nth a (b ++ c :: l1') [] Ha Hn) as [_ ->].
    rewrite chars_in_bytes_prefix. reflexivity.
  - destruct (split_on_nth a (b ++ c :: l1') r Ha Hn) as [-> _].
    rewrite chars_in_bytes_prefix. reflexivity.
Qed.
