(** Well-formedness of the trees the parser builds (C16 [parsed_wf]). *)
From Coq Require Import List NArith Bool Arith Lia.
From Acg Require Import Base.Str Base.Outcome Model.Retree Model.RetreeParse.
Import ListNotations.
Open Scope N_scope.

(** [minimum <= maximum] (the precondition of [Quantifier]). *)
Definition wf_quant (q : quantifier) : bool :=
  match q_max q with Some m => q_min q <=? m | None => true end.

Definition wf_range (r : range) : bool :=
  match rg_end r with Some e => ch_code (rg_start r) <=? ch_code e | None => true end.

Definition is_nil {A} (l : list A) : bool := match l with [] => true | _ => false end.

(** A character set is not empty, every range is ordered, the ranges are pairwise
    disjoint ([ranges_disjoint]: no overlap between neighbours once sorted by start),
    and a complemented set has no bound above U+10000. *)
Definition wf_ranges (compl : bool) (rs : list range) : bool :=
  negb (is_nil rs) && forallb wf_range rs && ranges_disjoint rs
  && (negb compl || negb (existsb range_is_astral rs)).

(** No quantifier on [^] / [$] (the precondition of [Term]); a group is never the
    empty union. *)
Fixpoint wf_value (v : tvalue) : bool :=
  match v with
  | VGroup u =>
      negb (is_nil u)
      && forallb (fun c =>
           forallb (fun t : tvalue * option quantifier =>
             wf_value (fst t)
             && negb (is_anchor (fst t) && is_some (snd t))
             && match snd t with Some q => wf_quant q | None => true end) c) u
  | VCharSet k rs => wf_ranges k rs
  | _ => true
  end.

Definition wf_term (t : term) : bool :=
  wf_value (fst t)
  && negb (is_anchor (fst t) && is_some (snd t))
  && match snd t with Some q => wf_quant q | None => true end.
Definition wf_concat (c : concatenation) : bool := forallb wf_term c.
Definition wf_union (u : union_expr) : bool := forallb wf_concat u.
Definition wf_regex (t : regex) : bool := wf_union t.

Lemma wf_value_group : forall u, wf_value (VGroup u) = negb (is_nil u) && wf_union u.
Proof. reflexivity. Qed.

Lemma forallb_rev {A} (f : A -> bool) (l : list A) : forallb f (rev l) = forallb f l.
Proof.
  induction l as [|x l IH]; simpl; auto.
  rewrite forallb_app, IH. simpl. rewrite andb_true_r. apply andb_comm.
Qed.

Lemma bind_ok_inv {A B E} (o : outcome A E) (f : A -> outcome B E) (b : B) :
  bind o f = Ok b -> exists a, o = Ok a /\ f a = Ok b.
Proof. destruct o; simpl; intros H; try discriminate. eauto. Qed.

(** ** Quantifiers *)
Lemma mk_quantifier_wf : forall ng mn mx q, mk_quantifier ng mn mx = Ok q -> wf_quant q = true.
Proof.
  intros ng mn [m|] q H; unfold mk_quantifier in H.
  - destruct (m <? mn) eqn:E; [discriminate|]. inversion H; subst.
    unfold wf_quant; simpl. apply N.ltb_ge in E. apply N.leb_le. exact E.
  - inversion H; subst. reflexivity.
Qed.

Lemma parse_braces_wf : forall ts q r, parse_braces ts = Ok (q, r) -> wf_quant q = true.
Proof.
  intros ts q r H. unfold parse_braces in H.
  destruct (try_int (skip_blanks ts)) as [mn r2].
  destruct (iflit [44] at skip_blanks r2 as r0 then (true, r0) else (false, skip_blanks r2))
    as [comma r4].
  destruct (try_int (skip_blanks r4)) as [mx r6].
  destruct (negb (is_some mn) && negb (is_some mx)); [discriminate|].
  destruct (match (if comma then mx else mn) with
            | Some m => m <? match mn with Some m0 => m0 | None => 0 end
            | None => false end); [discriminate|].
  destruct (try_lit [125; 63] (skip_blanks r6)).
  - apply bind_ok_inv in H. destruct H as [q' [Hq H]]. inversion H; subst.
    eapply mk_quantifier_wf; eauto.
  - destruct (try_lit [125] (skip_blanks r6)); [|discriminate].
    apply bind_ok_inv in H. destruct H as [q' [Hq H]]. inversion H; subst.
    eapply mk_quantifier_wf; eauto.
Qed.

Lemma parse_quantifier_wf : forall ts q r,
  parse_quantifier ts = Ok (Some q, r) -> wf_quant q = true.
Proof.
  intros ts q r H. unfold parse_quantifier in H.
  repeat match type of H with
  | (match try_lit ?l ts with Some _ => _ | None => _ end) = _ =>
      destruct (try_lit l ts)
  end;
  try (apply bind_ok_inv in H; destruct H as [q' [Hq H]]; inversion H; subst;
       eapply mk_quantifier_wf; eauto; fail).
  - apply bind_ok_inv in H. destruct H as [[q' r'] [Hq H]]. inversion H; subst.
    eapply parse_braces_wf; eauto.
  - inversion H.
Qed.

Section WithTables.
  Variable T : tables.

  (** ** Ranges *)
  Lemma parse_ranges_loop_wf : forall fuel ts acc rs r,
    forallb wf_range acc = true ->
    parse_ranges_loop T fuel ts acc = Ok (rs, r) -> forallb wf_range rs = true.
  Proof.
    induction fuel as [|f IH]; intros ts acc rs r Hacc H; [discriminate|].
    cbn [parse_ranges_loop] in H. destruct ts as [|t ts']; [discriminate|].
    cbv beta iota in H. set (ts := t :: ts') in *.
    destruct (try_lit [45; 93] ts).
    { inversion H; subst. simpl. rewrite forallb_app, forallb_rev, Hacc. reflexivity. }
    destruct (try_lit [93] ts).
    { inversion H; subst. rewrite forallb_rev. exact Hacc. }
    destruct (peek_lit [45] ts); [discriminate|].
    apply bind_ok_inv in H. destruct H as [[st r1] [Hst H]].
    apply bind_ok_inv in H. destruct H as [[en r2] [Hen H]].
    destruct (match en with Some e => ch_code e <? ch_code st | None => false end) eqn:Eo;
      [discriminate|].
    eapply IH; [|exact H]. simpl. rewrite Hacc, andb_true_r.
    unfold wf_range; simpl. destruct en as [e|]; auto.
    apply N.ltb_ge in Eo. apply N.leb_le. exact Eo.
  Qed.

  Lemma parse_ranges_and_closing_wf : forall ts rs r,
    parse_ranges_and_closing T ts = Ok (rs, r) ->
    negb (is_nil rs) && forallb wf_range rs && ranges_disjoint rs = true.
  Proof.
    intros ts rs r H. unfold parse_ranges_and_closing in H.
    assert (Hgen : forall acc0 ts0,
      forallb wf_range acc0 = true ->
      (do2 (rs0, r0) <- parse_ranges_loop T (S (length ts0)) ts0 acc0;
       if negb (ranges_disjoint rs0) then Err tt
       else match rs0 with [] => Err tt | _ :: _ => Ok (rs0, r0) end) = Ok (rs, r) ->
      negb (is_nil rs) && forallb wf_range rs && ranges_disjoint rs = true).
    { intros acc0 ts0 Hacc H0.
      apply bind_ok_inv in H0. destruct H0 as [[rs0 r0] [Hl H0]].
      apply parse_ranges_loop_wf in Hl; auto.
      destruct (ranges_disjoint rs0) eqn:Ed; simpl in H0; [|discriminate].
      destruct rs0; [discriminate|]. inversion H0; subst.
      rewrite Hl, Ed. reflexivity. }
    destruct (try_lit [45] ts); eapply Hgen; eauto; reflexivity.
  Qed.

  (** ** The mutual loop *)
  Definition okc (o : presult concatenation) : Prop :=
    match o with Ok (c, _) => wf_concat c = true | _ => True end.
  Definition pc_wf (pc : list tok -> list term -> presult concatenation) : Prop :=
    forall ts acc, forallb wf_term acc = true -> okc (pc ts acc).
  Definition put_wf (put : list tok -> list concatenation -> presult union_expr) : Prop :=
    forall ts acc, forallb wf_concat acc = true ->
      match put ts acc with
      | Ok (u, _) => wf_union u = true /\ (acc <> [] -> u <> [])
      | _ => True
      end.
  Definition pu_wf (pu : list tok -> presult union_expr) : Prop :=
    forall ts, match pu ts with
               | Ok (u, r) => wf_union u = true /\ (u = [] -> r = [])
               | _ => True
               end.

  Lemma concat_continue_wf : forall pc ts acc v r,
    pc_wf pc -> forallb wf_term acc = true -> wf_value v = true ->
    okc (concat_continue pc ts acc v r).
  Proof.
    intros pc ts acc v r Hpc Hacc Hv. unfold concat_continue.
    destruct (parse_quantifier r) as [[q r']|e|k] eqn:Eq; simpl; auto.
    destruct (is_anchor v && is_some q) eqn:Ea; simpl; auto.
    unfold mk_term. rewrite Ea. simpl.
    destruct (Nat.ltb (length r') (length ts)); simpl; auto.
    apply Hpc. simpl. rewrite Hacc, andb_true_r.
    unfold wf_term; simpl. rewrite Hv, Ea. simpl.
    destruct q as [q|]; auto. eapply parse_quantifier_wf; eauto.
  Qed.

  Lemma concat_body_wf : forall pc pu ts acc,
    pc_wf pc -> pu_wf pu -> forallb wf_term acc = true ->
    okc (concat_body T pc pu ts acc).
  Proof.
    intros pc pu ts acc Hpc Hpu Hacc. unfold concat_body.
    assert (Hrev : wf_concat (rev acc) = true).
    { unfold wf_concat. rewrite forallb_rev. exact Hacc. }
    destruct ts as [|[c|f] r]; [exact Hrev| |].
    2:{ apply concat_continue_wf; auto. }
    set (ts := C c :: r) in *.
    destruct (c =? 124); [exact Hrev|].
    destruct (c =? 94); [apply concat_continue_wf; auto|].
    destruct (c =? 36); [apply concat_continue_wf; auto|].
    destruct (c =? 46); [apply concat_continue_wf; auto|].
    destruct (c =? 40).
    { destruct (peek_lit [63] r); [exact I|].
      specialize (Hpu r). destruct (pu r) as [[u r']|e|k]; cbn [bind okc]; auto.
      destruct Hpu as [Hu Hne].
      destruct (try_lit [41] r') as [r''|] eqn:E; [|exact I].
      apply concat_continue_wf; auto.
      rewrite wf_value_group, Hu, andb_true_r.
      destruct u; auto. rewrite (Hne eq_refl) in E. discriminate. }
    destruct (c =? 91).
    { destruct (try_lit [94] r) as [r0|].
      - destruct (parse_ranges_and_closing T r0) as [[rs r']|e|k] eqn:Er; cbn [bind okc]; auto.
        destruct (existsb range_is_astral rs) eqn:Ea; [exact I|].
        apply concat_continue_wf; auto. simpl. unfold wf_ranges.
        rewrite (parse_ranges_and_closing_wf _ _ _ Er), Ea. reflexivity.
      - destruct (parse_ranges_and_closing T r) as [[rs r']|e|k] eqn:Er; cbn [bind okc]; auto.
        apply concat_continue_wf; auto. simpl. unfold wf_ranges.
        rewrite (parse_ranges_and_closing_wf _ _ _ Er). reflexivity. }
    destruct ((c =? 42) || (c =? 43) || (c =? 63) || (c =? 123)); [exact I|].
    destruct (parse_char_literal T ts) as [[[x|] r1]|e|k]; cbn [bind okc]; auto.
    apply concat_continue_wf; auto.
  Qed.

  Lemma union_tail_body_wf : forall pc put ts acc,
    pc_wf pc -> put_wf put -> forallb wf_concat acc = true ->
    match union_tail_body pc put ts acc with
    | Ok (u, _) => wf_union u = true /\ (acc <> [] -> u <> [])
    | _ => True
    end.
  Proof.
    intros pc put ts acc Hpc Hput Hacc. unfold union_tail_body.
    assert (Hrev : forall l, l <> [] -> rev l <> ([] : list concatenation)).
    { intros l Hl Hr. apply (f_equal (@rev _)) in Hr. rewrite rev_involutive in Hr.
      simpl in Hr. contradiction. }
    destruct (try_lit [124] ts) as [r|].
    - destruct r as [|t r'].
      + split.
        * unfold wf_union. rewrite forallb_rev. simpl. exact Hacc.
        * intros _. apply Hrev. discriminate.
      + specialize (Hpc (t :: r') [] eq_refl).
        destruct (pc (t :: r') []) as [[c r1]|e|k]; simpl in *; auto.
        specialize (Hput r1 (c :: acc)). simpl in Hput. rewrite Hpc, Hacc in Hput.
        specialize (Hput eq_refl).
        destruct (put r1 (c :: acc)) as [[u r2]|e|k]; auto.
        destruct Hput as [Hu Hne]. split; auto. intros _. apply Hne. discriminate.
    - split.
      + unfold wf_union. rewrite forallb_rev. exact Hacc.
      + apply Hrev.
  Qed.

  Lemma union_body_wf : forall pc put, pc_wf pc -> put_wf put -> pu_wf (union_body pc put).
  Proof.
    intros pc put Hpc Hput ts. unfold union_body.
    destruct ts as [|t ts']; [split; auto|].
    specialize (Hpc (t :: ts') [] eq_refl).
    destruct (pc (t :: ts') []) as [[c r1]|e|k]; simpl in *; auto.
    specialize (Hput r1 [c]). simpl in Hput. rewrite Hpc in Hput. specialize (Hput eq_refl).
    destruct (put r1 [c]) as [[u r2]|e|k]; auto.
    destruct Hput as [Hu Hne]. split; auto.
    intros Hn. exfalso. apply Hne; [discriminate|exact Hn].
  Qed.

  Lemma parse_loops_wf : forall fuel,
    pc_wf (parse_concat T fuel) /\ put_wf (parse_union_tail T fuel).
  Proof.
    induction fuel as [|f [IHc IHu]].
    - split; intros ts acc H; exact I.
    - split; intros ts acc H; simpl.
      + apply concat_body_wf; auto. apply union_body_wf; auto.
      + apply union_tail_body_wf; auto.
  Qed.

  Theorem parse_tokens_wf : forall ts t, parse_tokens T ts = Ok t -> wf_regex t = true.
  Proof.
    intros ts t H. unfold parse_tokens in H.
    destruct (parse_loops_wf (S (length ts))) as [Hc Hu].
    pose proof (union_body_wf _ _ Hc Hu ts) as Hw. fold (parse_union T (S (length ts)) ts) in Hw.
    destruct (parse_union T (S (length ts)) ts) as [[u r]|e|k]; simpl in H; try discriminate.
    destruct r; [|discriminate]. inversion H; subst. apply Hw.
  Qed.

  Theorem parse_values_wf : forall vs t, parse_values T vs = Ok t -> wf_regex t = true.
  Proof.
    intros vs t H. unfold parse_values in H.
    destruct (values_pre vs); [|discriminate]. eapply parse_tokens_wf; eauto.
  Qed.
End WithTables.
