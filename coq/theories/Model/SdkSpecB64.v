(** Python's [base64.b64encode(b).decode('ascii')] and the non-validating
    [base64.b64decode(s.encode('ascii'))] (CPython [binascii.a2b_base64], non-strict mode),
    as used by the generated jsonization module. Executable; third-party behaviour, tied to
    the interpreter by a correspondence stream of harness/props/c10.py. *)
From Coq Require Import List NArith ZArith Bool.
From Acg Require Import Base.Str Base.Outcome.
Import ListNotations.
Open Scope N_scope.

Definition b64_char (v : N) : N :=
  if v <? 26 then 65 + v
  else if v <? 52 then 97 + (v - 26)
  else if v <? 62 then 48 + (v - 52)
  else if v =? 62 then 43 else 47.

Definition b64_index (c : N) : option N :=
  if (65 <=? c) && (c <=? 90) then Some (c - 65)
  else if (97 <=? c) && (c <=? 122) then Some (c - 97 + 26)
  else if (48 <=? c) && (c <=? 57) then Some (c - 48 + 52)
  else if c =? 43 then Some 62
  else if c =? 47 then Some 63
  else None.

Definition PAD : N := 61.

Fixpoint py_b64encode (b : list N) : text :=
  match b with
  | [] => []
  | [x] => [b64_char (x / 4); b64_char ((x mod 4) * 16); PAD; PAD]
  | [x; y] => [b64_char (x / 4); b64_char ((x mod 4) * 16 + y / 16); b64_char ((y mod 16) * 4); PAD]
  | x :: y :: z :: r =>
      b64_char (x / 4) :: b64_char ((x mod 4) * 16 + y / 16)
      :: b64_char ((y mod 16) * 4 + z / 64) :: b64_char (z mod 64) :: py_b64encode r
  end.

(** [quad]: position in the current group of four; [left]: pending bits; [pads]: consecutive
    ['='] seen since the last data character (only counted when [quad >= 2], as in C). *)
Fixpoint dec_loop (t : text) (quad left pads : N) (acc : list N) : outcome (list N) unit :=
  match t with
  | [] => if quad =? 0 then Ok (rev acc) else Crash ValueError   (* binascii.Error *)
  | c :: r =>
      if c =? PAD then
        if (2 <=? quad) && (4 <=? quad + pads + 1) then Ok (rev acc)
        else dec_loop r quad left (if 2 <=? quad then pads + 1 else pads) acc
      else
        match b64_index c with
        | None => dec_loop r quad left pads acc       (* discarded in non-strict mode *)
        | Some v =>
            if quad =? 0 then dec_loop r 1 v 0 acc
            else if quad =? 1 then dec_loop r 2 (v mod 16) 0 ((left * 4 + v / 16) :: acc)
            else if quad =? 2 then dec_loop r 3 (v mod 4) 0 ((left * 16 + v / 4) :: acc)
            else dec_loop r 0 0 0 ((left * 64 + v) :: acc)
        end
  end.

Definition py_b64decode (t : text) : outcome (list N) unit :=
  if existsb (fun c => 128 <=? c) t then Crash ValueError      (* UnicodeEncodeError *)
  else dec_loop t 0 0 0 [].

Definition bytes_outcome_eqb (a b : outcome (list N) unit) : bool :=
  match a, b with
  | Ok x, Ok y => text_eqb x y
  | Err _, Err _ => true
  | Crash _, Crash _ => true
  | _, _ => false
  end.
