(** C18 — fragment invariants for VM code: a piece of code occupying [a, b) of a program
    "implements" a relation [R] on word positions when (soundness) every [R i j] is a run
    from [(a,i)] to [(b,j)] and (completeness) every run from [(a,i)] that gets outside
    [a, b) goes through [(b,j)] for some [R i j]. Combinators for sequence, alternative,
    optional chains, star and plus loops. *)
From Coq Require Import List NArith Bool Arith Lia.
From Acg Require Import Base.Outcome Model.RevmTree Model.Revm Model.RevmVM.
Import ListNotations.

(** * relations *)
Definition rid : rel := fun i j => j = i.
Definition rseq (R S : rel) : rel := fun i j => exists m, R i m /\ S m j.
Definition ror (R S : rel) : rel := fun i j => R i j \/ S i j.
Definition req (R S : rel) : Prop := forall i j, R i j <-> S i j.

Lemma rpow_app : forall R n m i j k, rpow R n i j -> rpow R m j k -> rpow R (n + m) i k.
Proof.
  intros R n. induction n as [|n IH]; intros m i j k H1 H2; cbn in *.
  - subst. exact H2.
  - destruct H1 as [x [Hx Hr]]. exists x. split; [exact Hx|]. eapply IH; eauto.
Qed.

Lemma rpow_snoc : forall R n i j k, rpow R n i j -> R j k -> rpow R (S n) i k.
Proof.
  intros R n i j k H1 H2. replace (S n) with (n + 1) by lia.
  eapply rpow_app; [exact H1|]. cbn. exists k. split; [exact H2|reflexivity].
Qed.

Lemma rpow_split : forall R n m i k, rpow R (n + m) i k -> exists j, rpow R n i j /\ rpow R m j k.
Proof.
  intros R n. induction n as [|n IH]; intros m i k H; cbn in *.
  - exists i. split; [reflexivity|exact H].
  - destruct H as [x [Hx Hr]]. destruct (IH _ _ _ Hr) as [j [Hj1 Hj2]].
    exists j. split; [exists x; split; assumption|exact Hj2].
Qed.

Lemma rpow_ext : forall R S, req R S -> forall n, req (rpow R n) (rpow S n).
Proof.
  intros R S H n. induction n as [|n IH]; intros i j; cbn.
  - tauto.
  - split; intros [m [H1 H2]]; exists m; split; try (apply H; assumption); apply IH; assumption.
Qed.

(** * runs *)
Section Runs.
  Variable p : list instr.
  Variable w : list N.

  Lemma steps_app : forall n m c1 c2 c3,
    steps p w n c1 c2 -> steps p w m c2 c3 -> steps p w (n + m) c1 c3.
  Proof.
    intros n m c1 c2 c3 H1. induction H1 as [c|n c1 c2 c3' Hs Hr IH]; intros H2; cbn.
    - exact H2.
    - econstructor; [exact Hs|]. apply IH. exact H2.
  Qed.

  Lemma steps_one : forall c1 c2, step p w c1 c2 -> steps p w 1 c1 c2.
  Proof. intros c1 c2 H. econstructor; [exact H|constructor]. Qed.

  Lemma steps_pos_bound : forall n c1 c2, steps p w n c1 c2 ->
    snd c1 <= length w -> snd c2 <= length w.
  Proof.
    intros n c1 c2 H. induction H as [c|n c1 c2 c3 Hs Hr IH]; intros Hb; [exact Hb|].
    apply IH. inversion Hs as [pc i ins c Hp Hw Hc|pc i t Hp|pc i t1 t2 Hp|pc i t1 t2 Hp|pc i Hp He];
      subst; cbn in *; try lia.
    assert (Hlt : i < length w) by (apply nth_error_Some; congruence). lia.
  Qed.
End Runs.

(** * code placed at an offset *)
Definition at_off (p : list instr) (a : nat) (c : list instr) : Prop :=
  forall k ins, nth_error c k = Some ins -> nth_error p (a + k) = Some ins.

Lemma at_off_app : forall p a c1 c2,
  at_off p a (c1 ++ c2) <-> at_off p a c1 /\ at_off p (a + length c1) c2.
Proof.
  intros p a c1 c2. unfold at_off. split.
  - intros H. split.
    + intros k ins Hk. apply H. rewrite nth_error_app1; [exact Hk|].
      apply nth_error_Some. congruence.
    + intros k ins Hk. rewrite <- Nat.add_assoc. apply H.
      rewrite nth_error_app2 by lia. replace (length c1 + k - length c1) with k by lia. exact Hk.
  - intros [H1 H2] k ins Hk. destruct (Nat.lt_ge_cases k (length c1)) as [Hlt|Hge].
    + apply H1. rewrite nth_error_app1 in Hk by exact Hlt. exact Hk.
    + rewrite nth_error_app2 in Hk by exact Hge.
      replace (a + k) with (a + length c1 + (k - length c1)) by lia. apply H2. exact Hk.
Qed.

Lemma at_off_cons : forall p a x c,
  at_off p a (x :: c) <-> nth_error p a = Some x /\ at_off p (S a) c.
Proof.
  intros p a x c. change (x :: c) with ([x] ++ c). rewrite at_off_app. cbn [length].
  replace (a + 1) with (S a) by lia. split; intros [H1 H2]; split; try exact H2.
  - specialize (H1 0 x eq_refl). rewrite Nat.add_0_r in H1. exact H1.
  - intros k ins Hk. destruct k as [|k]; cbn in Hk.
    + inversion Hk; subst. rewrite Nat.add_0_r. exact H1.
    + destruct k; discriminate.
Qed.

Lemma at_off_nil : forall p a, at_off p a [].
Proof. intros p a k ins Hk. destruct k; discriminate. Qed.

(** * fragments *)
Section Frag.
  Variable p : list instr.
  Variable w : list N.

  Definition frag (a b : nat) (R : rel) : Prop :=
    (forall i j, R i j -> exists n, steps p w n (a, i) (b, j))
    /\ (forall n i pc' i', steps p w n (a, i) (pc', i') -> ~ (a <= pc' < b) ->
          exists j n1 n2, R i j /\ steps p w n2 (b, j) (pc', i') /\ n = n1 + n2).

  Lemma frag_ext : forall a b R S, req R S -> frag a b R -> frag a b S.
  Proof.
    intros a b R S He [Hs Hc]. split.
    - intros i j H. apply Hs. apply He. exact H.
    - intros n i pc' i' Hr Ho. destruct (Hc _ _ _ _ Hr Ho) as [j [n1 [n2 [H1 [H2 H3]]]]].
      exists j, n1, n2. split; [apply He; exact H1|]. split; assumption.
  Qed.

  Lemma frag_id : forall a, frag a a rid.
  Proof.
    intros a. split.
    - intros i j H. unfold rid in H. subst. exists 0. constructor.
    - intros n i pc' i' Hr _. exists i, 0, n. split; [reflexivity|]. split; [exact Hr|reflexivity].
  Qed.

  Lemma frag_seq : forall a b c R S, frag a b R -> frag b c S -> a <= b -> b <= c ->
    frag a c (rseq R S).
  Proof.
    intros a b c R S [Rs Rc] [Ss Sc] Hab Hbc. split.
    - intros i j [m [H1 H2]]. destruct (Rs _ _ H1) as [n1 Hn1]. destruct (Ss _ _ H2) as [n2 Hn2].
      exists (n1 + n2). eapply steps_app; eassumption.
    - intros n i pc' i' Hr Ho.
      destruct (Rc _ _ _ _ Hr) as [j [n1 [n2 [H1 [H2 H3]]]]]; [lia|].
      destruct (Sc _ _ _ _ H2) as [k [m1 [m2 [K1 [K2 K3]]]]]; [lia|].
      exists k, (n1 + m1), m2. split; [exists j; split; assumption|]. split; [exact K2|lia].
  Qed.

  (** inversion of a step at a known instruction *)
  Lemma step_at_jump : forall pc i t c, nth_error p pc = Some (IJump t) ->
    step p w (pc, i) c -> c = (t, i).
  Proof.
    intros pc i t c Hp Hs.
    inversion Hs as [pc0 i0 ins ch Hp' Hw Hc|pc0 i0 t0 Hp'|pc0 i0 t1 t2 Hp'|pc0 i0 t1 t2 Hp'|pc0 i0 Hp' He];
      subst; rewrite Hp in Hp'; inversion Hp'; subst; try reflexivity; discriminate.
  Qed.

  Lemma step_at_split : forall pc i t1 t2 c, nth_error p pc = Some (ISplit t1 t2) ->
    step p w (pc, i) c -> c = (t1, i) \/ c = (t2, i).
  Proof.
    intros pc i t1 t2 c Hp Hs.
    inversion Hs as [pc0 i0 ins ch Hp' Hw Hc|pc0 i0 t0 Hp'|pc0 i0 u1 u2 Hp'|pc0 i0 u1 u2 Hp'|pc0 i0 Hp' He];
      subst; rewrite Hp in Hp'; inversion Hp'; subst; try discriminate; auto.
  Qed.

  Lemma step_at_end : forall pc i c, nth_error p pc = Some IEnd ->
    step p w (pc, i) c -> c = (S pc, i) /\ i = length w.
  Proof.
    intros pc i c Hp Hs.
    inversion Hs as [pc0 i0 ins ch Hp' Hw Hc|pc0 i0 t0 Hp'|pc0 i0 u1 u2 Hp'|pc0 i0 u1 u2 Hp'|pc0 i0 Hp' He];
      subst; rewrite Hp in Hp'; inversion Hp'; subst; try discriminate; auto.
  Qed.

  Definition consuming (ins : instr) : Prop :=
    match ins with IChar _ | ISet _ | INotSet _ | IAny => True | _ => False end.

  Lemma step_at_consuming : forall pc i ins c, nth_error p pc = Some ins -> consuming ins ->
    step p w (pc, i) c ->
    c = (S pc, S i) /\ exists ch, nth_error w i = Some ch /\ consumes ins ch = true.
  Proof.
    intros pc i ins c Hp Hk Hs.
    inversion Hs as [pc0 i0 ins' ch Hp' Hw Hc|pc0 i0 t0 Hp'|pc0 i0 u1 u2 Hp'|pc0 i0 u1 u2 Hp'|pc0 i0 Hp' He];
      subst; rewrite Hp in Hp'; inversion Hp'; subst; try (cbn in Hk; contradiction).
    split; [reflexivity|]. exists ch. split; assumption.
  Qed.

  Lemma frag_consume : forall a ins, nth_error p a = Some ins -> consuming ins ->
    frag a (S a) (fun i j => j = S i /\ exists ch, nth_error w i = Some ch /\ consumes ins ch = true).
  Proof.
    intros a ins Hp Hk. split.
    - intros i j [Hj [ch [Hw Hc]]]. subst. exists 1. apply steps_one. econstructor; eassumption.
    - intros n i pc' i' Hr Ho. inversion Hr as [c|n' c1 c2 c3 Hs Hr']; subst.
      + exfalso. apply Ho. lia.
      + destruct (step_at_consuming _ _ _ _ Hp Hk Hs) as [Hc2 Hex]. subst c2.
        exists (S i), 1, n'. split; [split; [reflexivity|exact Hex]|]. split; [exact Hr'|reflexivity].
  Qed.

  Lemma frag_end : forall a, nth_error p a = Some IEnd ->
    frag a (S a) (fun i j => j = i /\ i = length w).
  Proof.
    intros a Hp. split.
    - intros i j [Hj Hi]. subst j. exists 1. apply steps_one. apply step_end; assumption.
    - intros n i pc' i' Hr Ho. inversion Hr as [c|n' c1 c2 c3 Hs Hr']; subst.
      + exfalso. apply Ho. lia.
      + destruct (step_at_end _ _ _ Hp Hs) as [Hc2 Hi]. subst c2.
        exists i, 1, n'. split; [split; [reflexivity|exact Hi]|]. split; [exact Hr'|reflexivity].
  Qed.

  (** [a: split a+1, m'; [a+1, m): R; m: jump e; [m', e): S]  with m' = m + 1 *)
  Lemma frag_alt : forall a m e R Q,
    nth_error p a = Some (ISplit (S a) (S m)) -> frag (S a) m R -> S a <= m ->
    nth_error p m = Some (IJump e) -> frag (S m) e Q -> S m <= e ->
    frag a e (ror R Q).
  Proof.
    intros a m e R Q Hsplit [Rs Rc] Ham Hjump [Ss Sc] Hme. split.
    - intros i j [H|H].
      + destruct (Rs _ _ H) as [n Hn]. exists (1 + (n + 1)).
        eapply steps_app; [apply steps_one; eapply step_split1; exact Hsplit|].
        eapply steps_app; [exact Hn|]. apply steps_one. apply step_jump. exact Hjump.
      + destruct (Ss _ _ H) as [n Hn]. exists (1 + n).
        eapply steps_app; [apply steps_one; eapply step_split2; exact Hsplit|exact Hn].
    - intros n i pc' i' Hr Ho. inversion Hr as [c|n' c1 c2 c3 Hs Hr']; subst.
      + exfalso. apply Ho. lia.
      + destruct (step_at_split _ _ _ _ _ Hsplit Hs) as [Hc|Hc]; subst c2.
        * destruct (Rc _ _ _ _ Hr') as [j [n1 [n2 [H1 [H2 H3]]]]]; [lia|].
          inversion H2 as [c|n2' c1 c2 c3 Hs2 Hr2]; subst.
          { exfalso. apply Ho. lia. }
          apply (step_at_jump _ _ _ _ Hjump) in Hs2. subst c2.
          exists j, (S n1 + 1), n2'. split; [left; exact H1|]. split; [exact Hr2|lia].
        * destruct (Sc _ _ _ _ Hr') as [j [n1 [n2 [H1 [H2 H3]]]]]; [lia|].
          exists j, (S n1), n2. split; [right; exact H1|]. split; [exact H2|lia].
  Qed.

  (** [a: split a+1, e; [a+1, e): T] *)
  Lemma frag_opt : forall a e T,
    nth_error p a = Some (ISplit (S a) e) -> frag (S a) e T -> S a <= e ->
    frag a e (ror T rid).
  Proof.
    intros a e T Hsplit [Ts Tc] Hae. split.
    - intros i j [H|H].
      + destruct (Ts _ _ H) as [n Hn]. exists (1 + n).
        eapply steps_app; [apply steps_one; eapply step_split1; exact Hsplit|exact Hn].
      + unfold rid in H. subst. exists 1. apply steps_one. eapply step_split2. exact Hsplit.
    - intros n i pc' i' Hr Ho. inversion Hr as [c|n' c1 c2 c3 Hs Hr']; subst.
      + exfalso. apply Ho. lia.
      + destruct (step_at_split _ _ _ _ _ Hsplit Hs) as [Hc|Hc]; subst c2.
        * destruct (Tc _ _ _ _ Hr') as [j [n1 [n2 [H1 [H2 H3]]]]]; [lia|].
          exists j, (S n1), n2. split; [left; exact H1|]. split; [exact H2|lia].
        * exists i, 1, n'. split; [right; reflexivity|]. split; [exact Hr'|reflexivity].
  Qed.

  Definition rstar (R : rel) : rel := fun i j => exists n, rpow R n i j.
  Definition rplus (R : rel) : rel := fun i j => exists n, rpow R (S n) i j.

  (** [a: split a+1, m+1; [a+1, m): R; m: jump a] *)
  Lemma frag_star : forall a m R,
    nth_error p a = Some (ISplit (S a) (S m)) -> frag (S a) m R -> S a <= m ->
    nth_error p m = Some (IJump a) ->
    frag a (S m) (rstar R).
  Proof.
    intros a m R Hsplit [Rs Rc] Ham Hjump. split.
    - intros i j [k Hk]. revert i Hk. induction k as [|k IH]; intros i Hk; cbn in Hk.
      + subst. exists 1. apply steps_one. eapply step_split2. exact Hsplit.
      + destruct Hk as [x [Hx Hr]]. destruct (Rs _ _ Hx) as [n1 Hn1].
        destruct (IH _ Hr) as [n2 Hn2]. exists (1 + (n1 + (1 + n2))).
        eapply steps_app; [apply steps_one; eapply step_split1; exact Hsplit|].
        eapply steps_app; [exact Hn1|].
        eapply steps_app; [apply steps_one; apply step_jump; exact Hjump|exact Hn2].
    - intros n. induction n as [n IH] using lt_wf_ind. intros i pc' i' Hr Ho.
      inversion Hr as [c|n' c1 c2 c3 Hs Hr']; subst.
      + exfalso. apply Ho. lia.
      + destruct (step_at_split _ _ _ _ _ Hsplit Hs) as [Hc|Hc]; subst c2.
        * destruct (Rc _ _ _ _ Hr') as [j [n1 [n2 [H1 [H2 H3]]]]]; [lia|].
          inversion H2 as [c|n2' c1 c2 c3 Hs2 Hr2]; subst.
          { exfalso. apply Ho. lia. }
          apply (step_at_jump _ _ _ _ Hjump) in Hs2. subst c2.
          destruct (IH n2') with (3 := Ho) (2 := Hr2) as [k [m1 [m2 [K1 [K2 K3]]]]]; [lia|].
          destruct K1 as [q Hq].
          exists k, (S n1 + 1 + m1), m2. split; [exists (S q); exists j; split; assumption|].
          split; [exact K2|lia].
        * exists i, 1, n'. split; [exists 0; reflexivity|]. split; [exact Hr'|reflexivity].
  Qed.

  (** [[a, m): R; m: split a, m+1] *)
  Lemma frag_plus : forall a m R,
    frag a m R -> a <= m -> nth_error p m = Some (ISplit a (S m)) ->
    frag a (S m) (rplus R).
  Proof.
    intros a m R [Rs Rc] Ham Hsplit. split.
    - intros i j [k Hk]. revert i Hk. induction k as [|k IH]; intros i Hk; cbn in Hk.
      + destruct Hk as [x [Hx Hr]]. subst j. destruct (Rs _ _ Hx) as [n1 Hn1].
        exists (n1 + 1). eapply steps_app; [exact Hn1|].
        apply steps_one. eapply step_split2. exact Hsplit.
      + destruct Hk as [x [Hx Hr]]. destruct (Rs _ _ Hx) as [n1 Hn1].
        destruct (IH _ Hr) as [n2 Hn2]. exists (n1 + (1 + n2)).
        eapply steps_app; [exact Hn1|].
        eapply steps_app; [apply steps_one; eapply step_split1; exact Hsplit|exact Hn2].
    - intros n. induction n as [n IH] using lt_wf_ind. intros i pc' i' Hr Ho.
      destruct (Rc _ _ _ _ Hr) as [j [n1 [n2 [H1 [H2 H3]]]]]; [lia|].
      inversion H2 as [c|n2' c1 c2 c3 Hs2 Hr2]; subst.
      { exfalso. apply Ho. lia. }
      destruct (step_at_split _ _ _ _ _ Hsplit Hs2) as [Hc|Hc]; subst c2.
      * destruct (IH n2') with (3 := Ho) (2 := Hr2) as [k [m1 [m2 [K1 [K2 K3]]]]]; [lia|].
        destruct K1 as [q Hq].
        exists k, (n1 + 1 + m1), m2. split; [exists (S q); exists j; split; assumption|].
        split; [exact K2|lia].
      * exists j, (n1 + 1), n2'. split; [exists 0; exists j; split; [exact H1|reflexivity]|].
        split; [exact Hr2|lia].
  Qed.
End Frag.
