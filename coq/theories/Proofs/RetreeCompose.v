(** Whole-tree round trip (C16 [roundtrip]): parsing the rendering of a well-formed tree
    gives the tree back. Composition of the character, quantifier and range lemmas over
    concatenations, unions and groups with the follow conditions of DESIGN Appendix A.1:
    what follows a term never starts a quantifier; a concatenation is followed by the
    end of input, [|] or [)]. *)
From Coq Require Import List NArith Bool Arith Lia.
From Acg Require Import Base.Str Base.Outcome Model.Retree Model.RetreeParse
  Model.RetreeRender Proofs.RetreeTotal Proofs.RetreeWf Proofs.RetreeRoundtrip
  Proofs.RetreeQuant Proofs.RetreeRanges.
Import ListNotations.
Open Scope N_scope.

(** Induction principle for the nested type [tvalue]. *)
Section TvalueInd.
  Variable P : tvalue -> Prop.
  Hypothesis Hg : forall u, Forall (Forall (fun t : term => P (fst t))) u -> P (VGroup u).
  Hypothesis Hc : forall c, P (VChar c).
  Hypothesis Hs : forall k rs, P (VCharSet k rs).
  Hypothesis Hf : forall f, P (VFormatted f).
  Hypothesis Hy : forall k, P (VSymbol k).

  Fixpoint tvalue_ind' (v : tvalue) : P v :=
    match v with
    | VGroup u =>
        Hg u
          ((fix fu (u : list (list (tvalue * option quantifier)))
              : Forall (Forall (fun t : term => P (fst t))) u :=
              match u with
              | [] => Forall_nil _
              | c :: u' =>
                  Forall_cons c
                    ((fix fc (c : list (tvalue * option quantifier))
                        : Forall (fun t : term => P (fst t)) c :=
                        match c with
                        | [] => Forall_nil _
                        | t :: c' =>
                            Forall_cons t
                              (match t as t0 return P (fst t0) with
                               | (v', _) => tvalue_ind' v'
                               end) (fc c')
                        end) c) (fu u')
              end) u)
    | VChar c => Hc c
    | VCharSet k rs => Hs k rs
    | VFormatted f => Hf f
    | VSymbol k => Hy k
    end.
End TvalueInd.

(** What follows a term must not start a quantifier. *)
Definition head_ok (ts : list tok) : bool :=
  match ts with C c :: _ => negb (memN c [42; 43; 63; 123]) | _ => true end.

Lemma head_ok_facts : forall c r, head_ok (C c :: r) = true ->
  (c =? 42) = false /\ (c =? 43) = false /\ (c =? 63) = false /\ (c =? 123) = false.
Proof.
  intros c r H. cbn in H. apply negb_true_iff in H.
  destruct (c =? 42); [discriminate|]. destruct (c =? 43); [discriminate|].
  destruct (c =? 63); [discriminate|]. destruct (c =? 123); [discriminate|]. auto.
Qed.

Lemma parse_quantifier_none : forall ts, head_ok ts = true -> parse_quantifier ts = Ok (None, ts).
Proof.
  intros [|[c|f] r] H; try reflexivity.
  destruct (head_ok_facts c r H) as [H1 [H2 [H3 H4]]].
  unfold parse_quantifier. cbn [try_lit]. rewrite H1, H2, H3, H4. reflexivity.
Qed.

Lemma head_ok_peek : forall ts, head_ok ts = true -> peek_lit [63] ts = false.
Proof.
  intros [|[c|f] r] H; try reflexivity.
  destruct (head_ok_facts c r H) as [_ [_ [H3 _]]].
  unfold peek_lit. cbn [try_lit]. rewrite H3. reflexivity.
Qed.

Lemma memN_app : forall x a b, memN x (a ++ b) = memN x a || memN x b.
Proof.
  induction a as [|y a IH]; intros b; cbn; auto. rewrite IH. apply orb_assoc.
Qed.

(** A concatenation is followed by the end of input, [|] or [)]. *)
Definition concat_end (rest : list tok) : Prop :=
  rest = [] \/ (exists tl, rest = C 124 :: tl) \/ (exists tl, rest = C 41 :: tl).
Definition union_end (rest : list tok) : Prop :=
  rest = [] \/ (exists tl, rest = C 41 :: tl).

Lemma concat_end_head : forall rest, concat_end rest -> head_ok rest = true.
Proof. intros rest [H|[[tl H]|[tl H]]]; subst; reflexivity. Qed.

Section WithTables.
  Variable T : tables.
  Hypothesis Hcheck : all_bits 8 0 (char_rt_all T) = true.
  Hypothesis Hsmall : tables_small T = true.
  Hypothesis Hrt : tables_rt_ok T = true.

  (** ** Which trees are covered: besides [wf_regex], the characters must be code
      points that can be written the way they are flagged. *)
  Definition lit_char_ok (c : rchar) : bool := (ch_code c <=? MAX_CODE) && wf_lit_char T c.

  Fixpoint rt_value (v : tvalue) : bool :=
    match v with
    | VGroup u => forallb (fun c => forallb (fun t : tvalue * option quantifier => rt_value (fst t)) c) u
    | VChar c => lit_char_ok c
    | VCharSet _ rs => forallb (range_rt_ok T) rs
    | _ => true
    end.
  Definition rt_concat (c : concatenation) : bool := forallb (fun t => rt_value (fst t)) c.
  Definition rt_union (u : union_expr) : bool := forallb rt_concat u.

  (** ** Rendering, restated with the top-level functions *)
  Lemma render_group : forall u, render_value T (VGroup u) = C 40 :: render_union T u ++ [C 41].
  Proof.
    intros u. cbn [render_value]. f_equal. f_equal.
    induction u as [|c0 rest IH]; [reflexivity|].
    cbn [render_union]. rewrite <- IH. f_equal.
    induction c0 as [|[v q] c' IHc]; [reflexivity|].
    cbn [render_concat]. unfold render_term. cbn [fst snd]. rewrite <- app_assoc.
    rewrite <- IHc. reflexivity.
  Qed.

  Definition tail_toks (more : list concatenation) : list tok :=
    flat_map (fun c => C 124 :: render_concat T c) more.

  Lemma render_union_cons : forall c0 more,
    render_union T (c0 :: more) = render_concat T c0 ++ tail_toks more.
  Proof.
    intros c0 more. revert c0. induction more as [|c1 more IH]; intros c0.
    - cbn. rewrite app_nil_r. reflexivity.
    - change (render_union T (c0 :: c1 :: more))
        with (render_concat T c0 ++ C 124 :: render_union T (c1 :: more)).
      rewrite (IH c1). reflexivity.
  Qed.

  (** ** Heads of renderings *)
  Lemma value_head : forall v, rt_value v = true ->
    exists t0 tl, render_value T v = t0 :: tl /\ forall r, head_ok (t0 :: r) = true.
  Proof.
    intros v H. destruct v as [u|c|k rs|f|k].
    - rewrite render_group. eexists; eexists; split; [reflexivity|]. reflexivity.
    - cbn [render_value].
      destruct (tables_rt_facts T Hrt) as [Hb _].
      destruct (render_char_head (esc_lit T) c Hb) as [[tl E]|[He [Ha E]]]; rewrite E.
      + cbn [map]. eexists; eexists; split; [reflexivity|]. reflexivity.
      + cbn [map]. eexists; eexists; split; [reflexivity|]. intros r.
        cbn [rt_value] in H. unfold lit_char_ok in H. apply andb_true_iff in H.
        destruct H as [_ H]. unfold wf_lit_char, raw_literal_ok in H.
        rewrite He, Ha in H. cbn [orb is_some] in H. apply negb_true_iff in H.
        rewrite memN_app in H. apply orb_false_iff in H. destruct H as [H _].
        cbn [head_ok]. apply negb_true_iff. unfold concat_handled in H. cbn [memN] in *.
        destruct (ch_code c =? 124); [discriminate|]. destruct (ch_code c =? 94); [discriminate|].
        destruct (ch_code c =? 36); [discriminate|]. destruct (ch_code c =? 46); [discriminate|].
        destruct (ch_code c =? 40); [discriminate|]. destruct (ch_code c =? 91); [discriminate|].
        destruct (ch_code c =? 42); [discriminate|]. destruct (ch_code c =? 43); [discriminate|].
        destruct (ch_code c =? 63); [discriminate|]. destruct (ch_code c =? 123); [discriminate|].
        reflexivity.
    - cbn [render_value]. unfold render_char_set. cbn [app map].
      eexists; eexists; split; [reflexivity|]. reflexivity.
    - cbn [render_value]. eexists; eexists; split; [reflexivity|]. reflexivity.
    - destruct k; cbn; eexists; eexists; split; try reflexivity; reflexivity.
  Qed.

  Lemma concat_head : forall c rest, rt_concat c = true -> concat_end rest ->
    head_ok (render_concat T c ++ rest) = true.
  Proof.
    intros [|[v q] c'] rest H He.
    - apply concat_end_head. exact He.
    - cbn [rt_concat forallb fst] in H. apply andb_true_iff in H. destruct H as [Hv _].
      destruct (value_head v Hv) as [t0 [tl [E Hh]]].
      cbn [render_concat]. unfold render_term. cbn [fst snd]. rewrite E.
      rewrite <- !app_assoc. cbn [app]. apply Hh.
  Qed.

  Lemma concat_nonempty : forall c, rt_concat c = true -> render_concat T c = [] -> c = [].
  Proof.
    intros [|[v q] c'] H E; auto.
    cbn [rt_concat forallb fst] in H. apply andb_true_iff in H. destruct H as [Hv _].
    destruct (value_head v Hv) as [t0 [tl [Ev _]]].
    cbn [render_concat] in E. unfold render_term in E. cbn [fst snd] in E. rewrite Ev in E.
    discriminate.
  Qed.

  (** ** The dispatch of one value, as a property of the value *)
  Definition PC (f : nat) := parse_concat T f.
  Definition PU (f : nat) := union_body (parse_concat T f) (parse_union_tail T f).

  Definition Pv (v : tvalue) : Prop :=
    forall f acc rest,
      wf_value v = true -> rt_value v = true ->
      Nat.le (length (render_value T v ++ rest)) f ->
      concat_body T (PC f) (PU f) (render_value T v ++ rest) acc
      = concat_continue (PC f) (render_value T v ++ rest) acc v rest.

  Lemma wf_term_facts : forall v q, wf_term (v, q) = true ->
    wf_value v = true /\ is_anchor v && is_some q = false
    /\ match q with Some q0 => wf_quant q0 = true | None => True end.
  Proof.
    intros v q H. unfold wf_term in H. cbn [fst snd] in H.
    apply andb_true_iff in H. destruct H as [H H3].
    apply andb_true_iff in H. destruct H as [H1 H2].
    apply negb_true_iff in H2. repeat split; auto. destruct q; auto.
  Qed.

  Lemma parse_concat_S : forall f ts acc,
    parse_concat T (S f) ts acc = concat_body T (PC f) (PU f) ts acc.
  Proof. reflexivity. Qed.
  Lemma parse_union_tail_S : forall f ts acc,
    parse_union_tail T (S f) ts acc
    = union_tail_body (parse_concat T f) (parse_union_tail T f) ts acc.
  Proof. reflexivity. Qed.

  (** ** Concatenations *)
  Lemma concat_stop : forall f rest acc, concat_end rest ->
    parse_concat T (S f) rest acc = Ok (rev acc, rest).
  Proof.
    intros f rest acc [H|[[tl H]|[tl H]]]; subst; cbn [parse_concat concat_body].
    - reflexivity.
    - reflexivity.
    - destruct (tables_rt_facts T Hrt) as [_ [_ [_ [_ [_ [_ [Hstop Hassert]]]]]]].
      change (41 =? 124) with false. change (41 =? 94) with false. change (41 =? 36) with false.
      change (41 =? 46) with false. change (41 =? 40) with false. change (41 =? 91) with false.
      change ((41 =? 42) || (41 =? 43) || (41 =? 63) || (41 =? 123)) with false. cbv iota.
      cbn [parse_char_literal]. change (41 =? 92) with false. cbv iota.
      rewrite Hassert, Hstop. reflexivity.
  Qed.

  Lemma concat_rt : forall c,
    Forall (fun t : term => Pv (fst t)) c -> wf_concat c = true -> rt_concat c = true ->
    forall fuel acc rest, concat_end rest ->
      Nat.lt (length (render_concat T c ++ rest)) fuel ->
      parse_concat T fuel (render_concat T c ++ rest) acc = Ok (rev acc ++ c, rest).
  Proof.
    induction c as [|[v q] c' IH]; intros HP Hwf Hrtc fuel acc rest Hend Hfuel.
    - destruct fuel as [|f]; [inversion Hfuel|]. cbn [render_concat app].
      rewrite app_nil_r. apply concat_stop. exact Hend.
    - destruct fuel as [|f]; [inversion Hfuel|].
      inversion HP as [|t0 c0 HPv HP']; subst. cbn [fst] in HPv.
      cbn [wf_concat forallb] in Hwf. apply andb_true_iff in Hwf. destruct Hwf as [Hwt Hwf'].
      cbn [rt_concat forallb fst] in Hrtc. apply andb_true_iff in Hrtc.
      destruct Hrtc as [Hrv Hrtc'].
      destruct (wf_term_facts v q Hwt) as [Hwv [Hanch Hwq]].
      cbn [render_concat] in Hfuel |- *. unfold render_term in Hfuel |- *.
      cbn [fst snd] in Hfuel |- *.
      set (REST := render_opt_quantifier q ++ render_concat T c' ++ rest).
      assert (Ein : ((render_value T v ++ render_opt_quantifier q) ++ render_concat T c') ++ rest
                    = render_value T v ++ REST).
      { unfold REST. rewrite <- !app_assoc. reflexivity. }
      rewrite Ein in *.
      destruct (value_head v Hrv) as [t0 [tl [Ev _]]].
      assert (Hlen : Nat.lt (length REST) (length (render_value T v ++ REST))).
      { rewrite Ev. cbn [app length]. rewrite app_length. lia. }
      rewrite parse_concat_S.
      rewrite (HPv f acc REST Hwv Hrv); [|unfold Nat.lt, Nat.le in *; lia].
      unfold concat_continue.
      assert (Hhead : head_ok (render_concat T c' ++ rest) = true)
        by (apply concat_head; auto).
      assert (Hq : parse_quantifier REST = Ok (q, render_concat T c' ++ rest)).
      { unfold REST. destruct q as [q0|]; cbn [render_opt_quantifier].
        - apply quantifier_roundtrip; auto. intros _. apply head_ok_peek. exact Hhead.
        - cbn [app]. apply parse_quantifier_none. exact Hhead. }
      rewrite Hq. cbn [bind]. rewrite Hanch. unfold mk_term. rewrite Hanch. cbn [bind].
      assert (Hl : Nat.ltb (length (render_concat T c' ++ rest))
                           (length (render_value T v ++ REST)) = true).
      { apply Nat.ltb_lt. unfold REST in *. rewrite !app_length in *. unfold Nat.lt in *. lia. }
      rewrite Hl. unfold PC. rewrite IH; auto.
      + cbn [rev]. rewrite <- app_assoc. reflexivity.
      + unfold REST in *. rewrite !app_length in *. unfold Nat.lt in *. lia.
  Qed.

  (** ** Unions *)
  Lemma tail_toks_end : forall more rest, union_end rest -> concat_end (tail_toks more ++ rest).
  Proof.
    intros [|c more] rest [H|[tl H]]; subst.
    - left. reflexivity.
    - right. right. cbn. eauto.
    - right. left. cbn. eauto.
    - right. left. cbn. eauto.
  Qed.

  Lemma union_tail_rt : forall more,
    Forall (Forall (fun t : term => Pv (fst t))) more ->
    wf_union more = true -> rt_union more = true ->
    forall fuel acc rest, union_end rest ->
      Nat.lt (length (tail_toks more ++ rest)) fuel ->
      parse_union_tail T fuel (tail_toks more ++ rest) acc = Ok (rev acc ++ more, rest).
  Proof.
    induction more as [|c more IH]; intros HP Hwf Hrtu fuel acc rest Hend Hfuel.
    - destruct fuel as [|f]; [inversion Hfuel|]. cbn [tail_toks flat_map app].
      rewrite parse_union_tail_S. unfold union_tail_body. rewrite app_nil_r.
      destruct Hend as [H|[tl H]]; subst; reflexivity.
    - destruct fuel as [|f]; [inversion Hfuel|].
      inversion HP as [|c0 m0 HPc HP']; subst.
      cbn [wf_union forallb] in Hwf. apply andb_true_iff in Hwf. destruct Hwf as [Hwc Hwf'].
      cbn [rt_union forallb] in Hrtu. apply andb_true_iff in Hrtu. destruct Hrtu as [Hrc Hrtu'].
      change (tail_toks (c :: more)) with (C 124 :: render_concat T c ++ tail_toks more)
        in Hfuel |- *.
      cbn [app] in Hfuel |- *. rewrite <- app_assoc in Hfuel |- *. cbn [length] in Hfuel.
      rewrite parse_union_tail_S. unfold union_tail_body. cbn [try_lit].
      change (124 =? 124) with true. cbv iota.
      destruct (render_concat T c ++ tail_toks more ++ rest) as [|t0 r0] eqn:Er.
      + apply app_eq_nil in Er. destruct Er as [Ec Er]. apply app_eq_nil in Er.
        destruct Er as [Em Erest].
        rewrite (concat_nonempty c Hrc Ec).
        destruct more as [|c1 more']; [|discriminate].
        subst rest. cbn [rev]. reflexivity.
      + pose proof (f_equal (@length _) Er) as El. rewrite !app_length in El.
        rewrite <- Er.
        rewrite (concat_rt c HPc Hwc Hrc f [] (tail_toks more ++ rest)).
        * cbn [bind rev app]. rewrite IH; auto.
          -- cbn [rev]. rewrite <- app_assoc. reflexivity.
          -- rewrite !app_length in *. unfold Nat.lt in *. lia.
        * apply tail_toks_end. exact Hend.
        * rewrite !app_length in *. unfold Nat.lt in *. lia.
  Qed.

  Lemma union_rt : forall c0 more,
    Forall (Forall (fun t : term => Pv (fst t))) (c0 :: more) ->
    wf_union (c0 :: more) = true -> rt_union (c0 :: more) = true ->
    forall fuel rest, union_end rest ->
      render_union T (c0 :: more) ++ rest <> [] ->
      Nat.lt (length (render_union T (c0 :: more) ++ rest)) fuel ->
      union_body (parse_concat T fuel) (parse_union_tail T fuel)
        (render_union T (c0 :: more) ++ rest) = Ok (c0 :: more, rest).
  Proof.
    intros c0 more HP Hwf Hrtu fuel rest Hend Hne Hfuel.
    inversion HP as [|c m HPc HP']; subst.
    cbn [wf_union forallb] in Hwf. apply andb_true_iff in Hwf. destruct Hwf as [Hwc Hwf'].
    cbn [rt_union forallb] in Hrtu. apply andb_true_iff in Hrtu. destruct Hrtu as [Hrc Hrtu'].
    rewrite render_union_cons in *. rewrite <- app_assoc in *.
    unfold union_body.
    destruct (render_concat T c0 ++ tail_toks more ++ rest) as [|t0 r0] eqn:Er; [congruence|].
    pose proof (f_equal (@length _) Er) as El. rewrite !app_length in El.
    rewrite <- Er.
    rewrite (concat_rt c0 HPc Hwc Hrc fuel [] (tail_toks more ++ rest)); auto.
    - cbn [bind rev app]. rewrite union_tail_rt; auto.
      rewrite !app_length in *. unfold Nat.lt in *. lia.
    - apply tail_toks_end. exact Hend.
    - rewrite Er. exact Hfuel.
  Qed.

  (** ** The dispatch of each kind of value *)
  Lemma concat_body_literal : forall pc pu x tl acc,
    memN x concat_handled = false ->
    concat_body T pc pu (C x :: tl) acc
    = (do2 (oc, r1) <- parse_char_literal T (C x :: tl);
       match oc with
       | None => Ok (rev acc, r1)
       | Some y => concat_continue pc (C x :: tl) acc (VChar y) r1
       end).
  Proof.
    intros pc pu x tl acc H. unfold concat_handled in H. cbn [memN] in H.
    destruct (x =? 124) eqn:E1; [discriminate|]. destruct (x =? 94) eqn:E2; [discriminate|].
    destruct (x =? 36) eqn:E3; [discriminate|]. destruct (x =? 46) eqn:E4; [discriminate|].
    destruct (x =? 40) eqn:E5; [discriminate|]. destruct (x =? 91) eqn:E6; [discriminate|].
    destruct (x =? 42) eqn:E7; [discriminate|]. destruct (x =? 43) eqn:E8; [discriminate|].
    destruct (x =? 63) eqn:E9; [discriminate|]. destruct (x =? 123) eqn:E10; [discriminate|].
    unfold concat_body. rewrite E1, E2, E3, E4, E5, E6, E7, E8, E9, E10. reflexivity.
  Qed.

  Lemma Pv_char : forall c, Pv (VChar c).
  Proof.
    intros c f acc rest _ Hrv _. cbn [rt_value] in Hrv. unfold lit_char_ok in Hrv.
    apply andb_true_iff in Hrv. destruct Hrv as [Hc Hw]. apply N.leb_le in Hc.
    pose proof (char_literal_roundtrip T Hcheck Hsmall c rest Hc Hw) as Hp.
    cbn [render_value].
    destruct (tables_rt_facts T Hrt) as [Hb _].
    destruct (render_char_head (esc_lit T) c Hb) as [[tl E]|[He [Ha E]]];
      rewrite E in *; cbn [map app] in *.
    - rewrite concat_body_literal by reflexivity. rewrite Hp. reflexivity.
    - rewrite concat_body_literal.
      + rewrite Hp. reflexivity.
      + unfold wf_lit_char, raw_literal_ok in Hw. rewrite He, Ha in Hw.
        cbn [orb is_some] in Hw. apply negb_true_iff in Hw.
        rewrite memN_app in Hw. apply orb_false_iff in Hw. apply Hw.
  Qed.

  Lemma Pv_symbol : forall k, Pv (VSymbol k).
  Proof. intros k f acc rest _ _ _. destruct k; reflexivity. Qed.

  Lemma Pv_formatted : forall x, Pv (VFormatted x).
  Proof. intros x f acc rest _ _ _. reflexivity. Qed.

  Lemma concat_body_set : forall pc pu r acc,
    concat_body T pc pu (C 91 :: r) acc
    = (iflit [94] at r as r0 then
         (do2 (rs, r') <- parse_ranges_and_closing T r0;
          if existsb range_is_astral rs then Err tt
          else concat_continue pc (C 91 :: r) acc (VCharSet true rs) r')
       else
         (do2 (rs, r') <- parse_ranges_and_closing T r;
          concat_continue pc (C 91 :: r) acc (VCharSet false rs) r')).
  Proof. reflexivity. Qed.

  Lemma Pv_set : forall k rs, Pv (VCharSet k rs).
  Proof.
    intros k rs f acc rest Hwf Hrv _. cbn [wf_value] in Hwf. unfold wf_ranges in Hwf.
    apply andb_true_iff in Hwf. destruct Hwf as [Hwf Hast].
    apply andb_true_iff in Hwf. destruct Hwf as [Hwf Hdis].
    apply andb_true_iff in Hwf. destruct Hwf as [Hne _].
    assert (Hne' : rs <> []) by (destruct rs; [discriminate|congruence]).
    cbn [rt_value] in Hrv.
    cbn [render_value]. unfold render_char_set.
    destruct k; cbn [app map].
    - rewrite concat_body_set. cbn [try_lit]. change (94 =? 94) with true. cbv iota.
      rewrite (ranges_roundtrip T Hcheck Hsmall Hrt true rs rest Hne' Hrv Hdis). cbn [bind].
      cbn [negb orb] in Hast. apply negb_true_iff in Hast. rewrite Hast. reflexivity.
    - rewrite concat_body_set.
      rewrite (ranges_no_caret T Hrt rs rest Hrv).
      rewrite (ranges_roundtrip T Hcheck Hsmall Hrt false rs rest Hne' Hrv Hdis). reflexivity.
  Qed.

  Lemma concat_body_group : forall pc pu r acc,
    concat_body T pc pu (C 40 :: r) acc
    = (if peek_lit [63] r then Err tt
       else do2 (u, r') <- pu r;
            iflit [41] at r' as r'' then concat_continue pc (C 40 :: r) acc (VGroup u) r''
            else Err tt).
  Proof. reflexivity. Qed.

  Lemma rt_value_group : forall u, rt_value (VGroup u) = rt_union u.
  Proof. reflexivity. Qed.

  Lemma union_head : forall c0 more rest, rt_union (c0 :: more) = true ->
    head_ok (render_union T (c0 :: more) ++ C 41 :: rest) = true.
  Proof.
    intros c0 more rest H. cbn [rt_union forallb] in H. apply andb_true_iff in H.
    destruct H as [Hc _]. rewrite render_union_cons, <- app_assoc.
    apply concat_head; auto. apply tail_toks_end. right. eauto.
  Qed.

  Lemma Pv_group : forall u, Forall (Forall (fun t : term => Pv (fst t))) u -> Pv (VGroup u).
  Proof.
    intros u HP f acc rest Hwf Hrv Hle.
    rewrite wf_value_group in Hwf. apply andb_true_iff in Hwf. destruct Hwf as [Hne Hwu].
    rewrite rt_value_group in Hrv.
    destruct u as [|c0 more]; [discriminate|].
    rewrite render_group in *. cbn [app] in *. rewrite <- app_assoc in *. cbn [app] in *.
    rewrite concat_body_group.
    rewrite head_ok_peek by (apply union_head; exact Hrv).
    assert (Hu : PU f (render_union T (c0 :: more) ++ C 41 :: rest)
                 = Ok (c0 :: more, C 41 :: rest)).
    { unfold PU. apply union_rt; auto.
      - right. eauto.
      - intros E. apply app_eq_nil in E. destruct E as [_ E]. discriminate. }
    rewrite Hu. cbn [bind try_lit]. change (41 =? 41) with true. reflexivity.
  Qed.

  Theorem Pv_all : forall v, Pv v.
  Proof.
    apply tvalue_ind'.
    - apply Pv_group.
    - apply Pv_char.
    - apply Pv_set.
    - apply Pv_formatted.
    - apply Pv_symbol.
  Qed.

  Lemma Forall_all {A} (P : A -> Prop) (l : list A) : (forall x, P x) -> Forall P l.
  Proof. intros H. induction l; constructor; auto. Qed.

  (** ** The whole tree *)
  Definition wf_rt (t : regex) : bool :=
    wf_regex t && rt_union t && negb (match t with [[]] => true | _ => false end).

  Lemma tail_toks_nil : forall more, tail_toks more = [] -> more = [].
  Proof. intros [|c more] H; auto. discriminate. Qed.

  Theorem roundtrip_tokens : forall t, wf_rt t = true ->
    parse_tokens T (render_tokens T t) = Ok t.
  Proof.
    intros t H. unfold wf_rt in H.
    apply andb_true_iff in H. destruct H as [H Htop].
    apply andb_true_iff in H. destruct H as [Hwf Hrtu].
    unfold parse_tokens, render_tokens, parse_union.
    destruct t as [|c0 more]; [reflexivity|].
    assert (HP : Forall (Forall (fun t : term => Pv (fst t))) (c0 :: more)).
    { apply Forall_all. intros c. apply Forall_all. intros x. apply Pv_all. }
    assert (Hu : forall ts, ts = render_union T (c0 :: more) ++ [] ->
              union_body (parse_concat T (S (length ts))) (parse_union_tail T (S (length ts))) ts
              = Ok (c0 :: more, [])).
    { intros ts E. subst ts. apply union_rt; auto.
      - left. reflexivity.
      - intros E. rewrite app_nil_r, render_union_cons in E. apply app_eq_nil in E.
        destruct E as [Ec Em].
        cbn [rt_union forallb] in Hrtu. apply andb_true_iff in Hrtu. destruct Hrtu as [Hrc _].
        rewrite (concat_nonempty c0 Hrc Ec), (tail_toks_nil more Em) in Htop. discriminate. }
    rewrite (Hu _ (eq_sym (app_nil_r _))). reflexivity.
  Qed.

  (** The compaction of [render] and the flattening of [Cursor] cancel out. *)
  Lemma tokens_group : forall ts, tokens_of_values (group_tokens ts) = ts.
  Proof.
    induction ts as [|[c|f] r IH]; [reflexivity| |].
    - cbn [group_tokens]. revert IH. generalize (group_tokens r) as g.
      intros [|[s|x] vs] IH; cbn in *; rewrite <- IH; reflexivity.
    - unfold tokens_of_values in *. cbn [group_tokens flat_map tokens_of_value app].
      rewrite IH. reflexivity.
  Qed.

  Lemma values_pre_group : forall ts, values_pre (group_tokens ts) = true.
  Proof.
    induction ts as [|[c|f] r IH]; [reflexivity| |].
    - cbn [group_tokens]. revert IH. generalize (group_tokens r) as g.
      intros [|[s|x] vs] IH.
      + reflexivity.
      + cbn [values_pre] in *. destruct vs as [|[s'|x'] vs']; auto.
        destruct s; [discriminate|]. exact IH.
      + cbn [values_pre] in *. exact IH.
    - cbn [group_tokens values_pre]. exact IH.
  Qed.

  (** [roundtrip] *)
  Theorem roundtrip : forall t, wf_rt t = true ->
    parse_values T (render_values T t) = Ok t.
  Proof.
    intros t H. unfold parse_values, render_values.
    rewrite values_pre_group, tokens_group. apply roundtrip_tokens. exact H.
  Qed.

  (** What the parser returns is in the domain of [roundtrip] except for the
      renderability of its characters (unencoded [|] cannot occur, code points are
      code points): stated on the parser side by [parsed_rt] below for the tree part
      that [parsed_wf] already gives. *)
End WithTables.
