"""C19 helpers: real language front ends as oracles for literals (python eval, node,
javac+java, g++), and input generators. Every oracle takes a list of literal source
texts and returns, per literal, ``["ok", [values]]`` (code points for Python/C++,
UTF-16 code units for JS/Java) or ``["rej", reason]``.
"""
from __future__ import annotations

import json
import os
import pathlib
import re
import shutil
import subprocess
import tempfile
from typing import Callable, List, Optional, Sequence

from harness import lib


def encodable(src: str) -> bool:
    try:
        src.encode("utf-8")
        return True
    except UnicodeEncodeError:
        return False


def cps(s: str) -> List[int]:
    return [ord(c) for c in s]


def from_cps(xs: Sequence[int]) -> str:
    return "".join(chr(x) for x in xs)


def utf16_units(s: str) -> List[int]:
    out = []
    for ch in s:
        c = ord(ch)
        if c < 0x10000:
            out.append(c)
        else:
            c -= 0x10000
            out += [0xD800 + (c >> 10), 0xDC00 + (c & 0x3FF)]
    return out


def _scratch() -> pathlib.Path:
    lib.WORK.mkdir(parents=True, exist_ok=True)
    return pathlib.Path(tempfile.mkdtemp(prefix="c19-tool-", dir=lib.WORK))


# --------------------------------------------------------------------------------------
# Python
# --------------------------------------------------------------------------------------
_PY_EVAL = r"""
import json, sys, warnings
warnings.simplefilter("ignore")
out = []
for kind, xs in json.load(sys.stdin):
    src = "".join(chr(x) for x in xs)
    try:
        data = ("(" + src + "\n)").encode("utf-8")
        v = eval(compile(data, "<lit>", "eval"))
        if kind == "bytes" and isinstance(v, bytes):
            out.append(["ok", list(v)])
        elif kind == "str" and isinstance(v, str):
            out.append(["ok", [ord(c) for c in v]])
        else:
            out.append(["rej", "type " + type(v).__name__])
    except BaseException as e:
        out.append(["rej", type(e).__name__])
json.dump(out, sys.stdout)
"""


def python_eval(literals: Sequence[str], kind: str = "str"):
    """The literal is compiled from UTF-8 *bytes* (as a source file would be)."""
    if not literals:
        return []
    p = subprocess.run([lib.PY, "-c", _PY_EVAL], input=json.dumps([[kind, cps(l)] for l in literals]),
                       stdout=subprocess.PIPE, stderr=subprocess.PIPE, text=True, timeout=600,
                       env={"PATH": os.environ.get("PATH", ""), "PYTHONIOENCODING": "utf-8"})
    if p.returncode != 0:
        raise lib.HarnessError("python eval oracle failed: " + p.stderr[-2000:])
    return json.loads(p.stdout)


# --------------------------------------------------------------------------------------
# node (JavaScript / TypeScript string and template literals)
# --------------------------------------------------------------------------------------
_NODE = r"""
const vm = require('vm');
let data = '';
process.stdin.on('data', d => data += d);
process.stdin.on('end', () => {
  const out = [];
  for (const xs of JSON.parse(data)) {
    let src = '';
    for (const x of xs) src += String.fromCodePoint(x);
    try {
      let subst = false;
      if (src.startsWith('`')) {
        const n = vm.runInNewContext('"use strict"; ((s, ...v) => v.length)' + src, {}, {timeout: 1000});
        if (n > 0) subst = true;
      }
      if (subst) { out.push(['rej', 'substitution']); continue; }
      const v = vm.runInNewContext('"use strict"; (' + src + '\n)', {}, {timeout: 1000});
      if (typeof v !== 'string') { out.push(['rej', 'type ' + typeof v]); continue; }
      const units = [];
      for (let i = 0; i < v.length; i++) units.push(v.charCodeAt(i));
      out.push(['ok', units]);
    } catch (e) {
      out.push(['rej', String(e && e.name)]);
    }
  }
  process.stdout.write(JSON.stringify(out));
});
"""


def node_eval(literals: Sequence[str]):
    if not literals:
        return []
    res: List[Optional[list]] = [None] * len(literals)
    send = []
    for i, l in enumerate(literals):
        if not encodable(l):
            res[i] = ["rej", "source not encodable as UTF-8"]
        else:
            send.append(i)
    if send:
        p = subprocess.run(["node", "-e", _NODE], input=json.dumps([cps(literals[i]) for i in send]),
                           stdout=subprocess.PIPE, stderr=subprocess.PIPE, text=True, timeout=900)
        if p.returncode != 0:
            raise lib.HarnessError("node oracle failed: " + p.stderr[-2000:])
        for i, r in zip(send, json.loads(p.stdout)):
            res[i] = r
    return res


# --------------------------------------------------------------------------------------
# compile-and-run oracles with isolation of rejected literals
# --------------------------------------------------------------------------------------
def _isolate(n: int, attempt, results: list, idxs: List[int], depth: int = 0) -> None:
    """``attempt(idxs, workdir)`` compiles+runs the literals with these indices; it returns
    None on success (after filling ``results``) or the indices of the lines the compiler
    blames. Blamed literals are set aside and then each compiled on its own (in parallel):
    only a literal that fails alone is rejected. Without usable blame: bisection."""
    from concurrent.futures import ThreadPoolExecutor
    if not idxs:
        return
    wd = _scratch()
    try:
        blamed = attempt(idxs, wd)
    finally:
        shutil.rmtree(wd, ignore_errors=True)
    if blamed is None:
        return
    if len(idxs) == 1:
        results[idxs[0]] = ["rej", "compile error"]
        return
    inset = set(idxs)
    blamed = [i for i in blamed if i in inset]
    if blamed and len(blamed) < len(idxs) and depth < 4:
        bl = set(blamed)
        _isolate(n, attempt, results, [i for i in idxs if i not in bl], depth + 1)
        with ThreadPoolExecutor(max_workers=8) as ex:
            list(ex.map(lambda i: _isolate(n, attempt, results, [i], depth + 1), blamed))
        return
    mid = len(idxs) // 2
    _isolate(n, attempt, results, idxs[:mid], depth + 1)
    _isolate(n, attempt, results, idxs[mid:], depth + 1)


def java_eval(literals: Sequence[str]):
    """Each literal becomes one line ``/*i*/ <literal>,`` of a String[] initialiser."""
    n = len(literals)
    results: List[Optional[list]] = [None] * n
    ok_idx = []
    for i, l in enumerate(literals):
        if not encodable(l):
            results[i] = ["rej", "source not encodable as UTF-8"]
        else:
            ok_idx.append(i)
    if True:
        def attempt(idxs: List[int], work: pathlib.Path) -> Optional[List[int]]:
            CH = 1500
            chunks = [idxs[k:k + CH] for k in range(0, len(idxs), CH)]
            line_of = {}
            names = []
            for ci, chunk in enumerate(chunks):
                name = f"L{ci}"
                names.append(name)
                lines = [f"public class {name} {{ static final String[] A = {{"]
                for i in chunk:
                    if "\n" in literals[i] or "\r" in literals[i]:
                        # keep one literal per line: a raw line break inside the literal
                        # makes the line numbering useless -> compile it alone
                        if len(idxs) > 1:
                            line_of[(name, len(lines) + 1)] = i
                    line_of[(name, len(lines) + 1)] = i
                    lines.append(literals[i] + ",")
                lines.append("}; }")
                (work / f"{name}.java").write_bytes("\n".join(lines).encode("utf-8"))
            main = ["public class Main { public static void main(String[] a) throws Exception {",
                    " StringBuilder b = new StringBuilder();",
                    " String[][] all = {" + ",".join(f"{nm}.A" for nm in names) + "};",
                    " for (String[] arr : all) for (String s : arr) {",
                    "  for (int i = 0; i < s.length(); i++) { b.append((int) s.charAt(i)); b.append(' '); }",
                    "  b.append('\\n'); }",
                    " System.out.print(b); } }"]
            (work / "Main.java").write_text("\n".join(main))
            rc, out = lib.sh(["javac", "-encoding", "UTF-8", "-Xmaxerrs", "100000", "-nowarn", "-proc:none",
                              "-d", str(work / "out"), "Main.java"] + [f"{nm}.java" for nm in names],
                             cwd=work, timeout=900)
            if rc != 0:
                blamed = set()
                for m in re.finditer(r"^(L\d+)\.java:(\d+): error", out, re.M):
                    key = (m.group(1), int(m.group(2)))
                    if key in line_of:
                        blamed.add(line_of[key])
                multi = [i for i in idxs if "\n" in literals[i] or "\r" in literals[i]]
                return sorted(blamed | set(multi)) if len(idxs) > 1 else []
            rc, out = lib.sh(["java", "-Xss16m", "-cp", str(work / "out"), "Main"], cwd=work, timeout=900)
            if rc != 0:
                raise lib.HarnessError("java oracle run failed: " + out[-2000:])
            rows = out.split("\n")
            for k, i in enumerate(idxs):
                results[i] = ["ok", [int(x) for x in rows[k].split()]]
            return None

        _isolate(n, attempt, results, ok_idx)
    return results


def gxx_eval(literals: Sequence[str], kind: str):
    """kind: 'wide' (L"..." pieces), 'narrow' ("..."), 'wchar' (a wchar_t expression)."""
    n = len(literals)
    results: List[Optional[list]] = [None] * n
    ok_idx = []
    for i, l in enumerate(literals):
        if not encodable(l):
            results[i] = ["rej", "source not encodable as UTF-8"]
        else:
            ok_idx.append(i)
    ctype = {"wide": "wchar_t", "narrow": "char", "wchar": "wchar_t"}[kind]
    if True:
        def attempt(idxs: List[int], work: pathlib.Path) -> Optional[List[int]]:
            lines = ["#include <cstdio>", "#include <cstddef>",
                     "#define E(x) {x, sizeof(x)/sizeof(x[0]) - 1}",
                     f"struct Lit {{ const {ctype}* p; size_t n; }};"]
            line_of = {}
            if kind == "wchar":
                lines.append("static const wchar_t lits[] = {")
            else:
                lines.append("static const Lit lits[] = {")
            for i in idxs:
                line_of[len(lines) + 1] = i
                lines.append((literals[i] if kind == "wchar" else f"E({literals[i]})") + ",")
            lines.append("};")
            if kind == "wchar":
                lines.append("int main(){ for (wchar_t c : lits) printf(\"%lu\\n\", (unsigned long)(unsigned int)c); }")
            else:
                cast = "(unsigned long)(unsigned char)" if kind == "narrow" else "(unsigned long)(unsigned int)"
                lines.append("int main(){ for (const Lit& l : lits) { for (size_t i = 0; i < l.n; i++) "
                             f"printf(\"%lu \", {cast}l.p[i]); printf(\"\\n\"); }} }}")
            (work / "lits.cpp").write_bytes("\n".join(lines).encode("utf-8"))
            rc, out = lib.sh(["g++", "-std=c++11", "-pedantic-errors", "-fmax-errors=0", "-finput-charset=UTF-8",
                              "-o", "lits", "lits.cpp"], cwd=work, timeout=900)
            if rc != 0:
                blamed = set()
                for m in re.finditer(r"^lits\.cpp:(\d+):\d+: (?:error|warning)", out, re.M):
                    if int(m.group(1)) in line_of:
                        blamed.add(line_of[int(m.group(1))])
                multi = [i for i in idxs if "\n" in literals[i]]
                return sorted(blamed | set(multi)) if len(idxs) > 1 else []
            rc, out = lib.sh([str(work / "lits")], cwd=work, timeout=300)
            if rc != 0:
                raise lib.HarnessError("g++ oracle run failed: " + out[-2000:])
            rows = out.split("\n")
            for k, i in enumerate(idxs):
                results[i] = ["ok", [int(x) for x in rows[k].split()]]
            return None

        _isolate(n, attempt, results, ok_idx)
    return results


# --------------------------------------------------------------------------------------
# Inputs
# --------------------------------------------------------------------------------------
INTERESTING = (
    ["\x00", "\x01", "\x07", "\x08", "\t", "\n", "\x0b", "\x0c", "\r", "\x1a", "\x1b", "\x1f", " ",
     '"', "'", "\\", "`", "$", "{", "}", "?", "%",
     "0", "1", "7", "8", "9", "a", "b", "f", "A", "F", "g", "n", "u", "U", "x", "N", "L",
     "\x7f", "\x80", "\x85", "\xa0", "\xfe", "\xff", "\u0100", "\u2028", "\u2029", "\ufeff",
     "\ud7ff", "\ud800", "\udbff", "\udc00", "\udfff", "\ue000", "\uffff", "\U00010000",
     "\U0001f600", "\U0010ffff"]
)


def random_string(rng, maxlen: int = 12) -> str:
    n = rng.choice([0, 1, 2, 3, 4, 6, 8, maxlen])
    out = []
    for _ in range(n):
        r = rng.random()
        if r < 0.6:
            out.append(rng.choice(INTERESTING))
        elif r < 0.8:
            out.append(chr(rng.randrange(0x20, 0x7F)))
        elif r < 0.9:
            out.append(chr(rng.randrange(0, 0x300)))
        else:
            out.append(chr(rng.randrange(0, 0x110000)))
    return "".join(out)
