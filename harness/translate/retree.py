"""parse/retree: the data-like parts of the regex front end -> Gen/GenRetreeTables.v.

* ``Renderer._ESCAPING_IN_CHARACTER_LITERALS`` and ``Renderer._ESCAPING_IN_RANGE``
  (``_render.py``) as association lists code point -> escaped text;
* the ``if cursor.try_literal("\\\\…") … elif …`` chains of ``_parse_char_literal`` and
  ``_parse_range_char`` (``_parse.py``): which two-character escapes decode to which
  code point, which ones are answered with an ``Error``, the ``\\x``/``\\u``/``\\U``
  branches (number of hexadecimal digits, accepted code range), the literals whose
  branch raises ``AssertionError`` and the ones that stop the concatenation.

Fail closed: every statement shape that is not recognised raises ``TranslateError``.
"""
from __future__ import annotations

import ast
from typing import Dict, List, Optional, Tuple

from harness.translate.astutil import TranslateError, find_function, parse

PARSE = "aas_core_codegen/parse/retree/_parse.py"
RENDER = "aas_core_codegen/parse/retree/_render.py"


def _lit_call(node: ast.AST, method: str) -> Optional[str]:
    """``cursor.<method>("lit")`` (positional or ``literal=``) -> "lit"."""
    if not (isinstance(node, ast.Call) and isinstance(node.func, ast.Attribute)
            and node.func.attr == method and isinstance(node.func.value, ast.Name)
            and node.func.value.id == "cursor"):
        return None
    args = list(node.args) + [k.value for k in node.keywords if k.arg == "literal"]
    if len(args) != 1 or not (isinstance(args[0], ast.Constant) and isinstance(args[0].value, str)):
        raise TranslateError(f"unexpected arguments of cursor.{method}")
    return args[0].value


def _test_literals(test: ast.AST) -> Tuple[str, List[str]]:
    """The test of one branch -> (method, literals); ``a or b`` gives both literals."""
    parts = test.values if isinstance(test, ast.BoolOp) and isinstance(test.op, ast.Or) else [test]
    method = None
    lits = []
    for p in parts:
        for m in ("try_literal", "peek_literal"):
            lit = _lit_call(p, m)
            if lit is not None:
                if method not in (None, m):
                    raise TranslateError("mixed try_literal/peek_literal in one test")
                method = m
                lits.append(lit)
                break
        else:
            raise TranslateError(f"unrecognised branch test: {ast.dump(p)[:120]}")
    return method, lits


def _is_error_return(stmt: ast.stmt) -> bool:
    """``return None, Error(...)``"""
    return (isinstance(stmt, ast.Return) and isinstance(stmt.value, ast.Tuple)
            and len(stmt.value.elts) == 2
            and isinstance(stmt.value.elts[0], ast.Constant) and stmt.value.elts[0].value is None
            and isinstance(stmt.value.elts[1], ast.Call)
            and isinstance(stmt.value.elts[1].func, ast.Name)
            and stmt.value.elts[1].func.id == "Error")


def _is_none_none_return(stmt: ast.stmt) -> bool:
    return (isinstance(stmt, ast.Return) and isinstance(stmt.value, ast.Tuple)
            and len(stmt.value.elts) == 2
            and all(isinstance(e, ast.Constant) and e.value is None for e in stmt.value.elts))


def _char_ctor(stmt: ast.stmt) -> Optional[Tuple[ast.AST, bool]]:
    """``result = Char(character=<expr>[, explicitly_encoded=True])`` -> (expr, encoded)."""
    if not (isinstance(stmt, ast.Assign) and len(stmt.targets) == 1
            and isinstance(stmt.targets[0], ast.Name) and stmt.targets[0].id == "result"
            and isinstance(stmt.value, ast.Call) and isinstance(stmt.value.func, ast.Name)
            and stmt.value.func.id == "Char" and not stmt.value.args):
        return None
    kw = {k.arg: k.value for k in stmt.value.keywords}
    if set(kw) - {"character", "explicitly_encoded"} or "character" not in kw:
        raise TranslateError("unexpected Char(...) arguments")
    enc = False
    if "explicitly_encoded" in kw:
        v = kw["explicitly_encoded"]
        if not (isinstance(v, ast.Constant) and isinstance(v.value, bool)):
            raise TranslateError("explicitly_encoded is not a constant")
        enc = v.value
    return kw["character"], enc


def _hex_branch(body: List[ast.stmt], letter: str) -> Tuple[int, Optional[Tuple[int, int]]]:
    """Check the shape of a ``\\x``/``\\u``/``\\U`` branch; -> (digits, accepted range)."""
    src = "\n".join(ast.unparse(s) for s in body)
    # substring = cursor.try_substring(length=N)
    first = body[0]
    if not (isinstance(first, ast.Assign) and isinstance(first.value, ast.Call)
            and isinstance(first.value.func, ast.Attribute)
            and first.value.func.attr == "try_substring"):
        raise TranslateError(f"\\{letter}: branch does not start with try_substring")
    kws = {k.arg: k.value for k in first.value.keywords}
    if list(kws) != ["length"] or not isinstance(kws["length"], ast.Constant):
        raise TranslateError(f"\\{letter}: try_substring without constant length")
    n = kws["length"].value
    # if substring is None: return None, Error
    second = body[1]
    if not (isinstance(second, ast.If) and ast.unparse(second.test) == "substring is None"
            and len(second.body) == 1 and _is_error_return(second.body[0]) and not second.orelse):
        raise TranslateError(f"\\{letter}: missing 'substring is None' error")
    third = body[2]
    want = f"not re.fullmatch('[a-fA-F0-9]{{{n}}}', substring)"
    if not (isinstance(third, ast.If) and ast.unparse(third.test) == want
            and len(third.body) == 1 and _is_error_return(third.body[0]) and not third.orelse):
        raise TranslateError(f"\\{letter}: hex-digit test changed: {ast.unparse(third.test) if isinstance(third, ast.If) else third}")
    rest = body[3:]
    rng = None
    if len(rest) == 1:
        cc = _char_ctor(rest[0])
        if cc is None or not cc[1] or ast.unparse(cc[0]) != "chr(int(substring, 16))":
            raise TranslateError(f"\\{letter}: unexpected result construction")
    elif len(rest) == 3:
        a, b, c = rest
        if not (isinstance(a, ast.Assign) and ast.unparse(a) == "code = int(substring, 16)"):
            raise TranslateError(f"\\{letter}: expected code = int(substring, 16)")
        if not (isinstance(b, ast.If) and len(b.body) == 1 and _is_error_return(b.body[0])
                and not b.orelse and isinstance(b.test, ast.BoolOp) and isinstance(b.test.op, ast.Or)
                and len(b.test.values) == 2):
            raise TranslateError(f"\\{letter}: expected the code range test")
        lo_t, hi_t = b.test.values
        if not (isinstance(lo_t, ast.Compare) and ast.unparse(lo_t.left) == "code"
                and isinstance(lo_t.ops[0], ast.Lt) and isinstance(lo_t.comparators[0], ast.Constant)
                and isinstance(hi_t, ast.Compare) and ast.unparse(hi_t.left) == "code"
                and isinstance(hi_t.ops[0], ast.Gt) and isinstance(hi_t.comparators[0], ast.Constant)):
            raise TranslateError(f"\\{letter}: code range test has an unexpected shape")
        rng = (lo_t.comparators[0].value, hi_t.comparators[0].value)
        cc = _char_ctor(c)
        if cc is None or not cc[1] or ast.unparse(cc[0]) != "chr(code)":
            raise TranslateError(f"\\{letter}: unexpected result construction")
    else:
        raise TranslateError(f"\\{letter}: unexpected number of statements\n{src}")
    return n, rng


def _chain(fn: ast.FunctionDef) -> Dict[str, object]:
    """Translate the if/elif chain of ``_parse_char_literal`` / ``_parse_range_char``."""
    ifs = [s for s in fn.body if isinstance(s, ast.If)]
    # the chain is the If whose first test is cursor.try_literal("\\x")
    chain = None
    for s in ifs:
        try:
            m, lits = _test_literals(s.test)
        except TranslateError:
            continue
        if m == "try_literal" and lits == ["\\x"]:
            chain = s
    if chain is None:
        raise TranslateError(f"{fn.name}: escape chain not found")
    hexes: List[Tuple[str, int, Optional[Tuple[int, int]]]] = []
    simple: List[Tuple[str, str]] = []
    unsupported: List[str] = []
    asserts: List[str] = []
    stops: List[str] = []
    seen_backslash = False
    seen_single = False
    node: Optional[ast.stmt] = chain
    else_body: List[ast.stmt] = []
    while node is not None:
        assert isinstance(node, ast.If)
        method, lits = _test_literals(node.test)
        body = node.body
        if method == "peek_literal":
            if not (len(body) == 1 and _is_none_none_return(body[0])):
                raise TranslateError(f"{fn.name}: peek_literal branch is not 'return None, None'")
            if any(len(x) != 1 for x in lits):
                raise TranslateError("stop literal is not a single character")
            stops += lits
            seen_single = True
        elif all(len(x) == 2 and x[0] == "\\" for x in lits):
            if seen_backslash or seen_single:
                raise TranslateError(f"{fn.name}: a two-character escape after the catch-all")
            if len(body) == 1 and _is_error_return(body[0]):
                unsupported += [x[1] for x in lits]
            elif len(lits) == 1 and len(body) == 1 and _char_ctor(body[0]) is not None:
                expr, enc = _char_ctor(body[0])
                if enc or not (isinstance(expr, ast.Constant) and isinstance(expr.value, str)
                               and len(expr.value) == 1):
                    raise TranslateError(f"{fn.name}: escape {lits[0]!r} has an unexpected result")
                simple.append((lits[0][1], expr.value))
            elif len(lits) == 1 and lits[0][1] in "xuU":
                n, rng = _hex_branch(body, lits[0][1])
                hexes.append((lits[0][1], n, rng))
            else:
                raise TranslateError(f"{fn.name}: unrecognised branch for {lits}")
        elif lits == ["\\"]:
            if not (len(body) == 1 and _is_error_return(body[0])):
                raise TranslateError(f"{fn.name}: lone backslash is not an Error")
            seen_backslash = True
        elif all(len(x) == 1 and x != "\\" for x in lits) and len(lits) == 1:
            if not seen_backslash:
                raise TranslateError(f"{fn.name}: single literal {lits} before the backslash catch-all")
            if not (len(body) == 1 and isinstance(body[0], ast.Raise)
                    and isinstance(body[0].exc, ast.Call)
                    and isinstance(body[0].exc.func, ast.Name)
                    and body[0].exc.func.id == "AssertionError"):
                raise TranslateError(f"{fn.name}: branch for {lits} is not 'raise AssertionError'")
            asserts += lits
            seen_single = True
        else:
            raise TranslateError(f"{fn.name}: unrecognised literal(s) {lits}")
        if len(node.orelse) == 1 and isinstance(node.orelse[0], ast.If):
            node = node.orelse[0]
        else:
            else_body = node.orelse
            node = None
    if not seen_backslash:
        raise TranslateError(f"{fn.name}: no catch-all for the backslash")
    # else: character = cursor.try_substring(length=1) ... result = Char(character=character)
    if not else_body or ast.unparse(else_body[0]) != "character = cursor.try_substring(length=1)":
        raise TranslateError(f"{fn.name}: final else does not read one character")
    cc = _char_ctor(else_body[-1])
    if cc is None or cc[1] or ast.unparse(cc[0]) != "character":
        raise TranslateError(f"{fn.name}: final else does not build Char(character)")
    letters = [h[0] for h in hexes] + [s[0] for s in simple] + unsupported
    if len(set(letters)) != len(letters):
        raise TranslateError(f"{fn.name}: an escape letter occurs twice: {letters}")
    return {"hex": hexes, "simple": simple, "unsupported": unsupported,
            "assert": asserts, "stop": stops}


def _requires(fn: ast.FunctionDef) -> List[str]:
    out = []
    for d in fn.decorator_list:
        if isinstance(d, ast.Call) and isinstance(d.func, ast.Name) and d.func.id == "require":
            lam = d.args[0]
            if not isinstance(lam, ast.Lambda):
                raise TranslateError("require without a lambda")
            out.append(ast.unparse(lam.body))
    return out


def _dict(cls: ast.ClassDef, name: str) -> List[Tuple[str, str]]:
    for s in cls.body:
        if (isinstance(s, ast.Assign) and len(s.targets) == 1
                and isinstance(s.targets[0], ast.Name) and s.targets[0].id == name):
            if not isinstance(s.value, ast.Dict):
                raise TranslateError(f"{name} is not a dict literal")
            out = []
            for k, v in zip(s.value.keys, s.value.values):
                if not (isinstance(k, ast.Constant) and isinstance(k.value, str)
                        and isinstance(v, ast.Constant) and isinstance(v.value, str)):
                    raise TranslateError(f"{name}: non-constant entry")
                if len(k.value) != 1:
                    raise TranslateError(f"{name}: key {k.value!r} is not one character")
                out.append((k.value, v.value))
            if len({k for k, _ in out}) != len(out):
                raise TranslateError(f"{name}: duplicate key")
            return out
    raise TranslateError(f"{name} not found in Renderer")


def _n(c: str) -> str:
    return str(ord(c))


def _txt(s: str) -> str:
    return "[" + "; ".join(_n(c) for c in s) + "]"


def _pairs(ps) -> str:
    return "[" + "; ".join(f"({_n(a)}, {_n(b)})" for a, b in ps) + "]"


def _hexes(hs) -> str:
    items = []
    for letter, n, rng in hs:
        r = "None" if rng is None else f"(Some ({rng[0]}, {rng[1]}))"
        items.append(f"({_n(letter)}, {n}%nat, {r})")
    return "[" + "; ".join(items) + "]"


def gen_tables() -> str:
    tree = parse(PARSE)
    lit_fn = find_function(tree, "_parse_char_literal")
    rng_fn = find_function(tree, "_parse_range_char")
    lit = _chain(lit_fn)
    rng = _chain(rng_fn)
    if rng["assert"] or rng["stop"]:
        raise TranslateError("_parse_range_char has assert/stop literals")
    # the preconditions of _parse_range_char that the model turns into Crash Violation
    req = sorted(_requires(rng_fn))
    if req != sorted(["not cursor.peek_literal('-')", "not cursor.done()"]):
        raise TranslateError(f"_parse_range_char preconditions changed: {req}")
    # _parse_char_literal starts with `if cursor.done(): return None, None`
    first_if = next((s for s in lit_fn.body if isinstance(s, ast.If)), None)
    if not (first_if is not None and ast.unparse(first_if.test) == "cursor.done()"
            and len(first_if.body) == 1 and _is_none_none_return(first_if.body[0])):
        raise TranslateError("_parse_char_literal does not start with the done() test")

    rtree = parse(RENDER)
    cls = next((n for n in ast.walk(rtree) if isinstance(n, ast.ClassDef) and n.name == "Renderer"), None)
    if cls is None:
        raise TranslateError("class Renderer not found")
    esc_lit = _dict(cls, "_ESCAPING_IN_CHARACTER_LITERALS")
    esc_rng = _dict(cls, "_ESCAPING_IN_RANGE")
    # both tables are used where the model uses them
    src = ast.unparse(cls)
    if src.count("escaping=Renderer._ESCAPING_IN_CHARACTER_LITERALS") != 1 \
            or src.count("escaping=Renderer._ESCAPING_IN_RANGE") != 2:
        raise TranslateError("the escaping tables are used differently than modelled")

    def esc(ps):
        return "[" + ";\n   ".join(f"({_n(k)}, {_txt(v)})" for k, v in ps) + "]"

    out = [
        "From Coq Require Import List NArith.",
        "Import ListNotations.",
        "Open Scope N_scope.",
        "(* _parse_char_literal: escape letter (after the backslash) -> decoded code point *)",
        f"Definition gen_lit_simple : list (N * N) := {_pairs(lit['simple'])}.",
        f"Definition gen_lit_unsupported : list N := [{'; '.join(_n(c) for c in lit['unsupported'])}].",
        f"Definition gen_lit_hex : list (N * nat * option (N * N)) := {_hexes(lit['hex'])}.",
        "(* single literals whose branch raises AssertionError / returns (None, None) *)",
        f"Definition gen_lit_assert : list N := [{'; '.join(_n(c) for c in lit['assert'])}].",
        f"Definition gen_lit_stop : list N := [{'; '.join(_n(c) for c in lit['stop'])}].",
        "(* _parse_range_char *)",
        f"Definition gen_rng_simple : list (N * N) := {_pairs(rng['simple'])}.",
        f"Definition gen_rng_unsupported : list N := [{'; '.join(_n(c) for c in rng['unsupported'])}].",
        f"Definition gen_rng_hex : list (N * nat * option (N * N)) := {_hexes(rng['hex'])}.",
        "(* Renderer._ESCAPING_IN_CHARACTER_LITERALS / _ESCAPING_IN_RANGE *)",
        f"Definition gen_esc_lit : list (N * list N) :=\n  {esc(esc_lit)}.",
        f"Definition gen_esc_rng : list (N * list N) :=\n  {esc(esc_rng)}.",
    ]
    return "\n".join(out) + "\n"


GEN_FILES = {"GenRetreeTables": gen_tables}
