#!/usr/bin/env python3
"""Run checks against the seeded changes kept under /verif/seeded/<name>/.

For each seeded change (patch.diff + meta.json {"property": "Cnn", ...}) a scratch copy of
/repo is made, the patch applied, and `./check <property> --tier quick` is run from a
scratch copy of /verif with VERIF_REPO pointing at the patched repo (so neither /repo nor
the Gen files of /verif are disturbed). Prints one line per change: detected / MISSED.

usage: tools/run_seeded.py [name ...]   (default: all)   [--tier thorough] [--keep]
"""
import json, os, pathlib, shutil, subprocess, sys, tempfile
ROOT = pathlib.Path(__file__).resolve().parent.parent
args = [a for a in sys.argv[1:] if not a.startswith("--")]
tier = "thorough" if "--tier=thorough" in sys.argv or "--thorough" in sys.argv else "quick"
names = args or sorted(p.name for p in (ROOT / "seeded").iterdir() if (p / "patch.diff").exists())
results = {}
scratch = pathlib.Path(tempfile.mkdtemp(prefix="seeded-", dir="/tmp"))
try:
    vcopy = scratch / "verif"
    subprocess.run(["rsync", "-a", "--exclude", "work/*", "--exclude", ".git", "--exclude", "replays/*",
                    f"{ROOT}/", f"{vcopy}/"], check=True)
    (vcopy / "work").mkdir(exist_ok=True)
    for name in names:
        d = ROOT / "seeded" / name
        meta = json.loads((d / "meta.json").read_text())
        props = meta["property"] if isinstance(meta["property"], list) else [meta["property"]]
        props = meta.get("checks", props)
        rcopy = scratch / "repo"
        if rcopy.exists():
            shutil.rmtree(rcopy)
        subprocess.run(["rsync", "-a", "--exclude", ".git", "/repo/", f"{rcopy}/"], check=True)
        ap = subprocess.run(["git", "apply", "--unsafe-paths", f"--directory={rcopy}", str(d / "patch.diff")],
                            cwd="/", capture_output=True, text=True)
        if ap.returncode != 0:
            ap = subprocess.run(["patch", "-p1", "-d", str(rcopy), "-i", str(d / "patch.diff")],
                                capture_output=True, text=True)
        if ap.returncode != 0:
            print(f"{name}: PATCH-DOES-NOT-APPLY {ap.stderr[-300:]}")
            results[name] = "patch-failed"
            continue
        detected_by = []
        for prop in props:
            env = dict(os.environ, VERIF_REPO=str(rcopy))
            p = subprocess.run(["./check", prop, "--tier", tier], cwd=vcopy, env=env,
                               capture_output=True, text=True)
            viol = [l for l in p.stdout.splitlines() if l.startswith("VIOLATION")]
            if p.returncode == 1 and viol:
                detected_by.append((prop, viol[0]))
            elif p.returncode not in (0, 1):
                detected_by.append((prop, f"HARNESS-ERROR rc={p.returncode}: {p.stderr[-300:]}"))
        status = "detected" if any("VIOLATION" in v for _, v in detected_by) else "MISSED"
        results[name] = status
        print(f"{name}: {status} {detected_by}")
finally:
    if "--keep" not in sys.argv:
        shutil.rmtree(scratch, ignore_errors=True)
print(json.dumps(results))
