"""Adapter (C23): full command-line runs (aas_core_codegen.main.main) sharing one TMPDIR.

stdin : {"scenarios": [{"target": t, "snippets": {name: content}, "runs": [[text, flag], ...]}]}
stdout: {"version":…, "scenarios": [{"tmp":…, "runs": [{"rc", "stdout", "stderr", "tree",
         "events", "listing", "out"}]}]}
Each run is a forked child with its own argv, stdout/stderr files, audit hook, and a
fresh output directory; stdout is reported with the output directory replaced by <out>.
"""
import hashlib
import json
import os
import pathlib
import sys

sys.path.insert(0, os.path.dirname(os.path.abspath(__file__)))
import cachelib  # noqa: E402

import aas_core_codegen  # noqa: E402
import aas_core_codegen.main  # noqa: E402


def cli_run(argv, so, se):
    fo = os.open(so, os.O_WRONLY | os.O_CREAT | os.O_TRUNC)
    fe = os.open(se, os.O_WRONLY | os.O_CREAT | os.O_TRUNC)
    sys.stdout.flush()
    sys.stderr.flush()
    os.dup2(fo, 1)
    os.dup2(fe, 2)
    events = []
    cachelib.install_audit(events)
    sys.argv = argv
    try:
        rc = aas_core_codegen.main.main("aas-core-codegen")
    except SystemExit as e:
        rc = e.code if isinstance(e.code, int) else 2
    except BaseException as e:  # noqa
        rc = f"exc:{type(e).__name__}"
    sys.stdout.flush()
    sys.stderr.flush()
    return {"rc": rc, "events": list(events)}


def cli_run_inproc(argv, so, se):
    sink = cachelib._SINK["events"]
    cachelib.audit_to(None)              # the capture files are the observer's, not the run's
    fo, fe = open(so, "w", encoding="utf-8"), open(se, "w", encoding="utf-8")
    cachelib.audit_to(sink)
    old = (sys.stdout, sys.stderr, sys.argv)
    sys.stdout, sys.stderr, sys.argv = fo, fe, argv
    try:
        try:
            rc = aas_core_codegen.main.main("aas-core-codegen")
        except SystemExit as e:
            rc = e.code if isinstance(e.code, int) else 2
        except BaseException as e:  # noqa
            rc = f"exc:{type(e).__name__}"
    finally:
        cachelib.audit_to(None)
        sys.stdout, sys.stderr, sys.argv = old
        fo.close()
        fe.close()
    return {"rc": rc}


def tree(d):
    out = {}
    base = pathlib.Path(d)
    if not base.exists():
        return out
    for p in sorted(base.rglob("*")):
        if p.is_file():
            out[str(p.relative_to(base))] = hashlib.sha256(p.read_bytes()).hexdigest()[:16]
    return out


def main():
    payload = json.load(sys.stdin)
    base = pathlib.Path.cwd()
    res = []
    for i, sc in enumerate(payload["scenarios"]):
        sd = base / f"s{i}"
        tmp = sd / "tmp"
        tmp.mkdir(parents=True)
        snip = sd / "snippets"
        snip.mkdir()
        for name, content in sc["snippets"].items():
            (snip / name).write_text(content, encoding="utf-8")
        model = sd / "model.py"
        runs = []
        for j, (text, flag) in enumerate(sc["runs"]):
            model.write_text(text, encoding="utf-8")
            out = sd / f"out{j}"
            argv = ["aas-core-codegen", "--model_path", str(model), "--snippets_dir", str(snip),
                    "--output_dir", str(out), "--target", sc["target"]]
            if flag:
                argv.append("--cache_model")
            so, se = sd / f"stdout{j}.txt", sd / f"stderr{j}.txt"
            if payload.get("isolation", "fork") == "fork" or i < payload.get("fork_first", 0):
                r = cachelib.run_child(lambda: cli_run(argv, str(so), str(se)), tmpdir=tmp)
            else:
                r = cachelib.run_inproc(lambda: cli_run_inproc(argv, str(so), str(se)), tmp)
            d = r["data"] or {"rc": f"child-exit-{r['exit']}", "events": []}
            d["stdout"] = so.read_text(errors="replace").replace(str(out), "<out>") if so.exists() else ""
            d["stderr"] = se.read_text(errors="replace").replace(str(out), "<out>") if se.exists() else ""
            d["tree"] = tree(out)
            d["listing"] = cachelib.list_tmp(tmp)
            d["out"] = str(out)
            d["argv"] = argv
            runs.append(d)
        res.append({"tmp": str(tmp), "dir": str(sd), "runs": runs})
    json.dump({"version": aas_core_codegen.__version__, "scenarios": res}, sys.stdout)


main()
