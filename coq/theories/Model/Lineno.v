(** Model of [aas_core_codegen.common.LinenoColumner] (C04).

    [positions] is the character-offset -> (line, column) table built by the loop of
    [LinenoColumner.__init__] over the *whole* source text ([atok.text]); [locate] is
    the table look-up [self.positions[start]] of [error_message] (a Python list index:
    out of range = [Crash IndexError]).

    The model describes the code *with the fix* [work/fixes/C04-lineno-columns.patch]:
    the column counter is reset to [0] at a line break (the unchanged tree resets it to
    [1], which shifts every column after the first line by one) and the loop runs over
    [atok.text] (the unchanged tree runs over [atok.get_text(atok.tree)], which does not
    start at offset 0 when the first line is blank-with-spaces or an indented comment).

    Hand-written; tied to the code by the correspondence streams of
    [harness/props/c04.py]. Executable definitions only. *)
From Coq Require Import List NArith ZArith Bool.
From Acg Require Import Base.Str Base.Outcome.
Import ListNotations.
Open Scope Z_scope.

(** Value of [column] right after a line break was seen. *)
Definition column_after_newline : Z := 0.

(** The [for character in text] loop; state = ([lineno], [column]). *)
Fixpoint positions_loop (t : text) (lineno column : Z) : list (Z * Z) :=
  match t with
  | [] => []
  | c :: r =>
      if N.eqb c NL
      then (lineno + 1, column_after_newline)
             :: positions_loop r (lineno + 1) column_after_newline
      else (lineno, column + 1) :: positions_loop r lineno (column + 1)
  end.

Definition positions (t : text) : list (Z * Z) := positions_loop t 1 0.

(** Python [l[i]] for [i >= 0] (asttokens offsets are never negative). *)
Fixpoint nth_z {A} (l : list A) (i : Z) : option A :=
  match l with
  | [] => None
  | x :: r => if i =? 0 then Some x else nth_z r (i - 1)
  end.

(** [lineno, column = self.positions[start]]. *)
Definition locate (t : text) (start : Z) : outcome (Z * Z) unit :=
  if start <? 0 then Crash IndexError   (* outside the model: never produced *)
  else match nth_z (positions t) start with
       | Some p => Ok p
       | None => Crash IndexError
       end.

(** Fall-back of [error_message] for a node that asttokens did not mark (text range
    [(0, 0)]: the nodes nested in an f-string): Python's own [lineno] and [col_offset],
    the latter converted from UTF-8 bytes to characters,
    [len(line.encode("utf-8")[:col_offset].decode("utf-8")) + 1] with
    [line = text.split("\n")[lineno - 1]]. *)
Definition utf8_len (c : N) : Z :=
  if (c <? 128)%N then 1 else if (c <? 2048)%N then 2 else if (c <? 65536)%N then 3 else 4.

(** Number of whole characters in the first [bytes] bytes of the encoding; cutting a
    character in the middle is a [UnicodeDecodeError] ([ValueError]). *)
Fixpoint chars_in_bytes (line : text) (bytes : Z) : option Z :=
  if bytes =? 0 then Some 0
  else if bytes <? 0 then None
  else match line with
       | [] => Some 0        (* a slice beyond the end is the whole line *)
       | c :: r => match chars_in_bytes r (bytes - utf8_len c) with
                   | Some n => Some (1 + n)
                   | None => None
                   end
       end.

Definition locate_unmarked (t : text) (lineno col_offset : Z) : outcome (Z * Z) unit :=
  if lineno <? 1 then Crash IndexError   (* outside the model: lineno >= 1 *)
  else match nth_z (split_on NL t) (lineno - 1) with
       | None => Crash IndexError
       | Some line =>
           match chars_in_bytes line col_offset with
           | Some n => Ok (lineno, n + 1)
           | None => Crash ValueError
           end
       end.

(** The whole position look-up of [error_message]. [unmarked] = the node is an
    expression or statement and asttokens gave the range [(0, 0)]. *)
Definition report_position (t : text) (start : Z) (unmarked : option (Z * Z))
  : outcome (Z * Z) unit :=
  match unmarked with
  | Some (lineno, col_offset) => locate_unmarked t lineno col_offset
  | None => locate t start
  end.

Fixpoint utf8_size (t : text) : Z :=
  match t with [] => 0 | c :: r => utf8_len c + utf8_size r end.

(** Independent specification functions used by the theorems and by the harness. *)
Fixpoint count_nl (t : text) : Z :=
  match t with
  | [] => 0
  | c :: r => (if N.eqb c NL then 1 else 0) + count_nl r
  end.

Definition pos_eqb (a b : Z * Z) : bool :=
  Z.eqb (fst a) (fst b) && Z.eqb (snd a) (snd b).

Definition loc_eqb (a b : outcome (Z * Z) unit) : bool :=
  match a, b with
  | Ok p, Ok q => pos_eqb p q
  | Crash _, Crash _ => true
  | _, _ => false
  end.
