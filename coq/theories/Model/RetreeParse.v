(** Executable model of [aas_core_codegen/parse/retree/_parse.py] (with the C16 fixes
    applied, see docs/C16.md): [Cursor], [_parse_char_literal], [_parse_range_char],
    [_parse_ranges_and_closing], [_parse_concatenation], [_parse_union],
    [_parse_regex], [parse].

    The cursor over [values : Sequence[str | FormattedValue]] is modelled by the flat
    token list of the values ([tokens_of_values]): [peek_literal]/[try_substring] never
    look across a value boundary, which on the flat list is "the next n tokens are all
    characters". This is faithful when no two strings are adjacent and only the last
    value may be the empty string — exactly the precondition of [Cursor.__init__] and
    its class invariant; [parse_values] answers [Crash Violation] otherwise, as the
    code does.

    Every [assert] / [raise AssertionError] / [@require] of the code that guards a
    path of the parser is an explicit [Crash] here (they are shown unreachable in
    Proofs/RetreeTotal.v). Errors carry no payload: the property only observes that a
    positioned [Error] is returned. No proofs in this file. *)
From Coq Require Import List NArith Bool.
From Acg Require Import Base.Str Base.Outcome Model.Retree.
Import ListNotations.
Open Scope N_scope.

(** The data-like parts, re-translated from the source on every run
    (Gen/GenRetreeTables.v). *)
Record tables : Type := mkTables {
  lit_simple : list (N * N);      (* _parse_char_literal: "\\e" -> Char(code), in order *)
  lit_unsupported : list N;       (* "\\s" "\\S" "\\w" ... -> Error *)
  lit_assert : list N;            (* literals whose branch raises AssertionError *)
  lit_stop : list N;              (* peek_literal(")") / ("|") -> (None, None) *)
  rng_simple : list (N * N);      (* _parse_range_char *)
  rng_unsupported : list N;
  esc_lit : list (N * text);      (* Renderer._ESCAPING_IN_CHARACTER_LITERALS *)
  esc_rng : list (N * text)       (* Renderer._ESCAPING_IN_RANGE *)
}.

Fixpoint assocN {A} (k : N) (l : list (N * A)) : option A :=
  match l with
  | [] => None
  | (k', v) :: r => if N.eqb k k' then Some v else assocN k r
  end.

Definition presult (A : Type) : Type := outcome (A * list tok) unit.

Notation "'do2' ( a , r ) <- o ; f" :=
  (bind o (fun p => let '(a, r) := p in f))
  (at level 200, a name, r name, o at level 100, f at level 200).

(** [Cursor.try_substring(length=n)]: the next [n] characters of the pointed string. *)
Fixpoint take_chars (n : nat) (ts : list tok) : option (text * list tok) :=
  match n with
  | O => Some ([], ts)
  | S n' =>
      match ts with
      | C c :: r =>
          match take_chars n' r with
          | Some (cs, r') => Some (c :: cs, r')
          | None => None
          end
      | _ => None
      end
  end.

Definition hex_digit (c : N) : option N :=
  if (48 <=? c) && (c <=? 57) then Some (c - 48)
  else if (97 <=? c) && (c <=? 102) then Some (c - 87)
  else if (65 <=? c) && (c <=? 70) then Some (c - 55)
  else None.

Fixpoint hex_value (acc : N) (cs : text) : option N :=
  match cs with
  | [] => Some acc
  | c :: r =>
      match hex_digit c with
      | Some d => hex_value (16 * acc + d) r
      | None => None
      end
  end.

(** "\\x" / "\\u" / "\\U" followed by exactly [n] hexadecimal digits. *)
Definition parse_hex_escape (n : nat) (astral_only : bool) (ts : list tok) : presult rchar :=
  match take_chars n ts with
  | None => Err tt
  | Some (cs, r) =>
      match hex_value 0 cs with
      | None => Err tt
      | Some v =>
          if astral_only && ((v <? 65536) || (1114111 <? v)) then Err tt
          else Ok (mkChar v true, r)
      end
  end.

(** [Quantifier.__init__] and [Term.__init__] with their [@require]s. *)
Definition mk_quantifier (ng : bool) (mn : N) (mx : option N) : outcome quantifier unit :=
  match mx with
  | Some m => if m <? mn then Crash Violation else Ok (mkQuant ng mn mx)
  | None => Ok (mkQuant ng mn mx)
  end.

Definition is_anchor (v : tvalue) : bool :=
  match v with
  | VSymbol SymStart | VSymbol SymEnd => true
  | _ => false
  end.

Definition is_some {A} (o : option A) : bool :=
  match o with Some _ => true | None => false end.

Definition mk_term (v : tvalue) (q : option quantifier) : outcome term unit :=
  if is_anchor v && is_some q then Crash Violation else Ok (v, q).

(** [Cursor.try_spaces_or_tabs] *)
Fixpoint skip_blanks (ts : list tok) : list tok :=
  match ts with
  | C c :: r => if (c =? 32) || (c =? 9) then skip_blanks r else ts
  | _ => ts
  end.

(** [Cursor.try_positive_integer_without_sign] (ASCII digits). *)
Definition is_digit (c : N) : bool := (48 <=? c) && (c <=? 57).

Fixpoint take_digits (ts : list tok) : text * list tok :=
  match ts with
  | C c :: r =>
      if is_digit c then let '(ds, r') := take_digits r in (c :: ds, r')
      else ([], ts)
  | _ => ([], ts)
  end.

Definition digits_value (ds : text) : N :=
  fold_left (fun a d => 10 * a + (d - 48)) ds 0.

Definition try_int (ts : list tok) : option N * list tok :=
  match take_digits ts with
  | ([], _) => (None, ts)
  | (ds, r) => (Some (digits_value ds), r)
  end.

(** [Cursor.try_literal(lit)] on the flat tokens: the rest after [lit], if the next
    tokens are exactly the characters of [lit]. *)
Fixpoint try_lit (lit : text) (ts : list tok) : option (list tok) :=
  match lit with
  | [] => Some ts
  | x :: lit' =>
      match ts with
      | C c :: r => if c =? x then try_lit lit' r else None
      | _ => None
      end
  end.

Definition peek_lit (lit : text) (ts : list tok) : bool := is_some (try_lit lit ts).

Notation "'iflit' l 'at' ts 'as' r 'then' a 'else' b" :=
  (match try_lit l ts with Some r => a | None => b end)
  (at level 200, r name, a at level 200, b at level 200).

(** The [{m,n}] branch after the opening brace has been consumed. *)
Definition parse_braces (ts : list tok) : presult quantifier :=
  let r1 := skip_blanks ts in
  let '(mn, r2) := try_int r1 in
  let r3 := skip_blanks r2 in
  let '(comma, r4) := iflit [44] at r3 as r then (true, r) else (false, r3) in
  let r5 := skip_blanks r4 in
  let '(mx, r6) := try_int r5 in
  let r7 := skip_blanks r6 in
  if negb (is_some mn) && negb (is_some mx) then Err tt
  else
    let mx' := if comma then mx else mn in
    let mn0 := match mn with Some m => m | None => 0 end in
    if match mx' with Some m => m <? mn0 | None => false end then Err tt
    else
      iflit [125; 63] at r7 as r then (do q <- mk_quantifier true mn0 mx'; Ok (q, r))
      else iflit [125] at r7 as r then (do q <- mk_quantifier false mn0 mx'; Ok (q, r))
      else Err tt.

Definition parse_quantifier (ts : list tok) : presult (option quantifier) :=
  iflit [42; 63] at ts as r then (do q <- mk_quantifier true 0 None; Ok (Some q, r))
  else iflit [43; 63] at ts as r then (do q <- mk_quantifier true 1 None; Ok (Some q, r))
  else iflit [63; 63] at ts as r then (do q <- mk_quantifier true 0 (Some 1); Ok (Some q, r))
  else iflit [42] at ts as r then (do q <- mk_quantifier false 0 None; Ok (Some q, r))
  else iflit [43] at ts as r then (do q <- mk_quantifier false 1 None; Ok (Some q, r))
  else iflit [63] at ts as r then (do q <- mk_quantifier false 0 (Some 1); Ok (Some q, r))
  else iflit [123] at ts as r then (do2 (q, r') <- parse_braces r; Ok (Some q, r'))
  else Ok (None, ts).

(** Ranges of a character set. *)
Definition dash_range : range := mkRange (mkChar 45 false) None.
Definition rg_lo (r : range) : N := ch_code (rg_start r).
Definition rg_hi (r : range) : N :=
  match rg_end r with Some e => ch_code e | None => rg_lo r end.

Fixpoint insert_range (r : range) (l : list range) : list range :=
  match l with
  | [] => [r]
  | x :: l' => if rg_lo r <? rg_lo x then r :: l else x :: insert_range r l'
  end.
Definition sort_ranges (l : list range) : list range := fold_right insert_range [] l.

Fixpoint no_overlap_sorted (l : list range) : bool :=
  match l with
  | a :: ((b :: _) as l') => (rg_hi a <? rg_lo b) && no_overlap_sorted l'
  | _ => true
  end.

Definition ranges_disjoint (rs : list range) : bool := no_overlap_sorted (sort_ranges rs).

Definition SUPPLEMENTARY_PLANE_START : N := 65536.
Definition range_is_astral (r : range) : bool :=
  (SUPPLEMENTARY_PLANE_START <=? rg_lo r)
  || match rg_end r with Some e => SUPPLEMENTARY_PLANE_START <=? ch_code e | None => false end.

Section WithTables.
  Variable T : tables.

  (** The common head of both escape chains: "\\x", "\\u", "\\U", then the simple
      escapes of [simple]; any other backslash is an [Error] (an unsupported class or
      "Unexpected escaping"). [ts] is what follows the backslash. *)
  Definition parse_escape (simple : list (N * N)) (ts : list tok) : presult rchar :=
    match ts with
    | C e :: r =>
        if e =? 120 then parse_hex_escape 2 false r
        else if e =? 117 then parse_hex_escape 4 false r
        else if e =? 85 then parse_hex_escape 8 true r
        else match assocN e simple with
             | Some c => Ok (mkChar c false, r)
             | None => Err tt
             end
    | _ => Err tt
    end.

  (** [_parse_range_char]. [@require]: not at a dash, not done. *)
  Definition parse_range_char (ts : list tok) : presult rchar :=
    match ts with
    | [] => Crash Violation
    | F _ :: _ => Err tt            (* formatted value inside a character set *)
    | C c :: r =>
        if c =? 45 then Crash Violation
        else if c =? 92 then parse_escape (rng_simple T) r
        else Ok (mkChar c false, r)
    end.

  Definition parse_range_end (r1 : list tok) : presult (option rchar) :=
    if peek_lit [45; 93] r1 then Ok (None, r1)
    else iflit [45] at r1 as r then
           (if peek_lit [45] r then Err tt
            else match r with
                 | [] => Err tt
                 | _ => do2 (e, r') <- parse_range_char r; Ok (Some e, r')
                 end)
    else Ok (None, r1).

  Fixpoint parse_ranges_loop (fuel : nat) (ts : list tok) (acc : list range)
    : presult (list range) :=
    match fuel with
    | O => Crash OutOfFuel
    | S f =>
        match ts with
        | [] => Err tt
        | _ =>
            iflit [45; 93] at ts as r then Ok (rev (dash_range :: acc), r)
            else iflit [93] at ts as r then Ok (rev acc, r)
            else if peek_lit [45] ts then Err tt
            else
              do2 (st, r1) <- parse_range_char ts;
              do2 (en, r2) <- parse_range_end r1;
              if match en with Some e => ch_code e <? ch_code st | None => false end
              then Err tt
              else parse_ranges_loop f r2 (mkRange st en :: acc)
        end
    end.

  (** [_parse_ranges_and_closing] *)
  Definition parse_ranges_and_closing (ts : list tok) : presult (list range) :=
    let '(acc0, ts0) := iflit [45] at ts as r then ([dash_range], r) else ([], ts) in
    do2 (rs, r) <- parse_ranges_loop (S (length ts0)) ts0 acc0;
    if negb (ranges_disjoint rs) then Err tt
    else match rs with
         | [] => Err tt
         | _ => Ok (rs, r)
         end.

  (** [_parse_char_literal]: [Ok (None, ts)] is the "(None, None)" answer. *)
  Definition parse_char_literal (ts : list tok) : presult (option rchar) :=
    match ts with
    | [] => Ok (None, [])
    | F _ :: _ => Crash AssertionError   (* try_substring gives None: the assert *)
    | C c :: r =>
        if c =? 92 then do2 (x, r') <- parse_escape (lit_simple T) r; Ok (Some x, r')
        else if memN c (lit_assert T) then Crash AssertionError
        else if memN c (lit_stop T) then Ok (None, ts)
        else Ok (Some (mkChar c false), r)
    end.

  (** [_parse_concatenation]: one round of the [while True] loop ([acc] is
      [concatenants] reversed), with the two recursive calls as parameters:
      [pc ts acc] continues the loop, [pu ts] is [_parse_union] for a group. *)
  Definition concat_continue (pc : list tok -> list term -> presult concatenation)
      (ts : list tok) (acc : list term) (v : tvalue) (r : list tok)
    : presult concatenation :=
    do2 (q, r') <- parse_quantifier r;
    if is_anchor v && is_some q then Err tt
    else
      do t <- mk_term v q;
      if Nat.ltb (length r') (length ts) then pc r' (t :: acc)
      else Crash AssertionError.       (* the loop-invariant assert *)

  Definition concat_body (pc : list tok -> list term -> presult concatenation)
      (pu : list tok -> presult union_expr) (ts : list tok) (acc : list term)
    : presult concatenation :=
    let k := concat_continue pc ts acc in
    match ts with
    | [] => Ok (rev acc, [])
    | F x :: r => k (VFormatted x) r
    | C c :: r =>
        if c =? 124 then Ok (rev acc, ts)
        else if c =? 94 then k (VSymbol SymStart) r
        else if c =? 36 then k (VSymbol SymEnd) r
        else if c =? 46 then k (VSymbol SymDot) r
        else if c =? 40 then
          if peek_lit [63] r then Err tt
          else
            do2 (u, r') <- pu r;
            iflit [41] at r' as r'' then k (VGroup u) r'' else Err tt
        else if c =? 91 then
          iflit [94] at r as r0 then
            (do2 (rs, r') <- parse_ranges_and_closing r0;
             if existsb range_is_astral rs then Err tt else k (VCharSet true rs) r')
          else
            (do2 (rs, r') <- parse_ranges_and_closing r;
             k (VCharSet false rs) r')
        else if (c =? 42) || (c =? 43) || (c =? 63) || (c =? 123) then Err tt
        else
          do2 (oc, r1) <- parse_char_literal ts;
          match oc with
          | None => Ok (rev acc, r1)
          | Some x => k (VChar x) r1
          end
    end.

  (** [_parse_union] given the parser of one concatenation and the
      [while cursor.try_literal("|")] loop. *)
  Definition union_body (pc : list tok -> list term -> presult concatenation)
      (put : list tok -> list concatenation -> presult union_expr) (ts : list tok)
    : presult union_expr :=
    match ts with
    | [] => Ok ([], [])
    | _ => do2 (c, r1) <- pc ts []; put r1 [c]
    end.

  Definition union_tail_body (pc : list tok -> list term -> presult concatenation)
      (put : list tok -> list concatenation -> presult union_expr)
      (ts : list tok) (acc : list concatenation) : presult union_expr :=
    iflit [124] at ts as r then
      match r with
      | [] => Ok (rev ([] :: acc), [])
      | _ => do2 (c, r') <- pc r []; put r' (c :: acc)
      end
    else Ok (rev acc, ts).

  Fixpoint parse_concat (fuel : nat) (ts : list tok) (acc : list term) {struct fuel}
    : presult concatenation :=
    match fuel with
    | O => Crash OutOfFuel
    | S f =>
        concat_body (parse_concat f)
          (union_body (parse_concat f) (parse_union_tail f)) ts acc
    end
  with parse_union_tail (fuel : nat) (ts : list tok) (acc : list concatenation)
         {struct fuel} : presult union_expr :=
    match fuel with
    | O => Crash OutOfFuel
    | S f => union_tail_body (parse_concat f) (parse_union_tail f) ts acc
    end.

  (** [_parse_union] *)
  Definition parse_union (fuel : nat) (ts : list tok) : presult union_expr :=
    union_body (parse_concat fuel) (parse_union_tail fuel) ts.

  (** [_parse_regex] on the flat tokens. *)
  Definition parse_tokens (ts : list tok) : outcome regex unit :=
    do2 (u, r) <- parse_union (S (length ts)) ts;
    match r with
    | [] => Ok u
    | _ => Err tt
    end.

  (** [Cursor.__init__]'s precondition (no two consecutive strings) and class
      invariant (an empty string can only be the last value). *)
  Fixpoint values_pre (vs : list pvalue) : bool :=
    match vs with
    | [] => true
    | inl s :: r =>
        match r with
        | [] => true
        | inl _ :: _ => false
        | inr _ :: _ => match s with [] => false | _ => values_pre r end
        end
    | inr _ :: r => values_pre r
    end.

  (** [parse] *)
  Definition parse_values (vs : list pvalue) : outcome regex unit :=
    if values_pre vs then parse_tokens (tokens_of_values vs) else Crash Violation.

  Definition parse_string (s : text) : outcome regex unit := parse_values [inl s].
End WithTables.
