"""C03 — Exit status and error-report contract (run.write_error_report, error_message,
main.execute and every <target>/main.py:execute)."""
from __future__ import annotations

import shutil

from harness import lib
from harness.lib import coq_list, coq_option, coq_pair, coq_text

META = {
    "title": "Exit status and error-report contract",
    "design_ref": "§4 C03",
    "level_text": (
        "Coq theorems over (a) a Gallina model of write_error_report / textwrap.indent / "
        "error_message (layout of a report, one-line headline) and (b) the control-flow "
        "skeletons of main.execute and of all eight <target>/main.py:execute, re-translated "
        "from the sources on every run: a sound contract check (return 0 iff nothing on "
        "stderr; 0 only right after the 'Code generated to:' line; non-zero only after a "
        "write to stderr) holds of every skeleton, every headline constant is free of line "
        "breaks, every branch guarded by an error variable starts by reporting it. The report "
        "model is tied to the code by a correspondence stream evaluated inside Coq; the "
        "contract is also run on the real CLI (both entry points) on valid and invalid "
        "meta-models."
    ),
    "level_note": (
        "Partial: indentation of continuation lines is corresponded, not proved; 'every "
        "independent error is reported' is proved only for the plumbing of error lists (the "
        "rule code is opaque in the skeletons); smoke/main.py belongs to C28; run.load_model "
        "contributes only its headline constants."
    ),
    "technique": "Coq proof over regenerated control-flow skeletons + in-Coq correspondence "
                 "check of the report model + CLI oracle",
}
GEN = ["GenSkeletons", "GenPyWhitespace"]
MODEL = ["Model/Report", "Model/Skeleton", "Gen/GenPyWhitespace"]
TRUSTED = [
    "harness/translate/skeletons.py: Python ast -> skeleton (conditions non-deterministic, "
    "statements not touching stdout/stderr opaque; fails closed otherwise)",
    "Model/Report.v is a hand-written model of write_error_report/textwrap.indent/"
    "error_message (correspondence-checked)",
    "exceptions escaping execute are outside the trace semantics (C01/C02)",
]
RULE = ("report stream: (headline, errors) with multi-line / blank-leading / astral / CRLF / "
        "VT / LS texts, precondition violations included; nested errors up to depth 3; "
        "non-trivial = at least one error with two or more lines; CLI stream: valid and "
        "invalid meta-models x targets x entry points")

HEADER = """From Coq Require Import List NArith ZArith Bool.
From Acg Require Import Base.Str Base.Outcome Model.Report Gen.GenPyWhitespace.
Import ListNotations.
Open Scope N_scope.
Inductive case :=
| CReport (m : text) (errs : list text) (impl : option text)
| CError (e : error) (impl : option text).
Definition impl_res (o : option text) : outcome text unit :=
  match o with Some t => Ok t | None => Crash Violation end.
Definition case_ok (c : case) : bool :=
  match c with
  | CReport m errs impl =>
      res_eqb (write_error_report py_line_boundaries py_whitespace m errs) (impl_res impl)
  | CError e impl =>
      res_eqb (Ok (error_message py_line_boundaries py_whitespace e)) (impl_res impl)
  end.
Fixpoint bad_from (i : nat) (cs : list case) : list nat :=
  match cs with
  | [] => []
  | c :: r => if case_ok c then bad_from (S i) r else i :: bad_from (S i) r
  end.
Definition bad := bad_from 0.
"""

PIECES = ["a", "Error in x", " ", "  lead", "\n", "\n", "\r\n", "\x0b", "\u2028", "*", ":", "😀",
          "é", "\t", "At line 1 and column 2: m", "\n  ", " \n"]


def text(rng, maxn=6):
    return "".join(rng.choice(PIECES) for _ in range(rng.randrange(0, maxn)))


def nested(rng, depth=0):
    if depth >= 3 or rng.random() < 0.4:
        return [text(rng, 4), rng.choice([None, []])]
    return [text(rng, 4), [nested(rng, depth + 1) for _ in range(rng.randrange(1, 4))]]


def coq_error(e):
    und = e[1] or []
    return f"(MkError [] {coq_text(e[0])} {coq_list(coq_error(u) for u in und)})"


def layout_fails(stderr: str):
    """The report layout of the property: one-line headline ending in ':' followed by
    '* '-bulleted, indented entries — or a single line."""
    lines = stderr.split("\n")
    if stderr.endswith("\n"):
        lines = lines[:-1]
    if len(lines) <= 1:
        return None
    if not lines[0].endswith(":"):
        return "headline-not-one-line"
    if not lines[1].startswith("* "):
        return "headline-not-one-line" if lines[1].strip() == "" or not lines[1].startswith(" ") \
            else "entry-without-bullet"
    for ln in lines[1:]:
        if not (ln.startswith("* ") or ln.startswith("  ") or ln.strip() == ""):
            return "entry-line-not-indented"
    return None


def cli_cases(ctx):
    """-> list of (label, argv, output_dir)"""
    base = ctx.work / "cli"
    if base.exists():
        shutil.rmtree(base)
    base.mkdir(parents=True)
    empty_snip = base / "empty_snippets"
    empty_snip.mkdir()
    models = {
        "method": ("class Something:\n    x: int\n\n    def __init__(self, x: int) -> None:\n"
                   "        self.x = x\n\n    def do_something(self) -> int:\n        return self.x\n\n\n"
                   "__version__ = \"V1\"\n__xml_namespace__ = \"https://example.com/1\"\n"),
        "syntax": "class A(:\n",
        "no_version": "class A:\n    x: int\n",
        "two_errors": ("class A(Enum):\n    x: int\n\n\nclass B(Unknown):\n    y: int\n\n\n"
                       "__version__ = \"V1\"\n__xml_namespace__ = \"https://example.com/1\"\n"),
        "plain": ("class Something:\n    x: int\n\n    def __init__(self, x: int) -> None:\n"
                  "        self.x = x\n\n\n__version__ = \"V1\"\n"
                  "__xml_namespace__ = \"https://example.com/1\"\n"),
    }
    cases = []
    td = lib.REPO / "dev" / "test_data"
    for label, src in models.items():
        mp = base / f"{label}.py"
        mp.write_text(src, encoding="utf-8")
        for target in (["python", "csharp", "jsonschema"] if label in ("method", "plain") else ["python"]):
            for entry in ("aas_core_codegen.main", "aas_core_codegen"):
                out = base / f"out-{label}-{target}-{entry.count('.')}"
                out.mkdir()
                cases.append((f"{label}/{target}/{entry}",
                              ["-m", entry, "--model_path", str(mp), "--snippets_dir", str(empty_snip),
                               "--output_dir", str(out), "--target", target], str(out)))
    for target in ("python", "jsonschema"):
        snip = td / "main" / target / "expected" / "enum" / "input" / "snippets"
        mp = td / "common_meta_models" / "enum.py"
        if snip.is_dir() and mp.is_file():
            out = base / f"out-golden-{target}"
            out.mkdir()
            cases.append((f"golden-enum/{target}/aas_core_codegen.main",
                          ["-m", "aas_core_codegen.main", "--model_path", str(mp), "--snippets_dir",
                           str(snip), "--output_dir", str(out), "--target", target], str(out)))
    cases.append(("missing-model/python/aas_core_codegen.main",
                  ["-m", "aas_core_codegen.main", "--model_path", str(base / "nope.py"), "--snippets_dir",
                   str(empty_snip), "--output_dir", str(base / "o"), "--target", "python"], str(base / "o")))
    return cases


def streams(ctx: lib.Ctx) -> None:
    reports = [["h", ["a\nb"]], ["h:", []], ["h", ["*x"]], ["h", [""]], ["h", [" \nfoo"]], ["", []],
               ["h", ["a\r\nb", "c\u2028d"]], ["h\n", ["x"]], ["h", ["x\n"]], ["*h", []]]
    for _ in range(ctx.n(600, 8000)):
        reports.append([text(ctx.rng, 4) or "h", [text(ctx.rng) for _ in range(ctx.rng.randrange(0, 4))]])
    errors = [["m", None], ["m", [["u", None]]], ["m", [["a\nb", [["c", []]]], [" ", None]]]]
    for _ in range(ctx.n(300, 4000)):
        errors.append(nested(ctx.rng))
    cli = cli_cases(ctx)
    ans = lib.impl_call("report.py", {"reports": reports, "errors": errors,
                                      "cli": [argv for _, argv, _ in cli]}, timeout=1700)

    coq_cases, inputs, nontrivial = [], [], []
    shares = {"ok": 0, "violation": 0}
    for (m, errs), res in zip(reports, ans["reports"]):
        impl = res.get("ok")
        if impl is None and res.get("exc") != "ViolationError":
            ctx.impl_failure(f"write_error_report-raises-{res.get('exc')}", "unexpected exception",
                             {"message": m, "errors": errs}, res, "report")
        shares["ok" if impl is not None else "violation"] += 1
        if impl is not None:
            # the layout is judged on "\n"-separated lines: only texts whose line
            # boundaries are all "\n" (no CR, VT, FF, LS, ...) are judged
            exotic = any(c in "\r\x0b\x0c\x1c\x1d\x1e\x85\u2028\u2029" for c in m + "".join(errs))
            fail = layout_fails(impl) if ("\n" not in m and not exotic) else None
            if fail:
                ctx.impl_failure(f"report-{fail}", "report layout broken although the preconditions hold",
                                 {"message": m, "errors": errs}, impl, "report")
        coq_cases.append(f"CReport {coq_text(m)} {coq_list(coq_text(e) for e in errs)} "
                         f"{coq_option(None if impl is None else coq_text(impl))}")
        inputs.append({"message": m, "errors": errs, "impl": res})
        if any("\n" in e.strip("\n") for e in errs):
            nontrivial.append(repr((m, errs)))
    for e, res in zip(errors, ans["errors"]):
        impl = res.get("ok")
        coq_cases.append(f"CError {coq_error(e)} {coq_option(None if impl is None else coq_text(impl))}")
        inputs.append({"error": e, "impl": res})
        if e[1]:
            nontrivial.append(repr(e))
    bad, _log = lib.run_cases(ctx.work, "cases", HEADER, "case", "bad", coq_cases, shard=150)
    for i in bad[:10]:
        ctx.corr_break("report", inputs[i], "(see Model/Report.v)", inputs[i]["impl"])
    ctx.count("report", len(coq_cases), nontrivial_keys=nontrivial, validated=len(coq_cases), **shares)

    # the contract on the real CLI
    seen = set()
    for (label, argv, outdir), res in zip(cli, ans["cli"]):
        entry = label.split("/")[-1]
        key = None
        if (res["rc"] == 0) != (res["stderr"] == ""):
            key = f"exit-status-{'zero' if res['rc'] == 0 else 'nonzero'}-" \
                  f"{'with' if res['stderr'] else 'without'}-stderr:{entry}"
        elif res["rc"] == 0 and not res["stdout"].endswith(f"Code generated to: {outdir}\n"):
            key = "success-without-code-generated-line"
        elif res["rc"] != 0 and "Traceback (most recent call last)" in res["stderr"]:
            key = None      # crashes are C01/C02
        elif res["rc"] != 0:
            fail = layout_fails(res["stderr"])
            key = fail
        if key and key not in seen:
            seen.add(key)
            ctx.impl_failure(key, f"CLI contract broken ({label})", {"argv": argv},
                             {k: v[-1500:] if isinstance(v, str) else v for k, v in res.items()},
                             "cli", f"PYTHONPATH={lib.REPO} {lib.PY} " + " ".join(argv))
        ctx.sample({"cli": label, "rc": res["rc"], "stderr_head": res["stderr"][:120]})
    ctx.count("cli", len(cli), nontrivial_keys=[c[0] for c in cli], validated=len(cli),
              rc_zero=sum(1 for r in ans["cli"] if r["rc"] == 0))
    shutil.rmtree(ctx.work / "cli", ignore_errors=True)
