(** Proofs about [Model/LenInfer.v]: the comparator table, [_reduce_constraints],
    [LenConstraint]'s precondition and [_merge_len_constraints] (C15, C02). *)
From Coq Require Import List NArith ZArith Bool Lia ZifyBool.
From Acg Require Import Base.Str Base.Outcome Model.InferExpr Model.LenInfer.
Import ListNotations.
Open Scope Z_scope.

(** ** The off-by-one table *)

Lemma lc_of_left_sound : forall op c k,
  lc_of_left op c = Some k -> forall n, cmp_holds op n c <-> allows k n.
Proof.
  intros op c k H n.
  destruct op; cbn in H; inversion H; subst; cbn; lia.
Qed.

Lemma lc_of_right_sound : forall op c k,
  lc_of_right op c = Some k -> forall n, cmp_holds op c n <-> allows k n.
Proof.
  intros op c k H n.
  destruct op; cbn in H; inversion H; subst; cbn; lia.
Qed.

Lemma lc_of_left_none : forall op c, lc_of_left op c = None <-> op = Ne.
Proof. intros op c; destruct op; cbn; split; intro H; try discriminate; reflexivity. Qed.

Lemma lc_of_right_none : forall op c, lc_of_right op c = None <-> op = Ne.
Proof. intros op c; destruct op; cbn; split; intro H; try discriminate; reflexivity. Qed.

(** ** A small evaluator for the recognised fragment

    [env p] is [None] when [self.p] is [None] and [Some n] when its length is [n].
    Short-circuit [or] / implication as in Python; everything else is outside the
    fragment ([None]: no claim). *)
Definition cmp_holdsb (op : cmp) (a b : Z) : bool :=
  match op with
  | Lt => a <? b | Le => a <=? b | Eq => a =? b
  | Gt => b <? a | Ge => b <=? a | Ne => negb (a =? b)
  end.

Lemma cmp_holdsb_spec : forall op a b, cmp_holdsb op a b = true <-> cmp_holds op a b.
Proof. intros op a b; destruct op; cbn; lia. Qed.

Definition eval_int (env : text -> option Z) (e : expr) : option Z :=
  match e with
  | EInt z => Some z
  | ECall f [EMember (EName s) p] =>
      if text_eqb f len_id && text_eqb s self_id then env p else None
  | _ => None
  end.

Definition eval_is_none (env : text -> option Z) (v : expr) : option bool :=
  match v with
  | EMember (EName s) p =>
      if text_eqb s self_id then
        Some (match env p with None => true | Some _ => false end)
      else None
  | _ => None
  end.

Fixpoint evalb (env : text -> option Z) (e : expr) : option bool :=
  match e with
  | ECmp op l r =>
      match eval_int env l, eval_int env r with
      | Some a, Some b => Some (cmp_holdsb op a b)
      | _, _ => None
      end
  | EIsNone v => eval_is_none env v
  | EIsNotNone v => option_map negb (eval_is_none env v)
  | EOr [a; b] =>
      match evalb env a with
      | Some true => Some true
      | Some false => evalb env b
      | None => None
      end
  | EImpl a c =>
      match evalb env a with
      | Some false => Some true
      | Some true => evalb env c
      | None => None
      end
  | _ => None
  end.

Lemma try_property_shape : forall e p,
  try_property e = Some p ->
  exists s, e = EMember (EName s) p /\ text_eqb s self_id = true.
Proof.
  intros e p H. destruct e; cbn in H; try discriminate.
  destruct e; try discriminate.
  destruct (text_eqb id self_id) eqn:Hs; try discriminate.
  inversion H; subst. eexists; split; [reflexivity | exact Hs].
Qed.

Lemma match_len_on_mn_shape : forall e mn,
  match_len_on_mn e = Some mn ->
  exists f, e = ECall f [mn] /\ text_eqb f len_id = true.
Proof.
  intros e mn H. unfold match_len_on_mn, try_single_arg_fn in H.
  destruct e; try discriminate.
  destruct args as [|a [|b r]]; try discriminate.
  destruct (is_member_or_name a); try discriminate.
  destruct (text_eqb fn len_id) eqn:Hf; try discriminate.
  inversion H; subst. eexists; split; [reflexivity | exact Hf].
Qed.

Lemma match_int_constant_shape : forall e c, match_int_constant e = Some c -> e = EInt c.
Proof. intros e c H; destruct e; cbn in H; try discriminate; inversion H; reflexivity. Qed.

(** The shape of everything [_match_len_constraint_on_member_or_name] accepts, with the
    meaning of the extracted constraint. *)
Lemma match_len_constraint_on_mn_shape : forall e mn k,
  match_len_constraint_on_mn e = Some (mn, k) ->
  exists op f c, text_eqb f len_id = true /\
    ((e = ECmp op (ECall f [mn]) (EInt c) /\ forall n, cmp_holds op n c <-> allows k n)
     \/ (e = ECmp op (EInt c) (ECall f [mn]) /\ forall n, cmp_holds op c n <-> allows k n)).
Proof.
  intros e mn k H. destruct e; cbn in H; try discriminate.
  destruct (match_len_on_mn e1) as [mn1|] eqn:H1;
    destruct (match_int_constant e2) as [c2|] eqn:H2.
  - destruct (lc_of_left op c2) as [k'|] eqn:Hk.
    + inversion H; subst.
      apply match_len_on_mn_shape in H1 as [f [-> Hf]].
      apply match_int_constant_shape in H2 as ->.
      exists op, f, c2. split; [exact Hf|]. left. split; [reflexivity|].
      apply lc_of_left_sound; exact Hk.
    + (* [!=] on the left region falls through to the second region, which needs an
         integer constant on the left *)
      apply match_len_on_mn_shape in H1 as [f [-> Hf]].
      cbn in H. discriminate.
  - destruct (match_int_constant e1) as [c1|] eqn:H3; try discriminate.
    apply match_len_on_mn_shape in H1 as [f [-> Hf]]. cbn in H3. discriminate.
  - destruct (match_int_constant e1) as [c1|] eqn:H3; try discriminate.
    destruct (match_len_on_mn e2) as [mn2|] eqn:H4; try discriminate.
    apply match_int_constant_shape in H2 as ->. cbn in H4. discriminate.
  - destruct (match_int_constant e1) as [c1|] eqn:H3; try discriminate.
    destruct (match_len_on_mn e2) as [mn2|] eqn:H4; try discriminate.
    destruct (lc_of_right op c1) as [k'|] eqn:Hk; try discriminate.
    inversion H; subst.
    apply match_len_on_mn_shape in H4 as [f [-> Hf]].
    apply match_int_constant_shape in H3 as ->.
    exists op, f, c1. split; [exact Hf|]. right. split; [reflexivity|].
    apply lc_of_right_sound; exact Hk.
Qed.

(** Evaluation of a recognised comparison on [self.p]. *)
Lemma eval_recognised_cmp : forall env e p k,
  match_len_constraint_on_property e = Some (p, k) ->
  forall b, evalb env e = Some b ->
  exists n, env p = Some n /\ (b = true <-> allows k n).
Proof.
  intros env e p k H b Hb. unfold match_len_constraint_on_property in H.
  destruct (match_len_constraint_on_mn e) as [[mn k']|] eqn:Hm; try discriminate.
  destruct (try_property mn) as [p'|] eqn:Hp; try discriminate.
  inversion H; subst p' k'. clear H.
  apply try_property_shape in Hp as [s [-> Hs]].
  apply match_len_constraint_on_mn_shape in Hm as [op [f [c [Hf [[-> Hsem] | [-> Hsem]]]]]].
  - cbn in Hb. rewrite Hf, Hs in Hb. cbn in Hb.
    destruct (env p) as [n|] eqn:Hn; try discriminate.
    inversion Hb; subst b. exists n. split; [reflexivity|].
    rewrite cmp_holdsb_spec. apply Hsem.
  - cbn in Hb. rewrite Hf, Hs in Hb. cbn in Hb.
    destruct (env p) as [n|] eqn:Hn; try discriminate.
    inversion Hb; subst b. exists n. split; [reflexivity|].
    rewrite cmp_holdsb_spec. apply Hsem.
Qed.

Lemma text_eqb_eq : forall a b : text, text_eqb a b = true -> a = b.
Proof.
  induction a as [|x a IH]; destruct b as [|y b]; cbn; intro H; try discriminate.
  - reflexivity.
  - apply andb_true_iff in H as [H1 H2]. apply N.eqb_eq in H1. subst.
    f_equal. apply IH. exact H2.
Qed.

Lemma text_eqb_refl : forall a : text, text_eqb a a = true.
Proof. induction a as [|x a IH]; cbn; [reflexivity|]. rewrite N.eqb_refl. exact IH. Qed.

Lemma text_eqb_spec : forall a b : text, text_eqb a b = true <-> a = b.
Proof. intros a b; split; [apply text_eqb_eq | intros ->; apply text_eqb_refl]. Qed.

(** [match_len_sound]: whatever [len_constraints_from_invariants] recognises in an
    invariant — unguarded, or guarded by [self.p is None or ...] /
    [not (self.p is not None) or ...] on the SAME property — holds of an instance
    exactly when the property is [None] or its length is allowed by the extracted
    constraint. *)
Theorem match_len_invariant_sound : forall body p k,
  match_len_invariant body = Some (p, k) ->
  forall env b, evalb env body = Some b ->
  (b = true <-> (forall n, env p = Some n -> allows k n)).
Proof.
  intros body p k H env b Hb. unfold match_len_invariant in H.
  destruct (try_conditional_on_prop body) as [[g csq]|] eqn:Hc.
  - destruct (match_len_constraint_on_property csq) as [[p' k']|] eqn:Hm; try discriminate.
    destruct (text_eqb p' g) eqn:Hg; try discriminate.
    inversion H; subst p' k'. clear H. apply text_eqb_eq in Hg. subst g.
    unfold try_conditional_on_prop in Hc.
    destruct body; try discriminate.
    + (* self.p is None or C *)
      destruct vs as [|v0 [|v1 [|v2 r]]]; try discriminate.
      destruct v0; try discriminate.
      destruct (try_property v0) as [p0|] eqn:Hp0; try discriminate.
      inversion Hc; subst p0 v1. clear Hc.
      apply try_property_shape in Hp0 as [s [-> Hs]].
      cbn in Hb. rewrite Hs in Hb.
      destruct (env p) as [n|] eqn:Hn.
      * destruct (eval_recognised_cmp env csq p k Hm b Hb) as [n' [Hn' Hsem]].
        rewrite Hn in Hn'. inversion Hn'; subst n'.
        rewrite Hsem. split; [intros Ha m Hm'; inversion Hm'; subst; exact Ha
                             | intros Ha; apply Ha; reflexivity].
      * inversion Hb; subst b. split; [intros _ m Hm'; discriminate | reflexivity].
    + (* not (self.p is not None) or C *)
      destruct body1; try discriminate.
      destruct (try_property body1) as [p0|] eqn:Hp0; try discriminate.
      inversion Hc; subst p0 body2. clear Hc.
      apply try_property_shape in Hp0 as [s [-> Hs]].
      cbn in Hb. rewrite Hs in Hb. cbn in Hb.
      destruct (env p) as [n|] eqn:Hn; cbn in Hb.
      * destruct (eval_recognised_cmp env csq p k Hm b Hb) as [n' [Hn' Hsem]].
        rewrite Hn in Hn'. inversion Hn'; subst n'.
        rewrite Hsem. split; [intros Ha m Hm'; inversion Hm'; subst; exact Ha
                             | intros Ha; apply Ha; reflexivity].
      * inversion Hb; subst b. split; [intros _ m Hm'; discriminate | reflexivity].
  - destruct (eval_recognised_cmp env body p k H b Hb) as [n [Hn Hsem]].
    rewrite Hsem. split; [intros Ha m Hm'; rewrite Hn in Hm'; inversion Hm'; subst; exact Ha
                         | intros Ha; apply Ha; exact Hn].
Qed.

(** The matcher as it was before the fix: the guard's property is not compared. *)
Definition match_len_invariant_unfixed (body : expr) : option (text * lc) :=
  match try_conditional_on_prop body with
  | Some (_, csq) => match_len_constraint_on_property csq
  | None => match_len_constraint_on_property body
  end.

(** ... for which the statement above is false: [self.a is None or len(self.b) < 3]
    holds of an instance with [a = None] and [len(b) = 10], yet [MaxL 2] is extracted
    for [b]. *)
Lemma match_len_unfixed_refuted :
  exists body p k env,
    match_len_invariant_unfixed body = Some (p, k)
    /\ evalb env body = Some true
    /\ ~ (forall n, env p = Some n -> allows k n).
Proof.
  exists (EOr [EIsNone (EMember (EName self_id) [97%N]);
               ECmp Lt (ECall len_id [EMember (EName self_id) [98%N]]) (EInt 3)]),
         [98%N], (MaxL 2),
         (fun p => if text_eqb p [98%N] then Some 10 else None).
  split; [vm_compute; reflexivity|]. split; [vm_compute; reflexivity|].
  intro H. specialize (H 10 eq_refl). cbn in H. lia.
Qed.

(** ** [min_with_none] / [max_with_none] on the two-argument calls of the reduction *)

Lemma max_with_none_2 : forall v cur,
  max_with_none [Some v; cur] = Some (match cur with Some m => Z.max m v | None => v end).
Proof. intros v [m|]; reflexivity. Qed.

Lemma min_with_none_2 : forall v cur,
  min_with_none [Some v; cur] = Some (match cur with Some m => Z.min m v | None => v end).
Proof. intros v [m|]; reflexivity. Qed.

(** General meaning of the variadic helpers. *)
Lemma max_with_none_loop_spec : forall args cur n,
  (match max_with_none_loop args cur with Some m => m <= n | None => True end)
  <-> ((match cur with Some m => m <= n | None => True end)
       /\ forall v, In (Some v) args -> v <= n).
Proof.
  induction args as [|a r IH]; intros cur n; cbn [max_with_none_loop].
  - split; [intros H; split; [exact H | intros v []] | intros [H _]; exact H].
  - rewrite IH. destruct cur as [m|]; destruct a as [x|]; cbn [In].
    + split.
      * intros [H1 H2]. split; [lia|]. intros v [Hv|Hv]; [inversion Hv; lia | auto].
      * intros [H1 H2]. split; [specialize (H2 x (or_introl eq_refl)); lia | auto].
    + split.
      * intros [H1 H2]. split; [exact H1|]. intros v [Hv|Hv]; [discriminate | auto].
      * intros [H1 H2]. split; [exact H1 | auto].
    + split.
      * intros [H1 H2]. split; [exact I|]. intros v [Hv|Hv]; [inversion Hv; lia | auto].
      * intros [_ H2]. split; [apply H2; left; reflexivity | auto].
    + split.
      * intros [_ H2]. split; [exact I|]. intros v [Hv|Hv]; [discriminate | auto].
      * intros [_ H2]. split; [exact I | auto].
Qed.

Lemma min_with_none_loop_spec : forall args cur n,
  (match min_with_none_loop args cur with Some m => n <= m | None => True end)
  <-> ((match cur with Some m => n <= m | None => True end)
       /\ forall v, In (Some v) args -> n <= v).
Proof.
  induction args as [|a r IH]; intros cur n; cbn [min_with_none_loop].
  - split; [intros H; split; [exact H | intros v []] | intros [H _]; exact H].
  - rewrite IH. destruct cur as [m|]; destruct a as [x|]; cbn [In].
    + split.
      * intros [H1 H2]. split; [lia|]. intros v [Hv|Hv]; [inversion Hv; lia | auto].
      * intros [H1 H2]. split; [specialize (H2 x (or_introl eq_refl)); lia | auto].
    + split.
      * intros [H1 H2]. split; [exact H1|]. intros v [Hv|Hv]; [discriminate | auto].
      * intros [H1 H2]. split; [exact H1 | auto].
    + split.
      * intros [H1 H2]. split; [exact I|]. intros v [Hv|Hv]; [inversion Hv; lia | auto].
      * intros [_ H2]. split; [apply H2; left; reflexivity | auto].
    + split.
      * intros [_ H2]. split; [exact I|]. intros v [Hv|Hv]; [discriminate | auto].
      * intros [_ H2]. split; [exact I | auto].
Qed.

(** ** The reduction *)

Definition sat (s : rstate) (n : Z) : Prop :=
  (match r_min s with Some m => m <= n | None => True end)
  /\ (match r_max s with Some m => n <= m | None => True end)
  /\ (match r_exact s with Some e => n = e | None => True end).

Lemma app_nil_inv : forall (A : Type) (l : list A) (x : A), l ++ [x] = [] -> False.
Proof. intros A l x H. destruct l; discriminate. Qed.

Lemma step_spec : forall s c n,
  (sat (reduce_step s c) n /\ r_errs (reduce_step s c) = [])
  <-> (sat s n /\ r_errs s = [] /\ allows c n).
Proof.
  intros [mn mx ex errs] c n. unfold sat. destruct c as [v|v|v]; cbn [reduce_step r_min r_max r_exact r_errs allows].
  - rewrite max_with_none_2. destruct mn as [m|]; destruct mx as [m'|]; destruct ex as [e|]; intuition lia.
  - rewrite min_with_none_2. destruct mn as [m|]; destruct mx as [m'|]; destruct ex as [e|]; intuition lia.
  - destruct ex as [e|].
    + destruct (Z.eqb e v) eqn:He.
      * apply Z.eqb_eq in He. subst e.
        destruct mn as [m|]; destruct mx as [m'|]; intuition lia.
      * apply Z.eqb_neq in He. split.
        -- intros [_ Habs]. exfalso. eapply app_nil_inv; exact Habs.
        -- intros [[_ [_ H1]] [_ H2]]. lia.
    + destruct mn as [m|]; destruct mx as [m'|]; intuition lia.
Qed.

Lemma fold_spec : forall cs s n,
  (sat (fold_left reduce_step cs s) n /\ r_errs (fold_left reduce_step cs s) = [])
  <-> (sat s n /\ r_errs s = [] /\ forall c, In c cs -> allows c n).
Proof.
  induction cs as [|c cs IH]; intros s n; cbn [fold_left].
  - split; [intros [H1 H2]; split; [exact H1 | split; [exact H2 | intros c []]]
           | intros [H1 [H2 _]]; split; assumption].
  - rewrite IH. pose proof (step_spec s c n) as Hs. cbn [In]. split.
    + intros [H1 [H2 H4]]. destruct (proj1 Hs (conj H1 H2)) as [G1 [G2 G3]].
      split; [exact G1|]. split; [exact G2|].
      intros c' [<-|Hc]; [exact G3 | apply H4; exact Hc].
    + intros [H1 [H2 H3]].
      destruct (proj2 Hs (conj H1 (conj H2 (H3 c (or_introl eq_refl))))) as [G1 G2].
      split; [exact G1|]. split; [exact G2|].
      intros c' Hc. apply H3. right. exact Hc.
Qed.

Definition init_state : rstate := mk_rstate None None None [].

Lemma fold_init_spec : forall cs n,
  (sat (fold_left reduce_step cs init_state) n
   /\ r_errs (fold_left reduce_step cs init_state) = [])
  <-> (forall c, In c cs -> allows c n).
Proof.
  intros cs n. rewrite fold_spec. unfold sat, init_state; cbn. intuition.
Qed.

(** The checks of [final_errs] as a proposition. *)
Definition checks_pass (s : rstate) : Prop :=
  r_errs s = []
  /\ (forall e m, r_exact s = Some e -> r_min s = Some m -> m <= e)
  /\ (forall e m, r_exact s = Some e -> r_max s = Some m -> e <= m)
  /\ (forall mn mx, r_min s = Some mn -> r_max s = Some mx -> mn <= mx)
  /\ (forall e, r_exact s = Some e -> 0 <= e)
  /\ (forall m, r_max s = Some m -> 0 <= m).

Lemma final_errs_nil : forall s, final_errs s = [] <-> checks_pass s.
Proof.
  intros [mn mx ex errs]. unfold final_errs, checks_pass. cbn [r_min r_max r_exact r_errs].
  split.
  - intro H.
    apply app_eq_nil in H as [H0 H]. apply app_eq_nil in H as [H1 H].
    apply app_eq_nil in H as [H2 H]. apply app_eq_nil in H as [H3 H4].
    split; [exact H0|].
    destruct ex as [e|]; destruct mn as [m|]; destruct mx as [m'|];
      repeat match goal with
             | H : (if ?c then _ else _) ++ _ = [] |- _ => destruct c eqn:?; cbn in H; try discriminate
             | H : (if ?c then _ else _) = [] |- _ => destruct c eqn:?; cbn in H; try discriminate
             | H : _ ++ (if ?c then _ else _) = [] |- _ => destruct c eqn:?; cbn in H; try discriminate
             end;
      repeat split; intros; repeat match goal with H : Some _ = Some _ |- _ => inversion H; subst; clear H end;
      try discriminate; lia.
  - intros [H0 [H1 [H2 [H3 [H4 H5]]]]]. subst errs. cbn [app].
    destruct ex as [e|]; destruct mn as [m|]; destruct mx as [m'|];
      try (specialize (H1 _ _ eq_refl eq_refl));
      try (specialize (H2 _ _ eq_refl eq_refl));
      try (specialize (H3 _ _ eq_refl eq_refl));
      try (specialize (H4 _ eq_refl));
      try (specialize (H5 _ eq_refl));
      repeat match goal with
             | |- context [if ?c then _ else _] => destruct c eqn:?; try lia
             end; reflexivity.
Qed.

Definition wf_lenc (r : lenc) : Prop :=
  (forall l, fst r = Some l -> 0 < l)
  /\ (forall h, snd r = Some h -> 0 <= h)
  /\ (forall l h, fst r = Some l -> snd r = Some h -> l <= h).

Lemma mk_lenc_ok : forall (E : Type) lo hi r,
  mk_lenc (E := E) lo hi = Ok r -> r = (lo, hi).
Proof.
  intros E lo hi r H. unfold mk_lenc in H.
  destruct lo as [l|]; destruct hi as [h|]; try (inversion H; reflexivity).
  destruct ((0 <? l) && (l <=? h)); [inversion H; reflexivity | discriminate].
Qed.

Lemma mk_lenc_not_err : forall (E : Type) lo hi (e : E), mk_lenc lo hi <> Err e.
Proof.
  intros E lo hi e. unfold mk_lenc.
  destruct lo as [l|]; destruct hi as [h|]; try discriminate.
  destruct ((0 <? l) && (l <=? h)); discriminate.
Qed.

Lemma mk_lenc_crash : forall (E : Type) lo hi k,
  mk_lenc (E := E) lo hi = Crash k ->
  exists l h, lo = Some l /\ hi = Some h /\ ~ (0 < l <= h).
Proof.
  intros E lo hi k H. unfold mk_lenc in H.
  destruct lo as [l|]; destruct hi as [h|]; try discriminate.
  destruct ((0 <? l) && (l <=? h)) eqn:Hc; try discriminate.
  exists l, h. repeat split. lia.
Qed.

(** The range handed to [LenConstraint] by a reduction without errors. *)
Definition reduced_range (s : rstate) : lenc :=
  (drop_vacuous_min (match r_exact s with Some e => Some e | None => r_min s end),
   match r_exact s with Some e => Some e | None => r_max s end).

Lemma reduce_unfold : forall cs,
  reduce cs =
  let s := fold_left reduce_step cs init_state in
  match final_errs s with
  | [] => mk_lenc (fst (reduced_range s)) (snd (reduced_range s))
  | errs => Err errs
  end.
Proof.
  intros cs. unfold reduce, reduced_range, init_state. cbn zeta.
  destruct (final_errs _); [|reflexivity].
  destruct (r_exact _); reflexivity.
Qed.

Lemma reduced_range_wf : forall s, checks_pass s -> wf_lenc (reduced_range s).
Proof.
  intros [mn mx ex errs] [H0 [H1 [H2 [H3 [H4 H5]]]]].
  unfold reduced_range, wf_lenc, drop_vacuous_min. cbn [r_min r_max r_exact r_errs fst snd] in *.
  destruct ex as [e|]; destruct mn as [m|]; destruct mx as [m'|];
    try (specialize (H1 _ _ eq_refl eq_refl));
    try (specialize (H2 _ _ eq_refl eq_refl));
    try (specialize (H3 _ _ eq_refl eq_refl));
    try (specialize (H4 _ eq_refl));
    try (specialize (H5 _ eq_refl));
    repeat match goal with
           | |- context [if ?c then _ else _] => destruct c eqn:?
           end;
    cbn [fst snd]; repeat split; intros;
    repeat match goal with H : Some _ = Some _ |- _ => inversion H; subst; clear H end;
    try discriminate; lia.
Qed.

Lemma reduced_range_meaning : forall s n,
  checks_pass s -> 0 <= n -> (in_range (reduced_range s) n <-> sat s n).
Proof.
  intros [mn mx ex errs] n [H0 [H1 [H2 [H3 [H4 H5]]]]] Hn.
  unfold reduced_range, in_range, sat, drop_vacuous_min.
  cbn [r_min r_max r_exact r_errs fst snd] in *.
  destruct ex as [e|].
  - specialize (H4 e eq_refl).
    assert (Hmin : match mn with Some m => m <= e | None => True end)
      by (destruct mn as [m|]; [apply (H1 e m); reflexivity | exact I]).
    assert (Hmax : match mx with Some m => e <= m | None => True end)
      by (destruct mx as [m|]; [apply (H2 e m); reflexivity | exact I]).
    destruct (e <=? 0) eqn:He; cbn [fst snd];
      destruct mn as [m|]; destruct mx as [m'|]; intuition lia.
  - destruct mn as [m|]; [destruct (m <=? 0) eqn:Hm|]; cbn [fst snd];
      destruct mx as [m'|]; intuition lia.
Qed.

(** [reduce_total]: the reduction never violates the precondition of [LenConstraint]
    (nor raises anything else). *)
Theorem reduce_total : forall cs k, reduce cs <> Crash k.
Proof.
  intros cs k H. rewrite reduce_unfold in H. cbn zeta in H.
  destruct (final_errs (fold_left reduce_step cs init_state)) eqn:Hf; [|discriminate].
  apply final_errs_nil in Hf. apply reduced_range_wf in Hf as [W1 [W2 W3]].
  apply mk_lenc_crash in H as [l [h [Hl [Hh Hbad]]]].
  specialize (W1 l Hl). specialize (W3 l h Hl Hh). lia.
Qed.

(** [reduce_sound]: the reduced range allows exactly the lengths that every constraint
    allows. *)
Theorem reduce_sound : forall cs r,
  reduce cs = Ok r ->
  forall n, 0 <= n -> ((forall c, In c cs -> allows c n) <-> in_range r n).
Proof.
  intros cs r H n Hn. rewrite reduce_unfold in H. cbn zeta in H.
  destruct (final_errs (fold_left reduce_step cs init_state)) eqn:Hf; [|discriminate].
  apply final_errs_nil in Hf. apply mk_lenc_ok in H.
  rewrite <- surjective_pairing in H. subst r.
  rewrite (reduced_range_meaning _ n Hf Hn), <- fold_init_spec.
  destruct Hf as [H0 _]. intuition.
Qed.

(** The reduced range is well-formed, hence non-empty. *)
Theorem reduce_ok_wf : forall cs r, reduce cs = Ok r -> wf_lenc r.
Proof.
  intros cs r H. rewrite reduce_unfold in H. cbn zeta in H.
  destruct (final_errs (fold_left reduce_step cs init_state)) eqn:Hf; [|discriminate].
  apply final_errs_nil in Hf. apply mk_lenc_ok in H.
  rewrite <- surjective_pairing in H. subst r. apply reduced_range_wf. exact Hf.
Qed.

Lemma wf_lenc_sat : forall r, wf_lenc r -> exists n, 0 <= n /\ in_range r n.
Proof.
  intros [[l|] [h|]] [W1 [W2 W3]]; cbn [fst snd] in *; unfold in_range; cbn [fst snd].
  - exists l. specialize (W1 l eq_refl). specialize (W3 l h eq_refl eq_refl). lia.
  - exists l. specialize (W1 l eq_refl). lia.
  - exists 0. specialize (W2 h eq_refl). lia.
  - exists 0. lia.
Qed.

(** [reduce_err_unsat]: an error is reported only for constraints that no length
    satisfies ... *)
Theorem reduce_err_unsat : forall cs errs,
  reduce cs = Err errs -> ~ exists n, 0 <= n /\ forall c, In c cs -> allows c n.
Proof.
  intros cs errs H [n [Hn Hall]]. rewrite reduce_unfold in H. cbn zeta in H.
  apply fold_init_spec in Hall as [Hsat Herrs].
  set (s := fold_left reduce_step cs init_state) in *.
  assert (Hc : checks_pass s).
  { destruct s as [mn mx ex es]. unfold sat, checks_pass in *.
    cbn [r_min r_max r_exact r_errs] in *. destruct Hsat as [S1 [S2 S3]].
    split; [exact Herrs|].
    repeat split; intros; subst; lia. }
  apply final_errs_nil in Hc. rewrite Hc in H.
  eapply mk_lenc_not_err. exact H.
Qed.

(** ... and conversely unsatisfiable constraints are always reported. *)
Theorem reduce_unsat_err : forall cs,
  (~ exists n, 0 <= n /\ forall c, In c cs -> allows c n) ->
  exists errs, reduce cs = Err errs.
Proof.
  intros cs Hun. destruct (reduce cs) as [r|errs|k] eqn:H.
  - exfalso. apply Hun. destruct (wf_lenc_sat r (reduce_ok_wf _ _ H)) as [n [Hn Hr]].
    exists n. split; [exact Hn|]. apply (reduce_sound cs r H n Hn). exact Hr.
  - eexists; reflexivity.
  - exfalso. exact (reduce_total cs k H).
Qed.

(** The reduction as it was before the fixes (equal exact lengths contradict; no check
    of negative bounds; a minimum <= 0 is kept) — used for the refutation witnesses. *)
Definition reduce_step_unfixed (s : rstate) (c : lc) : rstate :=
  match c with
  | ExactL v =>
      mk_rstate (r_min s) (r_max s) (Some v)
        (match r_exact s with Some _ => r_errs s ++ [ExactVsExact] | None => r_errs s end)
  | _ => reduce_step s c
  end.

Definition reduce_unfixed (cs : list lc) : outcome lenc (list rerr) :=
  let s := fold_left reduce_step_unfixed cs init_state in
  match filter (fun e => match e with NegativeMax | NegativeExact => false | _ => true end)
               (final_errs s) with
  | (_ :: _) as errs => Err errs
  | [] =>
      match r_exact s with
      | Some e => mk_lenc (Some e) (Some e)
      | None => mk_lenc (r_min s) (r_max s)
      end
  end.

Lemma reduce_unfixed_refuted :
  (exists cs errs, reduce_unfixed cs = Err errs /\ exists n, 0 <= n /\ forall c, In c cs -> allows c n)
  /\ (exists cs k, reduce_unfixed cs = Crash k)
  /\ (exists cs r, reduce_unfixed cs = Ok r /\ ~ exists n, 0 <= n /\ in_range r n).
Proof.
  split; [|split].
  - exists [ExactL 5; ExactL 5]. eexists. split; [vm_compute; reflexivity|].
    exists 5. split; [lia|]. intros c [<-|[<-|[]]]; cbn; lia.
  - exists [MinL 0; MaxL 5]. eexists. vm_compute. reflexivity.
  - exists [MaxL (-1)]. eexists. split; [vm_compute; reflexivity|].
    intros [n [Hn [_ H]]]. cbn in H. lia.
Qed.

(** ** Merging two reduced ranges *)

Definition wf_opt (r : option lenc) : Prop :=
  match r with Some c => wf_lenc c | None => True end.

(** [merge_len_meet]: the merged range is the intersection. *)
Theorem merge_len_meet : forall (E : Type) a b c,
  merge_len (E := E) a b = Ok c ->
  forall n, in_range_opt c n <-> (in_range_opt a n /\ in_range_opt b n).
Proof.
  intros E a b c H n. unfold merge_len in H.
  destruct a as [[l1 h1]|]; destruct b as [[l2 h2]|].
  - destruct (mk_lenc (max_or_none l1 l2) (min_or_none h1 h2)) as [r|e|k] eqn:Hm; try discriminate.
    inversion H; subst c. apply mk_lenc_ok in Hm. subst r.
    unfold in_range_opt, in_range. cbn [fst snd].
    destruct l1 as [x1|]; destruct l2 as [x2|]; destruct h1 as [y1|]; destruct h2 as [y2|];
      cbn [max_or_none min_or_none]; intuition lia.
  - inversion H; subst c. cbn. intuition.
  - inversion H; subst c. cbn. intuition.
  - inversion H; subst c. cbn. intuition.
Qed.

(** [merge_total]: merging well-formed ranges that do not contradict never violates
    the precondition, and the result is well-formed again. *)
Theorem merge_total : forall (E : Type) a b,
  wf_opt a -> wf_opt b -> len_contradict a b = false ->
  exists c, merge_len (E := E) a b = Ok c /\ wf_opt c.
Proof.
  intros E a b Wa Wb Hc. unfold merge_len, len_contradict in *.
  destruct a as [[l1 h1]|]; destruct b as [[l2 h2]|].
  - destruct Wa as [A1 [A2 A3]]. destruct Wb as [B1 [B2 B3]]. cbn [fst snd] in *.
    unfold mk_lenc.
    destruct l1 as [x1|]; destruct l2 as [x2|]; destruct h1 as [y1|]; destruct h2 as [y2|];
      cbn [max_or_none min_or_none] in *;
      try (specialize (A1 _ eq_refl)); try (specialize (B1 _ eq_refl));
      try (specialize (A2 _ eq_refl)); try (specialize (B2 _ eq_refl));
      try (specialize (A3 _ _ eq_refl eq_refl)); try (specialize (B3 _ _ eq_refl eq_refl));
      try match goal with
          | |- context [if ?c then _ else _] =>
              let Hc' := fresh in destruct c eqn:Hc'; [|exfalso; lia]
          end;
      (eexists; split; [reflexivity|]);
      unfold wf_opt, wf_lenc; cbn [fst snd]; repeat split; intros;
      repeat match goal with H : Some _ = Some _ |- _ => inversion H; subst; clear H end;
      try discriminate; lia.
  - eexists; split; [reflexivity | exact Wa].
  - eexists; split; [reflexivity | exact Wb].
  - eexists; split; [reflexivity | exact I].
Qed.

(** The added check is exact: it fires iff no length lies in both ranges. *)
Theorem len_contradict_spec : forall a b,
  wf_opt a -> wf_opt b ->
  (len_contradict a b = true <-> ~ exists n, 0 <= n /\ in_range_opt a n /\ in_range_opt b n).
Proof.
  intros a b Wa Wb. split.
  - intros Hc [n [Hn [Ha Hb]]]. unfold len_contradict in Hc.
    destruct a as [[l1 h1]|]; destruct b as [[l2 h2]|]; try discriminate.
    unfold in_range_opt, in_range in *. cbn [fst snd] in *.
    destruct l1 as [x1|]; destruct l2 as [x2|]; destruct h1 as [y1|]; destruct h2 as [y2|];
      cbn [max_or_none min_or_none] in Hc; try discriminate; lia.
  - intros Hun. destruct (len_contradict a b) eqn:Hc; [reflexivity|].
    exfalso. apply Hun.
    destruct (merge_total unit a b Wa Wb Hc) as [c [Hm Wc]].
    assert (Hs : exists n, 0 <= n /\ in_range_opt c n).
    { destruct c as [r|]; [apply wf_lenc_sat; exact Wc | exists 0; cbn; split; [lia | exact I]]. }
    destruct Hs as [n [Hn Hr]]. exists n. split; [exact Hn|].
    apply (merge_len_meet unit a b c Hm n). exact Hr.
Qed.

(** Without the added check the precondition is violated (the defect that was fixed):
    parent [<= 3], child [>= 5]. *)
Lemma merge_unchecked_refuted :
  exists a b k, wf_opt a /\ wf_opt b /\ merge_len (E := unit) a b = Crash k.
Proof.
  exists (Some (None, Some 3)), (Some (Some 5, None)), Violation.
  split; [|split]; [| |vm_compute; reflexivity];
    unfold wf_opt, wf_lenc; cbn [fst snd]; repeat split; intros;
    repeat match goal with H : Some _ = Some _ |- _ => inversion H; subst; clear H end;
    try discriminate; lia.
Qed.

(** ** Unrecognised forms contribute nothing *)

Lemma unrecognised_examples :
  let b := EMember (EName self_id) [98%N] in
  let lenb := ECall len_id [b] in
  forallb (fun e => match match_len_invariant e with None => true | Some _ => false end)
    [ ECmp Ne lenb (EInt 4);                               (* len(self.b) != 4 *)
      ECmp Lt EOther (EInt 4);                             (* len(self.b) + 1 < 4 *)
      ENot (ECmp Ge lenb (EInt 4));                        (* not (len(self.b) >= 4) *)
      ECmp Lt lenb EConstOther;                            (* len(self.b) < 4.5 *)
      ECmp Lt lenb (EName [75%N]);                         (* len(self.b) < K *)
      EAnd [ECmp Ge lenb (EInt 0); ECmp Le lenb (EInt 5)];
      EOr [EIsNone b; ECmp Lt lenb (EInt 3); ECmp Gt lenb (EInt 9)];
      EOr [EIsNone (EMember (EName self_id) [97%N]); ECmp Lt lenb (EInt 3)];
      ECmp Lt (ECall len_id [EMember (EName [111%N]) [98%N]]) (EInt 3);  (* len(o.b) < 3 *)
      ECmp Lt (ECall len_id [b; b]) (EInt 3) ] = true.
Proof. vm_compute. reflexivity. Qed.
