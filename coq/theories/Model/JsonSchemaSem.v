(** Validation semantics of the JSON-Schema subset emitted by
    [aas_core_codegen/jsonschema/main.py] (C11, C12).

    A schema is a list of keywords (the entries of the JSON object); a document
    validates iff every keyword accepts it (JSON Schema core: keywords are independent
    assertions). [$ref] is followed into [definitions]; recursion is on explicit fuel
    only, with a *strict* three-valued result: [None] = out of fuel or unresolved
    [$ref] somewhere, [Some b] = fully evaluated verdict.

    [minLength]/[maxLength] count code points (JSON Schema validation, 6.3.1/6.3.2);
    [pattern] is an abstract predicate [search16 pattern string] ("the regular expression
    finds a match in the UTF-16 image of the string") -- the regex engine is third-party.
    Executable definitions only. *)
From Coq Require Import List NArith ZArith Bool.
From Acg Require Import Base.Str.
Import ListNotations.
Open Scope Z_scope.

(** JSON documents. Of a number only its integrality is observed by the emitted subset
    ([type: integer] vs [type: number]); [tok] is its literal. *)
Inductive json : Type :=
| JNull
| JBool (b : bool)
| JNum (integral : bool) (tok : text)
| JStr (s : text)
| JArr (l : list json)
| JObj (m : list (text * json)).

Inductive jtype : Type := TyString | TyInteger | TyNumber | TyBoolean | TyArray | TyObject | TyNull.

Inductive schema : Type :=
| Schema (kws : list kw)
with kw : Type :=
| KType (t : jtype)
| KEnum (vs : list text)          (* enum of strings *)
| KConst (v : text)               (* const string *)
| KMinLength (n : Z)
| KMaxLength (n : Z)
| KPattern (p : text)
| KMinItems (n : Z)
| KMaxItems (n : Z)
| KItems (s : schema)
| KProperties (ps : list (text * schema))
| KRequired (rs : list text)
| KAllOf (ss : list schema)
| KOneOf (ss : list schema)
| KRef (name : text)              (* "$ref": "#/definitions/<name>" *)
| KAnnot (key value : text).      (* annotation without assertion: contentEncoding *)

Definition kws_of (s : schema) : list kw := match s with Schema k => k end.

Fixpoint lookup {A} (k : text) (m : list (text * A)) : option A :=
  match m with
  | [] => None
  | (k', v) :: r => if text_eqb k k' then Some v else lookup k r
  end.

Definition is_some {A} (o : option A) : bool := match o with Some _ => true | None => false end.

Definition has_type (t : jtype) (v : json) : bool :=
  match t, v with
  | TyString, JStr _ => true
  | TyInteger, JNum true _ => true
  | TyNumber, JNum _ _ => true
  | TyBoolean, JBool _ => true
  | TyArray, JArr _ => true
  | TyObject, JObj _ => true
  | TyNull, JNull => true
  | _, _ => false
  end.

(** Strict conjunction: [None] as soon as one conjunct is undetermined. *)
Fixpoint all_opt (l : list (option bool)) : option bool :=
  match l with
  | [] => Some true
  | None :: _ => None
  | Some b :: r => match all_opt r with Some c => Some (b && c) | None => None end
  end.

Fixpoint count_true (l : list (option bool)) : option nat :=
  match l with
  | [] => Some O
  | None :: _ => None
  | Some b :: r => match count_true r with
                   | Some n => Some (if b then S n else n)
                   | None => None
                   end
  end.

Definition exactly_one (l : list (option bool)) : option bool :=
  match count_true l with
  | Some n => Some (Nat.eqb n 1)
  | None => None
  end.

Section Sem.
  (** [search16 p s]: the regular expression [p] of the schema matches somewhere in the
      UTF-16 image of [s]. *)
  Variable search16 : text -> text -> bool.
  Variable defs : list (text * schema).

  Definition valid_kw (rec : schema -> json -> option bool) (k : kw) (v : json) : option bool :=
    match k with
    | KType t => Some (has_type t v)
    | KEnum vs => Some (match v with JStr s => mem_text s vs | _ => false end)
    | KConst c => Some (match v with JStr s => text_eqb s c | _ => false end)
    | KMinLength n => Some (match v with JStr s => n <=? zlen s | _ => true end)
    | KMaxLength n => Some (match v with JStr s => zlen s <=? n | _ => true end)
    | KPattern p => Some (match v with JStr s => search16 p s | _ => true end)
    | KMinItems n => Some (match v with JArr l => n <=? zlen l | _ => true end)
    | KMaxItems n => Some (match v with JArr l => zlen l <=? n | _ => true end)
    | KItems s => match v with
                  | JArr l => all_opt (map (rec s) l)
                  | _ => Some true
                  end
    | KProperties ps =>
        match v with
        | JObj m => all_opt (map (fun ks : text * schema =>
                                    match lookup (fst ks) m with
                                    | Some x => rec (snd ks) x
                                    | None => Some true
                                    end) ps)
        | _ => Some true
        end
    | KRequired rs =>
        Some (match v with
              | JObj m => forallb (fun r => is_some (lookup r m)) rs
              | _ => true
              end)
    | KAllOf ss => all_opt (map (fun s => rec s v) ss)
    | KOneOf ss => exactly_one (map (fun s => rec s v) ss)
    | KRef name => match lookup name defs with
                   | Some s => rec s v
                   | None => None
                   end
    | KAnnot _ _ => Some true
    end.

  Fixpoint validates (fuel : nat) (s : schema) (v : json) {struct fuel} : option bool :=
    match fuel with
    | O => None
    | S f => all_opt (map (fun k => valid_kw (validates f) k v) (kws_of s))
    end.

  (** The document is accepted / rejected by the definition [name] (with the fuel given). *)
  Definition validates_def (fuel : nat) (name : text) (v : json) : option bool :=
    validates fuel (Schema [KRef name]) v.
End Sem.

(** All [$ref] targets occurring in a schema (fuel-bounded walk; the fuel needed is the
    nesting depth). *)
Fixpoint refs_of (fuel : nat) (s : schema) : list text :=
  match fuel with
  | O => []
  | S f =>
      flat_map (fun k =>
        match k with
        | KRef n => [n]
        | KItems s' => refs_of f s'
        | KProperties ps => flat_map (fun ks : text * schema => refs_of f (snd ks)) ps
        | KAllOf ss | KOneOf ss => flat_map (refs_of f) ss
        | _ => []
        end) (kws_of s)
  end.

Definition keys {A} (m : list (text * A)) : list text := map fst m.

Definition refs_resolveb (fuel : nat) (defs : list (text * schema)) : bool :=
  forallb (fun ns : text * schema =>
             forallb (fun r => mem_text r (keys defs)) (refs_of fuel (snd ns))) defs.

(** Decidable equality (for the in-Coq correspondence of the generator model). *)
Definition jtype_eqb (a b : jtype) : bool :=
  match a, b with
  | TyString, TyString | TyInteger, TyInteger | TyNumber, TyNumber | TyBoolean, TyBoolean
  | TyArray, TyArray | TyObject, TyObject | TyNull, TyNull => true
  | _, _ => false
  end.

Fixpoint schema_eqb (fuel : nat) (a b : schema) : bool :=
  match fuel with
  | O => false
  | S f =>
      list_eqb (fun x y =>
        match x, y with
        | KType t, KType u => jtype_eqb t u
        | KEnum v, KEnum w => list_eqb text_eqb v w
        | KConst v, KConst w => text_eqb v w
        | KMinLength n, KMinLength m | KMaxLength n, KMaxLength m
        | KMinItems n, KMinItems m | KMaxItems n, KMaxItems m => Z.eqb n m
        | KPattern p, KPattern q => text_eqb p q
        | KItems s, KItems t => schema_eqb f s t
        | KProperties ps, KProperties qs =>
            list_eqb (fun p q : text * schema =>
                        text_eqb (fst p) (fst q) && schema_eqb f (snd p) (snd q)) ps qs
        | KRequired r, KRequired s => list_eqb text_eqb r s
        | KAllOf ss, KAllOf ts | KOneOf ss, KOneOf ts => list_eqb (schema_eqb f) ss ts
        | KRef n, KRef m => text_eqb n m
        | KAnnot k v, KAnnot k' v' => text_eqb k k' && text_eqb v v'
        | _, _ => false
        end) (kws_of a) (kws_of b)
  end.

(** Canonical form: keywords in a fixed order, [properties] and [required] sorted by name
    (JSON objects are unordered; [required] is a set). *)
Definition kw_rank (k : kw) : Z :=
  match k with
  | KRef _ => 0 | KType _ => 1 | KAnnot _ _ => 2 | KEnum _ => 3 | KConst _ => 4
  | KMinLength _ => 5 | KMaxLength _ => 6 | KPattern _ => 7 | KItems _ => 8
  | KMinItems _ => 9 | KMaxItems _ => 10 | KProperties _ => 11 | KRequired _ => 12
  | KAllOf _ => 13 | KOneOf _ => 14
  end.

Fixpoint text_leb (a b : text) : bool :=
  match a, b with
  | [], _ => true
  | _ :: _, [] => false
  | x :: a', y :: b' => if N.ltb x y then true else if N.ltb y x then false else text_leb a' b'
  end.

Fixpoint insert_by {A} (leb : A -> A -> bool) (x : A) (l : list A) : list A :=
  match l with
  | [] => [x]
  | y :: r => if leb x y then x :: l else y :: insert_by leb x r
  end.

Definition sort_by {A} (leb : A -> A -> bool) (l : list A) : list A :=
  fold_right (insert_by leb) [] l.

Fixpoint normalize (fuel : nat) (s : schema) : schema :=
  match fuel with
  | O => s
  | S f =>
      Schema (sort_by (fun a b => kw_rank a <=? kw_rank b)
        (map (fun k =>
           match k with
           | KItems s' => KItems (normalize f s')
           | KProperties ps =>
               KProperties (sort_by (fun p q : text * schema => text_leb (fst p) (fst q))
                              (map (fun p : text * schema => (fst p, normalize f (snd p))) ps))
           | KRequired rs => KRequired (sort_by text_leb rs)
           | KAllOf ss => KAllOf (map (normalize f) ss)
           | KOneOf ss => KOneOf (map (normalize f) ss)
           | KEnum vs => KEnum (sort_by text_leb vs)
           | _ => k
           end) (kws_of s)))
  end.
