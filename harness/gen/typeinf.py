"""Generators for C07: small meta-models (source text + Coq symbol table), invariants that
are well-typed by construction and typed mutations of them, type-conforming instances, and
the printers of trees / types / values as Coq terms of Model/{Tree,PyEval,TypeInf}.v."""
from __future__ import annotations

import json
from typing import Any, Dict, List, Optional, Tuple

# ----------------------------------------------------------------------------- Coq printers
def ctext(s: str) -> str:
    return "[" + ";".join(str(ord(c)) for c in s) + "]%N" if s else "(@nil N)"


def clist(items) -> str:
    items = list(items)
    return "[" + "; ".join(items) + "]" if items else "[]"


def cz(n: int) -> str:
    return f"({n})%Z"


PRIMS = {"bool": "PBool", "int": "PInt", "float": "PFloat", "str": "PStr",
         "bytearray": "PBytes", "length": "PLength"}


def ctype_json(t: Dict[str, Any]) -> str:
    k = t["k"]
    if k == "prim":
        return f"(TPrim {PRIMS[t['p']]})"
    if k == "class":
        return f"(TClass {ctext(t['n'])})"
    if k == "enum":
        return f"(TEnum {ctext(t['n'])})"
    if k == "cons":
        return f"(TCons {ctext(t['n'])} {PRIMS[t['p']]})"
    if k == "list":
        return f"(TList {ctype_json(t['t'])})"
    if k == "set":
        return f"(TSet {ctype_json(t['t'])})"
    if k == "opt":
        return f"(TOpt {ctype_json(t['t'])})"
    if k == "verif":
        return f"(TVerif {ctext(t['n'])})"
    if k == "builtin":
        assert t["n"] == "len"
        return "TLen"
    if k == "method":
        return f"(TMethod {ctext(t['c'] or '?')} {ctext(t['n'])})"
    if k == "enumtype":
        return f"(TEnumType {ctext(t['n'])})"
    raise ValueError(k)


CMP = {"LT": "Lt", "LE": "Le", "GT": "Gt", "GE": "Ge", "EQ": "Eq", "NE": "Ne"}


def ctree(t: Dict[str, Any]) -> str:
    k = t["k"]
    if k == "Member":
        return f"(Member {ctree(t['inst'])} {ctext(t['name'])})"
    if k == "Name":
        return f"(Name {ctext(t['id'])})"
    if k == "Constant":
        if t["t"] == "bool":
            return f"(Constant (CBool {'true' if t['v'] else 'false'}))"
        if t["t"] == "int":
            return f"(Constant (CInt {cz(t['v'])}))"
        if t["t"] == "float":
            return f"(Constant (CFloat {cz(t['v'])}))"
        return f"(Constant (CStr {ctext(t['v'])}))"
    if k == "Index":
        return f"(Index {ctree(t['a'])} {ctree(t['b'])})"
    if k == "Comparison":
        return f"(Comparison {CMP[t['op']]} {ctree(t['a'])} {ctree(t['b'])})"
    if k in ("IsIn", "Implication", "Add", "Sub"):
        return f"({k} {ctree(t['a'])} {ctree(t['b'])})"
    if k in ("IsNone", "IsNotNone", "Not"):
        return f"({k} {ctree(t['a'])})"
    if k in ("And", "Or"):
        return f"({k} {clist(ctree(v) for v in t['vs'])})"
    if k == "FunctionCall":
        return f"(FunctionCall {ctext(t['f'])} {clist(ctree(a) for a in t['args'])})"
    if k == "MethodCall":
        return (f"(MethodCall {ctree(t['inst'])} {ctext(t['m'])} "
                f"{clist(ctree(a) for a in t['args'])})")
    if k in ("Any", "All"):
        g = t["g"]
        if g["k"] == "ForEach":
            gs = f"(ForEach {ctree(g['a'])})"
        else:
            gs = f"(ForRange {ctree(g['a'])} {ctree(g['b'])})"
        return f"({k} {ctext(t['var'])} {gs} {ctree(t['c'])})"
    if k == "JoinedStr":
        parts = []
        for p in t["parts"]:
            if "lit" in p:
                parts.append(f"(JLit {ctext(p['lit'])})")
            else:
                parts.append(f"(JFmt {ctree(p['fmt'])})")
        return f"(JoinedStr {clist(parts)})"
    raise ValueError(k)


def cvalue(v: Dict[str, Any]) -> str:
    k = v["k"]
    if k == "none":
        return "VNone"
    if k == "bool":
        return f"(VBool {'true' if v['v'] else 'false'})"
    if k == "int":
        return f"(VInt {cz(v['v'])})"
    if k == "float":
        return f"(VFloat {cz(v['q'])})"
    if k == "str":
        return f"(VStr {ctext(v['v'])})"
    if k == "bytes":
        return "(VBytes " + ("[" + ";".join(str(b) for b in v["v"]) + "]%N" if v["v"] else "(@nil N)") + ")"
    if k == "list":
        return f"(VList {clist(cvalue(x) for x in v['v'])})"
    if k == "enum":
        return f"(VEnum {ctext(v['e'])} {ctext(v['lit'])})"
    if k == "obj":
        fs = clist(f"({ctext(n)}, {cvalue(x)})" for n, x in v["fields"])
        return f"(VObj {v['oid']}%nat {ctext(v['cls'])} {fs})"
    raise ValueError(k)


# ----------------------------------------------------------------------------- types (spec)
# spec types: ("prim", p) | ("class", n) | ("enum", n) | ("cons", n, p) | ("list", t) | ("opt", t)
def T_json(t) -> Dict[str, Any]:
    if t[0] == "prim":
        return {"k": "prim", "p": t[1]}
    if t[0] in ("class", "enum"):
        return {"k": t[0], "n": t[1]}
    if t[0] == "cons":
        return {"k": "cons", "n": t[1], "p": t[2]}
    if t[0] in ("list", "opt", "set"):
        return {"k": t[0], "t": T_json(t[1])}
    raise ValueError(t)


def T_src(t) -> str:
    if t[0] == "prim":
        return t[1]
    if t[0] in ("class", "enum", "cons"):
        return t[1]
    if t[0] == "list":
        return f"List[{T_src(t[1])}]"
    if t[0] == "opt":
        return f"Optional[{T_src(t[1])}]"
    raise ValueError(t)


INT, STR, FLOAT, BOOL, BYTES = (("prim", "int"), ("prim", "str"), ("prim", "float"),
                                ("prim", "bool"), ("prim", "bytearray"))
COLOR = ("enum", "Color")
BRIEF = ("cons", "Short_str", "str")
BASE_TYPES = [INT, STR, FLOAT, BOOL, BYTES, COLOR, BRIEF]
TAG = {"int": "i", "str": "s", "float": "f", "bool": "b", "bytearray": "y"}


def type_tag(t) -> str:
    if t[0] == "prim":
        return TAG[t[1]]
    if t[0] == "enum":
        return "e"
    if t[0] == "cons":
        return "c"
    if t[0] == "class":
        return "k"
    if t[0] == "list":
        return "l" + type_tag(t[1])
    if t[0] == "opt":
        return "o" + type_tag(t[1])
    raise ValueError(t)


VERIFS = {
    # name -> (params, ret)
    "is_ok": ([STR], BOOL),
    "opt_ok": ([("opt", STR)], BOOL),
    "both_pos": ([INT, INT], BOOL),
    "twice": ([INT], INT),
    "perhaps": ([STR], ("opt", STR)),
    "echo": ([STR], STR),
}

PRELUDE = '''from enum import Enum
from typing import List, Optional, Set

from icontract import invariant, DBC

from aas_core_meta.marker import (
    abstract,
    implementation_specific,
    verification,
    constant_set,
    non_mutating,
    serialization,
)


@verification
def is_ok(text: str) -> bool:
    """Check the text."""
    return len(text) > 0


@verification
def opt_ok(text: Optional[str]) -> bool:
    """Check the text."""
    return text is None or len(text) > 1


@verification
def both_pos(a: int, b: int) -> bool:
    """Check the numbers."""
    return a > 0 and b > 0


@verification
def twice(a: int) -> int:
    """Double."""
    return a + a


@verification
def echo(text: str) -> str:
    """Give the text back."""
    return text


@verification
@implementation_specific
def perhaps(text: str) -> Optional[str]:
    """Give the text back if it is not empty."""
    raise NotImplementedError()


class Color(Enum):
    """Colors."""

    Red = "RED"
    Green = "GREEN"
    Blue = "BLUE"


@invariant(lambda self: len(self) <= 5, "Short string is short.")
class Short_str(str, DBC):
    """Short string."""


Valid_names: Set[str] = constant_set(
    values=["a", "ab", "Hello"],
    description="Valid names",
)

'''

OVERRIDES = '''
def perhaps(text):
    return None if len(text) == 0 else text
'''

# The Coq side of the fixed part: verification functions and methods as oracles.
COQ_ORACLES = r'''
Definition fn_model (f : text) (args : list value) : pyresult :=
  if text_eqb f (s2l "is_ok") then
    match args with
    | [v] => match py_len [v] with
             | Val l => py_compare Gt l (VInt 0)
             | r => r end
    | _ => Raise TypeErr end
  else if text_eqb f (s2l "opt_ok") then
    match args with
    | [VNone] => Val (VBool true)
    | [v] => match py_len [v] with
             | Val l => py_compare Gt l (VInt 1)
             | r => r end
    | _ => Raise TypeErr end
  else if text_eqb f (s2l "both_pos") then
    match args with
    | [a; b] => match py_compare Gt a (VInt 0) with
                | Val va => if truthy va then py_compare Gt b (VInt 0) else Val va
                | r => r end
    | _ => Raise TypeErr end
  else if text_eqb f (s2l "twice") then
    match args with
    | [a] => py_arith true a a
    | _ => Raise TypeErr end
  else if text_eqb f (s2l "echo") then
    match args with
    | [v] => Val v
    | _ => Raise TypeErr end
  else if text_eqb f (s2l "perhaps") then
    match args with
    | [v] => match py_len [v] with
             | Val l => match py_compare Eq l (VInt 0) with
                        | Val (VBool true) => Val VNone
                        | _ => Val v end
             | r => r end
    | _ => Raise TypeErr end
  else Raise NameErr.

Definition meth_model (cls : text) (fs : list (text * value)) (m : text) (args : list value)
  : pyresult :=
  if text_eqb m (s2l "compute") then
    match args with [_] => Val (VInt 4) | _ => Raise TypeErr end
  else Raise AttrErr.

Definition lits_model (e : text) : list text :=
  if text_eqb e (s2l "Color") then [s2l "Red"; s2l "Green"; s2l "Blue"] else [].

Definition globals : list (text * value) :=
  [(s2l "len", VFun (s2l "len")); (s2l "is_ok", VFun (s2l "is_ok"));
   (s2l "opt_ok", VFun (s2l "opt_ok")); (s2l "both_pos", VFun (s2l "both_pos"));
   (s2l "twice", VFun (s2l "twice")); (s2l "perhaps", VFun (s2l "perhaps"));
   (s2l "echo", VFun (s2l "echo")); (s2l "Color", VType (s2l "Color"));
   (s2l "Valid_names", VSet [VStr (s2l "a"); VStr (s2l "ab"); VStr (s2l "Hello")])].

Definition mk_env (self : value) : env :=
  mkEnv ((s2l "self", self) :: globals) fn_model meth_model lits_model.

Definition base_tenv : tenv :=
  [(s2l "len", TLen); (s2l "Valid_names", TSet (TPrim PStr));
   (s2l "is_ok", TVerif (s2l "is_ok")); (s2l "opt_ok", TVerif (s2l "opt_ok"));
   (s2l "both_pos", TVerif (s2l "both_pos")); (s2l "twice", TVerif (s2l "twice"));
   (s2l "perhaps", TVerif (s2l "perhaps")); (s2l "echo", TVerif (s2l "echo"));
   (s2l "Color", TEnumType (s2l "Color"))].

Definition verifs_model : list (text * fsig) :=
  [(s2l "is_ok", mkSig [TPrim PStr] (TPrim PBool));
   (s2l "opt_ok", mkSig [TOpt (TPrim PStr)] (TPrim PBool));
   (s2l "both_pos", mkSig [TPrim PInt; TPrim PInt] (TPrim PBool));
   (s2l "twice", mkSig [TPrim PInt] (TPrim PInt));
   (s2l "perhaps", mkSig [TPrim PStr] (TOpt (TPrim PStr)));
   (s2l "echo", mkSig [TPrim PStr] (TPrim PStr))].

Definition enums_model : list (text * list text) :=
  [(s2l "Color", [s2l "Red"; s2l "Green"; s2l "Blue"])].

Definition compute_sig : fsig := mkSig [TPrim PInt] (TPrim PInt).
'''


# ----------------------------------------------------------------------------- meta-models
class MetaModel:
    """classes: name -> {"base": name|None, "own": [(prop, type)], "props": stacked}"""

    def __init__(self, rng, idx: int):
        self.idx = idx
        self.classes: Dict[str, Dict[str, Any]] = {}
        self.invariants: Dict[str, List[Tuple[str, Any]]] = {}  # cls -> [(desc, spec)]
        counter = [0]

        def props(n_lo, n_hi, class_types):
            out = []
            pool = list(BASE_TYPES) + class_types
            for _ in range(rng.randint(n_lo, n_hi)):
                t = rng.choice(pool)
                r = rng.random()
                if r < 0.3:
                    t = ("opt", t)
                elif r < 0.5:
                    t = ("list", t)
                elif r < 0.6:
                    t = ("opt", ("list", t))
                counter[0] += 1
                out.append((f"{type_tag(t)}{counter[0]}", t))
            return out

        item_own = [("name", STR), ("weight", ("opt", INT))] + props(1, 4, [])
        self.add("Item", None, item_own)
        self.add("Special_item", "Item", props(1, 2, []))
        holder_own = [("item", ("class", "Item")), ("opt_item", ("opt", ("class", "Item"))),
                      ("items", ("list", ("class", "Item"))),
                      ("opt_items", ("opt", ("list", ("class", "Item"))))]
        holder_own += props(4, 9, [("class", "Item")])
        # make sure the basic kinds exist
        holder_own += [("i0", INT), ("s0", STR), ("oi0", ("opt", INT)), ("os0", ("opt", STR)),
                       ("li0", ("list", INT)), ("f0", FLOAT), ("b0", BOOL),
                       ("ob0", ("opt", BOOL)), ("weight", ("opt", INT))]
        self.add("Holder", None, holder_own)
        # generated verification functions: name -> (params [(name, type)], body spec, kind)
        self.functions: Dict[str, Tuple[List[Tuple[str, Any]], Any, str]] = {}

    def add(self, name, base, own):
        stacked = list(self.classes[base]["props"]) if base else []
        self.classes[name] = {"base": base, "own": own, "props": stacked + own}
        self.invariants[name] = []

    def descendants(self, name) -> List[str]:
        return [c for c, d in self.classes.items() if d["base"] == name]

    # -- source text
    def source(self) -> str:
        out = [PRELUDE]
        for name, d in self.classes.items():
            for desc, spec in reversed(self.invariants[name]):
                out.append(f"@invariant(lambda self: {src(spec)}, {desc!r})\n")
            if self.descendants(name):
                out.append("@serialization(with_model_type=True)\n")
            base = d["base"] or "DBC"
            out.append(f"class {name}({base}):\n    \"\"\"Class {name}.\"\"\"\n\n")
            for p, t in d["own"]:
                out.append(f"    {p}: {T_src(t)}\n    \"\"\"Property {p}.\"\"\"\n\n")
            req = [(p, t) for p, t in d["props"] if t[0] != "opt"]
            opt = [(p, t) for p, t in d["props"] if t[0] == "opt"]
            args = ["self"] + [f"{p}: {T_src(t)}" for p, t in req] + \
                   [f"{p}: {T_src(t)} = None" for p, t in opt]
            out.append(f"    def __init__({', '.join(args)}) -> None:\n")
            if d["base"]:
                bp = self.classes[d["base"]]["props"]
                breq = [p for p, t in bp if t[0] != "opt"]
                bopt = [p for p, t in bp if t[0] == "opt"]
                out.append(f"        {d['base']}.__init__(self, "
                           + ", ".join([f"{p}={p}" for p in breq + bopt]) + ")\n")
            for p, _ in d["own"]:
                out.append(f"        self.{p} = {p}\n")
            if not d["own"] and not d["base"]:
                out.append("        pass\n")
            if d["base"] is None:
                out.append("\n    @non_mutating\n    def compute(self, a: int) -> int:\n"
                           "        \"\"\"Compute.\"\"\"\n        return 4\n")
            out.append("\n\n")
        for fname, (params, body, _kind) in self.functions.items():
            sig = ", ".join(f"{n}: {T_src(t)}" for n, t in params)
            out.append(f"@verification\ndef {fname}({sig}) -> bool:\n"
                       f"    \"\"\"Check {fname}.\"\"\"\n{body_src(body)}\n\n")
        out.append('__version__ = "dummy"\n__xml_namespace__ = "https://dummy.com"\n')
        return "".join(out)

    # -- Coq symbol table
    def coq_symtab(self) -> str:
        cls = []
        for name, d in self.classes.items():
            props = clist(f"({ctext(p)}, {ctype_json(T_json(t))})" for p, t in d["props"])
            desc = []
            todo = [name]
            while todo:
                c = todo.pop()
                for ch in self.descendants(c):
                    desc.append(ch)
                    todo.append(ch)
            cls.append(f"({ctext(name)}, mkCls {props} [(s2l \"compute\", compute_sig)] "
                       f"{clist(ctext(x) for x in desc)})")
        return f"(mkSym {clist(cls)} enums_model verifs_model)"


# ----------------------------------------------------------------------------- expression specs
def src(e) -> str:
    k = e[0]
    if k == "raw":
        return e[1]
    if k == "name":
        return e[1]
    if k == "member":
        return f"{src_atom(e[1])}.{e[2]}"
    if k == "const":
        return repr(e[1])
    if k == "idx":
        return f"{src_atom(e[1])}[{src(e[2])}]"
    if k == "cmp":
        return f"({src(e[2])}) {e[1]} ({src(e[3])})"
    if k == "in":
        return f"({src(e[1])}) in ({src(e[2])})"
    if k == "isnone":
        return f"({src(e[1])}) is None"
    if k == "isnotnone":
        return f"({src(e[1])}) is not None"
    if k == "not":
        return f"not ({src(e[1])})"
    if k == "and":
        return " and ".join(f"({src(v)})" for v in e[1])
    if k == "or":
        return " or ".join(f"({src(v)})" for v in e[1])
    if k == "impl":
        return f"not ({src(e[1])}) or ({src(e[2])})"
    if k == "call":
        return f"{e[1]}({', '.join(src(a) for a in e[2])})"
    if k == "mcall":
        return f"{src_atom(e[1])}.{e[2]}({', '.join(src(a) for a in e[3])})"
    if k == "add":
        return f"({src(e[1])}) + ({src(e[2])})"
    if k == "sub":
        return f"({src(e[1])}) - ({src(e[2])})"
    if k in ("any", "all"):
        g = e[2]
        if g[0] == "each":
            gs = f"for {e[1]} in {src_atom(g[1])}"
        else:
            gs = f"for {e[1]} in range({src(g[1])}, {src(g[2])})"
        return f"{k}(({src(e[3])}) {gs})"
    if k == "fstr":
        body = ""
        for p in e[1]:
            if isinstance(p, str):
                body += p.replace("{", "{{").replace("}", "}}")
            else:
                body += "{" + src(p) + "}"
        return "f" + json.dumps(body).replace("\\u00e9", "é")
    raise ValueError(e)


def body_src(body, indent="    ") -> str:
    """Source of a function body: an expression spec (returned) or ("body", statements)."""
    if body[0] != "body":
        return f"{indent}return {src(body)}\n"
    out = []
    for st in body[1]:
        if st[0] == "assign":
            out.append(f"{indent}{st[1]} = {src(st[2])}\n")
        else:
            out.append(f"{indent}return {src(st[1])}\n")
    return "".join(out)


def cstmts(js) -> str:
    out = []
    for st in js:
        if st["k"] == "assign":
            out.append(f"(SAssign {ctext(st['x'])} {ctree(st['e'])})")
        else:
            out.append(f"(SReturn {ctree(st['e'])})")
    return clist(out)


def src_atom(e) -> str:
    if e[0] in ("name", "member", "idx", "call", "mcall"):
        return src(e)
    return f"({src(e)})"


SELF = ("name", "self")


class ExprGen:
    """Generates invariants over one class that are well-typed by construction."""

    def __init__(self, rng, mm: MetaModel, cls: str):
        self.rng = rng
        self.mm = mm
        self.cls = cls
        self.var_counter = 0

    # ctx: {"vars": [(spec, type)], "narrowed": set(src strings)}
    def paths(self, ctx, depth=2):
        """All access paths with their (narrowed) types."""
        out = []
        todo = [(v, t, 0) for v, t in ctx["vars"]]
        while todo:
            e, t, d = todo.pop()
            if t[0] == "opt" and src(e) in ctx["narrowed"]:
                t = t[1]
            out.append((e, t))
            if t[0] == "class" and d < depth:
                for p, pt in self.mm.classes[t[1]]["props"]:
                    todo.append((("member", e, p), pt, d + 1))
        return out

    def pick(self, ctx, pred):
        c = [(e, t) for e, t in self.paths(ctx) if pred(t)]
        return self.rng.choice(c) if c else None

    def fresh(self):
        self.var_counter += 1
        return f"x{self.var_counter}"

    def gen_int(self, ctx, d):
        r = self.rng.random()
        if d <= 0 or r < 0.3:
            p = self.pick(ctx, lambda t: t == INT)
            if p and self.rng.random() < 0.7:
                return p[0]
            return ("const", self.rng.choice([0, 1, 2, 3, 5, 10]))
        if r < 0.5:
            p = self.pick(ctx, lambda t: t in (STR, BYTES, BRIEF) or t[0] == "list")
            if p:
                return ("call", "len", [p[0]])
        if r < 0.6:
            return ("call", "twice", [self.gen_int(ctx, d - 1)])
        if r < 0.75:
            return (self.rng.choice(["add", "sub"]), self.gen_int(ctx, d - 1), self.gen_int(ctx, d - 1))
        if r < 0.85:
            p = self.pick(ctx, lambda t: t == ("list", INT))
            if p:
                return ("idx", p[0], ("const", self.rng.choice([0, 0, 1, 2])))
        if r < 0.95:
            p = self.pick(ctx, lambda t: t[0] == "class")
            if p:
                return ("mcall", p[0], "compute", [self.gen_int(ctx, 0)])
        return ("const", self.rng.choice([0, 1, 7]))

    def gen_str(self, ctx, d):
        r = self.rng.random()
        p = self.pick(ctx, lambda t: t in (STR, BRIEF))
        if p and r < 0.6:
            return p[0]
        if r < 0.7:
            q = self.pick(ctx, lambda t: t == ("list", STR))
            if q:
                return ("idx", q[0], ("const", 0))
        if r < 0.8 and p:
            return ("fstr", [self.rng.choice(["", "a", "é"]), p[0], self.rng.choice(["", "b"])])
        return ("const", self.rng.choice(["", "a", "ab", "Hello", "it's", 'q"', "é"]))

    def gen_atom_bool(self, ctx, d):
        r = self.rng.random()
        if r < 0.25:
            return ("cmp", self.rng.choice(["<", "<=", ">", ">=", "==", "!="]),
                    self.gen_int(ctx, d - 1), self.gen_int(ctx, d - 1))
        if r < 0.35:
            return ("cmp", self.rng.choice(["==", "!=", "<", ">="]), self.gen_str(ctx, d - 1),
                    self.gen_str(ctx, d - 1))
        if r < 0.42:
            p = self.pick(ctx, lambda t: t == FLOAT)
            if p:
                return ("cmp", self.rng.choice(["<", ">="]), p[0],
                        ("const", self.rng.choice([0.0, 1.5, 2.25, 0.125])))
        if r < 0.5:
            p = self.pick(ctx, lambda t: t == COLOR)
            if p:
                return ("cmp", self.rng.choice(["==", "!="]), p[0],
                        ("member", ("name", "Color"), self.rng.choice(["Red", "Green", "Blue"])))
        if r < 0.56:
            p = self.pick(ctx, lambda t: t == BOOL)
            if p:
                return p[0]
        if r < 0.64:
            f = self.rng.choice(["is_ok", "opt_ok", "both_pos"])
            if f == "is_ok":
                return ("call", f, [self.gen_str(ctx, d - 1)])
            if f == "opt_ok":
                p = self.pick(ctx, lambda t: t == ("opt", STR))
                return ("call", f, [p[0] if p else self.gen_str(ctx, d - 1)])
            return ("call", f, [self.gen_int(ctx, d - 1), self.gen_int(ctx, d - 1)])
        if r < 0.70:
            return ("in", self.gen_str(ctx, d - 1), ("name", "Valid_names"))
        if r < 0.76:
            p = self.pick(ctx, lambda t: t[0] == "opt")
            if p:
                return (self.rng.choice(["isnone", "isnotnone"]), p[0])
        if r < 0.82:
            p = self.pick(ctx, lambda t: t == ("list", INT) or t == ("list", STR))
            if p:
                m = self.gen_int(ctx, 0) if p[1][1] == INT else self.gen_str(ctx, 0)
                return ("in", m, p[0])
        if r < 0.88:
            s = self.gen_str(ctx, 0)
            return ("and", [("isnotnone", ("call", "perhaps", [s])),
                            ("cmp", ">", ("call", "len", [("call", "perhaps", [s])]), ("const", 0))])
        if r < 0.92:
            p = self.pick(ctx, lambda t: t == BYTES)
            if p:
                return ("cmp", "==", p[0], p[0])
        return ("cmp", "==", self.gen_int(ctx, 0), self.gen_int(ctx, 0))

    def narrowed(self, ctx, e):
        return {"vars": ctx["vars"], "narrowed": ctx["narrowed"] | {src(e)}}

    def gen_bool(self, ctx, d):
        if d <= 0:
            return self.gen_atom_bool(ctx, 0)
        r = self.rng.random()
        if r < 0.30:
            # a None-guard pattern around a use
            p = self.pick(ctx, lambda t: t[0] == "opt")
            if p:
                inner = self.gen_use(self.narrowed(ctx, p[0]), p[0], p[1][1], d - 1)
                form = self.rng.random()
                if form < 0.35:
                    return ("impl", ("isnotnone", p[0]), inner)
                if form < 0.5:
                    other = self.gen_atom_bool(ctx, 0)
                    return ("impl", ("and", [other, ("isnotnone", p[0])]), inner)
                if form < 0.75:
                    return ("or", [("isnone", p[0]), inner] +
                            ([self.gen_bool(self.narrowed(ctx, p[0]), d - 1)]
                             if self.rng.random() < 0.3 else []))
                return ("and", [("isnotnone", p[0]), inner] +
                        ([self.gen_bool(self.narrowed(ctx, p[0]), d - 1)]
                         if self.rng.random() < 0.3 else []))
        if r < 0.42:
            n = self.rng.choice([2, 2, 3])
            return (self.rng.choice(["and", "or"]), [self.gen_bool(ctx, d - 1) for _ in range(n)])
        if r < 0.50:
            return ("impl", self.gen_bool(ctx, d - 1), self.gen_bool(ctx, d - 1))
        if r < 0.56:
            return ("not", self.gen_bool(ctx, d - 1))
        if r < 0.75:
            p = self.pick(ctx, lambda t: t[0] == "list")
            if p:
                x = self.fresh()
                it = p[1][1]
                if self.rng.random() < 0.7:
                    c2 = {"vars": ctx["vars"] + [(("name", x), it)], "narrowed": ctx["narrowed"]}
                    cond = self.gen_use(c2, ("name", x), it, d - 1)
                    return (self.rng.choice(["all", "any"]), x, ("each", p[0]), cond)
                c2 = {"vars": ctx["vars"] + [(("name", x), INT)], "narrowed": ctx["narrowed"]}
                elem = ("idx", p[0], ("name", x))
                c3 = {"vars": c2["vars"] + [(elem, it)], "narrowed": c2["narrowed"]}
                cond = self.gen_use(c3, elem, it, d - 1)
                return (self.rng.choice(["all", "any"]), x,
                        ("range", ("const", 0), ("call", "len", [p[0]])), cond)
        return self.gen_atom_bool(ctx, d)

    def gen_use(self, ctx, e, t, d):
        """A boolean that uses the expression e of type t."""
        if t == INT:
            return ("cmp", self.rng.choice(["<", ">", "==", ">="]), e, self.gen_int(ctx, d - 1))
        if t in (STR, BRIEF):
            return self.rng.choice([
                ("cmp", ">", ("call", "len", [e]), ("const", 0)),
                ("call", "is_ok", [e]),
                ("cmp", "!=", e, ("const", "a")),
                ("in", e, ("name", "Valid_names"))])
        if t == FLOAT:
            return ("cmp", ">", e, ("const", 0.5))
        if t == BOOL:
            return e
        if t == BYTES:
            return ("cmp", ">=", ("call", "len", [e]), ("const", 1))
        if t == COLOR:
            return ("cmp", "==", e, ("member", ("name", "Color"), "Green"))
        if t[0] == "list":
            if self.rng.random() < 0.5 or d <= 0:
                return ("cmp", ">=", ("call", "len", [e]), ("const", 1))
            x = self.fresh()
            c2 = {"vars": ctx["vars"] + [(("name", x), t[1])], "narrowed": ctx["narrowed"]}
            return (self.rng.choice(["all", "any"]), x, ("each", e),
                    self.gen_use(c2, ("name", x), t[1], d - 1))
        if t[0] == "class":
            c2 = {"vars": [(e, t)] + ctx["vars"], "narrowed": ctx["narrowed"]}
            props = self.mm.classes[t[1]]["props"]
            p, pt = self.rng.choice(props)
            if pt[0] == "opt":
                m = ("member", e, p)
                return ("or", [("isnone", m), self.gen_use(self.narrowed(c2, m), m, pt[1], d - 1)])
            return self.gen_use(c2, ("member", e, p), pt, d - 1)
        if t[0] == "opt":
            return ("isnone", e)
        raise ValueError(t)

    def invariant(self):
        ctx = {"vars": [(SELF, ("class", self.cls))], "narrowed": set()}
        return self.gen_bool(ctx, self.rng.choice([1, 2, 2, 3]))

    def function_body(self, params):
        ctx = {"vars": [(("name", n), t) for n, t in params], "narrowed": set()}
        return self.gen_bool(ctx, self.rng.choice([1, 2, 2, 3]))

    def function_stmts(self, params):
        """Assignments to locals (some re-assigned with values of the same / Optional /
        non-Optional / different type, some overwriting a parameter), then a return that uses
        the locals. Returns (("body", statements), kind)."""
        rng = self.rng
        vars_ = [(("name", n), t) for n, t in params]
        stmts = []
        kind = "stmts"
        n_loc = rng.choice([1, 1, 2, 3])
        for k in range(n_loc):
            ctx = {"vars": vars_, "narrowed": set()}
            cands = [(e, t) for e, t in self.paths(ctx) if t[0] != "enumtype"]
            if not cands:
                break
            e, t = rng.choice(cands)
            r = rng.random()
            if r < 0.15:
                e, t = ("call", "len", [self.gen_str(ctx, 0)]), ("prim", "length")
            elif r < 0.25:
                e, t = self.gen_str(ctx, 1), STR
            name = f"loc{k + 1}"
            stmts.append(("assign", name, e))
            vars_ = vars_ + [(("name", name), t)]
            if rng.random() < 0.55:
                # re-assignment; the recorded type stays the one of the first assignment
                ctx = {"vars": vars_, "narrowed": set()}
                base = t[1] if t[0] == "opt" else t
                want = rng.choice(["same", "opt", "nonopt", "other", "other"])
                def ok(u):
                    if want == "same":
                        return u == t
                    if want == "opt":
                        return u == ("opt", base)
                    if want == "nonopt":
                        return u == base or (base == STR and u == BRIEF)
                    return True
                c2 = [(e2, u) for e2, u in self.paths(ctx) if ok(u) and e2 != ("name", name)]
                if c2:
                    e2, u = rng.choice(c2)
                    stmts.append(("assign", name, e2))
                    kind = "stmts-reassign"
            if rng.random() < 0.12 and params:
                pn, pt = rng.choice(params)
                ctx = {"vars": vars_, "narrowed": set()}
                c3 = [(e2, u) for e2, u in self.paths(ctx)]
                e2, u = rng.choice(c3)
                stmts.append(("assign", pn, e2))
                kind = "stmts-reassign"
        ctx = {"vars": vars_, "narrowed": set()}
        # prefer uses of the locals
        locs = [(v, t) for v, t in vars_ if v[1].startswith("loc")]
        if locs and rng.random() < 0.7:
            v, t = rng.choice(locs)
            if t[0] == "opt":
                if rng.random() < 0.7:
                    ret = ("or", [("isnone", v), self.gen_use(self.narrowed(ctx, v), v, t[1], 1)])
                else:
                    ret = self.gen_use(self.narrowed(ctx, v), v, t[1], 1)   # unguarded
            elif t == ("prim", "length"):
                ret = ("cmp", ">", v, ("const", 0))
            else:
                ret = self.gen_use(ctx, v, t, 1)
            if rng.random() < 0.4:
                ret = ("and", [ret, self.gen_bool(ctx, 1)])
        else:
            ret = self.gen_bool(ctx, 2)
        stmts.append(("return", ret))
        return ("body", stmts), kind

    def random_params(self):
        rng = self.rng
        item, items = ("class", "Item"), ("list", ("class", "Item"))
        pool = [("item", item), ("items", items), ("opt_item", ("opt", item)),
                ("other", item), ("n", INT), ("text", STR), ("opt_n", ("opt", INT)),
                ("opt_text", ("opt", STR)), ("numbers", ("list", INT)),
                ("texts", ("list", STR)), ("holder", ("class", "Holder"))]
        k = rng.choice([1, 2, 2, 3, 3])
        ps = rng.sample(pool, k)
        if rng.random() < 0.5:
            ps = [p for p in ps if p[0] not in ("item", "items")] + [("item", item), ("items", items)]
        return ps

    def narrow_then_shadow(self, vars_):
        """``v.m is None or all(v.m > 0 for v in <list of objects with member m>)``: a member of
        the outer name ``v`` is narrowed and ``v`` is re-bound inside the narrowed scope.
        Must be rejected: "has been already defined before"."""
        rng = self.rng
        ctx = {"vars": vars_, "narrowed": set()}
        cands = []
        lists = [(e, t) for e, t in self.paths(ctx) if t[0] == "list" and t[1][0] == "class"]
        for v, vt in vars_:
            if v[0] != "name" or vt[0] != "class":
                continue
            for m, mt in self.mm.classes[vt[1]]["props"]:
                if mt[0] != "opt" or mt[1] not in (INT, STR):
                    continue
                for le, lt in lists:
                    elem_props = dict(self.mm.classes[lt[1][1]]["props"])
                    if elem_props.get(m) == mt:
                        cands.append((v, m, mt, le))
        if not cands:
            return None
        v, m, mt, le = rng.choice(cands)
        mem = ("member", v, m)
        use = (("cmp", rng.choice([">", "<", ">="]), mem, ("const", 0)) if mt[1] == INT
               else ("cmp", ">", ("call", "len", [mem]), ("const", 0)))
        q = (rng.choice(["all", "any"]), v[1], ("each", le), use)
        form = rng.random()
        if form < 0.4:
            return ("or", [("isnone", mem), q])
        if form < 0.7:
            return ("and", [("isnotnone", mem), q])
        return ("impl", ("isnotnone", mem), q)


# ----------------------------------------------------------------------------- mutations
def subterms(e, path=()):
    yield path, e
    k = e[0]
    if k == "raw":
        return
    if k in ("member", "isnone", "isnotnone", "not"):
        yield from subterms(e[1], path + (1,))
    elif k in ("idx", "in", "impl", "add", "sub"):
        yield from subterms(e[1], path + (1,))
        yield from subterms(e[2], path + (2,))
    elif k == "cmp":
        yield from subterms(e[2], path + (2,))
        yield from subterms(e[3], path + (3,))
    elif k in ("and", "or"):
        for i, v in enumerate(e[1]):
            yield from subterms(v, path + (1, i))
    elif k == "call":
        for i, v in enumerate(e[2]):
            yield from subterms(v, path + (2, i))
    elif k == "mcall":
        yield from subterms(e[1], path + (1,))
        for i, v in enumerate(e[3]):
            yield from subterms(v, path + (3, i))
    elif k in ("any", "all"):
        g = e[2]
        yield from subterms(g[1], path + (2, 1))
        if g[0] == "range":
            yield from subterms(g[2], path + (2, 2))
        yield from subterms(e[3], path + (3,))
    elif k == "fstr":
        for i, p in enumerate(e[1]):
            if not isinstance(p, str):
                yield from subterms(p, path + (1, i))


def replace_at(e, path, new):
    if not path:
        return new
    i = path[0]
    lst = list(e)
    if isinstance(lst[i], (list, tuple)) and len(path) > 1 and not isinstance(lst[i][0], str):
        inner = list(lst[i])
        inner[path[1]] = replace_at(inner[path[1]], path[2:], new)
        lst[i] = inner
    elif isinstance(lst[i], tuple) and lst[i] and lst[i][0] in ("each", "range"):
        g = list(lst[i])
        g[path[1]] = replace_at(g[path[1]], path[2:], new)
        lst[i] = tuple(g)
    else:
        lst[i] = replace_at(lst[i], path[1:], new)
    return tuple(lst)


def rename(e, old: str, new: str):
    """Rename the free occurrences of the name ``old`` (spec level)."""
    if isinstance(e, tuple):
        if e and e[0] == "name":
            return ("name", new) if e[1] == old else e
        if e and e[0] in ("any", "all") and e[1] == old:
            g = e[2]
            g2 = tuple([g[0]] + [rename(x, old, new) for x in g[1:]])
            return (e[0], e[1], g2, e[3])
        if e and e[0] in ("const", "raw"):
            return e
        return tuple(rename(x, old, new) for x in e)
    if isinstance(e, list):
        return [rename(x, old, new) for x in e]
    return e


def mutate(rng, mm: MetaModel, cls: str, e, outer_names=("self",)):
    """One typed mutation; returns (kind, mutant) or None."""
    subs_ = list(subterms(e))
    kinds = ["drop_guard", "swap_operands", "wrong_branch", "wrong_member", "swap_cmp",
             "len_arg", "shadow", "flip_none", "call_arg", "mirror", "drop_guard", "mirror",
             "shadow"]
    rng.shuffle(kinds)
    all_props = sorted({p for d in mm.classes.values() for p, _ in d["props"]})
    for kind in kinds:
        cands = []
        for path, t in subs_:
            k = t[0]
            if kind == "drop_guard":
                if k == "impl" and t[1][0] == "isnotnone":
                    cands.append((path, t[2]))
                elif k == "impl" and t[1][0] == "and":
                    vs = [v for v in t[1][1] if v[0] != "isnotnone"]
                    if len(vs) < len(t[1][1]) and vs:
                        cands.append((path, ("impl", vs[0] if len(vs) == 1 else ("and", vs), t[2])))
                elif k == "and" and any(v[0] == "isnotnone" for v in t[1]):
                    vs = [v for v in t[1] if v[0] != "isnotnone"]
                    if vs:
                        cands.append((path, vs[0] if len(vs) == 1 else ("and", vs)))
                elif k == "or" and any(v[0] == "isnone" for v in t[1]):
                    vs = [v for v in t[1] if v[0] != "isnone"]
                    if vs:
                        cands.append((path, vs[0] if len(vs) == 1 else ("or", vs)))
            elif kind == "swap_operands":
                if k in ("and", "or") and len(t[1]) >= 2:
                    vs = list(t[1])
                    i = rng.randrange(len(vs) - 1)
                    vs[i], vs[i + 1] = vs[i + 1], vs[i]
                    cands.append((path, (k, vs)))
                elif k == "impl":
                    cands.append((path, ("impl", t[2], t[1])))
            elif kind == "wrong_branch":
                if k == "and" and any(v[0] == "isnotnone" for v in t[1]):
                    cands.append((path, ("or", t[1])))
                elif k == "or" and any(v[0] == "isnone" for v in t[1]):
                    cands.append((path, ("and", t[1])))
                elif k == "impl" and t[1][0] == "isnotnone":
                    cands.append((path, ("or", [t[1], t[2]])))
                    cands.append((path, ("impl", ("not", t[1]), t[2])))
                    cands.append((path, ("impl", ("or", [t[1], ("const", False)]), t[2])))
            elif kind == "flip_none":
                if k == "isnone":
                    cands.append((path, ("isnotnone", t[1])))
                elif k == "isnotnone":
                    cands.append((path, ("isnone", t[1])))
            elif kind == "wrong_member":
                if k == "member" and t[1][0] != "name" or (k == "member" and t[1] == SELF):
                    cands.append((path, ("member", t[1], rng.choice(all_props))))
            elif kind == "swap_cmp":
                if k == "cmp":
                    other = rng.choice([x for _, x in subs_ if x[0] in ("member", "const", "call")]
                                       or [("const", "z")])
                    if rng.random() < 0.5:
                        cands.append((path, ("cmp", t[1], other, t[3])))
                    else:
                        cands.append((path, ("cmp", rng.choice(["<", ">="]), t[2], other)))
            elif kind == "mirror":
                # dropped guard with the Optional operand on the other side
                if k == "cmp":
                    flip = {"<": ">", ">": "<", "<=": ">=", ">=": "<=", "==": "==", "!=": "!="}
                    opts = [x for _, x in subs_ if x[0] in ("isnone", "isnotnone")]
                    if opts:
                        cands.append((path, ("cmp", flip[t[1]], t[3], rng.choice(opts)[1])))
                    else:
                        cands.append((path, ("cmp", flip[t[1]], t[3], t[2])))
            elif kind == "len_arg":
                if k == "call" and t[1] == "len":
                    other = rng.choice([x for _, x in subs_ if x[0] == "member"] or [("const", 1)])
                    cands.append((path, ("call", "len", [other])))
            elif kind == "call_arg":
                if k == "call" and t[1] != "len" and t[2]:
                    other = rng.choice([x for _, x in subs_ if x[0] == "member"] or [("const", 1)])
                    args = list(t[2])
                    args[rng.randrange(len(args))] = other
                    cands.append((path, ("call", t[1], args)))
                elif k == "mcall":
                    other = rng.choice([x for _, x in subs_ if x[0] == "member"] or [("const", 1)])
                    cands.append((path, ("mcall", t[1], t[2], [other])))
            elif kind == "shadow":
                if k in ("any", "all"):
                    # The loop variable is renamed consistently (binding and uses) to a name
                    # of an outer scope: an argument / `self` / a global. NOTE: re-using the
                    # name of an *enclosing loop* crashes _translate (KeyError in the variable
                    # tracking of the `re` check; reported under C01), so that is not done.
                    new = rng.choice(list(outer_names) + ["len", "Color", "is_ok", "Valid_names"])
                    cands.append((path, (k, new, t[2], rename(t[3], t[1], new))))
        if cands:
            path, new = rng.choice(cands)
            return kind, replace_at(e, path, new)
    return None


# ----------------------------------------------------------------------------- instances
class InstanceGen:
    def __init__(self, rng, mm: MetaModel):
        self.rng = rng
        self.mm = mm
        self.oid = 0

    def value(self, t, mode, depth=0):
        rng = self.rng
        k = t[0]
        if k == "opt":
            p_none = {"none": 1.0, "some": 0.0}.get(mode, 0.4)
            if rng.random() < p_none:
                return {"k": "none"}
            return self.value(t[1], mode, depth)
        if k == "list":
            n = {"empty": 0}.get(mode, rng.choice([0, 1, 2, 3]))
            if mode == "some" and n == 0:
                n = 2
            return {"k": "list", "v": [self.value(t[1], mode, depth + 1) for _ in range(n)]}
        if k == "prim":
            p = t[1]
            if p == "int":
                return {"k": "int", "v": rng.choice([-2, -1, 0, 1, 2, 3, 4, 7, 100])}
            if p == "str":
                return {"k": "str", "v": rng.choice(["", "a", "ab", "abc", "é", "Hello", "b"])}
            if p == "float":
                return {"k": "float", "q": rng.choice([-12, 0, 1, 4, 5, 12, 18, 80])}
            if p == "bool":
                return {"k": "bool", "v": rng.random() < 0.5}
            if p == "bytearray":
                return {"k": "bytes", "v": rng.choice([[], [0], [97, 98], [255, 1, 2]])}
        if k == "cons":
            return {"k": "str", "v": rng.choice(["", "a", "ab", "Hello"])}
        if k == "enum":
            return {"k": "enum", "e": "Color", "lit": rng.choice(["Red", "Green", "Blue"])}
        if k == "class":
            cls = t[1]
            sub = self.mm.descendants(cls)
            if sub and rng.random() < 0.35:
                cls = rng.choice(sub)
            return self.obj(cls, mode, depth + 1)
        raise ValueError(t)

    def obj(self, cls, mode, depth=0):
        self.oid += 1
        oid = self.oid
        fields = [[p, self.value(t, mode, depth)] for p, t in self.mm.classes[cls]["props"]]
        return {"k": "obj", "cls": cls, "oid": oid, "fields": fields}

    def instances(self, cls, n):
        modes = ["none", "some", "empty"] + ["mixed"] * max(0, n - 3)
        return [self.obj(cls, m) for m in modes[:n]]

    def arg_tuples(self, params, n):
        modes = ["none", "some", "empty"] + ["mixed"] * max(0, n - 3)
        return [[self.value(t, m) for _, t in params] for m in modes[:n]]


# ----------------------------------------------------------------------------- Coq runner
def run_units(workdir, name: str, units, timeout: int = 900, ncpu: int = 12):
    """Compile one Coq file per unit in parallel. ``units`` = list of file texts, each ending
    in a fixed number of ``Eval vm_compute in (... : list nat)``. Returns per unit the list of
    index lists in order of the Evals."""
    import pathlib
    import re
    import subprocess
    from harness import lib

    workdir = pathlib.Path(workdir)
    workdir.mkdir(parents=True, exist_ok=True)
    for old in workdir.glob(f"{name}_*.v"):
        old.unlink()
    paths = []
    for k, text in enumerate(units):
        p = workdir / f"{name}_{k}.v"
        p.write_text(text)
        paths.append(p)
    out: List[Any] = [None] * len(units)
    pending = list(enumerate(paths))
    running = []
    while pending or running:
        while pending and len(running) < ncpu:
            k, p = pending.pop(0)
            pr = subprocess.Popen(
                ["timeout", str(timeout), "coqc", "-Q", str(lib.THEORIES), "Acg", p.name],
                cwd=workdir, stdout=subprocess.PIPE, stderr=subprocess.STDOUT, text=True)
            running.append((k, p, pr))
        k, p, pr = running.pop(0)
        text, _ = pr.communicate()
        if pr.returncode != 0:
            raise lib.HarnessError(f"cases file {p} did not compile:\n{text[-3000:]}")
        flat = " ".join(text.split())
        lists = re.findall(r"=\s*(\[[^\]]*\]|nil)\s*:\s*list nat", flat)
        out[k] = [[int(x) for x in re.findall(r"\d+", l)] for l in lists]
    for p in paths:
        for ext in (".vo", ".vok", ".vos", ".glob"):
            q = p.with_suffix(ext)
            if q.exists():
                q.unlink()
        aux = p.parent / ("." + p.stem + ".aux")
        if aux.exists():
            aux.unlink()
    return out


# ----------------------------------------------------------------------------- arity
ARITY_TEMPLATES = {
    "S": ["len({S}) > 0", "is_ok({S})", "({S}) in Valid_names", "({S}) == 'a'",
          "is_ok(echo({S}))", "len(echo({S})) > 0", "all(x.name != ({S}) for x in self.items)",
          "not self.b0 or len({S}) > 0", "self.b0 and is_ok({S})", "perhaps({S}) is None",
          "perhaps({S}) is None or len(perhaps({S})) > 0", "opt_ok({S})"],
    "I": ["({I}) > 0", "0 < ({I})", "both_pos({I}, 1)", "both_pos(1, {I})", "twice({I}) > 0",
          "self.li0[{I}] > 0", "any(i > 0 for i in range(0, {I}))",
          "self.item.compute({I}) > 0", "({I}) + 1 > 0", "len(self.s0) > ({I})",
          "all(x.weight is None or x.weight > ({I}) for x in self.items)",
          "twice(twice({I})) > 0"],
    "B": ["{B}", "not ({B})", "self.b0 and ({B})", "({B}) or self.b0", "not self.b0 or ({B})",
          "not ({B}) or self.b0", "all(({B}) for x in self.items)",
          "any(self.b0 and ({B}) for i in range(0, 2))", "({B}) == True",
          "self.oi0 is None or ({B})", "not (self.oi0 is not None) or ({B})"],
}
ARITY_OK = {"S": ["echo(self.s0)", "self.s0"], "I": ["twice(self.i0)", "self.item.compute(1)"],
            "B": ["is_ok(self.s0)", "both_pos(self.i0, 1)", "opt_ok(self.os0)"]}
ARITY_BAD = {"S": ["echo(self.s0, self.s0)", "echo()"],
             "I": ["twice(self.i0, 1)", "twice()", "self.item.compute()",
                   "self.item.compute(1, 2)", "len(self.s0, self.s0)", "len()"],
             "B": ["is_ok()", "is_ok(self.s0, self.s0)", "both_pos(self.i0)",
                   "both_pos(1, 2, 3)", "opt_ok()", "opt_ok(self.os0, self.os0)"]}
# the type of the expression a template yields (all are bool) lets templates nest:
# a B-template may be filled with another template


def arity_invariant(rng, bad: bool, depth: int = None) -> str:
    """A template nest with one call in the innermost hole; wrong arity iff ``bad``."""
    if depth is None:
        depth = rng.choice([1, 1, 2, 3])
    import re

    def level(template: str, lvl: int) -> str:
        # loop variables are unique per nesting level (re-using the name of an enclosing loop
        # crashes _translate, see docs/C07.md)
        template = re.sub(r"\bx\b", f"x{lvl}", template)
        return re.sub(r"\bi\b", f"i{lvl}", template)

    hole = rng.choice(["S", "I", "B"])
    inner = rng.choice((ARITY_BAD if bad else ARITY_OK)[hole])
    text = level(rng.choice(ARITY_TEMPLATES[hole]), 0).replace("{" + hole + "}", inner)
    for lvl in range(1, depth):
        text = level(rng.choice(ARITY_TEMPLATES["B"]), lvl).replace("{B}", text)
    return text
